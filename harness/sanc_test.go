package harness

// Model "sanc" (C06): sanction module driven by the REAL gov keeper (msg server, EndBlocker,
// MsgCancelProposal), the real sanction keeper (hooks, msg server, send restriction) and the
// real bank / staking msg servers, on one app.App per process and one cached context per
// history.  After every operation `q` dumps IsSanctionedAddr per address, the sanction store
// (permanent, temporary, index), the gov proposals with their total deposit (every denom), the
// two immediate min-deposit params and the balances.  A history accepts 1-3 deposit denoms; the
// immediate thresholds have 0-4 denoms and deposits move every denom below / to / above its
// part of a threshold independently.

import (
	"bytes"
	"encoding/hex"
	"errors"
	"fmt"
	"sort"
	"strings"
	"sync"
	"testing"
	"time"

	"cosmossdk.io/collections"
	sdkmath "cosmossdk.io/math"

	sdk "github.com/cosmos/cosmos-sdk/types"
	sdkerrors "github.com/cosmos/cosmos-sdk/types/errors"
	authtypes "github.com/cosmos/cosmos-sdk/x/auth/types"
	"github.com/cosmos/cosmos-sdk/x/authz"
	codectypes "github.com/cosmos/cosmos-sdk/codec/types"
	bankkeeper "github.com/cosmos/cosmos-sdk/x/bank/keeper"
	banktypes "github.com/cosmos/cosmos-sdk/x/bank/types"
	"github.com/cosmos/cosmos-sdk/x/gov"
	govkeeper "github.com/cosmos/cosmos-sdk/x/gov/keeper"
	govtypes "github.com/cosmos/cosmos-sdk/x/gov/types"
	govv1 "github.com/cosmos/cosmos-sdk/x/gov/types/v1"
	minttypes "github.com/cosmos/cosmos-sdk/x/mint/types"
	stakingkeeper "github.com/cosmos/cosmos-sdk/x/staking/keeper"
	stakingtypes "github.com/cosmos/cosmos-sdk/x/staking/types"

	"github.com/provenance-io/provenance/app"
	"github.com/provenance-io/provenance/x/exchange"
	exchangekeeper "github.com/provenance-io/provenance/x/exchange/keeper"
	markerkeeper "github.com/provenance-io/provenance/x/marker/keeper"
	markertypes "github.com/provenance-io/provenance/x/marker/types"
	"github.com/provenance-io/provenance/x/quarantine"
	"github.com/provenance-io/provenance/x/sanction"
	sanctionkeeper "github.com/provenance-io/provenance/x/sanction/keeper"
	sanctionerrors "github.com/provenance-io/provenance/x/sanction/errors"
)

func init() {
	drivers["sanc"] = driveSanc
	replayers["sanc"] = replaySanc
}

var (
	sancAppOnce sync.Once
	sancApp     *app.App
	sancBase    sdk.Context
	sancAddrs   map[string]sdk.AccAddress
	sancNames   map[string]string // string(addr bytes) -> name
	sancValAddr string
	sancAdm     sdk.AccAddress
	sancT0      = time.Unix(1_700_000_000, 0).UTC()
)

var sancOrder = []string{"A", "B", "C", "D", "V", "GOV", "BOND", "FEE", "QUAR"}

// the accounts of the restricted markers a history may create (by denom) and of the exchange market
var sancMarkerAcct = map[string]string{"rcoin": "RC", "scoin": "SC"}

const sancMarketID = 1

// sancMarker is one restricted marker of a history: who holds which access.
type sancMarker struct {
	denom, acct                    string
	force                          bool
	xfer, forcers, withdraw, depos []string
}

func (m sancMarker) String() string {
	f := "0"
	if m.force {
		f = "1"
	}
	return strings.Join([]string{m.denom, m.acct, f, JoinOr(m.xfer, "+"), JoinOr(m.forcers, "+"), JoinOr(m.withdraw, "+"), JoinOr(m.depos, "+")}, "/")
}

func sancParseMarkers(v string) ([]sancMarker, bool) {
	var out []sancMarker
	for _, x := range sancList(v, ";") {
		f := strings.Split(x, "/")
		if len(f) != 7 || sancMarkerAcct[f[0]] != f[1] {
			return nil, false
		}
		out = append(out, sancMarker{denom: f[0], acct: f[1], force: f[2] == "1", xfer: sancList(f[3], "+"), forcers: sancList(f[4], "+"),
			withdraw: sancList(f[5], "+"), depos: sancList(f[6], "+")})
	}
	return out, true
}
var sancUnsanc = []string{"GOV", "BOND", "FEE", "QUAR"}
var sancUsers = []string{"A", "B", "C", "D"}

const sancBond = "stake"

// sancAmts is one amount per denom (a gov deposit parameter or an immediate threshold).
type sancAmts map[string]int64

func (a sancAmts) denoms() []string {
	var ds []string
	for d := range a {
		ds = append(ds, d)
	}
	sort.Strings(ds)
	return ds
}

func (a sancAmts) coins() sdk.Coins {
	cs := sdk.Coins{}
	for _, d := range a.denoms() {
		if a[d] > 0 {
			cs = cs.Add(sdk.NewInt64Coin(d, a[d]))
		}
	}
	return cs
}

func (a sancAmts) String() string { return sancCoinsStr(a.coins()) }

func (a sancAmts) scaled(num, den int64) sancAmts {
	o := sancAmts{}
	for d, x := range a {
		o[d] = x * num / den
	}
	return o
}

func sancAmtsOf(cs sdk.Coins) sancAmts {
	o := sancAmts{}
	for _, c := range cs {
		o[c.Denom] = c.Amount.Int64()
	}
	return o
}

type sancCfg struct {
	cancel              string // n/d
	burnQ, burnV, burnP bool
	minDep, expMinDep   sancAmts // gov MinDeposit / ExpeditedMinDeposit (the accepted deposit denoms)
	depP, votP, expVotP int64
	initRatio, depRatio string
	initMin, initMinExp sancAmts // min deposit x MinInitialDepositRatio (0.1)
	depMin, depMinExp   sancAmts // min deposit x MinDepositRatio (0.01)
}

// the regular min deposit per denom of the deposit denoms a history may accept (all multiples
// of 100, so that the ratios 0.1 and 0.01 are exact); the expedited one is twice that.
var sancDenomMin = map[string]int64{sancBond: 1000, "acoin": 400, "xcoin": 3000}

func sancCfgFor(denoms []string) sancCfg {
	min := sancAmts{}
	for _, d := range denoms {
		min[d] = sancDenomMin[d]
	}
	return sancCfgOfMin(min, min.scaled(2, 1))
}

func sancCfgOfMin(min, exp sancAmts) sancCfg {
	return sancCfg{cancel: "1/2", burnV: true, minDep: min, expMinDep: exp, depP: 100, votP: 100, expVotP: 50,
		initRatio: "0.1", depRatio: "0.01", initMin: min.scaled(1, 10), initMinExp: exp.scaled(1, 10),
		depMin: min.scaled(1, 100), depMinExp: exp.scaled(1, 100)}
}

func sancDefaultCfg() sancCfg { return sancCfgFor([]string{sancBond}) }

// sancDepParam reads a deposit parameter of the cfg line: coins, or a bare number of the bond denom.
func sancDepParam(ws []string, k string) (sancAmts, bool) {
	v := sancKV(ws, k, "")
	if v == "" {
		return nil, false
	}
	allDigits := true
	for _, ch := range v {
		if ch < '0' || ch > '9' {
			allDigits = false
		}
	}
	if allDigits {
		v += sancBond
	}
	cs, ok := sancCoins(v)
	if !ok || len(cs) == 0 {
		return nil, false
	}
	return sancAmtsOf(cs), true
}

func sancCancelDec(r string) string {
	switch r {
	case "0/1":
		return "0"
	case "1/4":
		return "0.25"
	case "1/2":
		return "0.5"
	case "1/1":
		return "1"
	}
	return "0.5"
}

func sancSetup(t *testing.T) {
	sancAppOnce.Do(func() {
		a, ctx := NewApp(t)
		ctx = ctx.WithBlockTime(sancT0)
		sancAddrs = map[string]sdk.AccAddress{}
		sancNames = map[string]string{}
		for _, n := range sancUsers {
			addr := sdk.AccAddress([]byte("verif-sanc-user-" + n + "___"))
			acc := a.AccountKeeper.NewAccountWithAddress(ctx, addr)
			_ = acc.SetSequence(1)
			a.AccountKeeper.SetAccount(ctx, acc)
			sancAddrs[n] = addr
		}
		dels, err := a.StakingKeeper.GetAllDelegations(ctx)
		if err != nil || len(dels) == 0 {
			t.Fatalf("no genesis delegation: %v", err)
		}
		sancAddrs["V"] = sdk.MustAccAddressFromBech32(dels[0].DelegatorAddress)
		sancValAddr = dels[0].ValidatorAddress
		sancAddrs["GOV"] = authtypes.NewModuleAddress(govtypes.ModuleName)
		sancAddrs["BOND"] = authtypes.NewModuleAddress(stakingtypes.BondedPoolName)
		sancAddrs["FEE"] = authtypes.NewModuleAddress(authtypes.FeeCollectorName)
		sancAddrs["QUAR"] = authtypes.NewModuleAddress(quarantine.ModuleName)
		for d, n := range sancMarkerAcct {
			sancAddrs[n] = markertypes.MustGetMarkerAddress(d)
		}
		sancAddrs["MKT"] = exchange.GetMarketAddress(sancMarketID)
		// the manager of the markers and admin of the market: not an account of the histories
		sancAdm = sdk.AccAddress([]byte("verif-sanc-admin____"))
		admAcc := a.AccountKeeper.NewAccountWithAddress(ctx, sancAdm)
		_ = admAcc.SetSequence(1)
		a.AccountKeeper.SetAccount(ctx, admAcc)
		if _, err := a.ExchangeKeeper.CreateMarket(ctx, exchange.Market{MarketId: sancMarketID,
			MarketDetails: exchange.MarketDetails{Name: "verif sanc market"}, AcceptingOrders: true,
			AccessGrants: []exchange.AccessGrant{{Address: sancAdm.String(), Permissions: exchange.AllPermissions()},
				{Address: sancAddrs["A"].String(), Permissions: []exchange.Permission{exchange.Permission_withdraw}},
				{Address: sancAddrs["C"].String(), Permissions: exchange.AllPermissions()}}}); err != nil {
			t.Fatalf("create market: %v", err)
		}
		// every named account exists from the start (canForceTransferFrom looks at the account)
		for _, n := range []string{"GOV", "BOND", "FEE", "QUAR"} {
			if a.AccountKeeper.GetAccount(ctx, sancAddrs[n]) == nil {
				a.AccountKeeper.SetAccount(ctx, a.AccountKeeper.NewAccountWithAddress(ctx, sancAddrs[n]))
			}
		}
		for n, ad := range sancAddrs {
			sancNames[string(ad)] = n
		}
		sancApp, sancBase = a, ctx
	})
}

// sancEnv is one history: a cached context on the shared app.
type sancEnv struct {
	t   *testing.T
	a   *app.App
	ctx sdk.Context
	now int64
	cfg sancCfg
	names   []string // the accounts the dump reports on (cfg names=)
	markers []sancMarker
}

func newSancEnv(t *testing.T) *sancEnv {
	sancSetup(t)
	ctx, _ := sancBase.CacheContext()
	return &sancEnv{t: t, a: sancApp, ctx: ctx.WithBlockTime(sancT0).WithBlockHeight(10), names: sancOrder}
}

func (e *sancEnv) addr(name string) string {
	if name == "EMPTY" {
		return ""
	}
	if a, ok := sancAddrs[name]; ok {
		return a.String()
	}
	return name // unknown names are passed through (malformed address)
}

func (e *sancEnv) name(addr sdk.AccAddress) string {
	if n, ok := sancNames[string(addr)]; ok {
		return n
	}
	return "?" + addr.String()
}

// sancCoins parses `5stake,3xcoin` into raw sdk.Coins (kept as written, sorted by denom, so
// that invalid amounts such as zero reach the real validation).
func sancCoins(s string) (sdk.Coins, bool) {
	if s == "-" || s == "" {
		return sdk.Coins{}, true
	}
	var cs sdk.Coins
	for _, p := range strings.Split(s, ",") {
		i := 0
		for i < len(p) && (p[i] >= '0' && p[i] <= '9') {
			i++
		}
		if i == 0 || i == len(p) {
			return nil, false
		}
		amt, ok := sdkmath.NewIntFromString(p[:i])
		if !ok {
			return nil, false
		}
		cs = append(cs, sdk.Coin{Denom: p[i:], Amount: amt})
	}
	return cs, true
}

// sancCoinsStr renders coins in denom order (the model prints canonical coins that way).
func sancCoinsStr(cs sdk.Coins) string {
	if len(cs) == 0 {
		return "-"
	}
	c2 := make(sdk.Coins, len(cs))
	copy(c2, cs)
	sort.SliceStable(c2, func(i, j int) bool { return c2[i].Denom < c2[j].Denom })
	parts := make([]string, 0, len(c2))
	for _, c := range c2 {
		parts = append(parts, c.Amount.String()+c.Denom)
	}
	return strings.Join(parts, ",")
}

func sancErrClass(err error) string {
	switch {
	case err == nil:
		return "ok"
	case errors.Is(err, sanctionerrors.ErrSanctionedAccount):
		return "err:sanctioned"
	case errors.Is(err, sdkerrors.ErrInsufficientFunds):
		return "err:funds"
	case errors.Is(err, govtypes.ErrInactiveProposal), errors.Is(err, govtypes.ErrInvalidProposal):
		return "err:inactive"
	case errors.Is(err, govtypes.ErrMinDepositTooSmall):
		return "err:mindep"
	case errors.Is(err, govtypes.ErrInvalidDepositDenom):
		return "err:denom"
	case errors.Is(err, govtypes.ErrInvalidProposer):
		return "err:proposer"
	case errors.Is(err, govtypes.ErrVotingPeriodEnded):
		return "err:ended"
	case errors.Is(err, govtypes.ErrInvalidSigner):
		return "err:signer"
	case errors.Is(err, collections.ErrNotFound):
		return "err:notfound"
	case errors.Is(err, sanctionerrors.ErrUnsanctionableAddr):
		return "err:unsanctionable"
	case errors.Is(err, govtypes.ErrInvalidProposalMsg), errors.Is(err, sdkerrors.ErrInvalidAddress),
		errors.Is(err, sdkerrors.ErrInvalidCoins), errors.Is(err, sanctionerrors.ErrInvalidParams),
		errors.Is(err, sdkerrors.ErrInvalidRequest), errors.Is(err, banktypes.ErrNoOutputs),
		errors.Is(err, banktypes.ErrNoInputs):
		return "err:invalid"
	}
	return "err:other"
}

// sancRouteErrClass classifies the errors of the marker / exchange endpoints: their msg servers
// flatten the error chain into text (ErrInvalidRequest.Wrap(err.Error())), so the bank's and the
// sanction module's errors are recognised by their registered messages.
func sancRouteErrClass(err error) string {
	if err == nil {
		return "ok"
	}
	msg := err.Error()
	switch {
	case errors.Is(err, sanctionerrors.ErrSanctionedAccount), strings.Contains(msg, sanctionerrors.ErrSanctionedAccount.Error()):
		return "err:sanctioned"
	case errors.Is(err, sdkerrors.ErrInsufficientFunds), strings.Contains(msg, sdkerrors.ErrInsufficientFunds.Error()),
		strings.Contains(msg, "is less than hold amount"):
		return "err:funds"
	case strings.Contains(msg, "is not allowed to receive funds"):
		return "err:blocked"
	case strings.Contains(msg, "has not been granted authority"):
		return "err:nogrant"
	case strings.Contains(msg, "funds are not allowed to be removed from"):
		return "err:noforce"
	case strings.Contains(msg, "marker not found for"):
		return "err:nomarker"
	case strings.Contains(msg, "does not have ACCESS_"), strings.Contains(msg, "does not have permission to"):
		return "err:perm"
	case errors.Is(err, authz.ErrGranteeIsGranter):
		return "err:invalid"
	}
	return sancErrClass(err)
}

func sancKV(ws []string, k, d string) string {
	if v := kvArg(ws, k); v != "" {
		return v
	}
	return d
}

func sancList(s string, sep string) []string {
	if s == "-" || s == "" {
		return nil
	}
	return strings.Split(s, sep)
}

// try runs f atomically (cached context written on success) and renders the outcome.
func (e *sancEnv) try(f func(ctx sdk.Context) (string, error)) string {
	return e.tryClass(sancErrClass, f)
}

// tryRoute is try for the marker / exchange endpoints.
func (e *sancEnv) tryRoute(f func(ctx sdk.Context) error) string {
	return e.tryClass(sancRouteErrClass, func(ctx sdk.Context) (string, error) { return "", f(ctx) })
}

func (e *sancEnv) tryClass(class func(error) string, f func(ctx sdk.Context) (string, error)) string {
	var okOut string
	err, pan := Try(e.ctx, func(ctx sdk.Context) error {
		o, err := f(ctx)
		okOut = o
		return err
	})
	if pan != "" {
		return "panic:" + pan
	}
	if err != nil {
		c := class(err)
		if c == "err:other" {
			e.t.Logf("unclassified error: %v", err)
		}
		return c
	}
	if okOut == "" {
		return "ok"
	}
	return okOut
}

func (e *sancEnv) anyMsgs(spec string) ([]sdk.Msg, bool) {
	gov := sancAddrs["GOV"].String()
	var msgs []sdk.Msg
	for _, m := range sancList(spec, ";") {
		parts := strings.SplitN(m, ":", 2)
		if len(parts) != 2 {
			return nil, false
		}
		auth := gov
		kind := parts[0]
		if strings.HasSuffix(kind, "!") {
			auth = sancAddrs["A"].String()
			kind = strings.TrimSuffix(kind, "!")
		}
		var addrs []string
		for _, n := range sancList(parts[1], "|") {
			addrs = append(addrs, e.addr(n))
		}
		switch kind {
		case "s":
			msgs = append(msgs, &sanction.MsgSanction{Authority: auth, Addresses: addrs})
		case "u":
			msgs = append(msgs, &sanction.MsgUnsanction{Authority: auth, Addresses: addrs})
		default:
			return nil, false
		}
	}
	return msgs, true
}

func (e *sancEnv) applyCfg(ws []string) string {
	c := sancDefaultCfg()
	if min, ok := sancDepParam(ws, "mindep"); ok {
		exp, ok2 := sancDepParam(ws, "expmindep")
		if !ok2 {
			return "err:setup"
		}
		c = sancCfgOfMin(min, exp)
		// the floors on the line must be what the fixed ratios give (the model takes them from the line)
		for k, want := range map[string]sancAmts{"initmin": c.initMin, "initminexp": c.initMinExp, "depmin": c.depMin, "depminexp": c.depMinExp} {
			if got, ok := sancDepParam(ws, k); !ok || got.String() != want.String() {
				e.t.Logf("cfg %s=%v, the ratios give %v", k, got, want)
				return "err:setup"
			}
		}
	}
	if ns := sancList(sancKV(ws, "names", "-"), "|"); len(ns) > 0 {
		for _, n := range ns {
			if _, ok := sancAddrs[n]; !ok {
				return "err:setup"
			}
		}
		e.names = ns
	}
	ms, ok := sancParseMarkers(sancKV(ws, "markers", "-"))
	if !ok {
		return "err:setup"
	}
	for _, m := range ms {
		if err := e.createMarker(m); err != nil {
			e.t.Logf("create marker %s: %v", m, err)
			return "err:setup"
		}
	}
	e.markers = ms
	c.cancel = sancKV(ws, "cancel", "1/2")
	c.burnQ = sancKV(ws, "burnq", "0") == "1"
	c.burnV = sancKV(ws, "burnv", "0") == "1"
	c.burnP = sancKV(ws, "burnp", "0") == "1"
	e.cfg = c
	p, err := e.a.GovKeeper.Params.Get(e.ctx)
	if err != nil {
		return "err:setup"
	}
	d := func(s int64) *time.Duration { x := time.Duration(s) * time.Second; return &x }
	p.MinDeposit = c.minDep.coins()
	p.ExpeditedMinDeposit = c.expMinDep.coins()
	p.MaxDepositPeriod, p.VotingPeriod, p.ExpeditedVotingPeriod = d(c.depP), d(c.votP), d(c.expVotP)
	p.MinInitialDepositRatio, p.MinDepositRatio = c.initRatio, c.depRatio
	p.ProposalCancelRatio, p.ProposalCancelDest = sancCancelDec(c.cancel), ""
	p.BurnVoteQuorum, p.BurnVoteVeto, p.BurnProposalDepositPrevote = c.burnQ, c.burnV, c.burnP
	if err := p.ValidateBasic(); err != nil {
		e.t.Logf("gov params invalid: %v", err)
		return "err:setup"
	}
	if err := e.a.GovKeeper.Params.Set(e.ctx, p); err != nil {
		return "err:setup"
	}
	return "ok"
}

// createMarker adds an active restricted marker (supply 0, floating; the history mints its coins).
func (e *sancEnv) createMarker(m sancMarker) error {
	perms := map[string][]markertypes.Access{}
	for _, x := range []struct {
		ns []string
		a  markertypes.Access
	}{{m.xfer, markertypes.Access_Transfer}, {m.forcers, markertypes.Access_ForceTransfer}, {m.withdraw, markertypes.Access_Withdraw}, {m.depos, markertypes.Access_Deposit}} {
		for _, n := range x.ns {
			if _, ok := sancAddrs[n]; !ok {
				return fmt.Errorf("unknown account %q", n)
			}
			perms[n] = append(perms[n], x.a)
		}
	}
	grants := []markertypes.AccessGrant{{Address: sancAdm.String(), Permissions: []markertypes.Access{markertypes.Access_Admin,
		markertypes.Access_Mint, markertypes.Access_Burn, markertypes.Access_Delete}}}
	var ns []string
	for n := range perms {
		ns = append(ns, n)
	}
	sort.Strings(ns)
	for _, n := range ns {
		grants = append(grants, markertypes.AccessGrant{Address: sancAddrs[n].String(), Permissions: perms[n]})
	}
	ma := markertypes.NewMarkerAccount(authtypes.NewBaseAccount(markertypes.MustGetMarkerAddress(m.denom), nil, 0, 0),
		sdk.NewInt64Coin(m.denom, 0), sancAdm, grants, markertypes.StatusProposed, markertypes.MarkerType_RestrictedCoin,
		false, true, m.force, []string{})
	if err := e.a.MarkerKeeper.SetNetAssetValue(e.ctx, ma, markertypes.NewNetAssetValue(sdk.NewInt64Coin(markertypes.UsdDenom, 1), 1), "verif"); err != nil {
		return err
	}
	return e.a.MarkerKeeper.AddFinalizeAndActivateMarker(e.ctx, ma)
}

// noForce lists the named accounts forced transfers may not take from, as the real account
// store has them (an existing account with sequence 0 that is not a marker / market account).
func (e *sancEnv) noForce(names []string, markers []sancMarker) []string {
	var out []string
	for _, n := range names {
		isMarker := false
		for _, m := range markers {
			if m.acct == n {
				isMarker = true
			}
		}
		acc := e.a.AccountKeeper.GetAccount(e.ctx, sancAddrs[n])
		if acc == nil || isMarker || acc.GetSequence() != 0 {
			continue
		}
		if _, ok := acc.(*exchange.MarketAccount); ok {
			continue
		}
		out = append(out, n)
	}
	return out
}

// cfgLineFor is the cfg op of a history with markers: names, markers, blocked addresses (asked
// of the real bank keeper), accounts closed to forced transfers, the market account.
func (e *sancEnv) cfgLineFor(c sancCfg, names []string, markers []sancMarker) string {
	e.names = names
	line := e.cfgLine(c)
	var ms, blocked []string
	for _, m := range markers {
		ms = append(ms, m.String())
	}
	for _, n := range names {
		if e.a.BankKeeper.BlockedAddr(sancAddrs[n]) {
			blocked = append(blocked, n)
		}
	}
	// who may withdraw from the market, as the real exchange keeper answers
	var mktadm []string
	for _, n := range names {
		if e.a.ExchangeKeeper.CanWithdrawMarketFunds(e.ctx, sancMarketID, sancAddrs[n].String()) {
			mktadm = append(mktadm, n)
		}
	}
	return line + fmt.Sprintf(" markers=%s blocked=%s noforce=%s market=MKT mktadm=%s", JoinOr(ms, ";"), JoinOr(blocked, "|"),
		JoinOr(e.noForce(names, markers), "|"), JoinOr(mktadm, "|"))
}

// cfgLine renders the cfg op for a history: the configuration the harness installs and the
// starting balances read from the real bank.
func (e *sancEnv) cfgLine(c sancCfg) string {
	var b0 []string
	for _, n := range e.names {
		bal := e.a.BankKeeper.GetAllBalances(e.ctx, sancAddrs[n])
		if !bal.IsZero() {
			b0 = append(b0, n+":"+sancCoinsStr(bal))
		}
	}
	b := func(x bool) string {
		if x {
			return "1"
		}
		return "0"
	}
	return fmt.Sprintf("cfg unsanc=%s names=%s bond=%s mindep=%s expmindep=%s initmin=%s initminexp=%s depmin=%s depminexp=%s depp=%d votp=%d expvotp=%d cancel=%s burnq=%s burnv=%s burnp=%s bal0=%s",
		strings.Join(sancUnsanc, "|"), strings.Join(e.names, "|"), sancBond, c.minDep, c.expMinDep, c.initMin, c.initMinExp,
		c.depMin, c.depMinExp, c.depP, c.votP, c.expVotP, c.cancel, b(c.burnQ), b(c.burnV), b(c.burnP), JoinOr(b0, "|"))
}

func (e *sancEnv) exec(op string) string {
	ws := strings.Fields(op)
	if len(ws) == 0 {
		return "bad-op"
	}
	gs := govkeeper.NewMsgServerImpl(&e.a.GovKeeper)
	govAddr := sancAddrs["GOV"].String()
	switch ws[0] {
	case "tkey", "ikey", "skey", "tcmp", "tpre":
		return Guard(func() string { return sancKeyOp(ws) })
	case "cfg":
		return e.applyCfg(ws)
	case "q":
		return e.dump()
	case "submit":
		msgs, ok := e.anyMsgs(sancKV(ws, "msgs", "-"))
		dep, ok2 := sancCoins(sancKV(ws, "dep", "-"))
		if !ok || !ok2 {
			return "bad-op"
		}
		return e.try(func(ctx sdk.Context) (string, error) {
			m, err := govv1.NewMsgSubmitProposal(msgs, dep, e.addr(sancKV(ws, "who", "A")), "verif", "t", "s", sancKV(ws, "exp", "0") == "1")
			if err != nil {
				return "", err
			}
			res, err := gs.SubmitProposal(ctx, m)
			if err != nil {
				return "", err
			}
			return fmt.Sprintf("ok %d", res.ProposalId), nil
		})
	case "deposit":
		amt, ok := sancCoins(sancKV(ws, "amt", "-"))
		var id uint64
		fmt.Sscan(sancKV(ws, "id", "0"), &id)
		if !ok {
			return "bad-op"
		}
		return e.try(func(ctx sdk.Context) (string, error) {
			_, err := gs.Deposit(ctx, &govv1.MsgDeposit{ProposalId: id, Depositor: e.addr(sancKV(ws, "who", "A")), Amount: amt})
			return "", err
		})
	case "vote":
		var id uint64
		fmt.Sscan(sancKV(ws, "id", "0"), &id)
		opt := map[string]govv1.VoteOption{"yes": govv1.OptionYes, "no": govv1.OptionNo, "veto": govv1.OptionNoWithVeto, "abstain": govv1.OptionAbstain}[sancKV(ws, "opt", "")]
		return e.try(func(ctx sdk.Context) (string, error) {
			_, err := gs.Vote(ctx, &govv1.MsgVote{ProposalId: id, Voter: sancAddrs["V"].String(), Option: opt})
			return "", err
		})
	case "cancel":
		var id uint64
		fmt.Sscan(sancKV(ws, "id", "0"), &id)
		return e.try(func(ctx sdk.Context) (string, error) {
			_, err := gs.CancelProposal(ctx, &govv1.MsgCancelProposal{ProposalId: id, Proposer: e.addr(sancKV(ws, "who", "A"))})
			return "", err
		})
	case "block":
		var dt int64
		fmt.Sscan(sancKV(ws, "dt", "0"), &dt)
		out := e.try(func(ctx sdk.Context) (string, error) {
			return "", gov.EndBlocker(ctx, &e.a.GovKeeper)
		})
		if out == "ok" {
			e.now += dt
			e.ctx = e.ctx.WithBlockTime(sancT0.Add(time.Duration(e.now) * time.Second)).WithBlockHeight(e.ctx.BlockHeight() + 1)
		}
		return out
	case "params":
		sc, ok := sancCoins(sancKV(ws, "sanc", "-"))
		uc, ok2 := sancCoins(sancKV(ws, "unsanc", "-"))
		if !ok || !ok2 {
			return "bad-op"
		}
		return e.try(func(ctx sdk.Context) (string, error) {
			_, err := e.a.SanctionKeeper.UpdateParams(ctx, &sanction.MsgUpdateParams{Authority: govAddr,
				Params: &sanction.Params{ImmediateSanctionMinDeposit: sc, ImmediateUnsanctionMinDeposit: uc}})
			return "", err
		})
	case "send":
		amt, ok := sancCoins(sancKV(ws, "amt", "-"))
		if !ok {
			return "bad-op"
		}
		bs := bankkeeper.NewMsgServerImpl(e.a.BankKeeper)
		return e.try(func(ctx sdk.Context) (string, error) {
			_, err := bs.Send(ctx, &banktypes.MsgSend{FromAddress: e.addr(sancKV(ws, "from", "A")), ToAddress: e.addr(sancKV(ws, "to", "B")), Amount: amt})
			return "", err
		})
	case "xsend":
		// MsgSend from `from`, executed on its behalf by `via` through an authz grant
		amt, ok := sancCoins(sancKV(ws, "amt", "-"))
		if !ok {
			return "bad-op"
		}
		granter, err1 := sdk.AccAddressFromBech32(e.addr(sancKV(ws, "from", "A")))
		grantee, err2 := sdk.AccAddressFromBech32(e.addr(sancKV(ws, "via", "B")))
		if err1 != nil || err2 != nil || granter.Equals(grantee) {
			return "bad-op"
		}
		return e.try(func(ctx sdk.Context) (string, error) {
			exp := ctx.BlockTime().Add(24 * time.Hour)
			if err := e.a.AuthzKeeper.SaveGrant(ctx, grantee, granter, &authz.GenericAuthorization{Msg: sdk.MsgTypeURL(&banktypes.MsgSend{})}, &exp); err != nil {
				return "", err
			}
			_, err := e.a.AuthzKeeper.DispatchActions(ctx, grantee, []sdk.Msg{&banktypes.MsgSend{FromAddress: granter.String(), ToAddress: e.addr(sancKV(ws, "to", "B")), Amount: amt}})
			return "", err
		})
	case "msend":
		amt, ok := sancCoins(sancKV(ws, "amt", "-"))
		if !ok {
			return "bad-op"
		}
		if !amt.IsValid() || !amt.IsAllPositive() {
			return "err:invalid"
		}
		tos := sancList(sancKV(ws, "to", "-"), "|")
		total := sdk.Coins{}
		var outs []banktypes.Output
		for _, to := range tos {
			outs = append(outs, banktypes.Output{Address: e.addr(to), Coins: amt})
			total = total.Add(amt...)
		}
		bs := bankkeeper.NewMsgServerImpl(e.a.BankKeeper)
		return e.try(func(ctx sdk.Context) (string, error) {
			_, err := bs.MultiSend(ctx, &banktypes.MsgMultiSend{Inputs: []banktypes.Input{{Address: e.addr(sancKV(ws, "from", "A")), Coins: total}}, Outputs: outs})
			return "", err
		})
	case "delegate":
		amt, ok := sancCoins(sancKV(ws, "amt", "-"))
		if !ok {
			return "bad-op"
		}
		if len(amt) != 1 {
			return "err:invalid"
		}
		ss := stakingkeeper.NewMsgServerImpl(e.a.StakingKeeper)
		return e.try(func(ctx sdk.Context) (string, error) {
			_, err := ss.Delegate(ctx, &stakingtypes.MsgDelegate{DelegatorAddress: e.addr(sancKV(ws, "who", "A")), ValidatorAddress: sancValAddr, Amount: amt[0]})
			return "", err
		})
	case "tomod":
		// the primitive the fee deduction uses: account -> fee collector
		amt, ok := sancCoins(sancKV(ws, "amt", "-"))
		if !ok {
			return "bad-op"
		}
		if !amt.IsValid() || !amt.IsAllPositive() {
			return "err:invalid"
		}
		who, err := sdk.AccAddressFromBech32(e.addr(sancKV(ws, "who", "A")))
		if err != nil {
			return "err:invalid"
		}
		return e.try(func(ctx sdk.Context) (string, error) {
			return "", e.a.BankKeeper.SendCoinsFromAccountToModule(ctx, who, authtypes.FeeCollectorName, amt)
		})
	case "msg":
		msgs, ok := e.anyMsgs(sancKV(ws, "m", "-"))
		if !ok || len(msgs) != 1 {
			return "bad-op"
		}
		return e.try(func(ctx sdk.Context) (string, error) {
			var err error
			switch m := msgs[0].(type) {
			case *sanction.MsgSanction:
				_, err = e.a.SanctionKeeper.Sanction(ctx, m)
			case *sanction.MsgUnsanction:
				_, err = e.a.SanctionKeeper.Unsanction(ctx, m)
			}
			return "", err
		})
	case "fund":
		amt, ok := sancCoins(sancKV(ws, "amt", "-"))
		if !ok {
			return "bad-op"
		}
		if !amt.IsValid() || !amt.IsAllPositive() {
			return "err:invalid"
		}
		who, err := sdk.AccAddressFromBech32(e.addr(sancKV(ws, "who", "A")))
		if err != nil {
			return "err:invalid"
		}
		return e.try(func(ctx sdk.Context) (string, error) {
			if err := e.a.BankKeeper.MintCoins(ctx, minttypes.ModuleName, amt); err != nil {
				return "", err
			}
			// (set-up: restricted coins are handed out under the marker module's bypass)
			return "", e.a.BankKeeper.SendCoinsFromModuleToAccount(markertypes.WithBypass(ctx), minttypes.ModuleName, who, amt)
		})
	case "grant":
		// authz MsgGrant of a MarkerTransferAuthorization, signed by the owner of the funds
		lim, ok := sancCoins(sancKV(ws, "lim", "-"))
		if !ok {
			return "bad-op"
		}
		return e.tryRoute(func(ctx sdk.Context) error {
			any, err := codectypes.NewAnyWithValue(markertypes.NewMarkerTransferAuthorization(lim, nil))
			if err != nil {
				return err
			}
			m := &authz.MsgGrant{Granter: e.addr(sancKV(ws, "from", "A")), Grantee: e.addr(sancKV(ws, "to", "B")), Grant: authz.Grant{Authorization: any}}
			if err := sancValidateBasic(m); err != nil {
				return err
			}
			_, err = e.a.AuthzKeeper.Grant(ctx, m)
			return err
		})
	case "mxfer":
		amt, ok := sancCoins(sancKV(ws, "amt", "-"))
		if !ok || len(amt) != 1 {
			return "bad-op"
		}
		ms := markerkeeper.NewMsgServerImpl(e.a.MarkerKeeper)
		return e.tryRoute(func(ctx sdk.Context) error {
			m := &markertypes.MsgTransferRequest{Administrator: e.addr(sancKV(ws, "admin", "A")), FromAddress: e.addr(sancKV(ws, "from", "A")),
				ToAddress: e.addr(sancKV(ws, "to", "B")), Amount: amt[0]}
			if err := sancValidateBasic(m); err != nil {
				return err
			}
			_, err := ms.Transfer(ctx, m)
			return err
		})
	case "mwd":
		amt, ok := sancCoins(sancKV(ws, "amt", "-"))
		if !ok {
			return "bad-op"
		}
		ms := markerkeeper.NewMsgServerImpl(e.a.MarkerKeeper)
		return e.tryRoute(func(ctx sdk.Context) error {
			m := &markertypes.MsgWithdrawRequest{Administrator: e.addr(sancKV(ws, "admin", "A")), ToAddress: e.addr(sancKV(ws, "to", "B")),
				Denom: sancKV(ws, "denom", ""), Amount: amt}
			if err := sancValidateBasic(m); err != nil {
				return err
			}
			_, err := ms.Withdraw(ctx, m)
			return err
		})
	case "mktwd":
		amt, ok := sancCoins(sancKV(ws, "amt", "-"))
		if !ok {
			return "bad-op"
		}
		xs := exchangekeeper.NewMsgServer(e.a.ExchangeKeeper)
		return e.tryRoute(func(ctx sdk.Context) error {
			m := &exchange.MsgMarketWithdrawRequest{Admin: e.addr(sancKV(ws, "admin", "A")), MarketId: sancMarketID, ToAddress: e.addr(sancKV(ws, "to", "A")), Amount: amt}
			if err := sancValidateBasic(m); err != nil {
				return err
			}
			_, err := xs.MarketWithdraw(ctx, m)
			return err
		})
	case "pay":
		// the source creates a payment, the target accepts it (one transaction)
		sAmt, ok := sancCoins(sancKV(ws, "samt", "-"))
		tAmt, ok2 := sancCoins(sancKV(ws, "tamt", "-"))
		if !ok || !ok2 {
			return "bad-op"
		}
		xs := exchangekeeper.NewMsgServer(e.a.ExchangeKeeper)
		return e.tryRoute(func(ctx sdk.Context) error {
			p := exchange.Payment{Source: e.addr(sancKV(ws, "src", "A")), SourceAmount: sAmt, Target: e.addr(sancKV(ws, "tgt", "B")),
				TargetAmount: tAmt, ExternalId: "verif"}
			mc := &exchange.MsgCreatePaymentRequest{Payment: p}
			if err := sancValidateBasic(mc); err != nil {
				return err
			}
			if _, err := xs.CreatePayment(ctx, mc); err != nil {
				return err
			}
			ma := &exchange.MsgAcceptPaymentRequest{Payment: p}
			if err := sancValidateBasic(ma); err != nil {
				return err
			}
			_, err := xs.AcceptPayment(ctx, ma)
			return err
		})
	case "settle":
		// an ask of the seller, a bid of the buyer, settled by the market's admin (one transaction)
		assets, ok := sancCoins(sancKV(ws, "assets", "-"))
		price, ok2 := sancCoins(sancKV(ws, "price", "-"))
		if !ok || !ok2 {
			return "bad-op"
		}
		seller, buyer := e.addr(sancKV(ws, "seller", "A")), e.addr(sancKV(ws, "buyer", "B"))
		if len(assets) != 1 || len(price) != 1 || seller == buyer {
			return "err:invalid"
		}
		xs := exchangekeeper.NewMsgServer(e.a.ExchangeKeeper)
		return e.tryRoute(func(ctx sdk.Context) error {
			mask := &exchange.MsgCreateAskRequest{AskOrder: exchange.AskOrder{MarketId: sancMarketID, Seller: seller, Assets: assets[0], Price: price[0]}}
			if err := sancValidateBasic(mask); err != nil {
				return err
			}
			ra, err := xs.CreateAsk(ctx, mask)
			if err != nil {
				return err
			}
			mbid := &exchange.MsgCreateBidRequest{BidOrder: exchange.BidOrder{MarketId: sancMarketID, Buyer: buyer, Assets: assets[0], Price: price[0]}}
			if err := sancValidateBasic(mbid); err != nil {
				return err
			}
			rb, err := xs.CreateBid(ctx, mbid)
			if err != nil {
				return err
			}
			mset := &exchange.MsgMarketSettleRequest{Admin: sancAdm.String(), MarketId: sancMarketID, AskOrderIds: []uint64{ra.OrderId}, BidOrderIds: []uint64{rb.OrderId}}
			if err := sancValidateBasic(mset); err != nil {
				return err
			}
			_, err = xs.MarketSettle(ctx, mset)
			return err
		})
	}
	return "bad-op"
}

// sancValidateBasic is what the transaction pipeline does before a message reaches its handler.
func sancValidateBasic(m sdk.Msg) error {
	if v, ok := m.(sdk.HasValidateBasic); ok {
		if err := v.ValidateBasic(); err != nil {
			return sdkerrors.ErrInvalidRequest.Wrap("validate basic: " + sancScrub(err.Error()))
		}
	}
	return nil
}

// sancScrub keeps a ValidateBasic failure from being read as one of the classified handler errors.
func sancScrub(msg string) string {
	for _, w := range []string{"sanctioned", "insufficient funds", "hold amount", "receive funds", "granted authority", "removed from", "marker not found", "ACCESS_", "have permission"} {
		msg = strings.ReplaceAll(msg, w, "_")
	}
	return msg
}

// sancKeyOp runs the exported key functions of x/sanction/keeper/keys.go.
func sancKeyOp(ws []string) string {
	addr, err := hex.DecodeString(sancKV(ws, "addr", ""))
	if err != nil {
		return "bad-op"
	}
	u := func(k string) uint64 {
		var x uint64
		fmt.Sscan(sancKV(ws, k, "0"), &x)
		return x
	}
	switch ws[0] {
	case "tkey":
		return hex.EncodeToString(sanctionkeeper.CreateTemporaryKey(addr, u("id")))
	case "ikey":
		return hex.EncodeToString(sanctionkeeper.CreateProposalTempIndexKey(u("id"), addr))
	case "skey":
		return hex.EncodeToString(sanctionkeeper.CreateSanctionedAddrKey(addr))
	case "tcmp":
		return fmt.Sprint(bytes.Compare(sanctionkeeper.CreateTemporaryKey(addr, u("a")), sanctionkeeper.CreateTemporaryKey(addr, u("b"))))
	case "tpre":
		other, err := hex.DecodeString(sancKV(ws, "other", ""))
		if err != nil {
			return "bad-op"
		}
		if bytes.HasPrefix(sanctionkeeper.CreateTemporaryKey(other, u("id")), sanctionkeeper.CreateTemporaryAddrPrefix(addr)) {
			return "1"
		}
		return "0"
	}
	return "bad-op"
}

// keyHistory emits one history of key-layout ops: boundary ids, addresses of many lengths,
// and pairs of addresses where one is a byte prefix of the other.
func (g *sancGen) keyHistory(n int) {
	r := g.r
	g.out.Comment("history keys")
	id := func() uint64 {
		switch r.Intn(8) {
		case 0:
			return uint64(r.Intn(3))
		case 1:
			return uint64(254 + r.Intn(4))
		case 2:
			return uint64(1)<<32 - 1 + uint64(r.Intn(3))
		case 3:
			return uint64(1)<<63 - 1 + uint64(r.Intn(3))
		case 4:
			return ^uint64(0) - uint64(r.Intn(2))
		case 5:
			return uint64(1) << uint(r.Intn(64))
		}
		return r.U64() >> uint(r.Intn(64))
	}
	addr := func() []byte {
		l := Pick(r, []int{1, 2, 8, 19, 20, 20, 20, 21, 32, 32, 33, 64, 255})
		b := make([]byte, l)
		for i := range b {
			b[i] = byte(r.U64())
			if r.Chance(20) {
				b[i] = Pick(r, []byte{0, 1, 2, 3, 20, 32, 255})
			}
		}
		return b
	}
	for i := 0; i < n; i++ {
		a := addr()
		ah := hex.EncodeToString(a)
		var op string
		switch r.Intn(6) {
		case 0:
			op = fmt.Sprintf("tkey addr=%s id=%d", ah, id())
		case 1:
			op = fmt.Sprintf("ikey addr=%s id=%d", ah, id())
		case 2:
			op = fmt.Sprintf("skey addr=%s", ah)
		case 3, 4:
			x := id()
			y := id()
			if r.Chance(30) {
				y = x + uint64(r.Intn(3)) - 1
			}
			op = fmt.Sprintf("tcmp addr=%s a=%d b=%d", ah, x, y)
		default:
			o := addr()
			switch r.Intn(4) {
			case 0:
				o = a
			case 1: // other extends addr
				if len(a) < 200 {
					extra := addr()
					k := 1 + r.Intn(len(extra))
					if k > 8 {
						k = 8
					}
					o = append(append([]byte{}, a...), extra[:k]...)
				}
			case 2: // other is a proper prefix of addr
				if len(a) > 1 {
					o = a[:1+r.Intn(len(a)-1)]
				}
			}
			if len(o) > 255 {
				o = o[:255]
			}
			op = fmt.Sprintf("tpre addr=%s other=%s id=%d", ah, hex.EncodeToString(o), id())
		}
		res := Guard(func() string { return sancKeyOp(strings.Fields(op)) })
		g.out.Emit(op, res)
		g.out.Count("op:" + strings.Fields(op)[0])
	}
}

func sancShowName(n string) string {
	if n == "" {
		return "EMPTY"
	}
	return n
}

// dump renders the canonical state line from the real keepers.
func (e *sancEnv) dump() string {
	return Guard(func() string {
		k := e.a.SanctionKeeper
		var san, perm, temp, idx, props, bal []string
		for _, n := range e.names {
			b := "0"
			if k.IsSanctionedAddr(e.ctx, sancAddrs[n]) {
				b = "1"
			}
			san = append(san, n+":"+b)
			bal = append(bal, n+":"+sancCoinsStr(e.a.BankKeeper.GetAllBalances(e.ctx, sancAddrs[n])))
		}
		k.IterateSanctionedAddresses(e.ctx, func(addr sdk.AccAddress) bool {
			perm = append(perm, e.name(addr))
			return false
		})
		sort.Strings(perm)
		type te struct {
			n  string
			id uint64
			s  bool
		}
		var tes []te
		k.IterateTemporaryEntries(e.ctx, nil, func(addr sdk.AccAddress, id uint64, isSanction bool) bool {
			tes = append(tes, te{e.name(addr), id, isSanction})
			return false
		})
		sort.Slice(tes, func(i, j int) bool {
			if tes[i].n != tes[j].n {
				return tes[i].n < tes[j].n
			}
			return tes[i].id < tes[j].id
		})
		for _, x := range tes {
			v := "U"
			if x.s {
				v = "S"
			}
			temp = append(temp, fmt.Sprintf("%s/%d/%s", x.n, x.id, v))
		}
		var ies []te
		k.IterateProposalIndexEntries(e.ctx, nil, func(id uint64, addr sdk.AccAddress) bool {
			ies = append(ies, te{e.name(addr), id, false})
			return false
		})
		sort.Slice(ies, func(i, j int) bool {
			if ies[i].id != ies[j].id {
				return ies[i].id < ies[j].id
			}
			return ies[i].n < ies[j].n
		})
		for _, x := range ies {
			idx = append(idx, fmt.Sprintf("%d/%s", x.id, x.n))
		}
		next, err := e.a.GovKeeper.ProposalID.Peek(e.ctx)
		if err != nil {
			return "err:dump"
		}
		for id := uint64(1); id < next; id++ {
			p, err := e.a.GovKeeper.Proposals.Get(e.ctx, id)
			if err != nil {
				continue
			}
			st := map[govv1.ProposalStatus]string{govv1.StatusDepositPeriod: "D", govv1.StatusVotingPeriod: "V", govv1.StatusPassed: "P",
				govv1.StatusRejected: "R", govv1.StatusFailed: "F"}[p.Status]
			props = append(props, fmt.Sprintf("%d:%s:%s", id, st, sancCoinsStr(sdk.Coins(p.TotalDeposit))))
		}
		sp := k.GetParams(e.ctx)
		// authz grants of marker transfer authorizations: grantee<granter:limit
		var grants []string
		e.a.AuthzKeeper.IterateGrants(e.ctx, func(granter, grantee sdk.AccAddress, g authz.Grant) bool {
			au, err := g.GetAuthorization()
			if err != nil {
				return false
			}
			if mta, ok := au.(*markertypes.MarkerTransferAuthorization); ok {
				grants = append(grants, fmt.Sprintf("%s<%s:%s", e.name(grantee), e.name(granter), sancCoinsStr(mta.TransferLimit)))
			}
			return false
		})
		sort.Slice(grants, func(i, j int) bool { // by (grantee, granter)
			a, b := strings.SplitN(grants[i], ":", 2)[0], strings.SplitN(grants[j], ":", 2)[0]
			ai, bi := strings.SplitN(a, "<", 2), strings.SplitN(b, "<", 2)
			if ai[0] != bi[0] {
				return ai[0] < bi[0]
			}
			return ai[1] < bi[1]
		})
		return fmt.Sprintf("san=%s perm=%s temp=%s idx=%s props=%s next=%d smin=%s umin=%s bal=%s grants=%s",
			JoinOr(san, ";"), JoinOr(perm, ";"), JoinOr(temp, ";"), JoinOr(idx, ";"), JoinOr(props, ";"), next,
			sancCoinsStr(sp.ImmediateSanctionMinDeposit), sancCoinsStr(sp.ImmediateUnsanctionMinDeposit), JoinOr(bal, ";"), JoinOr(grants, ";"))
	})
}

// ---- generator -------------------------------------------------------------------------

type sancGen struct {
	e    *sancEnv
	r    *RNG
	out  *Out
	last string
	failProne bool // more protected addresses among the targets (passed proposals whose messages fail)
	mode int // 0 = mixed, 1 = voting-heavy (proposals reach the voting period and are resolved by votes)
	sanc sancAmts // immediate sanction min deposit, one amount per denom (empty = none)
	uns  sancAmts
	extra  []string // accounts of the history's markers and of the market
	denoms []string // the history's gov deposit denoms
}

func (g *sancGen) do(op string) string {
	res := g.e.exec(op)
	g.out.Emit(op, res)
	kind := strings.Fields(op)[0]
	g.last = kind
	g.out.Count("op:" + kind)
	cls := res
	if strings.HasPrefix(res, "ok") {
		cls = "ok"
	}
	if kind != "q" && kind != "cfg" {
		g.out.Count("res:" + kind + ":" + cls)
	}
	return res
}

func (g *sancGen) q() {
	d := g.e.exec("q")
	g.out.Emit("q", d)
	g.out.Count("op:q")
	if strings.Contains(d, "/S") {
		g.out.Count("state:temp-sanction")
	}
	if strings.Contains(d, "/U") {
		g.out.Count("state:temp-unsanction")
	}
	if !strings.Contains(d, "perm=- ") {
		g.out.Count("state:perm-nonempty")
	}
	// overlapping proposals on one address (the "latest entry" rule is exercised)
	if t := kvArg(strings.Fields(d), "temp"); t != "-" && t != "" {
		vals := map[string]map[string]bool{}
		for _, e := range strings.Split(t, ";") {
			f := strings.Split(e, "/")
			if len(f) != 3 {
				continue
			}
			if vals[f[0]] == nil {
				vals[f[0]] = map[string]bool{}
			}
			vals[f[0]][f[1]+f[2]] = true
		}
		overlap, conflict := false, false
		for _, m := range vals {
			if len(m) > 1 {
				overlap = true
				s, u := false, false
				for k := range m {
					if strings.HasSuffix(k, "S") {
						s = true
					} else {
						u = true
					}
				}
				if s && u {
					conflict = true
				}
			}
		}
		if overlap {
			g.out.Count("state:addr-with-entries-of-several-proposals")
		}
		if conflict {
			g.out.Count("state:addr-with-conflicting-entries")
		}
	}
	for _, x := range strings.Split(kvArg(strings.Fields(d), "san"), ";") {
		if strings.HasSuffix(x, ":1") {
			g.out.Count("state:some-account-sanctioned")
			break
		}
	}
}

func (g *sancGen) target() string {
	r := g.r
	if len(g.extra) > 0 && r.Chance(12) {
		return Pick(r, g.extra) // a marker's or the market's account
	}
	switch {
	case r.Chance(7) || g.failProne && r.Chance(18):
		return Pick(r, sancUnsanc)
	case r.Chance(2):
		return "EMPTY"
	case r.Chance(10):
		return "V"
	}
	return Pick(r, sancUsers)
}

func (g *sancGen) msgs() string {
	r := g.r
	n := 1 + r.Intn(3)
	if r.Chance(3) {
		n = 0
	}
	var ms []string
	for i := 0; i < n; i++ {
		kind := "s"
		if r.Chance(35) {
			kind = "u"
		}
		if r.Chance(3) {
			kind += "!"
		}
		k := 1 + r.Intn(3)
		if r.Chance(4) {
			k = 0
		}
		var as []string
		for j := 0; j < k; j++ {
			as = append(as, g.target())
		}
		ms = append(ms, kind+":"+JoinOr(as, "|"))
	}
	return JoinOr(ms, ";")
}

// interesting deposit amounts of one denom: around the gov floors and the immediate thresholds
// of that denom, given what the proposal already holds of it
func (g *sancGen) amount(d string, total int64) int64 {
	r := g.r
	c := g.e.cfg
	sc := sancDenomMin[d]
	if sc == 0 {
		sc = 1000
	}
	cands := []int64{c.depMin[d] - 1, c.depMin[d], c.initMin[d] - 1, c.initMin[d], c.initMinExp[d], c.minDep[d] - total, c.minDep[d] - total - 1,
		c.expMinDep[d] - total, int64(1 + r.Intn(int(sc*2/5))), sc/10 + int64(r.Intn(int(sc*3/2)))}
	for _, th := range []int64{g.sanc[d], g.uns[d]} {
		if th > 0 {
			cands = append(cands, th-total, th-total-1, th-total+1, th, th-1)
		}
	}
	x := Pick(r, cands)
	if g.mode == 1 && r.Chance(55) {
		x = Pick(r, []int64{c.minDep[d] - total, c.minDep[d] - total, c.expMinDep[d] - total, c.minDep[d] - total + int64(r.Intn(int(sc*3/5)))})
	}
	if x <= 0 {
		x = int64(1 + r.Intn(int(sc*3/10)))
	}
	return x
}

// deposit builds the coins of a deposit on a proposal that already holds `total`.  Every
// accepted denom is a dimension of its own: the deposit may leave a denom out, bring it just
// below / exactly to / just above a threshold, while the other denoms are anywhere.
func (g *sancGen) deposit(total sancAmts, initial bool) string {
	r := g.r
	c := g.e.cfg
	ds := c.minDep.denoms()
	amts := sancAmts{}
	switch {
	case r.Chance(30) && (len(g.sanc) > 0 || len(g.uns) > 0):
		// aim at one immediate threshold: complete every denom of it that can be deposited, then
		// move one denom to just below / just above, or leave one denom out
		th := g.sanc
		if len(th) == 0 || len(g.uns) > 0 && r.Chance(40) {
			th = g.uns
		}
		for _, d := range ds {
			if th[d] > total[d] {
				amts[d] = th[d] - total[d]
			} else if r.Chance(40) {
				amts[d] = g.amount(d, total[d])
			}
		}
		if len(amts) > 0 {
			d := Pick(r, amts.denoms())
			switch r.Intn(6) {
			case 0:
				amts[d]--
			case 1:
				amts[d]++
			case 2:
				if len(amts) > 1 {
					delete(amts, d)
				}
			case 3:
				amts[d] = g.amount(d, total[d])
			}
		}
	case g.mode == 1 && r.Chance(40):
		// complete the (regular or expedited) min deposit in every denom
		target := c.minDep
		if r.Chance(25) {
			target = c.expMinDep
		}
		for _, d := range ds {
			if x := target[d] - total[d]; x > 0 {
				amts[d] = x + int64(r.Intn(2))*int64(r.Intn(int(sancDenomMin[d]/2)))
			}
		}
	default:
		all := g.mode == 1 && r.Chance(60) // voting-heavy: deposits that can complete the min deposit
		for _, d := range ds {
			if all || r.Chance(65) || initial && r.Chance(85) {
				amts[d] = g.amount(d, total[d])
			}
		}
	}
	if initial && r.Chance(70) {
		// the initial deposit needs the floor of every denom
		for _, d := range ds {
			fl := c.initMin[d]
			if amts[d] < fl {
				amts[d] = fl + int64(r.Intn(3))*int64(r.Intn(int(fl)))
			}
		}
	}
	for d, x := range amts {
		if x <= 0 {
			delete(amts, d)
		}
	}
	if len(amts) == 0 {
		d := Pick(r, ds)
		amts[d] = g.amount(d, total[d])
	}
	if len(amts) > 1 {
		g.out.Count("deposit:multi-denom")
	}
	out := amts.String()
	if r.Chance(3) {
		out = "5qcoin" // not a deposit denom
		if r.Chance(50) && len(amts) > 0 {
			amts["qcoin"] = 5
			out = amts.String()
		}
	}
	if r.Chance(2) {
		out = "0" + sancBond
	}
	return out
}

// threshold picks an immediate min deposit: none, one denom, or several denoms (mostly
// deposit denoms; sometimes a denom no deposit can ever hold, so the threshold is unreachable).
func (g *sancGen) threshold(bases []int64) sancAmts {
	r := g.r
	ds := g.e.cfg.minDep.denoms()
	th := sancAmts{}
	if r.Chance(18) {
		return th
	}
	pick := func(d string) {
		b := Pick(r, bases)
		sc := sancDenomMin[d]
		if sc == 0 {
			sc = 1000
		}
		th[d] = b * sc / 1000
		if th[d] <= 0 {
			th[d] = 1
		}
	}
	switch {
	case len(ds) == 1 && r.Chance(75):
		pick(ds[0])
	case r.Chance(35):
		pick(Pick(r, ds))
	default:
		for _, d := range ds {
			if r.Chance(80) {
				pick(d)
			}
		}
	}
	if r.Chance(12) {
		pick(Pick(r, []string{"acoin", "xcoin", "zcoin"})) // possibly not a deposit denom
	}
	if len(th) == 0 {
		pick(Pick(r, ds))
	}
	return th
}

func (g *sancGen) coin(n int64) string {
	if n < 0 {
		n = 0
	}
	return fmt.Sprintf("%d%s", n, sancBond)
}

// thresholdClass tells how far a total deposit is from an immediate threshold: "none" (no
// denom of it reached), "partial" (some but not all: the case a per-denom comparison must get
// right), "all".
func sancThresholdClass(total sdk.Coins, th sancAmts) string {
	n := 0
	for d, x := range th {
		if total.AmountOf(d).GTE(sdkmath.NewInt(x)) {
			n++
		}
	}
	switch {
	case n == 0:
		return "none"
	case n < len(th):
		return "partial"
	}
	return "all"
}

func (g *sancGen) who() string {
	if g.r.Chance(25) {
		return "V"
	}
	return Pick(g.r, sancUsers)
}

func (g *sancGen) propTotals() (ids []uint64, totals map[uint64]sancAmts, proposers map[uint64]string, next uint64) {
	totals = map[uint64]sancAmts{}
	proposers = map[uint64]string{}
	next, _ = g.e.a.GovKeeper.ProposalID.Peek(g.e.ctx)
	for id := uint64(1); id < next; id++ {
		p, err := g.e.a.GovKeeper.Proposals.Get(g.e.ctx, id)
		if err != nil {
			continue
		}
		ids = append(ids, id)
		totals[id] = sancAmtsOf(p.TotalDeposit)
		if pa, err := sdk.AccAddressFromBech32(p.Proposer); err == nil {
			proposers[id] = g.e.name(pa)
		}
	}
	return
}

// propStates maps proposal id -> status letter (+"x" when expedited) read from the real gov store.
func (g *sancGen) propStates() map[uint64]string {
	m := map[uint64]string{}
	next, _ := g.e.a.GovKeeper.ProposalID.Peek(g.e.ctx)
	for id := uint64(1); id < next; id++ {
		p, err := g.e.a.GovKeeper.Proposals.Get(g.e.ctx, id)
		if err != nil {
			continue
		}
		st := map[govv1.ProposalStatus]string{govv1.StatusDepositPeriod: "D", govv1.StatusVotingPeriod: "V", govv1.StatusPassed: "P",
			govv1.StatusRejected: "R", govv1.StatusFailed: "F"}[p.Status]
		if p.Expedited {
			st += "x"
		}
		m[id] = st
	}
	return m
}

func (g *sancGen) hasTemp(id uint64) bool {
	found := false
	g.e.a.SanctionKeeper.IterateProposalIndexEntries(g.e.ctx, &id, func(uint64, sdk.AccAddress) bool {
		found = true
		return true
	})
	return found
}

// countTransitions records how proposals were resolved by the last operation.
func (g *sancGen) countTransitions(kind string, before map[uint64]string, hadTemp map[uint64]bool) {
	after := g.propStates()
	for id, b := range before {
		a, ok := after[id]
		tag := ""
		switch {
		case !ok && kind == "cancel":
			tag = "cancelled"
		case !ok:
			tag = "expired"
		case a == b:
			continue
		case strings.HasPrefix(a, "P"):
			tag = "passed"
		case strings.HasPrefix(a, "R"):
			tag = "rejected"
		case strings.HasPrefix(a, "F"):
			tag = "failed"
		case b == "Vx" && a == "V":
			tag = "expedited-converted"
		case strings.HasPrefix(b, "D") && strings.HasPrefix(a, "V"):
			tag = "voting-started"
		default:
			continue
		}
		g.out.Count("resolve:" + tag)
		if hadTemp[id] && tag != "voting-started" {
			g.out.Count("resolve-with-temp:" + tag)
		}
	}
}

// countThreshold records, after an accepted submit / deposit on proposal id, how its total
// deposit stands against each immediate threshold.
func (g *sancGen) countThreshold(id uint64) {
	p, err := g.e.a.GovKeeper.Proposals.Get(g.e.ctx, id)
	if err != nil {
		return
	}
	for _, th := range []sancAmts{g.sanc, g.uns} {
		if len(th) > 0 {
			n := "1"
			if len(th) > 1 {
				n = "multi"
			}
			g.out.Count(fmt.Sprintf("deposit-vs-threshold:%s-denom:%s", n, sancThresholdClass(p.TotalDeposit, th)))
		}
	}
}

func (g *sancGen) sanctionedNames() []string {
	var out []string
	for _, n := range []string{"A", "B", "C", "D", "V"} {
		if g.e.a.SanctionKeeper.IsSanctionedAddr(g.e.ctx, sancAddrs[n]) {
			out = append(out, n)
		}
	}
	return out
}

func (g *sancGen) history(k int, steps int) {
	r := g.r
	g.e = newSancEnv(g.e.t)
	g.out.Comment(fmt.Sprintf("history %d", k))
	denoms := Pick(r, [][]string{{sancBond}, {sancBond}, {sancBond}, {"acoin", sancBond}, {"acoin", sancBond}, {sancBond, "xcoin"},
		{sancBond, "xcoin"}, {"acoin", sancBond, "xcoin"}})
	g.out.Count(fmt.Sprintf("cfg:deposit-denoms:%d", len(denoms)))
	c := sancCfgFor(denoms)
	c.cancel = Pick(r, []string{"1/2", "1/2", "1/4", "0/1", "1/1"})
	c.burnQ, c.burnV, c.burnP = r.Chance(30), r.Chance(70), r.Chance(25)
	g.e.cfg = c
	g.denoms = denoms
	// the restricted markers of the history and who may move their coins
	var markers []sancMarker
	some := func(pool []string, min, max int) []string {
		k := min + r.Intn(max-min+1)
		var out []string
		for _, n := range pool {
			if len(out) < k && r.Chance(100*k/len(pool)+20) {
				out = append(out, n)
			}
		}
		return out
	}
	for _, d := range []string{"rcoin", "scoin"} {
		if d == "rcoin" && r.Chance(75) || d == "scoin" && len(markers) > 0 && r.Chance(30) {
			m := sancMarker{denom: d, acct: sancMarkerAcct[d], force: r.Chance(60), xfer: some(sancUsers, 1, 3),
				forcers: some(sancUsers, 0, 2), withdraw: some(sancUsers, 1, 2), depos: some(sancUsers, 0, 2)}
			if m.force && len(m.forcers) == 0 && r.Chance(70) {
				m.forcers = []string{Pick(r, sancUsers)}
			}
			markers = append(markers, m)
		}
	}
	g.extra = nil
	for _, m := range markers {
		g.extra = append(g.extra, m.acct)
	}
	g.extra = append(g.extra, "MKT")
	g.out.Count(fmt.Sprintf("cfg:markers:%d", len(markers)))
	names := append(append([]string{}, sancOrder...), g.extra...)
	line := g.e.cfgLineFor(c, names, markers)
	g.do(line)
	for _, n := range sancUsers {
		f := sancAmts{}
		for _, d := range denoms {
			if r.Chance(90) {
				f[d] = int64(200+r.Intn(6000)) * sancDenomMin[d] / 1000
			}
		}
		if r.Chance(60) {
			f["qcoin"] = int64(1 + r.Intn(500))
		}
		if len(f) > 0 {
			g.do(fmt.Sprintf("fund who=%s amt=%s", n, f))
		}
	}
	for _, m := range markers {
		for _, n := range append(append([]string{}, sancUsers...), m.acct, "V") {
			if r.Chance(75) {
				g.do(fmt.Sprintf("fund who=%s amt=%d%s", n, 20+r.Intn(3000), m.denom))
			}
		}
		if r.Chance(50) {
			g.do(fmt.Sprintf("fund who=%s amt=%d%s", m.acct, 50+r.Intn(500), sancBond)) // other coins held by the marker
		}
	}
	{
		f := sancAmts{}
		for _, d := range denoms {
			if r.Chance(80) {
				f[d] = int64(50+r.Intn(2000)) * sancDenomMin[d] / 1000
			}
		}
		if len(f) > 0 {
			g.do(fmt.Sprintf("fund who=MKT amt=%s", f))
		}
	}
	for _, m := range markers {
		for i, k := 0, r.Intn(4); i < k; i++ {
			g.grantOp(m)
		}
	}
	if len(denoms) > 1 {
		// the voter deposits too: it needs the other deposit denoms
		f := sancAmts{}
		for _, d := range denoms {
			if d != sancBond {
				f[d] = 1000 * sancDenomMin[d]
			}
		}
		g.do(fmt.Sprintf("fund who=V amt=%s", f))
	}
	g.mode = 0
	if r.Chance(45) {
		g.mode = 1
	}
	g.failProne = g.mode == 1 && r.Chance(30)
	g.sanc = g.threshold([]int64{150, 150, 500, 500, 1000, 1500})
	if g.failProne {
		g.sanc = g.threshold([]int64{1500, 2500})
	}
	g.uns = g.threshold([]int64{300, 300, 700, 1200})
	if r.Chance(20) {
		g.uns = sancAmts{}
	}
	countTh := func() {
		for _, th := range []sancAmts{g.sanc, g.uns} {
			g.out.Count(fmt.Sprintf("params:threshold-denoms:%d", len(th)))
		}
	}
	countTh()
	g.do(fmt.Sprintf("params sanc=%s unsanc=%s", g.sanc, g.uns))
	g.q()
	for i := 0; i < steps; i++ {
		ids, totals, proposers, next := g.propTotals()
		before := g.propStates()
		hadTemp := map[uint64]bool{}
		for id := range before {
			hadTemp[id] = g.hasTemp(id)
		}
		pickID := func() uint64 {
			if len(ids) > 0 && r.Chance(90) {
				return Pick(r, ids)
			}
			return uint64(1 + r.Intn(int(next)+1))
		}
		x := r.Intn(120)
		var voting []uint64
		for id, st := range before {
			if strings.HasPrefix(st, "V") {
				voting = append(voting, id)
			}
		}
		sort.Slice(voting, func(i, j int) bool { return voting[i] < voting[j] })
		if g.mode == 1 && len(ids) > 0 {
			// voting-heavy: more votes and long blocks, fewer cancels
			switch y := r.Intn(100); {
			case y < 20:
				x = 45 // vote
			case y < 42:
				x = 60 // block
			case y < 45:
				x = 72 // cancel
			}
		}
		switch {
		case x >= 100:
			g.routeOp()
		case x < 22 || len(ids) == 0 && x < 50:
			exp := "0"
			if r.Chance(15) || g.mode == 1 && r.Chance(15) {
				exp = "1"
			}
			res := g.do(fmt.Sprintf("submit who=%s msgs=%s dep=%s exp=%s", g.who(), g.msgs(), g.deposit(sancAmts{}, true), exp))
			var id uint64
			if n, _ := fmt.Sscanf(res, "ok %d", &id); n == 1 {
				g.countThreshold(id)
			}
		case x < 42:
			id := pickID()
			if g.do(fmt.Sprintf("deposit who=%s id=%d amt=%s", g.who(), id, g.deposit(totals[id], false))) == "ok" {
				g.countThreshold(id)
			}
		case x < 54:
			id := pickID()
			if len(voting) > 0 && r.Chance(85) {
				id = Pick(r, voting)
			}
			g.do(fmt.Sprintf("vote id=%d opt=%s", id, Pick(r, []string{"yes", "yes", "yes", "yes", "yes", "no", "no", "veto", "abstain"})))
		case x < 70:
			dts := []int64{0, 10, 30, 49, 50, 51, 60, 99, 100, 101, 150}
			if g.mode == 1 {
				dts = []int64{0, 30, 50, 50, 51, 100, 100, 101, 150}
			}
			g.do(fmt.Sprintf("block dt=%d", Pick(r, dts)))
		case x < 78:
			id := pickID()
			who := proposers[id]
			if who == "" || r.Chance(15) {
				who = g.who()
			}
			g.do(fmt.Sprintf("cancel who=%s id=%d", who, id))
		case x < 94:
			from := g.who()
			if s := g.sanctionedNames(); len(s) > 0 && r.Chance(60) {
				from = Pick(r, s)
			}
			to := Pick(r, sancUsers)
			if s := g.sanctionedNames(); len(s) > 0 && r.Chance(40) {
				to = Pick(r, s)
			}
			dn := sancBond
			kindOfDebit := r.Intn(5)
			if kindOfDebit != 2 && r.Chance(40) {
				dn = Pick(r, denoms) // (delegations are in the bond denom only)
			}
			bal := g.e.a.BankKeeper.GetBalance(g.e.ctx, sancAddrs[from], dn).Amount
			amt := int64(1 + r.Intn(50))
			// (never V's whole balance: the model's tally assumes V keeps (almost) all bonded stake,
			// so what users can delegate must stay far below V's 1,000,000 bonded)
			if bal.IsInt64() && r.Chance(15) && from != "V" {
				amt = bal.Int64() + int64(r.Intn(2))
			}
			if amt <= 0 {
				amt = 1
			}
			a := fmt.Sprintf("%d%s", amt, dn)
			if r.Chance(2) {
				a = "0" + sancBond
			}
			switch kindOfDebit {
			case 4:
				via := Pick(r, sancUsers)
				if via == from {
					via = "V"
					if from == "V" {
						via = "A"
					}
				}
				g.do(fmt.Sprintf("xsend via=%s from=%s to=%s amt=%s", via, from, to, a))
			case 0:
				g.do(fmt.Sprintf("send from=%s to=%s amt=%s", from, to, a))
			case 1:
				tos := []string{to}
				if r.Chance(60) {
					tos = append(tos, Pick(r, sancUsers))
				}
				g.do(fmt.Sprintf("msend from=%s to=%s amt=%s", from, strings.Join(tos, "|"), a))
			case 2:
				g.do(fmt.Sprintf("delegate who=%s amt=%s", from, a))
			default:
				g.do(fmt.Sprintf("tomod who=%s amt=%s", from, a))
			}
		case x < 97:
			kind := Pick(r, []string{"s", "s", "u", "s!", "u!"})
			g.do(fmt.Sprintf("msg m=%s:%s", kind, JoinOr([]string{g.target(), g.target()}[:1+r.Intn(2)], "|")))
		default:
			g.sanc = g.threshold([]int64{100, 150, 500, 1000})
			g.uns = g.threshold([]int64{300, 700})
			if r.Chance(25) {
				g.uns = sancAmts{}
			}
			countTh()
			s, u := g.sanc.String(), g.uns.String()
			if r.Chance(15) {
				s = "5stake,3abc" // not sorted: invalid
			}
			g.do(fmt.Sprintf("params sanc=%s unsanc=%s", s, u))
		}
		g.countTransitions(g.last, before, hadTemp)
		g.q()
	}
}


// ---- routes that move funds on an account's behalf --------------------------------------

func (g *sancGen) sanctionedOf(pool []string) []string {
	var out []string
	for _, n := range pool {
		if g.e.a.SanctionKeeper.IsSanctionedAddr(g.e.ctx, sancAddrs[n]) {
			out = append(out, n)
		}
	}
	return out
}

// holder picks the account whose funds an operation moves: mostly a sanctioned one when there is one.
func (g *sancGen) holder(pool []string) string {
	if s := g.sanctionedOf(pool); len(s) > 0 && g.r.Chance(65) {
		return Pick(g.r, s)
	}
	return Pick(g.r, pool)
}

// spend picks an amount of denom d out of who's balance: small, the whole balance, or one more.
func (g *sancGen) spend(who, d string) int64 {
	r := g.r
	bal := g.e.a.BankKeeper.GetBalance(g.e.ctx, sancAddrs[who], d).Amount
	amt := int64(1 + r.Intn(60))
	if bal.IsInt64() && r.Chance(12) {
		amt = bal.Int64() + int64(r.Intn(2))
	}
	if r.Chance(2) {
		amt = 0
	}
	return amt
}

var sancHolders = []string{"A", "B", "C", "D", "V"}

// transferGrants lists the (grantee, granter) pairs of the marker transfer authorizations whose
// limit covers the denom.
func (g *sancGen) transferGrants(denom string) [][2]string {
	var out [][2]string
	g.e.a.AuthzKeeper.IterateGrants(g.e.ctx, func(granter, grantee sdk.AccAddress, gr authz.Grant) bool {
		if au, err := gr.GetAuthorization(); err == nil {
			if mta, ok := au.(*markertypes.MarkerTransferAuthorization); ok && mta.TransferLimit.AmountOf(denom).IsPositive() {
				out = append(out, [2]string{g.e.name(grantee), g.e.name(granter)})
			}
		}
		return false
	})
	sort.Slice(out, func(i, j int) bool { return out[i][0]+"<"+out[i][1] < out[j][0]+"<"+out[j][1] })
	return out
}

func (g *sancGen) grantOp(m sancMarker) {
	r := g.r
	admins := append(append([]string{}, m.xfer...), m.forcers...)
	to := Pick(r, sancUsers)
	if len(admins) > 0 && r.Chance(85) {
		to = Pick(r, admins)
	}
	lim := fmt.Sprintf("%d%s", 1+r.Intn(300), m.denom)
	switch {
	case r.Chance(4):
		lim = "0" + m.denom
	case r.Chance(3):
		lim = "-"
	case r.Chance(6):
		lim = fmt.Sprintf("%d%s,%d%s", 1+r.Intn(300), m.denom, 1+r.Intn(50), "zcoin")
	}
	from := g.holder(sancHolders)
	if from == to && r.Chance(90) {
		for from == to {
			from = Pick(r, sancHolders)
		}
	}
	g.do(fmt.Sprintf("grant from=%s to=%s lim=%s", from, to, lim))
}

// routeOp emits one operation that moves funds without a bank message of their owner: a marker
// transfer by an administrator (with an authz grant, as a forced transfer, of its own coins; to a
// third party or to the administrator itself), a withdrawal from a marker's or the market's
// account, an exchange payment, an exchange order settlement.
func (g *sancGen) routeOp() {
	r := g.r
	ms := g.e.markers
	kind := Pick(r, []string{"mxfer", "mxfer", "mxfer", "mxfer", "grant", "mwd", "mktwd", "pay", "pay", "settle", "settle"})
	if len(ms) == 0 && (kind == "mxfer" || kind == "grant" || kind == "mwd") {
		kind = Pick(r, []string{"pay", "settle", "mktwd"})
	}
	// a sanctioned marker / market account: try to take its funds out
	var sancMs []sancMarker
	for _, m := range ms {
		if g.e.a.SanctionKeeper.IsSanctionedAddr(g.e.ctx, sancAddrs[m.acct]) {
			sancMs = append(sancMs, m)
		}
	}
	switch {
	case len(sancMs) > 0 && r.Chance(35):
		kind, ms = "mwd", sancMs
	case g.e.a.SanctionKeeper.IsSanctionedAddr(g.e.ctx, sancAddrs["MKT"]) && r.Chance(30):
		kind = "mktwd"
	}
	other := func(not string) string {
		for {
			if n := Pick(r, sancHolders); n != not {
				return n
			}
		}
	}
	switch kind {
	case "grant":
		g.grantOp(Pick(r, ms))
	case "mxfer":
		m := Pick(r, ms)
		admins := append(append([]string{}, m.xfer...), m.forcers...)
		admin := Pick(r, sancUsers)
		if len(admins) > 0 && r.Chance(90) {
			admin = Pick(r, admins)
		}
		from := g.holder(sancHolders)
		if gs := g.transferGrants(m.denom); len(gs) > 0 && r.Chance(45) {
			// a pair with a grant in force: the owner of the funds let this administrator move them
			// (prefer a grant of an owner that has been sanctioned since)
			x := Pick(r, gs)
			for _, y := range gs {
				if r.Chance(60) && g.e.a.SanctionKeeper.IsSanctionedAddr(g.e.ctx, sancAddrs[y[1]]) {
					x = y
				}
			}
			admin, from = x[0], x[1]
		}
		switch {
		case r.Chance(8):
			from = admin
		case r.Chance(3):
			from = Pick(r, []string{"GOV", "FEE", m.acct, "MKT"})
		}
		to := Pick(r, sancHolders)
		switch {
		case r.Chance(40):
			to = admin // the administrator brings the coins to its own account
		case r.Chance(4):
			to = Pick(r, []string{"GOV", "BOND", "FEE", "QUAR"})
		case r.Chance(3):
			to = m.acct
		case r.Chance(2):
			to = "EMPTY"
		}
		d := m.denom
		if r.Chance(3) {
			d = sancBond
		}
		g.do(fmt.Sprintf("mxfer admin=%s from=%s to=%s amt=%d%s", admin, from, to, g.spend(from, d), d))
	case "mwd":
		m := Pick(r, ms)
		admin := Pick(r, sancUsers)
		if len(m.withdraw) > 0 && r.Chance(90) {
			admin = Pick(r, m.withdraw)
		}
		to := Pick(r, sancHolders)
		if r.Chance(35) {
			to = admin
		}
		if r.Chance(4) {
			to = Pick(r, []string{"GOV", "FEE"})
		}
		d := m.denom
		if r.Chance(25) {
			d = sancBond
		}
		den := m.denom
		if r.Chance(3) {
			den = "qcoin"
		}
		g.do(fmt.Sprintf("mwd admin=%s to=%s denom=%s amt=%d%s", admin, to, den, g.spend(m.acct, d), d))
	case "mktwd":
		admin := Pick(r, []string{"A", "C"})
		if r.Chance(8) {
			admin = Pick(r, sancHolders)
		}
		to := Pick(r, sancHolders)
		switch {
		case r.Chance(40):
			to = admin // the administrator takes the funds itself
		case r.Chance(4):
			to = Pick(r, []string{"GOV", "FEE"})
		}
		d := Pick(r, g.denoms)
		g.do(fmt.Sprintf("mktwd admin=%s to=%s amt=%d%s", admin, to, g.spend("MKT", d), d))
	case "pay":
		src := g.holder(sancHolders)
		tgt := other(src)
		if s := g.sanctionedOf(sancHolders); len(s) > 0 && r.Chance(35) {
			tgt = Pick(r, s) // (may be the source itself)
		}
		sd, td := Pick(r, g.denoms), Pick(r, g.denoms)
		samt, tamt := fmt.Sprintf("%d%s", g.spend(src, sd), sd), fmt.Sprintf("%d%s", g.spend(tgt, td), td)
		switch r.Intn(5) {
		case 0:
			samt = "-"
		case 1, 2:
			tamt = "-"
		}
		g.do(fmt.Sprintf("pay src=%s tgt=%s samt=%s tamt=%s", src, tgt, samt, tamt))
	case "settle":
		seller := g.holder(sancHolders)
		buyer := other(seller)
		if r.Chance(50) {
			seller, buyer = buyer, seller
		}
		ad := Pick(r, g.denoms)
		pd := sancBond
		if ad == sancBond {
			pd = "qcoin"
			for _, d := range g.denoms {
				if d != sancBond {
					pd = d
				}
			}
		}
		if r.Chance(3) {
			buyer = seller
		}
		g.do(fmt.Sprintf("settle seller=%s buyer=%s assets=%d%s price=%d%s", seller, buyer, g.spend(seller, ad), ad, g.spend(buyer, pd), pd))
	}
}

func driveSanc(t *testing.T, rng *RNG, n int, out *Out) {
	g := &sancGen{e: &sancEnv{t: t}, r: rng, out: out}
	steps := 16
	if *flagTier == "thorough" {
		steps = 26
	}
	g.keyHistory(40 + n/2)
	for k := 0; k < n; k++ {
		g.history(k, steps+rng.Intn(8))
	}
}

func replaySanc(t *testing.T, ops []string, out *Out) {
	e := newSancEnv(t)
	for _, op := range ops {
		if strings.HasPrefix(op, "#") {
			if strings.HasPrefix(op, "# history") {
				e = newSancEnv(t)
			}
			out.Comment(strings.TrimPrefix(strings.TrimPrefix(op, "#"), " "))
			continue
		}
		out.Emit(op, e.exec(op))
	}
}
