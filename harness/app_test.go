package harness

import (
	"testing"

	cmtproto "github.com/cometbft/cometbft/proto/tendermint/types"

	sdk "github.com/cosmos/cosmos-sdk/types"

	"github.com/provenance-io/provenance/app"
)

// ChainID is deliberately non-empty: an empty chain-id makes antewrapper.isTestContext true
// and switches the fee logic off.
const ChainID = "pio-verif-1"

// NewApp builds a real provenance app (in-memory DB) and a deliver-mode context.
func NewApp(t *testing.T) (*app.App, sdk.Context) {
	t.Helper()
	a := app.Setup(t)
	ctx := a.BaseApp.NewContextLegacy(false, cmtproto.Header{ChainID: ChainID, Height: 10})
	return a, ctx
}

// Try runs f on a cached context; state is written only when f returns nil and did not
// panic — the atomicity runTx gives a message.
func Try(ctx sdk.Context, f func(ctx sdk.Context) error) (err error, panicked string) {
	cctx, write := ctx.CacheContext()
	func() {
		defer func() {
			if r := recover(); r != nil {
				panicked = panicClass(sprint(r))
			}
		}()
		err = f(cctx)
	}()
	if err == nil && panicked == "" {
		write()
	}
	return err, panicked
}
