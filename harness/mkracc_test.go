package harness

// Models "mkracc" and "mkraccapp" (C12): marker operations need the matching access right;
// authz transfers stay in grant.
//
//   mkracc     pure stream on the REAL types.MarkerTransferAuthorization.Accept: one grant
//              per history, then 1–8 uses (the Updated authorization of one call is the
//              receiver of the next — what the authz keeper does between messages).
//   mkraccapp  app stream through the REAL marker MsgServer (x/marker/keeper.NewMsgServerImpl
//              on a real app.App with real bank / authz / attribute / feegrant keepers):
//              `probe` = one marker message on a marker configured per the op line,
//              `xsetup`/`xfer` = a history of MsgTransferRequests / MsgIbcTransferRequests by
//              two administrators under authz grants in every direction between them and the
//              source account. MsgIbcTransferRequest runs on the real msg server of a marker
//              keeper built by markerkeeper.NewKeeper over the app's own stores and keepers with
//              a stand-in for the ibc transfer module (mkraccIbc: takes the token out of the
//              sender's account into the channel's escrow account, records the call).

import (
	"context"
	"flag"
	"fmt"
	"math/big"
	"os"
	"regexp"
	"sort"
	"strings"
	"sync"
	"testing"

	"cosmossdk.io/x/feegrant"
	sdkmath "cosmossdk.io/math"

	sdk "github.com/cosmos/cosmos-sdk/types"
	authtypes "github.com/cosmos/cosmos-sdk/x/auth/types"
	banktypes "github.com/cosmos/cosmos-sdk/x/bank/types"
	transfertypes "github.com/cosmos/ibc-go/v8/modules/apps/transfer/types"
	clienttypes "github.com/cosmos/ibc-go/v8/modules/core/02-client/types"

	"github.com/provenance-io/provenance/app"
	"github.com/provenance-io/provenance/x/exchange"
	markerkeeper "github.com/provenance-io/provenance/x/marker/keeper"
	markertypes "github.com/provenance-io/provenance/x/marker/types"
)

func init() {
	drivers["mkracc"] = driveMkracc
	replayers["mkracc"] = replayMkracc
	drivers["mkraccapp"] = driveMkraccApp
	replayers["mkraccapp"] = replayMkraccApp
}

// ---------------------------------------------------------------------------------------
// shared helpers

// mkraccCoins renders sdk.Coins in denom order (`12a,3b`, `-` when empty).
func mkraccCoins(cs sdk.Coins) string {
	if len(cs) == 0 {
		return "-"
	}
	parts := make([]string, 0, len(cs))
	sorted := append(sdk.Coins{}, cs...)
	sort.SliceStable(sorted, func(i, j int) bool { return sorted[i].Denom < sorted[j].Denom })
	for _, c := range sorted {
		parts = append(parts, c.Amount.String()+c.Denom)
	}
	return strings.Join(parts, ",")
}

func mkraccParseCoin(s string) sdk.Coin {
	neg := strings.HasPrefix(s, "-") // only hand-written corpus lines: a coin no valid message carries
	s = strings.TrimPrefix(s, "-")
	i := 0
	for i < len(s) && (s[i] >= '0' && s[i] <= '9') {
		i++
	}
	n, ok := new(big.Int).SetString(s[:i], 10)
	if !ok {
		n = big.NewInt(0)
	}
	if neg {
		n.Neg(n)
	}
	return sdk.Coin{Denom: s[i:], Amount: sdkmath.NewIntFromBigInt(n)}
}

func mkraccParseCoins(s string) sdk.Coins {
	if s == "-" || s == "" {
		return sdk.Coins{}
	}
	var cs sdk.Coins
	for _, p := range strings.Split(s, ",") {
		cs = append(cs, mkraccParseCoin(p))
	}
	return cs.Sort()
}

var mkraccAccessRe = regexp.MustCompile(`does not have ACCESS_([A-Z_]+) on`)

// mkraccClass maps an error of the marker module to its class (never message text).
func mkraccClass(err error) string {
	if err == nil {
		return "ok"
	}
	m := err.Error()
	if sm := mkraccAccessRe.FindStringSubmatch(m); sm != nil {
		return "err:noaccess:" + strings.ToLower(sm[1])
	}
	switch {
	case strings.Contains(m, "is not authorized to make access list changes"),
		strings.Contains(m, "can only be made by"),
		strings.Contains(m, "does not have permission to finalize"),
		strings.Contains(m, "does not have permission to activate"),
		strings.Contains(m, "caller does not have authority to update required attributes"),
		strings.Contains(m, "does not have permission to add net asset value"):
		return "err:perm"
	case strings.Contains(m, "does not allow governance control"):
		return "err:nogov"
	case strings.Contains(m, "expected gov account as only signer"):
		return "err:authority"
	case strings.Contains(m, "marker type is not restricted_coin"),
		strings.Contains(m, "is not a restricted marker"),
		strings.Contains(m, "on unrestricted marker"):
		return "err:type"
	case strings.Contains(m, "is not active, funds cannot be moved"),
		strings.Contains(m, "that is not in Active status"),
		strings.Contains(m, "can only finalize markeraccounts in the Proposed"),
		strings.Contains(m, "can only activate markeraccounts in the Finalized"),
		strings.Contains(m, "can only delete markeraccounts in the Cancelled"),
		strings.Contains(m, "marker must be proposed, finalized, or active status"),
		strings.Contains(m, "state can not be modified"),
		strings.Contains(m, "cannot add or update denom metadata for a marker with status"):
		return "err:status"
	case strings.Contains(m, "minted coin in circulation"):
		return "err:circulation"
	case strings.Contains(m, "has not been granted authority to withdraw"):
		return "err:noauthz"
	case strings.Contains(m, "requested amount is more than spend limit"):
		return "err:limit"
	case strings.Contains(m, "cannot send to"):
		return "err:recipient"
	case strings.Contains(m, "funds are not allowed to be removed from"):
		return "err:forcedfrom"
	case strings.Contains(m, "is not allowed to receive funds"):
		return "err:blocked"
	case strings.Contains(m, "negative coin amount"), strings.Contains(m, "invalid coins"),
		strings.Contains(m, "less than pre-existing supply"),
		strings.Contains(m, "zero total supply and no authorization for minting"),
		strings.Contains(m, "a manager is required if there are no accounts"):
		return "err:invalid"
	case strings.Contains(m, "insufficient funds"), strings.Contains(m, "spendable balance"),
		strings.Contains(m, "cannot reduce marker total supply below zero"):
		return "err:funds"
	default:
		if os.Getenv("MKRACC_DEBUG") != "" {
			fmt.Fprintln(os.Stderr, "mkracc: unclassified error:", m)
		}
		return "err:other"
	}
}

// ---------------------------------------------------------------------------------------
// pure stream: MarkerTransferAuthorization.Accept

var mkraccNames = []string{"A", "B", "C", "D", "E"}

func mkraccAddr(n string) sdk.AccAddress { return sdk.AccAddress([]byte(fmt.Sprintf("vmkraccp_%-11s", n))) }

type mkraccPure struct {
	cur   *markertypes.MarkerTransferAuthorization
	names map[string]string // bech32 -> symbolic
}

func newMkraccPure() *mkraccPure {
	p := &mkraccPure{names: map[string]string{}}
	for _, n := range mkraccNames {
		p.names[mkraccAddr(n).String()] = n
	}
	return p
}

func (p *mkraccPure) allowStr(al []string) string {
	if len(al) == 0 {
		return "-"
	}
	xs := make([]string, len(al))
	for i, a := range al {
		if n, ok := p.names[a]; ok {
			xs[i] = n
		} else {
			xs[i] = "?"
		}
	}
	return strings.Join(xs, "|")
}

func (p *mkraccPure) exec(op string) string {
	ws := strings.Fields(op)
	switch ws[0] {
	case "grant":
		limit := mkraccParseCoins(kvArg(ws, "limit"))
		var allowed []sdk.AccAddress
		if al := kvArg(ws, "allow"); al != "-" && al != "" {
			for _, n := range strings.Split(al, "|") {
				allowed = append(allowed, mkraccAddr(n))
			}
		}
		a := markertypes.NewMarkerTransferAuthorization(limit, allowed)
		if err := a.ValidateBasic(); err != nil {
			p.cur = nil
			return "err:invalid"
		}
		p.cur = a
		return "ok"
	case "use":
		if p.cur == nil {
			return "err:noauthz"
		}
		amt := mkraccParseCoin(ws[1])
		msg := &markertypes.MsgTransferRequest{Amount: amt, Administrator: mkraccAddr("E").String(),
			FromAddress: mkraccAddr("D").String(), ToAddress: mkraccAddr(ws[2]).String()}
		return Guard(func() string {
			resp, err := p.cur.Accept(context.Background(), msg)
			if err != nil {
				return mkraccClass(err)
			}
			if !resp.Accept {
				return "err:notaccepted"
			}
			upd, _ := resp.Updated.(*markertypes.MarkerTransferAuthorization)
			if upd == nil {
				return "err:noupdate"
			}
			out := fmt.Sprintf("accept del=%s limit=%s allow=%s", mkraccB01(resp.Delete), mkraccCoins(upd.TransferLimit), p.allowStr(upd.AllowList))
			// what the authz keeper does with the response (authzHandler): delete or store Updated
			if resp.Delete {
				p.cur = nil
			} else {
				p.cur = upd
			}
			return out
		})
	}
	return "err:bad-op"
}

func mkraccB01(b bool) string {
	if b {
		return "1"
	}
	return "0"
}

func driveMkracc(t *testing.T, rng *RNG, n int, out *Out) {
	denoms := []string{"tok", "aaa", "zzz"}
	for h := 0; h < n; h++ {
		p := newMkraccPure()
		out.Comment(fmt.Sprintf("history %d", h))
		// the grant
		nd := 1
		if rng.Chance(30) {
			nd = 2 + rng.Intn(2)
		}
		limit := sdk.Coins{}
		perm := []int{0, 1, 2}
		for i := range perm {
			j := i + rng.Intn(3-i)
			perm[i], perm[j] = perm[j], perm[i]
		}
		for i := 0; i < nd; i++ {
			var a *big.Int
			switch {
			case rng.Chance(70):
				a = big.NewInt(int64(1 + rng.Intn(40)))
			case rng.Chance(50):
				a = big.NewInt(int64(1 + rng.Intn(1000000)))
			default:
				a = rng.BigBoundary()
				if a.Sign() == 0 {
					a = big.NewInt(1)
				}
			}
			limit = limit.Add(sdk.Coin{Denom: denoms[perm[i]], Amount: sdkmath.NewIntFromBigInt(a)})
		}
		var allow []string
		if rng.Chance(65) {
			k := 1 + rng.Intn(3)
			seen := map[string]bool{}
			for len(allow) < k {
				x := Pick(rng, mkraccNames[:4])
				if !seen[x] {
					seen[x] = true
					allow = append(allow, x)
				}
			}
			out.Count("grant:allowlist")
		} else {
			out.Count("grant:open")
		}
		out.Count(fmt.Sprintf("grant:denoms=%d", nd))
		gop := fmt.Sprintf("grant limit=%s allow=%s", mkraccCoins(limit), JoinOr(allow, "|"))
		out.Emit(gop, p.exec(gop))
		uses := 1 + rng.Intn(5)
		if rng.Chance(10) {
			uses += 3
		}
		accepted := 0
		for u := 0; u < uses; u++ {
			// the remaining limit as the real code reports it
			rem := sdk.Coins{}
			if p.cur != nil {
				rem = p.cur.TransferLimit
			}
			d := denoms[rng.Intn(3)]
			if len(rem) > 0 && rng.Chance(90) {
				d = rem[rng.Intn(len(rem))].Denom
			}
			left := rem.AmountOf(d).BigInt()
			var a *big.Int
			switch k := rng.Intn(100); {
			case k < 12:
				a = new(big.Int).Set(left) // exactly the rest
				out.Count("use:amt=rest")
			case k < 22:
				a = new(big.Int).Add(left, big.NewInt(1))
				out.Count("use:amt=rest+1")
			case k < 32 && left.Sign() > 0:
				a = new(big.Int).Sub(left, big.NewInt(1))
				out.Count("use:amt=rest-1")
			case k < 37:
				a = big.NewInt(0)
				out.Count("use:amt=0")
			case k < 45:
				a = rng.BigBoundary()
				out.Count("use:amt=boundary")
			default:
				// a part of what is left
				if left.Sign() > 0 {
					a = new(big.Int).Div(left, big.NewInt(int64(2+rng.Intn(4))))
					if a.Sign() == 0 {
						a = big.NewInt(1)
					}
				} else {
					a = big.NewInt(int64(1 + rng.Intn(5)))
				}
				out.Count("use:amt=part")
			}
			if a.BitLen() > 256 {
				a = new(big.Int).Sub(new(big.Int).Lsh(big.NewInt(1), 256), big.NewInt(1))
			}
			to := Pick(rng, mkraccNames[:4])
			if len(allow) > 0 && rng.Chance(55) {
				to = Pick(rng, allow)
			}
			onList := len(allow) == 0 || contains(allow, to)
			uop := fmt.Sprintf("use %s%s %s", a.String(), d, to)
			r := p.exec(uop)
			out.Emit(uop, r)
			cls := strings.Fields(r)[0]
			out.Count("use:res=" + cls)
			if cls == "accept" {
				if accepted > 0 {
					out.Count("use:accepted-after-partial")
					if !onList {
						out.Count("use:accepted-after-partial-offlist")
					}
				}
				accepted++
			}
		}
		out.Count(fmt.Sprintf("history:accepted=%d", accepted))
	}
}

func replayMkracc(t *testing.T, ops []string, out *Out) {
	p := newMkraccPure()
	for _, op := range ops {
		if strings.HasPrefix(op, "#") {
			if strings.HasPrefix(op, "# history") {
				p = newMkraccPure()
			}
			out.Comment(strings.TrimPrefix(op, "# "))
			continue
		}
		out.Emit(op, p.exec(op))
	}
}

// ---------------------------------------------------------------------------------------
// app stream

const (
	mkraccTok  = "mkrtok"  // the marker under test
	mkraccDstD = "mkrdstd" // restricted destination marker: caller has deposit
	mkraccDstN = "mkrdstn" // restricted destination marker: caller has no deposit
)

type mkraccEnv struct {
	t    *testing.T
	app  *app.App
	base sdk.Context
	ctx  sdk.Context
	srv  markertypes.MsgServer
	// msg server of the same marker keeper with the stand-in ibc transfer module
	srvIbc markertypes.MsgServer
	ibc    *mkraccIbc
	addr   map[string]sdk.AccAddress
	name map[string]string
	gov  sdk.AccAddress
	// current transfer history
	xfrom sdk.AccAddress
	// current message-driven scenario
	sctx   sdk.Context
	sctxOK bool
}

var (
	mkraccOnce sync.Once
	mkraccE    *mkraccEnv
)

var mkraccAccessByName = map[string]markertypes.Access{
	"mint": markertypes.Access_Mint, "burn": markertypes.Access_Burn, "deposit": markertypes.Access_Deposit,
	"withdraw": markertypes.Access_Withdraw, "delete": markertypes.Access_Delete, "admin": markertypes.Access_Admin,
	"transfer": markertypes.Access_Transfer, "force_transfer": markertypes.Access_ForceTransfer,
}
var mkraccAccessNames = []string{"mint", "burn", "deposit", "withdraw", "delete", "admin", "transfer", "force_transfer"}

func mkraccSetup(t *testing.T) *mkraccEnv {
	mkraccOnce.Do(func() {
		a, ctx := NewApp(t)
		e := &mkraccEnv{t: t, app: a, addr: map[string]sdk.AccAddress{}, name: map[string]string{}}
		// C caller/admin, U granter with a signing history, Z second admin, G holder of a burn grant,
		// N address that receives new grants, H holder of circulating coins, P1..P3 recipients,
		// F fresh account (sequence 0, never signed — what a smart contract account looks like).
		for _, n := range []string{"C", "K", "U", "Z", "G", "N", "H", "P1", "P2", "P3", "SA", "SB", "SD", "SE"} {
			ad := sdk.AccAddress([]byte(fmt.Sprintf("vmkracc_%-12s", n))) // 20 bytes, distinct per name
			e.addr[n] = ad
			acc := a.AccountKeeper.NewAccountWithAddress(ctx, ad)
			_ = acc.SetSequence(7)
			a.AccountKeeper.SetAccount(ctx, acc)
		}
		f := sdk.AccAddress([]byte("verif_mkracc_fresh__"))
		e.addr["F"] = f
		a.AccountKeeper.SetAccount(ctx, a.AccountKeeper.NewAccountWithAddress(ctx, f))
		e.addr["X"] = sdk.AccAddress([]byte("verif_mkracc_absent_")) // no account at all
		gov, err := sdk.AccAddressFromBech32(a.MarkerKeeper.GetAuthority())
		if err != nil {
			t.Fatal(err)
		}
		e.gov = gov
		e.addr["GOV"] = gov
		// a module account (blocked as a recipient, never signs)
		mod := a.AccountKeeper.GetModuleAccount(ctx, "oracle")
		e.addr["MOD"] = mod.GetAddress()
		e.addr["BL"] = a.AccountKeeper.GetModuleAccount(ctx, "attribute").GetAddress()
		// a market account
		if _, err := a.ExchangeKeeper.CreateMarket(ctx, exchange.Market{MarketId: 1,
			MarketDetails: exchange.MarketDetails{Name: "mkracc"}}); err != nil {
			t.Fatalf("create market: %v", err)
		}
		e.addr["MKT"] = exchange.GetMarketAddress(1)
		// two restricted, active destination markers
		for _, d := range []string{mkraccDstD, mkraccDstN} {
			grants := []markertypes.AccessGrant{{Address: e.addr["Z"].String(), Permissions: markertypes.AccessList{markertypes.Access_Admin, markertypes.Access_Mint, markertypes.Access_Deposit}}}
			if d == mkraccDstD {
				grants = append(grants,
					markertypes.AccessGrant{Address: e.addr["C"].String(), Permissions: markertypes.AccessList{markertypes.Access_Deposit}},
					markertypes.AccessGrant{Address: gov.String(), Permissions: markertypes.AccessList{markertypes.Access_Deposit}})
			}
			m := markertypes.NewMarkerAccount(authtypes.NewBaseAccountWithAddress(markertypes.MustGetMarkerAddress(d)),
				sdk.NewInt64Coin(d, 0), nil, grants, markertypes.StatusActive, markertypes.MarkerType_RestrictedCoin, false, true, false, nil)
			if err := a.MarkerKeeper.AddMarkerAccount(ctx, m); err != nil {
				t.Fatalf("dest marker %s: %v", d, err)
			}
		}
		e.addr["RD"] = markertypes.MustGetMarkerAddress(mkraccDstD)
		e.addr["RN"] = markertypes.MustGetMarkerAddress(mkraccDstN)
		for n, ad := range e.addr {
			e.name[ad.String()] = n
		}
		for n, v := range mkraccAccessByName {
			mkraccAccessName[v] = n
		}
		e.base = ctx
		e.srv = markerkeeper.NewMsgServerImpl(a.MarkerKeeper)
		// The app's marker keeper has the real ibc transfer keeper, which needs an open channel.
		// A second marker keeper over the same store key and the same auth / bank / authz / feegrant /
		// attribute / name keepers gets a stand-in instead; the bank keeper is wrapped so that
		// NewKeeper does not register the marker send restriction a second time.
		e.ibc = &mkraccIbc{bank: a.BankKeeper}
		ik := markerkeeper.NewKeeper(a.AppCodec(), a.GetKey(markertypes.StoreKey), a.AccountKeeper,
			mkraccBank{a.BankKeeper}, a.AuthzKeeper, a.FeeGrantKeeper, a.AttributeKeeper, a.NameKeeper, e.ibc, nil, nil)
		e.srvIbc = markerkeeper.NewMsgServerImpl(ik)
		mkraccE = e
	})
	mkraccE.t = t
	return mkraccE
}

// mkraccBank is the app's bank keeper minus AppendSendRestriction (see mkraccSetup).
type mkraccBank struct{ markertypes.BankKeeper }

func (mkraccBank) AppendSendRestriction(banktypes.SendRestrictionFn) {}

const (
	mkraccPort    = "transfer"
	mkraccChannel = "channel-7"
)

// mkraccIbc stands in for the ibc transfer module's msg server: like sendTransfer does for a
// token native to this chain it moves the token from the sender to the channel's escrow
// account (the context it is given carries the marker bypass), and it records the message.
type mkraccIbc struct {
	bank  markertypes.BankKeeper
	calls []*transfertypes.MsgTransfer
}

func (s *mkraccIbc) Transfer(goCtx context.Context, msg *transfertypes.MsgTransfer) (*transfertypes.MsgTransferResponse, error) {
	sender, err := sdk.AccAddressFromBech32(msg.Sender)
	if err != nil {
		return nil, err
	}
	escrow := transfertypes.GetEscrowAddress(msg.SourcePort, msg.SourceChannel)
	if err := s.bank.SendCoins(goCtx, sender, escrow, sdk.NewCoins(msg.Token)); err != nil {
		return nil, err
	}
	s.calls = append(s.calls, msg)
	return &transfertypes.MsgTransferResponse{Sequence: uint64(len(s.calls))}, nil
}

type mkraccCfg struct {
	acc2                  []string // rights of the second administrator K (transfer histories)
	acc                   []string
	mgr, gov, ft, gc, ctl bool
	st, ty                string
	dest                  string
	circ                  bool
	// optional supply view: recorded supply, caller balance, coins in existence, fixed supply
	hasView        bool
	rec, cbal, sup int64
	float          bool
}

func mkraccParseCfg(ws []string) mkraccCfg {
	c := mkraccCfg{st: kvArg(ws, "st"), ty: kvArg(ws, "ty"), dest: kvArg(ws, "dest")}
	if a := kvArg(ws, "acc"); a != "-" && a != "" {
		c.acc = strings.Split(a, "+")
	}
	if a := kvArg(ws, "acc2"); a != "-" && a != "" {
		c.acc2 = strings.Split(a, "+")
	}
	c.mgr = kvArg(ws, "mgr") == "1"
	c.gov = kvArg(ws, "gov") == "1"
	c.ft = kvArg(ws, "ft") == "1"
	c.gc = kvArg(ws, "gc") == "1"
	c.ctl = kvArg(ws, "ctl") == "1"
	c.circ = kvArg(ws, "circ") == "1"
	if c.dest == "" {
		c.dest = "plain"
	}
	c.rec = 1000
	if r := kvArg(ws, "rec"); r != "" {
		c.hasView = true
		fmt.Sscan(r, &c.rec)
		fmt.Sscan(kvArg(ws, "cbal"), &c.cbal)
		fmt.Sscan(kvArg(ws, "sup"), &c.sup)
	}
	c.float = kvArg(ws, "fixed") == "0"
	return c
}

var mkraccStatus = map[string]markertypes.MarkerStatus{
	"proposed": markertypes.StatusProposed, "finalized": markertypes.StatusFinalized, "active": markertypes.StatusActive,
	"cancelled": markertypes.StatusCancelled, "destroyed": markertypes.StatusDestroyed,
}

func (e *mkraccEnv) mint(ctx sdk.Context, to sdk.AccAddress, amt int64) {
	if amt <= 0 {
		return
	}
	coins := sdk.NewCoins(sdk.NewInt64Coin(mkraccTok, amt))
	if err := e.app.BankKeeper.MintCoins(ctx, markertypes.CoinPoolName, coins); err != nil {
		e.t.Fatalf("mint: %v", err)
	}
	pool := e.app.AccountKeeper.GetModuleAddress(markertypes.CoinPoolName)
	if err := e.app.BankKeeper.SendCoins(markertypes.WithBypass(ctx), pool, to, coins); err != nil {
		e.t.Fatalf("fund %s: %v", to, err)
	}
}

// setMarker stores the marker under test as the op line describes it. caller = the address
// whose rights `acc` are; escrow / holder balances are minted as requested.
func (e *mkraccEnv) setMarker(ctx sdk.Context, c mkraccCfg, caller sdk.AccAddress) {
	k := e.app.MarkerKeeper
	mt := markertypes.MarkerType_Coin
	if c.ty == "restricted" {
		mt = markertypes.MarkerType_RestrictedCoin
	}
	zr := markertypes.AccessList{markertypes.Access_Admin, markertypes.Access_Mint}
	grants := []markertypes.AccessGrant{
		{Address: e.addr["Z"].String(), Permissions: zr},
		{Address: e.addr["G"].String(), Permissions: markertypes.AccessList{markertypes.Access_Burn}},
	}
	if len(c.acc) > 0 {
		var al markertypes.AccessList
		for _, n := range c.acc {
			al = append(al, mkraccAccessByName[n])
		}
		grants = append(grants, markertypes.AccessGrant{Address: caller.String(), Permissions: al})
	}
	if len(c.acc2) > 0 {
		var al markertypes.AccessList
		for _, n := range c.acc2 {
			al = append(al, mkraccAccessByName[n])
		}
		grants = append(grants, markertypes.AccessGrant{Address: e.addr["K"].String(), Permissions: al})
	}
	manager := e.addr["Z"]
	if c.mgr {
		manager = caller
	}
	st := mkraccStatus[c.st]
	m := markertypes.NewMarkerAccount(authtypes.NewBaseAccountWithAddress(markertypes.MustGetMarkerAddress(mkraccTok)),
		sdk.NewInt64Coin(mkraccTok, c.rec), manager, grants, st, mt, !c.float, c.gc, c.ft, nil)
	// NewMarkerAccount blanks the manager from Active on; a marker cancelled while proposed or
	// finalized keeps it (SetStatus only clears on activation), and the handlers consult it.
	if st != markertypes.StatusActive || c.mgr {
		m.Manager = manager.String()
	}
	if err := m.Validate(); err != nil {
		e.t.Fatalf("invalid marker for %+v: %v", c, err)
	}
	k.SetMarker(ctx, k.NewMarker(ctx, m))
}

func (e *mkraccEnv) digest(ctx sdk.Context, caller sdk.AccAddress) string {
	k := e.app.MarkerKeeper
	maddr := markertypes.MustGetMarkerAddress(mkraccTok)
	var sb strings.Builder
	if m, err := k.GetMarker(ctx, maddr); err == nil && m != nil {
		sb.WriteString(fmt.Sprintf("%s|%s|%s|%v|%v|%v|%v|%v", m.GetStatus(), m.GetManager(), m.GetSupply(), m.GetAccessList(),
			m.GetRequiredAttributes(), m.AllowsForcedTransfer(), m.HasGovernanceEnabled(), m.HasFixedSupply()))
	}
	for _, a := range []sdk.AccAddress{maddr, caller, e.addr["P1"], e.addr["RD"], e.addr["H"]} {
		sb.WriteString("|" + e.app.BankKeeper.GetAllBalances(ctx, a).String())
	}
	sb.WriteString("|" + e.app.BankKeeper.GetSupply(ctx, mkraccTok).String())
	md, _ := e.app.BankKeeper.GetDenomMetaData(ctx, mkraccTok)
	sb.WriteString("|" + md.String())
	if attrs, err := e.app.AttributeKeeper.GetAllAttributes(ctx, maddr.String()); err == nil {
		sb.WriteString(fmt.Sprintf("|%v", attrs))
	}
	_ = k.IterateNetAssetValues(ctx, maddr, func(n markertypes.NetAssetValue) bool { sb.WriteString("|" + n.String()); return false })
	sb.WriteString(fmt.Sprintf("|deny=%v", k.IsSendDeny(ctx, maddr, e.addr["P2"])))
	if al, err := e.app.FeeGrantKeeper.GetAllowance(ctx, maddr, e.addr["N"]); err == nil && al != nil {
		sb.WriteString("|feegrant")
	}
	return sb.String()
}

func (e *mkraccEnv) probe(ws []string) string {
	c := mkraccParseCfg(ws)
	caller := e.addr["C"]
	if c.gov {
		caller = e.gov
	}
	ctx, _ := e.base.CacheContext()
	e.setMarker(ctx, c, caller)
	maddr := markertypes.MustGetMarkerAddress(mkraccTok)
	// coins: active markers have their supply minted; `ctl` = the caller holds all of it;
	// `circ` = 600 of 1000 are with holder H (for non-active markers: 600 pre-existing coins)
	switch {
	case c.hasView:
		e.mint(ctx, caller, c.cbal)
		e.mint(ctx, e.addr["H"], c.sup-c.cbal)
	case c.ctl:
		e.mint(ctx, caller, 1000)
	case c.st == "active" && c.circ:
		e.mint(ctx, maddr, 400)
		e.mint(ctx, e.addr["H"], 600)
	case c.st == "active":
		e.mint(ctx, maddr, 1000)
	case c.circ:
		e.mint(ctx, e.addr["H"], 600)
	}
	cs := caller.String()
	one := sdk.NewInt64Coin(mkraccTok, 1)
	var f func(ctx sdk.Context) error
	switch kvArg(ws, "op") {
	case "Mint":
		f = func(ctx sdk.Context) error {
			_, err := e.srv.Mint(ctx, &markertypes.MsgMintRequest{Amount: one, Administrator: cs})
			return err
		}
	case "Burn":
		f = func(ctx sdk.Context) error {
			_, err := e.srv.Burn(ctx, &markertypes.MsgBurnRequest{Amount: one, Administrator: cs})
			return err
		}
	case "Withdraw":
		to := map[string]string{"plain": "P1", "rmkdep": "RD", "rmknodep": "RN", "blocked": "BL"}[c.dest]
		f = func(ctx sdk.Context) error {
			_, err := e.srv.Withdraw(ctx, &markertypes.MsgWithdrawRequest{Denom: mkraccTok, Administrator: cs,
				ToAddress: e.addr[to].String(), Amount: sdk.NewCoins(one)})
			return err
		}
	case "Cancel":
		f = func(ctx sdk.Context) error {
			_, err := e.srv.Cancel(ctx, &markertypes.MsgCancelRequest{Denom: mkraccTok, Administrator: cs})
			return err
		}
	case "Delete":
		f = func(ctx sdk.Context) error {
			_, err := e.srv.Delete(ctx, &markertypes.MsgDeleteRequest{Denom: mkraccTok, Administrator: cs})
			return err
		}
	case "AddAccess":
		f = func(ctx sdk.Context) error {
			_, err := e.srv.AddAccess(ctx, &markertypes.MsgAddAccessRequest{Denom: mkraccTok, Administrator: cs,
				Access: []markertypes.AccessGrant{{Address: e.addr["N"].String(), Permissions: markertypes.AccessList{markertypes.Access_Mint}}}})
			return err
		}
	case "DeleteAccess":
		f = func(ctx sdk.Context) error {
			_, err := e.srv.DeleteAccess(ctx, &markertypes.MsgDeleteAccessRequest{Denom: mkraccTok, Administrator: cs, RemovedAddress: e.addr["G"].String()})
			return err
		}
	case "Finalize":
		f = func(ctx sdk.Context) error {
			_, err := e.srv.Finalize(ctx, &markertypes.MsgFinalizeRequest{Denom: mkraccTok, Administrator: cs})
			return err
		}
	case "Activate":
		f = func(ctx sdk.Context) error {
			_, err := e.srv.Activate(ctx, &markertypes.MsgActivateRequest{Denom: mkraccTok, Administrator: cs})
			return err
		}
	case "SetDenomMetadata":
		md := banktypes.Metadata{Description: "verif", Base: mkraccTok, Display: "k" + mkraccTok, Name: "Verif Token", Symbol: "MKT",
			DenomUnits: []*banktypes.DenomUnit{{Denom: mkraccTok, Exponent: 0}, {Denom: "k" + mkraccTok, Exponent: 3}}}
		f = func(ctx sdk.Context) error {
			_, err := e.srv.SetDenomMetadata(ctx, &markertypes.MsgSetDenomMetadataRequest{Metadata: md, Administrator: cs})
			return err
		}
	case "GrantAllowance":
		msg, err := markertypes.NewMsgGrantAllowance(mkraccTok, caller, e.addr["N"], &feegrant.BasicAllowance{})
		if err != nil {
			return "err:harness"
		}
		f = func(ctx sdk.Context) error { _, err := e.srv.GrantAllowance(ctx, msg); return err }
	case "UpdateRequiredAttributes":
		f = func(ctx sdk.Context) error {
			_, err := e.srv.UpdateRequiredAttributes(ctx, &markertypes.MsgUpdateRequiredAttributesRequest{Denom: mkraccTok,
				AddRequiredAttributes: []string{"kyc.verif.pb"}, TransferAuthority: cs})
			return err
		}
	case "UpdateForcedTransfer":
		f = func(ctx sdk.Context) error {
			_, err := e.srv.UpdateForcedTransfer(ctx, &markertypes.MsgUpdateForcedTransferRequest{Denom: mkraccTok, AllowForcedTransfer: !c.ft, Authority: cs})
			return err
		}
	case "SetAccountData":
		f = func(ctx sdk.Context) error {
			_, err := e.srv.SetAccountData(ctx, &markertypes.MsgSetAccountDataRequest{Denom: mkraccTok, Value: "verif data", Signer: cs})
			return err
		}
	case "UpdateSendDenyList":
		f = func(ctx sdk.Context) error {
			_, err := e.srv.UpdateSendDenyList(ctx, &markertypes.MsgUpdateSendDenyListRequest{Denom: mkraccTok,
				AddDeniedAddresses: []string{e.addr["P2"].String()}, Authority: cs})
			return err
		}
	case "AddNetAssetValues":
		f = func(ctx sdk.Context) error {
			_, err := e.srv.AddNetAssetValues(ctx, &markertypes.MsgAddNetAssetValuesRequest{Denom: mkraccTok, Administrator: cs,
				NetAssetValues: []markertypes.NetAssetValue{{Price: sdk.NewInt64Coin(markertypes.UsdDenom, 5), Volume: 1}}})
			return err
		}
	default:
		return "err:bad-op"
	}
	before := e.digest(ctx, caller)
	err, pan := Try(ctx, f)
	if pan != "" {
		return "panic:" + pan
	}
	if err != nil {
		if e.digest(ctx, caller) != before {
			return mkraccClass(err) + " state-changed-on-reject"
		}
		return mkraccClass(err)
	}
	return "ok changed=" + mkraccB01(e.digest(ctx, caller) != before)
}

// grantStr renders the MarkerTransferAuthorization granter gave to grantee (`-` = none).
func (e *mkraccEnv) grantStr(ctx sdk.Context, granter, grantee sdk.AccAddress) string {
	a, _ := e.app.AuthzKeeper.GetAuthorization(ctx, grantee, granter, markertypes.MarkerTransferAuthorization{}.MsgTypeURL())
	if a == nil {
		return "-"
	}
	mta, ok := a.(*markertypes.MarkerTransferAuthorization)
	if !ok {
		return "?"
	}
	al := make([]string, len(mta.AllowList))
	for i, x := range mta.AllowList {
		al[i] = e.name[x]
		if al[i] == "" {
			al[i] = "?"
		}
	}
	return mkraccCoins(mta.TransferLimit) + ";" + JoinOr(al, "|")
}

// grantsStr: the four grants of a transfer history (source→C, C→source, source→K, K→source).
func (e *mkraccEnv) grantsStr(ctx sdk.Context) string {
	s, c, k := e.xfrom, e.addr["C"], e.addr["K"]
	return fmt.Sprintf("g=%s r=%s kg=%s kr=%s", e.grantStr(ctx, s, c), e.grantStr(ctx, c, s), e.grantStr(ctx, s, k), e.grantStr(ctx, k, s))
}

var mkraccSrc = map[string]string{"self": "C", "user": "U", "fresh": "F", "module": "MOD", "marker": "RN", "market": "MKT", "absent": "X"}

func (e *mkraccEnv) xsetup(ws []string) string {
	c := mkraccParseCfg(ws)
	e.ctx, _ = e.base.CacheContext()
	ctx := e.ctx
	e.setMarker(ctx, c, e.addr["C"])
	from := e.addr[mkraccSrc[kvArg(ws, "src")]]
	e.xfrom = from
	var bal int64
	fmt.Sscan(kvArg(ws, "bal"), &bal)
	maddr := markertypes.MustGetMarkerAddress(mkraccTok)
	if c.st == "active" {
		e.mint(ctx, maddr, 1000-bal)
	}
	e.mint(ctx, from, bal)
	// grants in every direction between the source account and the two administrators
	c1, k1 := e.addr["C"], e.addr["K"]
	for _, gr := range []struct {
		key              string
		granter, grantee sdk.AccAddress
	}{{"grant", from, c1}, {"rgrant", c1, from}, {"kgrant", from, k1}, {"krgrant", k1, from}} {
		g := kvArg(ws, gr.key)
		if g == "-" || g == "" {
			continue
		}
		p := strings.SplitN(g, ";", 2)
		if len(p) != 2 {
			return "err:bad-op"
		}
		var allowed []sdk.AccAddress
		if p[1] != "-" {
			for _, n := range strings.Split(p[1], "|") {
				allowed = append(allowed, e.addr[n])
			}
		}
		auth := markertypes.NewMarkerTransferAuthorization(mkraccParseCoins(p[0]), allowed)
		if err := auth.ValidateBasic(); err != nil {
			return "err:invalid"
		}
		if err := e.app.AuthzKeeper.SaveGrant(ctx, gr.grantee, gr.granter, auth, nil); err != nil {
			return "err:savegrant"
		}
	}
	return "ok"
}

func (e *mkraccEnv) xfer(ws []string) string {
	amt, ok := new(big.Int).SetString(kvArg(ws, "amt"), 10)
	if !ok {
		return "err:bad-op"
	}
	admin := e.addr["C"]
	if by := kvArg(ws, "by"); by != "" {
		if by != "C" && by != "K" {
			return "err:bad-op"
		}
		admin = e.addr[by]
	}
	to := e.addr[kvArg(ws, "to")]
	coin := sdk.Coin{Denom: mkraccTok, Amount: sdkmath.NewIntFromBigInt(amt)}
	var f func(ctx sdk.Context) error
	recvAt := to
	switch kvArg(ws, "via") {
	case "", "msg":
		msg := &markertypes.MsgTransferRequest{Amount: coin, Administrator: admin.String(), FromAddress: e.xfrom.String(), ToAddress: to.String()}
		f = func(ctx sdk.Context) error { _, err := e.srv.Transfer(ctx, msg); return err }
	case "ibc":
		// the receiver is an address on the other chain; the coins go to the channel's escrow account
		recvAt = transfertypes.GetEscrowAddress(mkraccPort, mkraccChannel)
		msg := &markertypes.MsgIbcTransferRequest{Administrator: admin.String(),
			Transfer: transfertypes.MsgTransfer{SourcePort: mkraccPort, SourceChannel: mkraccChannel, Token: coin,
				Sender: e.xfrom.String(), Receiver: to.String(), TimeoutHeight: clienttypes.NewHeight(1, 1000)}}
		f = func(ctx sdk.Context) error { _, err := e.srvIbc.IbcTransfer(ctx, msg); return err }
	default:
		return "err:bad-op"
	}
	before := e.app.BankKeeper.GetBalance(e.ctx, recvAt, mkraccTok).Amount
	ncalls := len(e.ibc.calls)
	err, pan := Try(e.ctx, f)
	if pan != "" {
		return "panic:" + pan
	}
	if err != nil {
		e.ibc.calls = e.ibc.calls[:ncalls]
		return mkraccClass(err)
	}
	if n := len(e.ibc.calls); n > ncalls {
		// what the ibc module was asked to do: the token out of the source account, nothing else
		if c := e.ibc.calls[n-1]; n != ncalls+1 || c.Sender != e.xfrom.String() || !c.Token.Equal(coin) || c.Receiver != to.String() {
			return "ok ibc-call-differs-from-request"
		}
		e.ibc.calls = e.ibc.calls[:0]
	}
	after := e.app.BankKeeper.GetBalance(e.ctx, recvAt, mkraccTok).Amount
	return fmt.Sprintf("ok %s recv=%s", e.grantsStr(e.ctx), after.Sub(before).String())
}

const mkraccScn = "mkrscn" // the marker of the message-driven scenarios

func (e *mkraccEnv) scnRights(s string) markertypes.AccessList {
	var al markertypes.AccessList
	if s == "-" || s == "" {
		return al
	}
	for _, n := range strings.Split(s, "+") {
		al = append(al, mkraccAccessByName[n])
	}
	return al
}

var mkraccAccessName = map[markertypes.Access]string{}

func (e *mkraccEnv) scnDump() string {
	k := e.app.MarkerKeeper
	maddr := markertypes.MustGetMarkerAddress(mkraccScn)
	m, err := k.GetMarker(e.sctx, maddr)
	if err != nil || m == nil {
		return "nomarker"
	}
	var acl []string
	for _, g := range m.GetAccessList() {
		n := strings.TrimPrefix(e.name[g.Address], "S")
		var rs []string
		for _, r := range g.Permissions {
			rs = append(rs, mkraccAccessName[r])
		}
		acl = append(acl, n+":"+JoinOr(rs, "+"))
	}
	sort.Strings(acl)
	var bals []string
	for _, n := range []string{"A", "B", "D", "E"} {
		if b := e.app.BankKeeper.GetBalance(e.sctx, e.addr["S"+n], mkraccScn).Amount; !b.IsZero() {
			bals = append(bals, n+":"+b.String())
		}
	}
	st := map[markertypes.MarkerStatus]string{markertypes.StatusProposed: "proposed", markertypes.StatusFinalized: "finalized",
		markertypes.StatusActive: "active", markertypes.StatusCancelled: "cancelled", markertypes.StatusDestroyed: "destroyed"}[m.GetStatus()]
	mgr := "-"
	if a := m.GetManager(); len(a) > 0 {
		mgr = "?"
		if n, ok := e.name[a.String()]; ok {
			mgr = strings.TrimPrefix(n, "S")
		}
	}
	return fmt.Sprintf("st=%s mgr=%s rec=%s esc=%s sup=%s acl=%s bals=%s", st, mgr, m.GetSupply().Amount, e.app.BankKeeper.GetBalance(e.sctx, maddr, mkraccScn).Amount,
		e.app.BankKeeper.GetSupply(e.sctx, mkraccScn).Amount, JoinOr(acl, "|"), JoinOr(bals, "|"))
}

// scenario: a marker created and driven only by real messages of named accounts (A, B, D, E)
func (e *mkraccEnv) scenario(ws []string) string {
	who := func(k string) sdk.AccAddress { return e.addr["S"+kvArg(ws, k)] }
	amt := func() sdk.Coin {
		n, ok := new(big.Int).SetString(kvArg(ws, "amt"), 10)
		if !ok {
			n = big.NewInt(0)
		}
		return sdk.Coin{Denom: mkraccScn, Amount: sdkmath.NewIntFromBigInt(n)}
	}
	var f func(ctx sdk.Context) error
	switch ws[0] {
	case "smk":
		e.sctx, _ = e.base.CacheContext()
		mt := markertypes.MarkerType_Coin
		if kvArg(ws, "ty") == "restricted" {
			mt = markertypes.MarkerType_RestrictedCoin
		}
		a := e.addr["SA"]
		msg := &markertypes.MsgAddFinalizeActivateMarkerRequest{Amount: amt(), FromAddress: a.String(), MarkerType: mt,
			AccessList:  []markertypes.AccessGrant{{Address: a.String(), Permissions: e.scnRights(kvArg(ws, "acc"))}},
			SupplyFixed: kvArg(ws, "fixed") == "1", AllowGovernanceControl: true}
		f = func(ctx sdk.Context) error { _, err := e.srv.AddFinalizeActivateMarker(ctx, msg); return err }
	case "sprop":
		e.sctx, _ = e.base.CacheContext()
		mt := markertypes.MarkerType_Coin
		if kvArg(ws, "ty") == "restricted" {
			mt = markertypes.MarkerType_RestrictedCoin
		}
		a := e.addr["SA"]
		msg := &markertypes.MsgAddMarkerRequest{Amount: amt(), FromAddress: a.String(), Status: markertypes.StatusProposed, MarkerType: mt,
			AccessList:  []markertypes.AccessGrant{{Address: a.String(), Permissions: e.scnRights(kvArg(ws, "acc"))}},
			SupplyFixed: kvArg(ws, "fixed") == "1", AllowGovernanceControl: true}
		f = func(ctx sdk.Context) error { _, err := e.srv.AddMarker(ctx, msg); return err }
	case "sfin":
		msg := &markertypes.MsgFinalizeRequest{Denom: mkraccScn, Administrator: who("by").String()}
		f = func(ctx sdk.Context) error { _, err := e.srv.Finalize(ctx, msg); return err }
	case "sact":
		msg := &markertypes.MsgActivateRequest{Denom: mkraccScn, Administrator: who("by").String()}
		f = func(ctx sdk.Context) error { _, err := e.srv.Activate(ctx, msg); return err }
	case "scan":
		msg := &markertypes.MsgCancelRequest{Denom: mkraccScn, Administrator: who("by").String()}
		f = func(ctx sdk.Context) error { _, err := e.srv.Cancel(ctx, msg); return err }
	case "sadd":
		msg := &markertypes.MsgAddAccessRequest{Denom: mkraccScn, Administrator: who("by").String(),
			Access: []markertypes.AccessGrant{{Address: who("to").String(), Permissions: e.scnRights(kvArg(ws, "rights"))}}}
		f = func(ctx sdk.Context) error { _, err := e.srv.AddAccess(ctx, msg); return err }
	case "sdel":
		msg := &markertypes.MsgDeleteAccessRequest{Denom: mkraccScn, Administrator: who("by").String(), RemovedAddress: who("who").String()}
		f = func(ctx sdk.Context) error { _, err := e.srv.DeleteAccess(ctx, msg); return err }
	case "smint":
		msg := &markertypes.MsgMintRequest{Amount: amt(), Administrator: who("by").String()}
		f = func(ctx sdk.Context) error { _, err := e.srv.Mint(ctx, msg); return err }
	case "sburn":
		msg := &markertypes.MsgBurnRequest{Amount: amt(), Administrator: who("by").String()}
		f = func(ctx sdk.Context) error { _, err := e.srv.Burn(ctx, msg); return err }
	case "swd":
		msg := &markertypes.MsgWithdrawRequest{Denom: mkraccScn, Administrator: who("by").String(), ToAddress: who("to").String(), Amount: sdk.NewCoins(amt())}
		f = func(ctx sdk.Context) error { _, err := e.srv.Withdraw(ctx, msg); return err }
	default:
		return "err:bad-op"
	}
	if !e.sctxOK && ws[0] != "smk" && ws[0] != "sprop" {
		return "err:bad-op"
	}
	e.sctxOK = true
	err, pan := Try(e.sctx, f)
	if pan != "" {
		return "panic:" + pan
	}
	if err != nil {
		return mkraccClass(err)
	}
	return "ok " + e.scnDump()
}

func (e *mkraccEnv) exec(op string) string {
	ws := strings.Fields(op)
	switch ws[0] {
	case "smk", "sprop", "sfin", "sact", "scan", "sadd", "sdel", "smint", "sburn", "swd":
		return e.scenario(ws)
	case "probe":
		return e.probe(ws)
	case "xsetup":
		return e.xsetup(ws)
	case "xfer":
		if e.xfrom == nil {
			return "err:bad-op"
		}
		return e.xfer(ws)
	}
	return "err:bad-op"
}

// the right each operation is documented to need (used only to bias the generator)
var mkraccOps = []struct {
	name, right string
	statuses    []string
	govable     bool
	restricted  bool
}{
	{"Mint", "mint", []string{"proposed", "finalized", "active"}, false, false},
	{"Burn", "burn", []string{"proposed", "finalized", "active"}, false, false},
	{"Withdraw", "withdraw", []string{"active"}, false, false},
	{"Cancel", "delete", []string{"proposed", "finalized", "active", "cancelled"}, false, false},
	{"Delete", "delete", []string{"cancelled"}, false, false},
	{"AddAccess", "admin", []string{"proposed", "finalized", "active"}, false, false},
	{"DeleteAccess", "admin", []string{"proposed", "finalized", "active"}, false, false},
	{"Finalize", "", []string{"proposed"}, false, false},
	{"Activate", "", []string{"finalized"}, false, false},
	{"SetDenomMetadata", "admin", []string{"proposed", "finalized", "active"}, false, false},
	{"GrantAllowance", "admin", nil, false, false},
	{"UpdateRequiredAttributes", "transfer", nil, true, true},
	{"UpdateForcedTransfer", "", nil, true, true},
	{"SetAccountData", "deposit", nil, true, false},
	{"UpdateSendDenyList", "transfer", nil, true, true},
	{"AddNetAssetValues", "", nil, true, false},
}

var mkraccStatuses = []string{"proposed", "finalized", "active", "cancelled", "destroyed"}

func mkraccGenAcc(rng *RNG, ty string, want string, pct int) []string {
	var acc []string
	for _, a := range mkraccAccessNames {
		if ty == "coin" && (a == "transfer" || a == "force_transfer") {
			continue
		}
		take := rng.Chance(pct)
		if a == want {
			take = rng.Chance(55)
		}
		if take {
			acc = append(acc, a)
		}
	}
	return acc
}

func driveMkraccApp(t *testing.T, rng *RNG, n int, out *Out) {
	e := mkraccSetup(t)
	emit := func(op string) string {
		r := e.exec(op)
		out.Emit(op, r)
		return r
	}
	hbase := e.sweep(out, emit)
	for h := hbase; h < hbase+n; h++ {
		out.Comment(fmt.Sprintf("history %d", h))
		if rng.Chance(72) {
			// one marker message
			o := mkraccOps[rng.Intn(len(mkraccOps))]
			st := Pick(rng, mkraccStatuses)
			if len(o.statuses) > 0 && rng.Chance(65) {
				st = Pick(rng, o.statuses)
			}
			ty := "coin"
			if rng.Chance(55) || (o.restricted && rng.Chance(70)) {
				ty = "restricted"
			}
			acc := mkraccGenAcc(rng, ty, o.right, []int{0, 15, 30, 60}[rng.Intn(4)])
			mgr := rng.Chance(35)
			gov := (o.govable && rng.Chance(40)) || rng.Chance(4)
			ft := ty == "restricted" && rng.Chance(50)
			gc := rng.Chance(65)
			ctl := (o.name == "AddAccess" || o.name == "DeleteAccess") && rng.Chance(25) && (st == "active" || st == "finalized" || rng.Chance(30))
			dest := "plain"
			if o.name == "Withdraw" && rng.Chance(50) {
				dest = Pick(rng, []string{"rmkdep", "rmknodep", "blocked"})
			}
			circ := (o.name == "Cancel" || o.name == "Delete") && rng.Chance(30)
			op := fmt.Sprintf("probe op=%s acc=%s mgr=%s gov=%s st=%s ty=%s ft=%s gc=%s ctl=%s dest=%s circ=%s",
				o.name, JoinOr(acc, "+"), mkraccB01(mgr), mkraccB01(gov), st, ty, mkraccB01(ft), mkraccB01(gc), mkraccB01(ctl), dest, mkraccB01(circ))
			if (o.name == "AddAccess" || o.name == "DeleteAccess") && !ctl && rng.Chance(35) {
				// what accountControlsAllSupply looks at: recorded supply, caller's balance, coins in existence
				rec := int64([]int{0, 0, 3, 50}[rng.Intn(4)])
				cbal := rec
				if rng.Chance(30) {
					cbal = int64(rng.Intn(4))
				}
				sup := cbal + int64([]int{0, 0, 9, 40}[rng.Intn(4)])
				fixed := rng.Bool()
				op += fmt.Sprintf(" rec=%d cbal=%d sup=%d fixed=%s", rec, cbal, sup, mkraccB01(fixed))
				out.Count(fmt.Sprintf("probe:supplyview rec=%d caller-has-all=%s", rec, mkraccB01(sup > 0 && cbal == sup)))
			}
			r := emit(op)
			cls := strings.Fields(r)[0]
			out.Count("probe:op=" + o.name)
			out.Count("probe:res=" + cls)
			out.Count("probe:st=" + st)
			hasRight := o.right != "" && contains(acc, o.right)
			out.Count(fmt.Sprintf("probe:cell=%s/%s/right=%s/mgr=%s/gov=%s/%s", o.name, st, mkraccB01(hasRight), mkraccB01(mgr), mkraccB01(gov), resClass(cls)))
			continue
		}
		if rng.Chance(30) {
			mkraccGenScenario(rng, out, emit, e)
			continue
		}
		// a history of transfers under one authz grant
		st, ty := "active", "restricted"
		if rng.Chance(8) {
			st = Pick(rng, mkraccStatuses)
		}
		if rng.Chance(6) {
			ty = "coin"
		}
		var acc []string
		switch k := rng.Intn(100); {
		case k < 40:
			acc = []string{"transfer"}
		case k < 60:
			acc = []string{"transfer", "force_transfer"}
		case k < 78:
			acc = []string{"force_transfer"}
		case k < 88:
			acc = mkraccGenAcc(rng, ty, "transfer", 30)
		default:
			acc = []string{"deposit", "withdraw"} // neither transfer right
		}
		if ty == "coin" {
			acc = mkraccGenAcc(rng, ty, "", 30)
		}
		ft := ty == "restricted" && rng.Chance(50)
		src := Pick(rng, []string{"self", "user", "user", "user", "fresh", "module", "marker", "market", "absent"})
		bal := int64(20 + rng.Intn(60))
		if src == "absent" {
			bal = 0
		}
		if rng.Chance(7) {
			bal = int64(rng.Intn(4))
			if src == "absent" {
				bal = 0
			}
		}
		// grants: source→C (`grant`), and — none of which may ever authorise or be debited by a
		// transfer that C signs — C→source (`rgrant`), source→K (`kgrant`), K→source (`krgrant`)
		genGrant := func(pct int, ok bool) (string, int64, []string) {
			if !ok || !rng.Chance(pct) {
				return "-", 0, nil
			}
			limit := int64(3 + rng.Intn(30))
			var allow []string
			if rng.Chance(60) {
				k := 1 + rng.Intn(3)
				seen := map[string]bool{}
				for len(allow) < k {
					x := Pick(rng, []string{"P1", "P2", "P3", "RD"})
					if !seen[x] {
						seen[x] = true
						allow = append(allow, x)
					}
				}
			}
			lim := fmt.Sprintf("%d%s", limit, mkraccTok)
			if rng.Chance(15) {
				lim += ",5zzz"
			}
			return lim + ";" + JoinOr(allow, "|"), limit, allow
		}
		other := src != "self" && src != "absent"
		grant, limit, allow := genGrant(75, other)
		rgrant, rlimit, rallow := genGrant(35, other)
		kgrant, klimit, kallow := genGrant(30, src != "absent")
		krgrant, _, _ := genGrant(15, other)
		var acc2 []string
		if ty == "restricted" {
			switch k := rng.Intn(100); {
			case k < 30:
			case k < 65:
				acc2 = []string{"transfer"}
			case k < 78:
				acc2 = []string{"transfer", "force_transfer"}
			case k < 88:
				acc2 = []string{"force_transfer"}
			default:
				acc2 = mkraccGenAcc(rng, ty, "transfer", 30)
			}
		}
		setup := fmt.Sprintf("xsetup acc=%s st=%s ty=%s ft=%s src=%s grant=%s bal=%d", JoinOr(acc, "+"), st, ty, mkraccB01(ft), src, grant, bal)
		if rgrant != "-" || kgrant != "-" || krgrant != "-" || len(acc2) > 0 {
			setup += fmt.Sprintf(" rgrant=%s kgrant=%s krgrant=%s acc2=%s", rgrant, kgrant, krgrant, JoinOr(acc2, "+"))
		}
		emit(setup)
		out.Count("xfer:src=" + src)
		out.Count("xfer:grant=" + mkraccB01(grant != "-") + "/allow=" + mkraccB01(len(allow) > 0) + "/ft=" + mkraccB01(ft))
		out.Count(fmt.Sprintf("xfer:grants g=%s r=%s kg=%s kr=%s", mkraccB01(grant != "-"), mkraccB01(rgrant != "-"), mkraccB01(kgrant != "-"), mkraccB01(krgrant != "-")))
		steps := 1 + rng.Intn(5)
		left := map[string]int64{"C": limit, "K": klimit}
		okCount := map[string]int{}
		for s := 0; s < steps; s++ {
			by := "C"
			if (len(acc2) > 0 && rng.Chance(30)) || rng.Chance(4) {
				by = "K"
			}
			via := "msg"
			if rng.Chance(35) {
				via = "ibc"
			}
			byAcc, byGrant, byAllow := acc, grant, allow
			if by == "K" {
				byAcc, byGrant, byAllow = acc2, kgrant, kallow
			}
			// the limit amounts are chosen around: what is left of the grant this transfer should use,
			// sometimes what a grant of another pair would allow
			ref := left[by]
			if by == "C" && rlimit > 0 && (ref == 0 || rng.Chance(25)) {
				ref = rlimit
			}
			var amt int64
			switch k := rng.Intn(100); {
			case k < 15 && ref > 0:
				amt = ref
			case k < 25:
				amt = ref + 1
			case k < 33 && ref > 1:
				amt = ref - 1
			case k < 37:
				amt = 0
			case k < 40:
				amt = -int64(1 + rng.Intn(6)) // refused by ValidateBasic before anything is looked at
				out.Count("xfer:negative-amount")
			default:
				if ref > 1 {
					amt = 1 + int64(rng.Intn(int(ref)))/2
				} else {
					amt = 1 + int64(rng.Intn(6))
				}
			}
			to := Pick(rng, []string{"P1", "P2", "P3", "P1", "P2", "RD", "RN", "BL"})
			if len(byAllow) > 0 && rng.Chance(50) {
				to = Pick(rng, byAllow)
			} else if by == "C" && len(rallow) > 0 && rng.Chance(30) {
				to = Pick(rng, rallow)
			}
			op := fmt.Sprintf("xfer amt=%d to=%s", amt, to)
			if via != "msg" {
				op += " via=" + via
			}
			if by != "C" {
				op += " by=" + by
			}
			r := emit(op)
			cls := strings.Fields(r)[0]
			out.Count("xfer:res=" + cls)
			out.Count("xfer:via=" + via + "/by=" + by + "/" + resClass(cls))
			forced := via == "msg" && ft && contains(byAcc, "force_transfer")
			self := src == "self" && by == "C"
			others := rgrant != "-" || krgrant != "-" || (by == "C" && kgrant != "-") || (by == "K" && grant != "-")
			if cls == "ok" {
				if byGrant != "-" && !forced && !self {
					left[by] -= amt
					if okCount[by] > 0 {
						out.Count("xfer:ok-after-partial-use")
						if len(byAllow) > 0 && !contains(byAllow, to) {
							out.Count("xfer:ok-after-partial-use-offlist")
						}
					}
					okCount[by]++
					if others {
						out.Count("xfer:ok-under-grant-with-other-grants-present/via=" + via)
					}
				}
				if !self && forced {
					out.Count("xfer:forced-ok/src=" + src)
				}
			} else if !self && !forced && byGrant == "-" && cls == "err:noauthz" && others {
				out.Count("xfer:refused-no-grant-of-this-pair-though-others-exist/via=" + via)
			}
			if cls == "err:forcedfrom" {
				out.Count("xfer:forced-refused/src=" + src)
			}
		}
	}
}

var mkraccShards = flag.Int("mkracc-shards", 16, "number of shards the configuration sweep is split over")

// sweep enumerates the whole configuration space of the marker messages (operation × every
// subset of the rights valid for the marker type × manager × status × type × forced-transfer
// flag × governance signer × governance-control flag × the operation's own extra dimension)
// and of single transfers (rights × status × type × flag × source kind × grant shape ×
// grant in the other direction (administrator → source) × endpoint (MsgTransferRequest /
// MsgIbcTransferRequest) × recipient × amount class). Shard i of k takes the configurations with index ≡ i (mod k);
// the quick tier takes every fourth of those (which fourth depends on the seed), the thorough
// tier all of them. Returns the number of histories written.
func (e *mkraccEnv) sweep(out *Out, emit func(string) string) int {
	shards := *mkraccShards
	shard := int(*flagSeed%1000) % shards
	stride, offset := shards, shard
	if *flagTier != "thorough" {
		stride = shards * 4
		offset = shard + shards*int((*flagSeed/1000)%4)
	}
	idx, h := 0, 0
	take := func() bool {
		idx++
		// hashed index: the inner loops have power-of-two sizes, a plain modulus would alias with them
		z := uint64(idx) * 0x9E3779B97F4A7C15
		z = (z ^ (z >> 30)) * 0xBF58476D1CE4E5B9
		z = (z ^ (z >> 27)) * 0x94D049BB133111EB
		z ^= z >> 31
		return int(z%uint64(stride)) == offset
	}
	bools := []bool{false, true}
	for _, o := range mkraccOps {
		for _, st := range mkraccStatuses {
			for _, ty := range []string{"coin", "restricted"} {
				names := mkraccAccessNames
				if ty == "coin" {
					names = mkraccAccessNames[:6]
				}
				fts := []bool{false}
				if ty == "restricted" {
					fts = bools
				}
				govs, gcs := []bool{false}, []bool{true}
				if o.govable {
					govs, gcs = bools, bools
				}
				extras := []string{"ctl=0 dest=plain circ=0"}
				switch o.name {
				case "Withdraw":
					extras = []string{"ctl=0 dest=plain circ=0", "ctl=0 dest=rmkdep circ=0", "ctl=0 dest=rmknodep circ=0", "ctl=0 dest=blocked circ=0"}
				case "Cancel", "Delete":
					extras = []string{"ctl=0 dest=plain circ=0", "ctl=0 dest=plain circ=1"}
				case "AddAccess", "DeleteAccess":
					// whole-supply holder; then: record 0 / nothing exists; record 0 (floating, stale) / 9 exist
					// with others; stale record 5 = caller's 5 of 100; record = supply = caller's 7; caller holds 0 of 7
					extras = []string{"ctl=0 dest=plain circ=0", "ctl=1 dest=plain circ=0",
						"ctl=0 dest=plain circ=0 rec=0 cbal=0 sup=0 fixed=1", "ctl=0 dest=plain circ=0 rec=0 cbal=0 sup=9 fixed=0",
						"ctl=0 dest=plain circ=0 rec=5 cbal=5 sup=100 fixed=0", "ctl=0 dest=plain circ=0 rec=7 cbal=7 sup=7 fixed=1",
						"ctl=0 dest=plain circ=0 rec=7 cbal=0 sup=7 fixed=1"}
				}
				for mask := 0; mask < 1<<len(names); mask++ {
					for _, mgr := range bools {
						for _, ft := range fts {
							for _, gov := range govs {
								for _, gc := range gcs {
									for _, ex := range extras {
										if !take() {
											continue
										}
										var acc []string
										for i, nme := range names {
											if mask&(1<<i) != 0 {
												acc = append(acc, nme)
											}
										}
										out.Comment(fmt.Sprintf("history %d", h))
										h++
										r := emit(fmt.Sprintf("probe op=%s acc=%s mgr=%s gov=%s st=%s ty=%s ft=%s gc=%s %s",
											o.name, JoinOr(acc, "+"), mkraccB01(mgr), mkraccB01(gov), st, ty, mkraccB01(ft), mkraccB01(gc), ex))
										out.Count("sweep:probe")
										out.Count("sweep:probe:res=" + resClass(r))
									}
								}
							}
						}
					}
				}
			}
		}
	}
	// single transfers
	for _, acc := range []string{"-", "transfer", "force_transfer", "transfer+force_transfer", "deposit+withdraw+admin"} {
		for _, st := range mkraccStatuses {
			for _, ty := range []string{"coin", "restricted"} {
				if ty == "coin" && strings.Contains(acc, "transfer") {
					continue
				}
				fts := []bool{false}
				if ty == "restricted" {
					fts = bools
				}
				for _, ft := range fts {
					for _, src := range []string{"self", "user", "fresh", "module", "marker", "market", "absent"} {
						for _, grant := range []string{"-", "10mkrtok;-", "10mkrtok;P1", "10mkrtok;P2|RD"} {
							if grant != "-" && (src == "self" || src == "absent") {
								continue
							}
							// a grant in the other direction (administrator → source) and the ibc endpoint
							for _, rgrant := range []string{"-", "10mkrtok;-"} {
								if rgrant != "-" && (src == "self" || src == "absent") {
									continue
								}
								for _, via := range []string{"msg", "ibc"} {
									for _, to := range []string{"P1", "RD", "RN", "BL"} {
										for _, amt := range []int{0, 4, 10, 11, 25} {
											if via == "msg" {
												// rejected on status / type before anything else is looked at: one representative
												if (st != "active" || ty != "restricted") && (to != "P1" || amt != 4) {
													continue
												}
											} else {
												// the ibc endpoint does not look at the status: two representatives off active
												if ty != "restricted" && (to != "P1" || amt != 4) {
													continue
												}
												if st != "active" && (to != "P1" || (amt != 4 && amt != 11)) {
													continue
												}
											}
											if !take() {
												continue
											}
											bal := 20
											if src == "absent" {
												bal = 0
											}
											out.Comment(fmt.Sprintf("history %d", h))
											h++
											setup := fmt.Sprintf("xsetup acc=%s st=%s ty=%s ft=%s src=%s grant=%s bal=%d", acc, st, ty, mkraccB01(ft), src, grant, bal)
											if rgrant != "-" {
												setup += " rgrant=" + rgrant
											}
											emit(setup)
											op := fmt.Sprintf("xfer amt=%d to=%s", amt, to)
											if via != "msg" {
												op += " via=" + via
											}
											r := emit(op)
											out.Count("sweep:xfer")
											out.Count("sweep:xfer:via=" + via + "/rgrant=" + mkraccB01(rgrant != "-") + "/res=" + resClass(r))
										}
									}
								}
							}
						}
					}
				}
			}
		}
	}
	out.Count(fmt.Sprintf("sweep:space=%d", idx))
	return h
}

// mkraccGenScenario: a marker created by MsgAddFinalizeActivateMarker (often with supply 0, as
// markers that are minted later are), then 4-9 messages by the entitled account A and by
// accounts without any right.
func mkraccGenScenario(rng *RNG, out *Out, emit func(string) string, e *mkraccEnv) {
	e.sctxOK = false
	ty := "coin"
	if rng.Chance(40) {
		ty = "restricted"
	}
	valid := mkraccAccessNames
	if ty == "coin" {
		valid = mkraccAccessNames[:6]
	}
	amt := []int{0, 0, 0, 5, 100}[rng.Intn(5)]
	fixed := rng.Bool()
	acc := []string{"mint", "admin"}
	for _, a := range valid {
		if a != "mint" && a != "admin" && rng.Chance(50) {
			acc = append(acc, a)
		}
	}
	// 45%: the marker starts proposed under its manager A and goes through its life cycle
	pending := rng.Chance(45)
	stage := 2 // 0 proposed, 1 finalized, 2 active, 3 cancelled (as far as the generator knows)
	if pending {
		stage = 0
		emit(fmt.Sprintf("sprop amt=%d fixed=%s ty=%s acc=%s", amt, mkraccB01(fixed), ty, strings.Join(acc, "+")))
		out.Count(fmt.Sprintf("scn:propose amt=%d fixed=%s", amt, mkraccB01(fixed)))
	} else {
		emit(fmt.Sprintf("smk amt=%d fixed=%s ty=%s acc=%s", amt, mkraccB01(fixed), ty, strings.Join(acc, "+")))
		out.Count(fmt.Sprintf("scn:create amt=%d fixed=%s", amt, mkraccB01(fixed)))
	}
	actors := []string{"A", "B", "D", "E"}
	steps := 4 + rng.Intn(6)
	if pending {
		steps += 3
	}
	for i := 0; i < steps; i++ {
		by := Pick(rng, actors)
		var op string
		if (pending && stage < 2 && rng.Chance(32)) || rng.Chance(5) {
			// life-cycle message: mostly the next one, mostly by the manager
			next := []string{"sfin", "sact", "scan", "scan"}[stage]
			if rng.Chance(35) {
				next = Pick(rng, []string{"sfin", "sact", "scan"})
			}
			if pending && rng.Chance(65) {
				by = "A"
			}
			op = fmt.Sprintf("%s by=%s", next, by)
			r := emit(op)
			out.Count(fmt.Sprintf("scn:%s@stage%d/%s", next, stage, resClass(r)))
			if strings.HasPrefix(r, "ok") {
				switch {
				case strings.Contains(r, "st=finalized"):
					stage = 1
				case strings.Contains(r, "st=active"):
					stage = 2
					if by == "A" {
						out.Count("scn:activated-by-manager")
					}
				case strings.Contains(r, "st=cancelled"):
					stage = 3
				}
			}
			continue
		}
		switch k := rng.Intn(100); {
		case k < 35:
			var rs []string
			for _, a := range valid {
				if rng.Chance(35) {
					rs = append(rs, a)
				}
			}
			if len(rs) == 0 {
				rs = []string{Pick(rng, valid)}
			}
			to := Pick(rng, actors)
			if rng.Chance(50) {
				to = by
			}
			op = fmt.Sprintf("sadd by=%s to=%s rights=%s", by, to, strings.Join(rs, "+"))
		case k < 55:
			if rng.Chance(60) {
				by = "A"
			}
			op = fmt.Sprintf("smint by=%s amt=%d", by, 1+rng.Intn(20))
		case k < 75:
			if rng.Chance(50) {
				by = "A"
			}
			op = fmt.Sprintf("swd by=%s to=%s amt=%d", by, Pick(rng, actors), 1+rng.Intn(12))
		case k < 88:
			op = fmt.Sprintf("sburn by=%s amt=%d", by, 1+rng.Intn(8))
		default:
			op = fmt.Sprintf("sdel by=%s who=%s", by, Pick(rng, actors))
		}
		r := emit(op)
		out.Count("scn:" + strings.Fields(op)[0] + "/" + resClass(r))
		if pending {
			out.Count(fmt.Sprintf("scn:%s@stage%d/%s", strings.Fields(op)[0], stage, resClass(r)))
		}
		if strings.HasPrefix(op, "sadd") && by != "A" && strings.HasPrefix(r, "ok") {
			out.Count("scn:sadd-ok-by-other-than-creator")
		}
	}
}

func replayMkraccApp(t *testing.T, ops []string, out *Out) {
	e := mkraccSetup(t)
	e.xfrom = nil
	e.sctxOK = false
	for _, op := range ops {
		if strings.HasPrefix(op, "#") {
			if strings.HasPrefix(op, "# history") {
				e.xfrom = nil
				e.sctxOK = false
			}
			out.Comment(strings.TrimPrefix(op, "# "))
			continue
		}
		out.Emit(op, e.exec(op))
	}
}
