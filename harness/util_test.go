package harness

import (
	"fmt"
	"sort"
	"strings"

	sdk "github.com/cosmos/cosmos-sdk/types"
)

func sprint(v any) string { return fmt.Sprint(v) }

// CoinsStr renders coins in the line protocol: `12a,3b`, `-` when empty (sorted by denom).
func CoinsStr(cs sdk.Coins) string {
	if len(cs) == 0 {
		return "-"
	}
	parts := make([]string, 0, len(cs))
	for _, c := range cs {
		parts = append(parts, c.Amount.String()+c.Denom)
	}
	sort.Strings(parts)
	return strings.Join(parts, ",")
}

func JoinOr(xs []string, sep string) string {
	if len(xs) == 0 {
		return "-"
	}
	return strings.Join(xs, sep)
}

func minInt(a, b int) int {
	if a < b {
		return a
	}
	return b
}
