package harness

// Model "perm" (C11): privileged endpoints. Drives the REAL exchange MsgServer (permission
// guard of every market endpoint, order cancel, payment identity) and the app's real message
// router for every governance-only message of every module.

import (
	"fmt"
	"os"
	"reflect"
	"sort"
	"strings"
	"sync"
	"testing"

	sdkmath "cosmossdk.io/math"

	sdk "github.com/cosmos/cosmos-sdk/types"
	authtypes "github.com/cosmos/cosmos-sdk/x/auth/types"
	banktypes "github.com/cosmos/cosmos-sdk/x/bank/types"
	"github.com/cosmos/gogoproto/proto"

	"github.com/provenance-io/provenance/app"
	"github.com/provenance-io/provenance/x/exchange"
	attributekeeper "github.com/provenance-io/provenance/x/attribute/keeper"
	exchangekeeper "github.com/provenance-io/provenance/x/exchange/keeper"
	ibchookskeeper "github.com/provenance-io/provenance/x/ibchooks/keeper"
	ibcratelimitkeeper "github.com/provenance-io/provenance/x/ibcratelimit/keeper"
	markerkeeper "github.com/provenance-io/provenance/x/marker/keeper"
	markertypes "github.com/provenance-io/provenance/x/marker/types"
	metadatakeeper "github.com/provenance-io/provenance/x/metadata/keeper"
	msgfeeskeeper "github.com/provenance-io/provenance/x/msgfees/keeper"
	msgfeestypes "github.com/provenance-io/provenance/x/msgfees/types"
	namekeeper "github.com/provenance-io/provenance/x/name/keeper"
	oraclekeeper "github.com/provenance-io/provenance/x/oracle/keeper"
	triggerkeeper "github.com/provenance-io/provenance/x/trigger/keeper"
)

func init() {
	drivers["perm"] = drivePerm
	replayers["perm"] = replayPerm
}

var permNames = []string{"A", "B", "C", "D", "E"}

var permEndpoints = []string{"MarketSettle", "MarketCommitmentSettle", "MarketReleaseCommitments",
	"MarketSetOrderExternalID", "MarketWithdraw", "MarketUpdateDetails", "MarketUpdateAcceptingOrders",
	"MarketUpdateUserSettle", "MarketUpdateAcceptingCommitments", "MarketUpdateIntermediaryDenom", "MarketManageReqAttrs"}

var permEndpointsFor = map[string][]string{
	"settle": {"MarketSettle", "MarketCommitmentSettle"}, "cancel": {"MarketReleaseCommitments"},
	"set_ids": {"MarketSetOrderExternalID"}, "withdraw": {"MarketWithdraw"},
	"update":     {"MarketUpdateDetails", "MarketUpdateAcceptingOrders", "MarketUpdateUserSettle", "MarketUpdateAcceptingCommitments", "MarketUpdateIntermediaryDenom"},
	"attributes": {"MarketManageReqAttrs"},
}

var permPermNames = []string{"settle", "set_ids", "cancel", "withdraw", "update", "permissions", "attributes"}

type permEnv struct {
	t       *testing.T
	app     *app.App
	base    sdk.Context // markets + funded accounts, no permissions
	ctx     sdk.Context // current history
	addr    map[string]sdk.AccAddress
	name    map[string]string // bech32 -> symbolic
	srv     exchange.MsgServer
	orders  []uint64
	ordInfo map[uint64]string
	gov     []string // type URLs of gov-only msgs
	flip    bool
}

var (
	permOnce sync.Once
	permE    *permEnv
)

func permSetup(t *testing.T) *permEnv {
	permOnce.Do(func() {
		a, ctx := NewApp(t)
		e := &permEnv{t: t, app: a, addr: map[string]sdk.AccAddress{}, name: map[string]string{}}
		for _, n := range permNames {
			ad := sdk.AccAddress([]byte("verif_perm_account_" + n))
			e.addr[n] = ad
			e.name[ad.String()] = n
			acc := a.AccountKeeper.NewAccountWithAddress(ctx, ad)
			_ = acc.SetSequence(7)
			a.AccountKeeper.SetAccount(ctx, acc)
			coins := sdk.NewCoins(sdk.NewInt64Coin("nhash", 1_000_000_000), sdk.NewInt64Coin("apple", 1_000_000), sdk.NewInt64Coin("usdx", 1_000_000))
			if err := a.BankKeeper.MintCoins(ctx, "mint", coins); err != nil {
				// the mint module account may lack permission for arbitrary denoms in some configs
				t.Fatalf("mint: %v", err)
			}
			if err := a.BankKeeper.SendCoinsFromModuleToAccount(ctx, "mint", ad, coins); err != nil {
				t.Fatalf("fund: %v", err)
			}
		}
		authAddr, err := sdk.AccAddressFromBech32(a.ExchangeKeeper.GetAuthority())
		if err != nil {
			t.Fatal(err)
		}
		e.addr["GOV"] = authAddr
		e.name[authAddr.String()] = "GOV"
		for _, id := range []uint32{1, 2} {
			_, err := a.ExchangeKeeper.CreateMarket(ctx, exchange.Market{
				MarketId: id, MarketDetails: exchange.MarketDetails{Name: fmt.Sprintf("market %d", id)},
				AcceptingOrders: true, AllowUserSettlement: true, AcceptingCommitments: true,
				IntermediaryDenom: "usdx",
			})
			if err != nil {
				t.Fatalf("create market: %v", err)
			}
			maddr := exchange.GetMarketAddress(id)
			coins := sdk.NewCoins(sdk.NewInt64Coin("nhash", 1_000_000))
			if err := a.BankKeeper.MintCoins(ctx, "mint", coins); err != nil {
				t.Fatal(err)
			}
			if err := a.BankKeeper.SendCoinsFromModuleToAccount(ctx, "mint", maddr, coins); err != nil {
				t.Fatal(err)
			}
		}
		// standings other than market permissions (static): A administers the restricted marker
		// permrc, B the coin marker permuc (every access type the marker type allows, governance
		// enabled, active, supply in escrow), C owns the root name permc, D is the oracle address,
		// E holds nothing; one msg fee exists so that update/remove have something to act on.
		for _, mk := range []struct {
			denom, adm string
			typ        markertypes.MarkerType
			acc        markertypes.AccessList
		}{
			{permDenomR, "A", markertypes.MarkerType_RestrictedCoin, markertypes.AccessList{markertypes.Access_Mint, markertypes.Access_Burn,
				markertypes.Access_Deposit, markertypes.Access_Withdraw, markertypes.Access_Delete, markertypes.Access_Admin, markertypes.Access_Transfer}},
			{permDenomU, "B", markertypes.MarkerType_Coin, markertypes.AccessList{markertypes.Access_Mint, markertypes.Access_Burn,
				markertypes.Access_Deposit, markertypes.Access_Withdraw, markertypes.Access_Delete, markertypes.Access_Admin}},
		} {
			m := markertypes.NewMarkerAccount(authtypes.NewBaseAccountWithAddress(markertypes.MustGetMarkerAddress(mk.denom)),
				sdk.NewInt64Coin(mk.denom, 1000), e.addr[mk.adm],
				[]markertypes.AccessGrant{{Address: e.addr[mk.adm].String(), Permissions: mk.acc}},
				markertypes.StatusProposed, mk.typ, false, true, false, nil)
			if err := a.MarkerKeeper.AddFinalizeAndActivateMarker(ctx, m); err != nil {
				t.Fatalf("marker %s: %v", mk.denom, err)
			}
		}
		if err := a.NameKeeper.SetNameRecord(ctx, permRootC, e.addr["C"], true); err != nil {
			t.Fatalf("name: %v", err)
		}
		a.OracleKeeper.SetOracle(ctx, e.addr["D"])
		if err := a.MsgFeesKeeper.SetMsgFee(ctx, msgfeestypes.NewMsgFee(permFeeURLSet, sdk.NewInt64Coin("nhash", 5), "", 0)); err != nil {
			t.Fatalf("msgfee: %v", err)
		}
		e.base = ctx
		e.srv = exchangekeeper.NewMsgServer(a.ExchangeKeeper)
		e.gov = permGovMsgs(a)
		permE = e
	})
	permE.t = t
	return permE
}

// permGovMsgs lists every registered Msg of the provenance modules (and the forked sanction
// module) that has an `Authority` field, minus the documented non-governance exceptions —
// the same classification the Lean side proves over the regenerated handler facts.
func permGovMsgs(a *app.App) []string {
	exceptions := map[string]bool{
		"/provenance.marker.v1.MsgUpdateSendDenyListRequest": true,
		"/provenance.name.v1.MsgModifyNameRequest":            true,
		"/provenance.oracle.v1.MsgSendQueryOracleRequest":     true,
		"/provenance.trigger.v1.MsgDestroyTriggerRequest":     true,
	}
	var res []string
	for _, url := range a.InterfaceRegistry().ListImplementations(sdk.MsgInterfaceProtoName) {
		if !(strings.HasPrefix(url, "/provenance.") || strings.HasPrefix(url, "/cosmos.sanction.") || strings.HasPrefix(url, "/cosmos.quarantine.")) {
			continue
		}
		if exceptions[url] {
			continue
		}
		msg, err := a.InterfaceRegistry().Resolve(url)
		if err != nil {
			continue
		}
		v := reflect.ValueOf(msg)
		if v.Kind() == reflect.Ptr {
			v = v.Elem()
		}
		f := v.FieldByName("Authority")
		if !f.IsValid() || f.Kind() != reflect.String {
			continue
		}
		res = append(res, url)
	}
	sort.Strings(res)
	return res
}

func permGovName(url string) string {
	// "/provenance.marker.v1.MsgX" -> "marker.MsgX" ; "/cosmos.sanction.v1beta1.MsgSanction" -> "sanction.MsgSanction"
	p := strings.Split(strings.TrimPrefix(url, "/"), ".")
	if len(p) < 4 {
		return url
	}
	return p[1] + "." + p[len(p)-1]
}

// Spellings of an address text: "A" = the usual lower-case bech32 text of account A, "A^" the
// all-upper-case text of the same bytes (accepted by sdk.AccAddressFromBech32 and by the signing
// context), "A~" a mixed-case text of the same letters (EqualFold-equal, not valid bech32: no
// transaction can be signed under it; only the direct guard probe `hasperm` uses it).
func permBase(sym string) string { return strings.TrimRight(sym, "^~") }

// T is the text a symbolic name stands for.
func (e *permEnv) T(sym string) string {
	ad, ok := e.addr[permBase(sym)]
	if !ok {
		return sym // not an account at all: passed to the guard as it is
	}
	switch {
	case strings.HasSuffix(sym, "^"):
		return strings.ToUpper(ad.String())
	case strings.HasSuffix(sym, "~"):
		t := ad.String()
		return strings.ToUpper(t[:2]) + t[2:]
	}
	return ad.String()
}

// permSpell spells a name in upper case now and then.
func permSpell(rng *RNG, n string, pct int) string {
	if n != "-" && rng.Chance(pct) {
		return n + "^"
	}
	return n
}

func (e *permEnv) sym(bech string) string {
	if bech == "" {
		return "-"
	}
	if n, ok := e.name[bech]; ok {
		return n
	}
	if n, ok := e.name[strings.ToLower(bech)]; ok {
		if bech == strings.ToUpper(bech) {
			return n + "^"
		}
		return n + "~"
	}
	return "?"
}

func (e *permEnv) newHistory() {
	e.ctx, _ = e.base.CacheContext()
	e.orders = nil
	e.ordInfo = map[uint64]string{}
}

func permClass(err error) string {
	if err == nil {
		return "ok"
	}
	m := err.Error()
	switch {
	case strings.Contains(m, "does not have permission to"):
		return "err:perm"
	case strings.Contains(m, "cannot reject payment with target"), strings.Contains(m, "does not equal existing target"):
		return "err:perm"
	case strings.Contains(m, "does not exist"), strings.Contains(m, "no payment found"), strings.Contains(m, "not found"):
		return "err:notfound"
	case strings.Contains(m, "already exists"), strings.Contains(m, "a payment already exists"):
		return "err:exists"
	default:
		return "err:invalid"
	}
}

func (e *permEnv) parseGrants(s string) []exchange.AccessGrant {
	if s == "-" || s == "" {
		return nil
	}
	var res []exchange.AccessGrant
	for _, ent := range strings.Split(s, "|") {
		p := strings.SplitN(ent, ":", 2)
		ag := exchange.AccessGrant{Address: e.T(p[0])}
		for _, pn := range strings.Split(p[1], "+") {
			ag.Permissions = append(ag.Permissions, exchange.Permission(exchange.Permission_value["PERMISSION_"+strings.ToUpper(pn)]))
		}
		res = append(res, ag)
	}
	return res
}

func (e *permEnv) signerOK(msg sdk.Msg, want string) bool {
	signers, _, err := e.app.AppCodec().GetMsgV1Signers(msg)
	if err != nil || len(signers) != 1 {
		return false
	}
	return sdk.AccAddress(signers[0]).Equals(e.addr[permBase(want)])
}

func (e *permEnv) dump() string {
	var gs []string
	for _, m := range []uint32{1, 2} {
		for _, ag := range e.app.ExchangeKeeper.GetAccessGrants(e.ctx, m) {
			for _, p := range ag.Permissions {
				gs = append(gs, fmt.Sprintf("%d:%s:%s", m, e.sym(ag.Address), p.SimpleString()))
			}
		}
	}
	sort.Strings(gs)
	var os []string
	for _, id := range e.orders {
		o, err := e.app.ExchangeKeeper.GetOrder(e.ctx, id)
		if err == nil && o != nil {
			os = append(os, fmt.Sprintf("%d:%d:%s:%s", id, o.GetMarketID(), e.sym(o.GetOwner()), JoinOr(strings.Fields(o.GetExternalID()), "")))
		}
	}
	var ps []string
	e.app.ExchangeKeeper.IteratePayments(e.ctx, func(p *exchange.Payment) bool {
		ps = append(ps, fmt.Sprintf("%s:%s:%s", e.sym(p.Source), p.ExternalId, e.sym(p.Target)))
		return false
	})
	sort.Strings(ps)
	return "grants=" + JoinOr(gs, ",") + " orders=" + JoinOr(os, ",") + " payments=" + JoinOr(ps, ",") + " commits=" + JoinOr(e.committed(0), ",")
}

// committed lists the (market:account) pairs with funds committed (market 0 = both markets), sorted.
func (e *permEnv) committed(only uint32) []string {
	var cs []string
	for _, m := range []uint32{1, 2} {
		if only != 0 && m != only {
			continue
		}
		for _, n := range permNames {
			if !e.app.ExchangeKeeper.GetCommitmentAmount(e.ctx, m, e.addr[n]).IsZero() {
				cs = append(cs, fmt.Sprintf("%d:%s", m, n))
			}
		}
	}
	sort.Strings(cs)
	return cs
}

// exec runs one op line against the real code and returns the canonical impl output.
func (e *permEnv) exec(op string) string {
	ws := strings.Fields(op)
	k := e.app.ExchangeKeeper
	run := func(msg sdk.Msg, signer string, f func(ctx sdk.Context) error) string {
		if !e.signerOK(msg, signer) {
			return "err:signer-mismatch"
		}
		err, pan := Try(e.ctx, f)
		if pan != "" {
			return "panic:" + pan
		}
		return permClass(err)
	}
	switch ws[0] {
	case "dump":
		return e.dump()
	case "perms":
		admin := kvArg(ws, "admin")
		var m uint32
		fmt.Sscan(kvArg(ws, "m"), &m)
		msg := &exchange.MsgMarketManagePermissionsRequest{Admin: e.T(admin), MarketId: m,
			ToRevoke: e.parseGrants(kvArg(ws, "revoke")), ToGrant: e.parseGrants(kvArg(ws, "grant"))}
		if ra := kvArg(ws, "revokeall"); ra != "-" && ra != "" {
			for _, n := range strings.Split(ra, "|") {
				msg.RevokeAll = append(msg.RevokeAll, e.T(n))
			}
		}
		return run(msg, admin, func(ctx sdk.Context) error { _, err := e.srv.MarketManagePermissions(ctx, msg); return err })
	case "call":
		var m uint32
		fmt.Sscan(ws[2], &m)
		caller := ws[3]
		admin := e.T(caller)
		a := e.addr["A"].String()
		var msg sdk.Msg
		var f func(ctx sdk.Context) error
		switch ws[1] {
		case "MarketSettle":
			mm := &exchange.MsgMarketSettleRequest{Admin: admin, MarketId: m, AskOrderIds: []uint64{900001}, BidOrderIds: []uint64{900002}}
			msg, f = mm, func(ctx sdk.Context) error { _, err := e.srv.MarketSettle(ctx, mm); return err }
		case "MarketCommitmentSettle":
			amt := sdk.NewCoins(sdk.NewInt64Coin("apple", 1))
			mm := &exchange.MsgMarketCommitmentSettleRequest{Admin: admin, MarketId: m,
				Inputs: []exchange.AccountAmount{{Account: a, Amount: amt}}, Outputs: []exchange.AccountAmount{{Account: a, Amount: amt}}}
			msg, f = mm, func(ctx sdk.Context) error { _, err := e.srv.MarketCommitmentSettle(ctx, mm); return err }
		case "MarketReleaseCommitments":
			// guard probe only (names an account that never commits); releases of real commitments are `release` ops
			mm := &exchange.MsgMarketReleaseCommitmentsRequest{Admin: admin, MarketId: m, ToRelease: []exchange.AccountAmount{{Account: e.addr["GOV"].String()}}}
			msg, f = mm, func(ctx sdk.Context) error { _, err := e.srv.MarketReleaseCommitments(ctx, mm); return err }
		case "MarketSetOrderExternalID":
			oid := uint64(900003) // guard probe only; requests naming a real order are `setid` ops
			e.flip = !e.flip
			mm := &exchange.MsgMarketSetOrderExternalIDRequest{Admin: admin, MarketId: m, OrderId: oid, ExternalId: fmt.Sprintf("ext-%v-%d", e.flip, oid)}
			msg, f = mm, func(ctx sdk.Context) error { _, err := e.srv.MarketSetOrderExternalID(ctx, mm); return err }
		case "MarketWithdraw":
			mm := &exchange.MsgMarketWithdrawRequest{Admin: admin, MarketId: m, ToAddress: a, Amount: sdk.NewCoins(sdk.NewInt64Coin("nhash", 1))}
			msg, f = mm, func(ctx sdk.Context) error { _, err := e.srv.MarketWithdraw(ctx, mm); return err }
		case "MarketUpdateDetails":
			e.flip = !e.flip
			mm := &exchange.MsgMarketUpdateDetailsRequest{Admin: admin, MarketId: m, MarketDetails: exchange.MarketDetails{Name: fmt.Sprintf("renamed %v", e.flip)}}
			msg, f = mm, func(ctx sdk.Context) error { _, err := e.srv.MarketUpdateDetails(ctx, mm); return err }
		case "MarketUpdateAcceptingOrders":
			mm := &exchange.MsgMarketUpdateAcceptingOrdersRequest{Admin: admin, MarketId: m, AcceptingOrders: !k.IsMarketAcceptingOrders(e.ctx, m)}
			msg, f = mm, func(ctx sdk.Context) error {
				if _, err := e.srv.MarketUpdateAcceptingOrders(ctx, mm); err != nil {
					return err
				}
				// restore so later order creations still work
				mm2 := *mm
				mm2.AcceptingOrders = !mm.AcceptingOrders
				_, err := e.srv.MarketUpdateAcceptingOrders(ctx, &mm2)
				return err
			}
		case "MarketUpdateUserSettle":
			mm := &exchange.MsgMarketUpdateUserSettleRequest{Admin: admin, MarketId: m, AllowUserSettlement: !k.IsUserSettlementAllowed(e.ctx, m)}
			msg, f = mm, func(ctx sdk.Context) error { _, err := e.srv.MarketUpdateUserSettle(ctx, mm); return err }
		case "MarketUpdateAcceptingCommitments":
			mm := &exchange.MsgMarketUpdateAcceptingCommitmentsRequest{Admin: admin, MarketId: m, AcceptingCommitments: !k.IsMarketAcceptingCommitments(e.ctx, m)}
			msg, f = mm, func(ctx sdk.Context) error { _, err := e.srv.MarketUpdateAcceptingCommitments(ctx, mm); return err }
		case "MarketUpdateIntermediaryDenom":
			e.flip = !e.flip
			d := "usdx"
			if e.flip {
				d = "usdy"
			}
			mm := &exchange.MsgMarketUpdateIntermediaryDenomRequest{Admin: admin, MarketId: m, IntermediaryDenom: d}
			msg, f = mm, func(ctx sdk.Context) error { _, err := e.srv.MarketUpdateIntermediaryDenom(ctx, mm); return err }
		case "MarketManageReqAttrs":
			e.flip = !e.flip
			mm := &exchange.MsgMarketManageReqAttrsRequest{Admin: admin, MarketId: m}
			cur := k.GetReqAttrsCommitment(e.ctx, m)
			if len(cur) > 0 {
				mm.CreateCommitmentToRemove = cur[:1]
			} else {
				mm.CreateCommitmentToAdd = []string{"verif.attr"}
			}
			msg, f = mm, func(ctx sdk.Context) error { _, err := e.srv.MarketManageReqAttrs(ctx, mm); return err }
		default:
			return "bad-op"
		}
		r := run(msg, caller, f)
		if r == "err:perm" || strings.HasPrefix(r, "err:signer") || strings.HasPrefix(r, "panic") {
			return r
		}
		return "pass #" + r
	case "hasperm": // the guard itself, called directly with the text as it is
		if len(ws) != 4 {
			return "bad-op"
		}
		var m uint32
		fmt.Sscan(ws[1], &m)
		perm := exchange.Permission(exchange.Permission_value["PERMISSION_"+strings.ToUpper(ws[3])])
		return Guard(func() string { return fmt.Sprint(k.HasPermission(e.ctx, m, e.T(ws[2]), perm)) })
	case "mkorder": // harness-only: creates a real order, then tells the model via an `order` line (see drive)
		return "bad-op"
	case "cancel":
		var id uint64
		fmt.Sscan(ws[1], &id)
		msg := &exchange.MsgCancelOrderRequest{Signer: e.T(ws[2]), OrderId: id}
		return run(msg, ws[2], func(ctx sdk.Context) error { _, err := e.srv.CancelOrder(ctx, msg); return err })
	case "pay":
		p := exchange.Payment{Source: e.addr[ws[1]].String(), SourceAmount: sdk.NewCoins(sdk.NewInt64Coin("usdx", 5)), ExternalId: ws[2]}
		if ws[3] != "-" {
			p.Target = e.addr[ws[3]].String()
		}
		msg := &exchange.MsgCreatePaymentRequest{Payment: p}
		return run(msg, ws[1], func(ctx sdk.Context) error { _, err := e.srv.CreatePayment(ctx, msg); return err })
	case "accept":
		// the signer is payment.target: an account X can only ever submit an accept with target X
		p := exchange.Payment{Source: e.addr[ws[1]].String(), SourceAmount: sdk.NewCoins(sdk.NewInt64Coin("usdx", 5)), ExternalId: ws[2], Target: e.addr[ws[3]].String()}
		msg := &exchange.MsgAcceptPaymentRequest{Payment: p}
		return run(msg, ws[3], func(ctx sdk.Context) error { _, err := e.srv.AcceptPayment(ctx, msg); return err })
	case "reject":
		msg := &exchange.MsgRejectPaymentRequest{Target: e.addr[ws[3]].String(), Source: e.addr[ws[1]].String(), ExternalId: ws[2]}
		return run(msg, ws[3], func(ctx sdk.Context) error { _, err := e.srv.RejectPayment(ctx, msg); return err })
	case "cancelpay":
		msg := &exchange.MsgCancelPaymentsRequest{Source: e.addr[ws[1]].String(), ExternalIds: []string{ws[2]}}
		return run(msg, ws[1], func(ctx sdk.Context) error { _, err := e.srv.CancelPayments(ctx, msg); return err })
	case "retarget":
		msg := &exchange.MsgChangePaymentTargetRequest{Source: e.addr[ws[1]].String(), ExternalId: ws[2]}
		if ws[3] != "-" {
			msg.NewTarget = e.addr[ws[3]].String()
		}
		return run(msg, ws[1], func(ctx sdk.Context) error { _, err := e.srv.ChangePaymentTarget(ctx, msg); return err })
	case "gov":
		if len(ws) < 3 {
			return "bad-op"
		}
		return e.execGov(ws)
	case "setid": // setid <market named in the request> <order id> <caller> <external id>
		if len(ws) != 5 {
			return "bad-op"
		}
		var m uint32
		var id uint64
		fmt.Sscan(ws[1], &m)
		fmt.Sscan(ws[2], &id)
		ext := ws[4]
		if ext == "-" {
			ext = ""
		}
		msg := &exchange.MsgMarketSetOrderExternalIDRequest{Admin: e.T(ws[3]), MarketId: m, OrderId: id, ExternalId: ext}
		return run(msg, ws[3], func(ctx sdk.Context) error { _, err := e.srv.MarketSetOrderExternalID(ctx, msg); return err })
	case "settle": // settle <market named> <ask id> <bid id> <caller>: a probe, never written
		if len(ws) != 5 {
			return "bad-op"
		}
		var m uint32
		var ask, bid uint64
		fmt.Sscan(ws[1], &m)
		fmt.Sscan(ws[2], &ask)
		fmt.Sscan(ws[3], &bid)
		msg := &exchange.MsgMarketSettleRequest{Admin: e.T(ws[4]), MarketId: m, AskOrderIds: []uint64{ask}, BidOrderIds: []uint64{bid}}
		if !e.signerOK(msg, ws[4]) {
			return "err:signer-mismatch"
		}
		var herr error
		_, pan := Try(e.ctx, func(ctx sdk.Context) error {
			_, herr = e.srv.MarketSettle(ctx, msg)
			return fmt.Errorf("never write settle probes")
		})
		if pan != "" {
			return "panic:" + pan
		}
		if r := permClass(herr); r == "err:perm" {
			return r
		} else {
			return "pass #" + r
		}
	case "commit": // commit <market> <account>: the account commits funds of its own
		if len(ws) != 3 {
			return "bad-op"
		}
		var m uint32
		fmt.Sscan(ws[1], &m)
		if _, ok := e.addr[ws[2]]; !ok {
			return "bad-op"
		}
		return permClass(e.commit(m, ws[2]))
	case "release": // release <market> <caller> <account|account…>: everything those accounts committed
		if len(ws) != 4 {
			return "bad-op"
		}
		var m uint32
		fmt.Sscan(ws[1], &m)
		msg := &exchange.MsgMarketReleaseCommitmentsRequest{Admin: e.T(ws[2]), MarketId: m}
		for _, n := range strings.Split(ws[3], "|") {
			ad, ok := e.addr[n]
			if !ok {
				return "bad-op"
			}
			msg.ToRelease = append(msg.ToRelease, exchange.AccountAmount{Account: ad.String()})
		}
		return run(msg, ws[2], func(ctx sdk.Context) error { _, err := e.srv.MarketReleaseCommitments(ctx, msg); return err })
	case "order":
		// replay of an `order` line: create an equivalent real order (ids may differ in replays of
		// hand-written files; generated files carry the id the chain assigned)
		var m uint32
		fmt.Sscan(ws[2], &m)
		kind := "ask"
		if len(ws) > 4 {
			kind = ws[4]
		}
		id, err := e.createOrder(m, ws[3], kind)
		if err != nil {
			return "err:invalid"
		}
		if fmt.Sprint(id) != ws[1] {
			return fmt.Sprintf("err:order-id-%d", id)
		}
		return "ok"
	}
	return "bad-op"
}

// commit has an account commit two apples to a market (MsgCommitFundsRequest through the msg server).
func (e *permEnv) commit(m uint32, acct string) error {
	msg := &exchange.MsgCommitFundsRequest{Account: e.addr[acct].String(), MarketId: m, Amount: sdk.NewCoins(sdk.NewInt64Coin("apple", 2))}
	if !e.signerOK(msg, acct) {
		return fmt.Errorf("signer mismatch")
	}
	err, pan := Try(e.ctx, func(ctx sdk.Context) error { _, err := e.srv.CommitFunds(ctx, msg); return err })
	if pan != "" {
		return fmt.Errorf("panic %s", pan)
	}
	return err
}

func (e *permEnv) createOrder(m uint32, owner, kind string) (uint64, error) {
	var id uint64
	err, pan := Try(e.ctx, func(ctx sdk.Context) error {
		if kind == "bid" {
			resp, err := e.srv.CreateBid(ctx, &exchange.MsgCreateBidRequest{BidOrder: exchange.BidOrder{
				MarketId: m, Buyer: e.T(owner), Assets: sdk.NewInt64Coin("apple", 3), Price: sdk.NewInt64Coin("usdx", 7)}})
			if err == nil {
				id = resp.OrderId
			}
			return err
		}
		resp, err := e.srv.CreateAsk(ctx, &exchange.MsgCreateAskRequest{AskOrder: exchange.AskOrder{
			MarketId: m, Seller: e.T(owner), Assets: sdk.NewInt64Coin("apple", 3), Price: sdk.NewInt64Coin("usdx", 7)}})
		if err == nil {
			id = resp.OrderId
		}
		return err
	})
	if pan != "" {
		return 0, fmt.Errorf("panic %s", pan)
	}
	if err == nil {
		e.orders = append(e.orders, id)
		e.ordInfo[id] = kind
	}
	return id, err
}

// permServers returns each module's real msg server, keyed by module name.
func (e *permEnv) permServers() map[string]any {
	a := e.app
	return map[string]any{
		"attribute":    attributekeeper.NewMsgServerImpl(a.AttributeKeeper),
		"exchange":     e.srv,
		"ibchooks":     ibchookskeeper.NewMsgServerImpl(*a.IBCHooksKeeper),
		"ibcratelimit": ibcratelimitkeeper.NewMsgServer(*a.RateLimitingKeeper),
		"marker":       markerkeeper.NewMsgServerImpl(a.MarkerKeeper),
		"metadata":     metadatakeeper.NewMsgServerImpl(a.MetadataKeeper),
		"msgfees":      msgfeeskeeper.NewMsgServerImpl(a.MsgFeesKeeper),
		"name":         namekeeper.NewMsgServerImpl(a.NameKeeper),
		"oracle":       oraclekeeper.NewMsgServerImpl(&a.OracleKeeper),
		"sanction":     a.SanctionKeeper,
		"trigger":      triggerkeeper.NewMsgServerImpl(a.TriggerKeeper),
	}
}

const (
	permDenomR     = "permrc" // restricted marker, account A holds every access
	permDenomU     = "permuc" // coin marker, account B holds every access
	permRootC      = "permc"  // root name bound to account C
	permFeeURLSet  = "/provenance.name.v1.MsgBindNameRequest"   // has a msg fee in the fixture
	permFeeURLFree = "/provenance.name.v1.MsgDeleteNameRequest" // has none
)

// permGovPayload is what a governance-only message is populated with besides its Authority:
// the market its market-id fields name, the account every address-typed field names (the
// message's "subject": record address, target/recipient address, new administrator, new
// oracle, sanctioned address, market access-grant holder …), the denom its denom/coin fields
// name, and the kind of name a name record carries.
type permGovPayload struct {
	bare   bool // only Authority is set (old op lines)
	caller string
	m      uint32
	subj   string
	denom  string
	nm     string // root | kid
}

var (
	permCoinT  = reflect.TypeOf(sdk.Coin{})
	permIntT   = reflect.TypeOf(sdkmath.Int{})
	permAddrRe = []string{"Address", "Recipient", "Administrator", "Account", "Owner", "Manager", "Contract", "Admin", "Seller", "Buyer", "Source", "Target"}
)

func permAddrLike(field string) bool {
	if strings.Contains(field, "BasisPoints") {
		return false
	}
	for _, w := range permAddrRe {
		if strings.Contains(field, w) {
			return true
		}
	}
	return false
}

// permFill populates every still-empty field of a message generically (by field name/type), so
// that message types added later get a subject-bearing payload too.
func (e *permEnv) permFill(v reflect.Value, p permGovPayload, depth int) {
	if depth > 6 {
		return
	}
	switch v.Kind() {
	case reflect.Ptr:
		if v.IsNil() {
			if !v.CanSet() || v.Type().Elem().Kind() != reflect.Struct {
				return
			}
			v.Set(reflect.New(v.Type().Elem()))
		}
		e.permFill(v.Elem(), p, depth+1)
	case reflect.Struct:
		if v.Type() == permCoinT {
			if v.CanSet() && v.Field(0).String() == "" {
				v.Set(reflect.ValueOf(sdk.NewInt64Coin(p.denom, 1)))
			}
			return
		}
		if v.Type() == permIntT {
			if v.CanSet() && v.Interface().(sdkmath.Int).IsNil() {
				v.Set(reflect.ValueOf(sdkmath.NewInt(1)))
			}
			return
		}
		for i := 0; i < v.NumField(); i++ {
			f, name := v.Field(i), v.Type().Field(i).Name
			if !f.CanSet() {
				continue
			}
			switch f.Kind() {
			case reflect.String:
				if f.String() != "" {
					continue
				}
				switch {
				case name == "Authority":
					f.SetString(e.T(p.caller))
				case permAddrLike(name):
					f.SetString(e.addr[p.subj].String())
				case strings.HasSuffix(name, "Denom") || name == "Base" || name == "Display":
					f.SetString(p.denom)
				case name == "MsgTypeUrl":
					f.SetString(permFeeURLSet)
				case strings.Contains(name, "BasisPoints"):
					f.SetString("5000")
				}
			case reflect.Uint32:
				if name == "MarketId" && f.Uint() == 0 {
					f.SetUint(uint64(p.m))
				}
			case reflect.Slice:
				if f.Len() > 0 {
					continue
				}
				et := f.Type().Elem()
				switch {
				case et.Kind() == reflect.String && permAddrLike(name):
					f.Set(reflect.Append(f, reflect.ValueOf(e.addr[p.subj].String()).Convert(et)))
				case et.Kind() == reflect.Struct || (et.Kind() == reflect.Ptr && et.Elem().Kind() == reflect.Struct):
					if strings.HasPrefix(name, "Remove") || strings.HasPrefix(name, "Unset") {
						continue // removing what is not there is an ordinary error; keep the request acceptable
					}
					el := reflect.New(et).Elem()
					e.permFill(el, p, depth+1)
					f.Set(reflect.Append(f, el))
				case et.Kind() == reflect.Int32 && name == "Permissions":
					f.Set(reflect.Append(f, reflect.ValueOf(int32(1)).Convert(et)))
				}
			case reflect.Struct, reflect.Ptr:
				e.permFill(f, p, depth+1)
			}
		}
	}
}

// permGovMsg builds the message for a `gov` op.
func (e *permEnv) permGovMsg(url, name string, p permGovPayload) (sdk.Msg, string) {
	msg, err := e.app.InterfaceRegistry().Resolve(url)
	if err != nil {
		return nil, "bad-op"
	}
	mv := reflect.ValueOf(msg).Elem()
	mv.FieldByName("Authority").SetString(e.T(p.caller))
	if p.bare {
		return msg, ""
	}
	mod := strings.SplitN(name, ".", 2)[0]
	// a Params field starts from the module's current params (so an authority's request is acceptable)
	if pf := mv.FieldByName("Params"); pf.IsValid() {
		if kp, ok := e.permKeepers()[mod]; ok {
			if gm := reflect.ValueOf(kp).MethodByName("GetParams"); gm.IsValid() && gm.Type().NumIn() == 1 {
				func() {
					defer func() { _ = recover() }()
					out := gm.Call([]reflect.Value{reflect.ValueOf(e.ctx)})
					cur := out[0]
					switch {
					case cur.Type() == pf.Type():
						pf.Set(cur)
					case cur.Kind() == reflect.Ptr && !cur.IsNil() && cur.Type().Elem() == pf.Type():
						pf.Set(cur.Elem())
					case pf.Kind() == reflect.Ptr && pf.Type().Elem() == cur.Type():
						n := reflect.New(cur.Type())
						n.Elem().Set(cur)
						pf.Set(n)
					}
				}()
			}
		}
	}
	set := func(path string, val any) {
		f := mv
		for _, n := range strings.Split(path, ".") {
			if f.Kind() == reflect.Ptr {
				if f.IsNil() {
					f.Set(reflect.New(f.Type().Elem()))
				}
				f = f.Elem()
			}
			f = f.FieldByName(n)
			if !f.IsValid() {
				return
			}
		}
		f.Set(reflect.ValueOf(val).Convert(f.Type()))
	}
	// the few fields whose acceptable values cannot be guessed from name and type
	switch name {
	case "name.MsgCreateRootNameRequest":
		nm := "vroot" + strings.ToLower(p.subj)
		if p.nm == "kid" {
			nm = "kid" + strings.ToLower(p.subj) + "." + permRootC
		}
		set("Record.Name", nm)
		set("Record.Restricted", p.m%2 == 0)
	case "marker.MsgChangeStatusProposalRequest":
		set("NewStatus", int32(markertypes.StatusCancelled))
	case "marker.MsgSetAdministratorProposalRequest":
		set("Access", []markertypes.AccessGrant{{Address: e.addr[p.subj].String(),
			Permissions: markertypes.AccessList{markertypes.Access_Admin, markertypes.Access_Mint, markertypes.Access_Burn, markertypes.Access_Withdraw}}})
	case "marker.MsgUpdateForcedTransferRequest":
		set("AllowForcedTransfer", true)
	case "msgfees.MsgAddMsgFeeProposalRequest":
		set("MsgTypeUrl", permFeeURLFree)
		set("AdditionalFee", sdk.NewInt64Coin("nhash", 7))
	case "msgfees.MsgUpdateMsgFeeProposalRequest":
		set("AdditionalFee", sdk.NewInt64Coin("nhash", 7))
	case "msgfees.MsgUpdateNhashPerUsdMilProposalRequest":
		set("NhashPerUsdMil", uint64(1234))
	case "exchange.MsgGovCreateMarketRequest":
		id := uint32(0) // next free id
		if p.m > 2 {
			id = p.m
		}
		set("Market", exchange.Market{MarketId: id, MarketDetails: exchange.MarketDetails{Name: "verif gov market"},
			AcceptingOrders: true, AllowUserSettlement: true,
			AccessGrants: []exchange.AccessGrant{{Address: e.addr[p.subj].String(), Permissions: exchange.AllPermissions()}}})
	}
	e.permFill(reflect.ValueOf(msg), p, 0)
	if name == "exchange.MsgGovCreateMarketRequest" && p.m <= 2 {
		set("Market.MarketId", uint32(0)) // an existing market cannot be created again: take the next free id
	}
	return msg, ""
}

func (e *permEnv) permKeepers() map[string]any {
	a := e.app
	return map[string]any{
		"attribute": a.AttributeKeeper, "exchange": a.ExchangeKeeper, "ibchooks": *a.IBCHooksKeeper,
		"ibcratelimit": *a.RateLimitingKeeper, "marker": a.MarkerKeeper, "msgfees": a.MsgFeesKeeper,
		"name": a.NameKeeper, "sanction": a.SanctionKeeper,
	}
}

func permParseGovPayload(ws []string) permGovPayload {
	p := permGovPayload{caller: ws[2], bare: len(ws) == 3, m: 1, subj: permBase(ws[2]), denom: "nhash", nm: "root"}
	if p.bare {
		return p
	}
	if v := kvArg(ws, "m"); v != "" {
		fmt.Sscan(v, &p.m)
	}
	if v := kvArg(ws, "subj"); v != "" {
		p.subj = v
	}
	if v := kvArg(ws, "d"); v != "" {
		p.denom = v
	}
	if v := kvArg(ws, "nm"); v != "" {
		p.nm = v
	}
	return p
}

// execGov calls the module's real msg-server method for a governance-only message signed by
// `caller` (Authority = caller) and populated from the payload. The first word is what the
// caller observed: `err:authority` = turned away as not being the authority; `pass` = let
// through, with the tag saying how the request ended (#ok = the handler accepted and executed
// it, #err = it failed later for another reason, #panic, #rejectall = a retired endpoint).
// Nothing a probe does is ever written: every probe runs on a discarded branch of the state.
func (e *permEnv) execGov(ws []string) string {
	name := ws[1]
	p := permParseGovPayload(ws)
	if _, ok := e.addr[permBase(p.caller)]; !ok || strings.HasSuffix(p.caller, "~") {
		return "bad-op"
	}
	if _, ok := e.addr[p.subj]; !ok {
		return "bad-op"
	}
	var url string
	for _, u := range e.gov {
		if permGovName(u) == name {
			url = u
		}
	}
	if url == "" {
		return "bad-op"
	}
	msg, bad := e.permGovMsg(url, name, p)
	if bad != "" {
		return bad
	}
	if !e.signerOK(msg, p.caller) {
		return "err:signer-mismatch"
	}
	parts := strings.SplitN(name, ".", 2)
	srv, ok := e.permServers()[parts[0]]
	if !ok {
		return "err:noserver"
	}
	method := strings.TrimSuffix(strings.TrimPrefix(parts[1], "Msg"), "Request")
	mv := reflect.ValueOf(srv).MethodByName(method)
	if !mv.IsValid() {
		return "err:nomethod"
	}
	var herr error
	_, pan := Try(e.ctx, func(ctx sdk.Context) error {
		res := mv.Call([]reflect.Value{reflect.ValueOf(ctx), reflect.ValueOf(msg)})
		if len(res) == 2 && !res[1].IsNil() {
			herr = res[1].Interface().(error)
		}
		return fmt.Errorf("never write gov probes")
	})
	if pan != "" {
		return "pass #panic"
	}
	if herr != nil {
		m := herr.Error()
		if os.Getenv("VERIF_PERM_DEBUG") != "" {
			fmt.Fprintf(os.Stderr, "gov-debug %s: %s\n", strings.Join(ws, " "), m)
		}
		if (strings.Contains(m, "expected") && strings.Contains(m, "got")) || strings.Contains(m, "invalid signer") || strings.Contains(m, "unauthorized") {
			return "err:authority"
		}
		if strings.Contains(m, "deprecated and unusable") {
			// a retired endpoint that rejects every caller, the authority included
			if p.caller == "GOV" {
				return "pass #rejectall"
			}
			return "err:authority #rejectall"
		}
		return "pass #err"
	}
	return "pass #ok"
}

func drivePerm(t *testing.T, rng *RNG, n int, out *Out) {
	e := permSetup(t)
	callers := []string{"GOV", "A", "B", "C", "D", "E"}
	for h := 0; h < n; h++ {
		e.newHistory()
		out.Comment(fmt.Sprintf("history %d", h))
		steps := 12 + rng.Intn(20)
		pays := map[string]bool{}
		emit := func(op string) string {
			r := e.exec(op)
			out.Count("op:" + strings.Fields(op)[0])
			if strings.HasPrefix(r, "grants=") {
				out.Count("res:dump")
			} else {
				out.Count("res:" + resClass(strings.Fields(r)[0]))
			}
			out.Emit(op, r)
			return r
		}
		// one probe of a governance-only message: the payload names market m, a subject (the
		// caller itself more often than not), a denom (the marker the caller administers, if
		// any, more often than not) and a kind of name
		govProbe := func(gn, caller string, m uint32) {
			if rng.Chance(8) {
				m = 3 // no such market
			}
			subj := caller
			if caller == "GOV" || rng.Chance(40) {
				subj = Pick(rng, callers)
			}
			d := Pick(rng, []string{permDenomR, permDenomU, permDenomR, permDenomU, permDenomR, "nhash"})
			if own := map[string]string{"A": permDenomR, "B": permDenomU}[caller]; own != "" && rng.Chance(60) {
				d = own
			}
			nm := "root"
			if rng.Chance(30) {
				nm = "kid"
			}
			spelled := permSpell(rng, caller, 20)
			if spelled != caller {
				out.Count("spelling:gov-caller-upper")
			}
			r := emit(fmt.Sprintf("gov %s %s m=%d subj=%s d=%s nm=%s", gn, spelled, m, subj, d, nm))
			standing := "none"
			if caller == "GOV" {
				standing = "authority"
			} else if m <= 2 {
				for _, ag := range e.app.ExchangeKeeper.GetAccessGrants(e.ctx, m) {
					if e.sym(ag.Address) == permBase(caller) {
						standing = fmt.Sprintf("perms%d", len(ag.Permissions))
					}
				}
			}
			out.Count("gov-caller:" + standing)
			if subj == caller {
				out.Count("gov-subject:self")
			} else {
				out.Count("gov-subject:other")
			}
			if i := strings.Index(r, "#"); i >= 0 {
				out.Count("gov-end:" + r[i+1:])
			}
		}
		// a new ask or bid order in either market, owner spelled either way
		newOrder := func() (uint64, bool) {
			m := uint32(1 + rng.Intn(2))
			owner := permSpell(rng, Pick(rng, permNames), 25)
			kind := Pick(rng, []string{"ask", "bid"})
			id, err := e.createOrder(m, owner, kind)
			if err != nil {
				if strings.HasSuffix(owner, "^") {
					out.Count("spelling:order-owner-upper-refused")
				}
				return 0, false
			}
			out.Count("op:order:" + kind)
			out.Emit(fmt.Sprintf("order %d %d %s %s", id, m, owner, kind), "ok")
			return id, true
		}
		for s := 0; s < steps; s++ {
			switch k := rng.Intn(100); {
			case k < 30: // permissions update
				m := uint32(1 + rng.Intn(2))
				admin := Pick(rng, callers)
				if rng.Chance(55) {
					admin = "GOV"
				}
				cur := map[string][]string{}
				for _, ag := range e.app.ExchangeKeeper.GetAccessGrants(e.ctx, m) {
					for _, p := range ag.Permissions {
						cur[e.sym(ag.Address)] = append(cur[e.sym(ag.Address)], p.SimpleString())
					}
				}
				var ra, rv, gr []string
				used := map[string]bool{}
				for _, nme := range permNames {
					if used[nme] {
						continue
					}
					switch x := rng.Intn(10); {
					case x < 1 && (len(cur[nme]) > 0 || rng.Chance(15)):
						ra = append(ra, nme)
						used[nme] = true
					case x < 3:
						var ps []string
						for _, p := range permPermNames {
							has := contains(cur[nme], p)
							if (has && rng.Chance(50)) || (!has && rng.Chance(3)) {
								ps = append(ps, p)
							}
						}
						if len(ps) > 0 {
							rv = append(rv, nme+":"+strings.Join(ps, "+"))
							used[nme] = true
						}
					case x < 7:
						var ps []string
						for _, p := range permPermNames {
							has := contains(cur[nme], p)
							if (!has && rng.Chance(30)) || (has && rng.Chance(3)) {
								ps = append(ps, p)
							}
						}
						if len(ps) > 0 {
							gr = append(gr, nme+":"+strings.Join(ps, "+"))
						}
					}
				}
				if len(ra)+len(rv)+len(gr) == 0 {
					gr = []string{Pick(rng, permNames) + ":" + Pick(rng, permPermNames)}
				}
				// spellings: the admin and every named account in upper case now and then
				admin = permSpell(rng, admin, 25)
				for _, l := range [][]string{ra, rv, gr} {
					for i := range l {
						if rng.Chance(20) {
							if j := strings.Index(l[i], ":"); j >= 0 {
								l[i] = l[i][:j] + "^" + l[i][j:]
							} else {
								l[i] += "^"
							}
							out.Count("spelling:grantee-upper")
						}
					}
				}
				if strings.HasSuffix(admin, "^") {
					out.Count("spelling:admin-upper")
				}
				emit(fmt.Sprintf("perms admin=%s m=%d revokeall=%s revoke=%s grant=%s", admin, m, JoinOr(ra, "|"), JoinOr(rv, "|"), JoinOr(gr, "|")))
				emit("dump")
			case k < 55:
				m := uint32(1 + rng.Intn(2))
				caller := Pick(rng, callers)
				ep := Pick(rng, permEndpoints)
				if ags := e.app.ExchangeKeeper.GetAccessGrants(e.ctx, m); len(ags) > 0 && rng.Chance(60) {
					ag := Pick(rng, ags)
					caller = e.sym(ag.Address)
					// half of these: an endpoint the caller's permission actually opens
					if want := permEndpointsFor[Pick(rng, ag.Permissions).SimpleString()]; len(want) > 0 && rng.Chance(70) {
						ep = Pick(rng, want)
					}
				}
				caller = permSpell(rng, caller, 30)
				if rng.Chance(10) {
					ep = "MarketSettle"
				}
				if ep == "MarketSettle" && rng.Chance(70) {
					// a settlement naming a live ask and a live bid of the history, of whatever market
					var asks, bids []uint64
					for _, oid := range e.orders {
						if o, err := e.app.ExchangeKeeper.GetOrder(e.ctx, oid); err == nil && o != nil {
							if o.IsAskOrder() {
								asks = append(asks, oid)
							} else {
								bids = append(bids, oid)
							}
						}
					}
					if len(asks) > 0 && len(bids) > 0 {
						ask, bid := Pick(rng, asks), Pick(rng, bids)
						ao, _ := e.app.ExchangeKeeper.GetOrder(e.ctx, ask)
						bo, _ := e.app.ExchangeKeeper.GetOrder(e.ctx, bid)
						if rng.Chance(50) {
							m = ao.GetMarketID()
						}
						where := "other-market"
						if ao.GetMarketID() == m && bo.GetMarketID() == m {
							where = "named-market"
						}
						r := emit(fmt.Sprintf("settle %d %d %d %s", m, ask, bid, caller))
						out.Count("settle:" + where + ":" + r)
						break
					}
				}
				r := emit(fmt.Sprintf("call %s %d %s", ep, m, caller))
				if strings.HasSuffix(caller, "^") {
					out.Count("spelling:caller-upper:" + strings.Fields(r)[0])
				}
				// the guard itself on the same market under every spelling, valid or not
				if rng.Chance(25) {
					who := Pick(rng, callers) + Pick(rng, []string{"", "^", "~", "~"})
					if rng.Chance(10) {
						who = Pick(rng, []string{"zz", "GOVX", "pb1qqqq"})
					}
					hr := emit(fmt.Sprintf("hasperm %d %s %s", m, who, Pick(rng, permPermNames)))
					out.Count("spelling:hasperm:" + hr)
				}
			case k < 63:
				// an external id for an order of the history: the order may live in the market the
				// request names or in the OTHER one; the caller holds set_ids in the named market,
				// in the order's market, owns the order, or is anybody
				var live []uint64
				for _, oid := range e.orders {
					if o, err := e.app.ExchangeKeeper.GetOrder(e.ctx, oid); err == nil && o != nil {
						live = append(live, oid)
					}
				}
				if len(live) == 0 || rng.Chance(25) {
					if nid, ok := newOrder(); ok {
						live = append(live, nid)
					}
				}
				id, om := uint64(900003), uint32(0)
				owner := ""
				if len(live) > 0 && rng.Chance(92) {
					id = Pick(rng, live)
					o, _ := e.app.ExchangeKeeper.GetOrder(e.ctx, id)
					om, owner = o.GetMarketID(), permBase(e.sym(o.GetOwner()))
				}
				m := uint32(1 + rng.Intn(2))
				if om != 0 && rng.Chance(50) {
					m = om
				}
				holders := func(mk uint32) []string {
					var hs []string
					for _, ag := range e.app.ExchangeKeeper.GetAccessGrants(e.ctx, mk) {
						for _, p := range ag.Permissions {
							if p == exchange.Permission_set_ids {
								hs = append(hs, e.sym(ag.Address))
							}
						}
					}
					return hs
				}
				caller := Pick(rng, callers)
				switch x := rng.Intn(10); {
				case x < 5:
					if hs := holders(m); len(hs) > 0 {
						caller = Pick(rng, hs)
					}
				case x < 7:
					if hs := holders(om); om != 0 && len(hs) > 0 {
						caller = Pick(rng, hs)
					}
				case x < 8 && owner != "" && owner != "?":
					caller = owner
				}
				switch {
				case om == 0:
					out.Count("setid:no-such-order")
				case om == m:
					out.Count("setid:order-in-named-market")
				default:
					out.Count("setid:order-in-other-market")
				}
				r := emit(fmt.Sprintf("setid %d %d %s %s", m, id, permSpell(rng, caller, 20), Pick(rng, []string{"e0", "e1", "e2", "e3", "-"})))
				out.Count("setid:" + r)
				emit("dump")
			case k < 73:
				// committed funds: an account commits, the market stops (or resumes) accepting
				// commitments, and somebody asks for a release: a holder of cancel, the owner of the
				// funds for itself, the owner for others, or anybody
				m := uint32(1 + rng.Intn(2))
				toggle := func() {
					emit(fmt.Sprintf("call MarketUpdateAcceptingCommitments %d GOV", m))
				}
				have := e.committed(m)
				if len(have) == 0 || rng.Chance(35) {
					if !e.app.ExchangeKeeper.IsMarketAcceptingCommitments(e.ctx, m) {
						toggle()
					}
					acct := Pick(rng, permNames)
					if err := e.commit(m, acct); err == nil {
						out.Count("op:commit")
						out.Emit(fmt.Sprintf("commit %d %s", m, acct), "ok")
						emit("dump")
					} else {
						out.Count("commit:refused")
					}
					have = e.committed(m)
				}
				if rng.Chance(30) {
					break
				}
				// the state the market is in when the release is asked for
				if rng.Chance(50) == e.app.ExchangeKeeper.IsMarketAcceptingCommitments(e.ctx, m) {
					toggle()
				}
				var owners []string
				for _, c := range have {
					owners = append(owners, strings.SplitN(c, ":", 2)[1])
				}
				caller := Pick(rng, callers)
				switch x := rng.Intn(10); {
				case x < 5 && len(owners) > 0:
					caller = Pick(rng, owners)
				case x < 8:
					var hs []string
					for _, ag := range e.app.ExchangeKeeper.GetAccessGrants(e.ctx, m) {
						for _, p := range ag.Permissions {
							if p == exchange.Permission_cancel {
								hs = append(hs, e.sym(ag.Address))
							}
						}
					}
					if len(hs) > 0 {
						caller = Pick(rng, hs)
					}
				}
				var accts []string
				if contains(owners, caller) && rng.Chance(65) {
					accts = []string{caller}
				} else {
					pool := owners
					if len(pool) == 0 || rng.Chance(15) {
						pool = permNames
					}
					accts = []string{Pick(rng, pool)}
					if x := Pick(rng, pool); x != accts[0] && rng.Chance(40) {
						accts = append(accts, x)
					}
				}
				standing := "other"
				if caller == "GOV" {
					standing = "authority"
				} else if contains(owners, caller) {
					standing = "owner"
					if len(accts) == 1 && accts[0] == caller {
						standing = "owner-own-funds"
					}
				}
				accepting := "accepting"
				if !e.app.ExchangeKeeper.IsMarketAcceptingCommitments(e.ctx, m) {
					accepting = "not-accepting"
				}
				r := emit(fmt.Sprintf("release %d %s %s", m, permSpell(rng, caller, 20), strings.Join(accts, "|")))
				out.Count("release:" + standing + ":" + accepting + ":" + r)
				emit("dump")
			case k < 79:
				newOrder()
			case k < 86:
				var id uint64 = 900009
				var live []uint64
				for _, oid := range e.orders {
					if o, err := e.app.ExchangeKeeper.GetOrder(e.ctx, oid); err == nil && o != nil {
						live = append(live, oid)
					}
				}
				signer := Pick(rng, callers)
				if len(live) > 0 && rng.Chance(85) {
					id = Pick(rng, live)
					if rng.Chance(35) {
						o, _ := e.app.ExchangeKeeper.GetOrder(e.ctx, id)
						signer = e.sym(o.GetOwner())
					}
				} else if len(e.orders) > 0 && rng.Chance(50) {
					id = Pick(rng, e.orders)
				} else if rng.Chance(80) {
					if nid, ok := newOrder(); ok {
						id = nid
					}
				}
				// the same account under the other spelling now and then
				if signer != "GOV" || rng.Chance(50) {
					if rng.Chance(25) {
						if strings.HasSuffix(signer, "^") {
							signer = permBase(signer)
						} else {
							signer += "^"
						}
						out.Count("spelling:cancel-signer-flipped")
					}
				}
				emit(fmt.Sprintf("cancel %d %s", id, signer))
				emit("dump")
			case k < 96:
				type lp struct{ src, ext, tgt string }
				var live []lp
				e.app.ExchangeKeeper.IteratePayments(e.ctx, func(p *exchange.Payment) bool {
					live = append(live, lp{e.sym(p.Source), p.ExternalId, e.sym(p.Target)})
					return false
				})
				ext := fmt.Sprintf("x%d", rng.Intn(3))
				src := Pick(rng, permNames)
				who := Pick(rng, permNames)
				kind := rng.Intn(6)
				if len(live) == 0 && rng.Chance(70) {
					kind = 0
				}
				if len(live) > 0 && rng.Chance(80) {
					c := Pick(rng, live)
					src, ext = c.src, c.ext
					if rng.Chance(50) {
						// the entitled party
						if kind == 2 || kind == 3 {
							if c.tgt != "-" {
								who = c.tgt
							}
						} else {
							who = c.src
						}
					}
				}
				switch kind {
				case 0, 1:
					tgt := Pick(rng, permNames)
					if rng.Chance(15) {
						tgt = "-"
					}
					r := emit(fmt.Sprintf("pay %s %s %s", src, ext, tgt))
					if r == "ok" {
						pays[src+"/"+ext] = true
					}
				case 2:
					emit(fmt.Sprintf("accept %s %s %s", src, ext, who))
				case 3:
					emit(fmt.Sprintf("reject %s %s %s", src, ext, who))
				case 4:
					emit(fmt.Sprintf("cancelpay %s %s", who, ext))
				case 5:
					nt := Pick(rng, permNames)
					if rng.Chance(15) {
						nt = "-"
					}
					emit(fmt.Sprintf("retarget %s %s %s", who, ext, nt))
				}
				emit("dump")
			default:
				m := uint32(1 + rng.Intn(2))
				caller := Pick(rng, callers)
				if ags := e.app.ExchangeKeeper.GetAccessGrants(e.ctx, m); len(ags) > 0 && rng.Chance(50) {
					caller = e.sym(Pick(rng, ags).Address)
				}
				govProbe(permGovName(Pick(rng, e.gov)), caller, m)
			}
		}
		// every tenth history ends with a sweep over every gov-only message type: the authority, an
		// account holding all seven permissions of the market the message names, a holder of some
		// other subset, and an account with no market permission — each naming itself or someone
		// else as the message's subject
		if h%10 == 0 {
			m := uint32(1 + rng.Intn(2))
			full := Pick(rng, permNames)
			var missing []string
			held := map[string]int{}
			for _, ag := range e.app.ExchangeKeeper.GetAccessGrants(e.ctx, m) {
				held[e.sym(ag.Address)] = len(ag.Permissions)
			}
			for _, ag := range e.app.ExchangeKeeper.GetAccessGrants(e.ctx, m) {
				if e.sym(ag.Address) == full {
					for _, pn := range permPermNames {
						has := false
						for _, q := range ag.Permissions {
							has = has || q.SimpleString() == pn
						}
						if !has {
							missing = append(missing, pn)
						}
					}
				}
			}
			if held[full] == 0 {
				missing = permPermNames
			}
			if len(missing) > 0 {
				emit(fmt.Sprintf("perms admin=GOV m=%d revokeall=- revoke=- grant=%s:%s", m, full, strings.Join(missing, "+")))
				emit("dump")
			}
			var some, none []string
			for _, n := range permNames {
				switch {
				case n == full:
				case held[n] > 0:
					some = append(some, n)
				default:
					none = append(none, n)
				}
			}
			for _, u := range e.gov {
				gn := permGovName(u)
				govProbe(gn, "GOV", m)
				govProbe(gn, full, m)
				if len(some) > 0 {
					govProbe(gn, Pick(rng, some), m)
				}
				if len(none) > 0 {
					govProbe(gn, Pick(rng, none), m)
				}
			}
			out.Count(fmt.Sprintf("gov-msg-types:%d", len(e.gov)))
		}
	}
}

func contains(xs []string, x string) bool {
	for _, y := range xs {
		if y == x {
			return true
		}
	}
	return false
}

func replayPerm(t *testing.T, ops []string, out *Out) {
	e := permSetup(t)
	e.newHistory()
	for _, op := range ops {
		if strings.HasPrefix(op, "#") {
			if strings.HasPrefix(op, "# history") {
				e.newHistory()
			}
			out.Comment(strings.TrimPrefix(op, "# "))
			continue
		}
		out.Emit(op, e.exec(op))
	}
}

var _ = sdkmath.NewInt
var _ = authtypes.ModuleName
var _ = banktypes.ModuleName
var _ proto.Message
