package harness

// Model "perm" (C11): privileged endpoints. Drives the REAL exchange MsgServer (permission
// guard of every market endpoint, order cancel, payment identity) and the app's real message
// router for every governance-only message of every module.

import (
	"fmt"
	"reflect"
	"sort"
	"strings"
	"sync"
	"testing"

	sdkmath "cosmossdk.io/math"

	sdk "github.com/cosmos/cosmos-sdk/types"
	authtypes "github.com/cosmos/cosmos-sdk/x/auth/types"
	banktypes "github.com/cosmos/cosmos-sdk/x/bank/types"
	"github.com/cosmos/gogoproto/proto"

	"github.com/provenance-io/provenance/app"
	"github.com/provenance-io/provenance/x/exchange"
	attributekeeper "github.com/provenance-io/provenance/x/attribute/keeper"
	exchangekeeper "github.com/provenance-io/provenance/x/exchange/keeper"
	ibchookskeeper "github.com/provenance-io/provenance/x/ibchooks/keeper"
	ibcratelimitkeeper "github.com/provenance-io/provenance/x/ibcratelimit/keeper"
	markerkeeper "github.com/provenance-io/provenance/x/marker/keeper"
	metadatakeeper "github.com/provenance-io/provenance/x/metadata/keeper"
	msgfeeskeeper "github.com/provenance-io/provenance/x/msgfees/keeper"
	namekeeper "github.com/provenance-io/provenance/x/name/keeper"
	oraclekeeper "github.com/provenance-io/provenance/x/oracle/keeper"
	triggerkeeper "github.com/provenance-io/provenance/x/trigger/keeper"
)

func init() {
	drivers["perm"] = drivePerm
	replayers["perm"] = replayPerm
}

var permNames = []string{"A", "B", "C", "D", "E"}

var permEndpoints = []string{"MarketSettle", "MarketCommitmentSettle", "MarketReleaseCommitments",
	"MarketSetOrderExternalID", "MarketWithdraw", "MarketUpdateDetails", "MarketUpdateAcceptingOrders",
	"MarketUpdateUserSettle", "MarketUpdateAcceptingCommitments", "MarketUpdateIntermediaryDenom", "MarketManageReqAttrs"}

var permEndpointsFor = map[string][]string{
	"settle": {"MarketSettle", "MarketCommitmentSettle"}, "cancel": {"MarketReleaseCommitments"},
	"set_ids": {"MarketSetOrderExternalID"}, "withdraw": {"MarketWithdraw"},
	"update":     {"MarketUpdateDetails", "MarketUpdateAcceptingOrders", "MarketUpdateUserSettle", "MarketUpdateAcceptingCommitments", "MarketUpdateIntermediaryDenom"},
	"attributes": {"MarketManageReqAttrs"},
}

var permPermNames = []string{"settle", "set_ids", "cancel", "withdraw", "update", "permissions", "attributes"}

type permEnv struct {
	t       *testing.T
	app     *app.App
	base    sdk.Context // markets + funded accounts, no permissions
	ctx     sdk.Context // current history
	addr    map[string]sdk.AccAddress
	name    map[string]string // bech32 -> symbolic
	srv     exchange.MsgServer
	orders  []uint64
	ordInfo map[uint64]string
	gov     []string // type URLs of gov-only msgs
	flip    bool
}

var (
	permOnce sync.Once
	permE    *permEnv
)

func permSetup(t *testing.T) *permEnv {
	permOnce.Do(func() {
		a, ctx := NewApp(t)
		e := &permEnv{t: t, app: a, addr: map[string]sdk.AccAddress{}, name: map[string]string{}}
		for _, n := range permNames {
			ad := sdk.AccAddress([]byte("verif_perm_account_" + n))
			e.addr[n] = ad
			e.name[ad.String()] = n
			acc := a.AccountKeeper.NewAccountWithAddress(ctx, ad)
			_ = acc.SetSequence(7)
			a.AccountKeeper.SetAccount(ctx, acc)
			coins := sdk.NewCoins(sdk.NewInt64Coin("nhash", 1_000_000_000), sdk.NewInt64Coin("apple", 1_000_000), sdk.NewInt64Coin("usdx", 1_000_000))
			if err := a.BankKeeper.MintCoins(ctx, "mint", coins); err != nil {
				// the mint module account may lack permission for arbitrary denoms in some configs
				t.Fatalf("mint: %v", err)
			}
			if err := a.BankKeeper.SendCoinsFromModuleToAccount(ctx, "mint", ad, coins); err != nil {
				t.Fatalf("fund: %v", err)
			}
		}
		authAddr, err := sdk.AccAddressFromBech32(a.ExchangeKeeper.GetAuthority())
		if err != nil {
			t.Fatal(err)
		}
		e.addr["GOV"] = authAddr
		e.name[authAddr.String()] = "GOV"
		for _, id := range []uint32{1, 2} {
			_, err := a.ExchangeKeeper.CreateMarket(ctx, exchange.Market{
				MarketId: id, MarketDetails: exchange.MarketDetails{Name: fmt.Sprintf("market %d", id)},
				AcceptingOrders: true, AllowUserSettlement: true, AcceptingCommitments: true,
				IntermediaryDenom: "usdx",
			})
			if err != nil {
				t.Fatalf("create market: %v", err)
			}
			maddr := exchange.GetMarketAddress(id)
			coins := sdk.NewCoins(sdk.NewInt64Coin("nhash", 1_000_000))
			if err := a.BankKeeper.MintCoins(ctx, "mint", coins); err != nil {
				t.Fatal(err)
			}
			if err := a.BankKeeper.SendCoinsFromModuleToAccount(ctx, "mint", maddr, coins); err != nil {
				t.Fatal(err)
			}
		}
		e.base = ctx
		e.srv = exchangekeeper.NewMsgServer(a.ExchangeKeeper)
		e.gov = permGovMsgs(a)
		permE = e
	})
	permE.t = t
	return permE
}

// permGovMsgs lists every registered Msg of the provenance modules (and the forked sanction
// module) that has an `Authority` field, minus the documented non-governance exceptions —
// the same classification the Lean side proves over the regenerated handler facts.
func permGovMsgs(a *app.App) []string {
	exceptions := map[string]bool{
		"/provenance.marker.v1.MsgUpdateSendDenyListRequest": true,
		"/provenance.name.v1.MsgModifyNameRequest":            true,
		"/provenance.oracle.v1.MsgSendQueryOracleRequest":     true,
		"/provenance.trigger.v1.MsgDestroyTriggerRequest":     true,
	}
	var res []string
	for _, url := range a.InterfaceRegistry().ListImplementations(sdk.MsgInterfaceProtoName) {
		if !(strings.HasPrefix(url, "/provenance.") || strings.HasPrefix(url, "/cosmos.sanction.") || strings.HasPrefix(url, "/cosmos.quarantine.")) {
			continue
		}
		if exceptions[url] {
			continue
		}
		msg, err := a.InterfaceRegistry().Resolve(url)
		if err != nil {
			continue
		}
		v := reflect.ValueOf(msg)
		if v.Kind() == reflect.Ptr {
			v = v.Elem()
		}
		f := v.FieldByName("Authority")
		if !f.IsValid() || f.Kind() != reflect.String {
			continue
		}
		res = append(res, url)
	}
	sort.Strings(res)
	return res
}

func permGovName(url string) string {
	// "/provenance.marker.v1.MsgX" -> "marker.MsgX" ; "/cosmos.sanction.v1beta1.MsgSanction" -> "sanction.MsgSanction"
	p := strings.Split(strings.TrimPrefix(url, "/"), ".")
	if len(p) < 4 {
		return url
	}
	return p[1] + "." + p[len(p)-1]
}

func (e *permEnv) sym(bech string) string {
	if bech == "" {
		return "-"
	}
	if n, ok := e.name[bech]; ok {
		return n
	}
	return "?"
}

func (e *permEnv) newHistory() {
	e.ctx, _ = e.base.CacheContext()
	e.orders = nil
	e.ordInfo = map[uint64]string{}
}

func permClass(err error) string {
	if err == nil {
		return "ok"
	}
	m := err.Error()
	switch {
	case strings.Contains(m, "does not have permission to"):
		return "err:perm"
	case strings.Contains(m, "cannot reject payment with target"), strings.Contains(m, "does not equal existing target"):
		return "err:perm"
	case strings.Contains(m, "does not exist"), strings.Contains(m, "no payment found"), strings.Contains(m, "not found"):
		return "err:notfound"
	case strings.Contains(m, "already exists"), strings.Contains(m, "a payment already exists"):
		return "err:exists"
	default:
		return "err:invalid"
	}
}

func (e *permEnv) parseGrants(s string) []exchange.AccessGrant {
	if s == "-" || s == "" {
		return nil
	}
	var res []exchange.AccessGrant
	for _, ent := range strings.Split(s, "|") {
		p := strings.SplitN(ent, ":", 2)
		ag := exchange.AccessGrant{Address: e.addr[p[0]].String()}
		for _, pn := range strings.Split(p[1], "+") {
			ag.Permissions = append(ag.Permissions, exchange.Permission(exchange.Permission_value["PERMISSION_"+strings.ToUpper(pn)]))
		}
		res = append(res, ag)
	}
	return res
}

func (e *permEnv) signerOK(msg sdk.Msg, want string) bool {
	signers, _, err := e.app.AppCodec().GetMsgV1Signers(msg)
	if err != nil || len(signers) != 1 {
		return false
	}
	return sdk.AccAddress(signers[0]).Equals(e.addr[want])
}

func (e *permEnv) dump() string {
	var gs []string
	for _, m := range []uint32{1, 2} {
		for _, ag := range e.app.ExchangeKeeper.GetAccessGrants(e.ctx, m) {
			for _, p := range ag.Permissions {
				gs = append(gs, fmt.Sprintf("%d:%s:%s", m, e.sym(ag.Address), p.SimpleString()))
			}
		}
	}
	sort.Strings(gs)
	var os []string
	for _, id := range e.orders {
		o, err := e.app.ExchangeKeeper.GetOrder(e.ctx, id)
		if err == nil && o != nil {
			os = append(os, fmt.Sprintf("%d:%d:%s", id, o.GetMarketID(), e.sym(o.GetOwner())))
		}
	}
	var ps []string
	e.app.ExchangeKeeper.IteratePayments(e.ctx, func(p *exchange.Payment) bool {
		ps = append(ps, fmt.Sprintf("%s:%s:%s", e.sym(p.Source), p.ExternalId, e.sym(p.Target)))
		return false
	})
	sort.Strings(ps)
	return "grants=" + JoinOr(gs, ",") + " orders=" + JoinOr(os, ",") + " payments=" + JoinOr(ps, ",")
}

// exec runs one op line against the real code and returns the canonical impl output.
func (e *permEnv) exec(op string) string {
	ws := strings.Fields(op)
	k := e.app.ExchangeKeeper
	run := func(msg sdk.Msg, signer string, f func(ctx sdk.Context) error) string {
		if !e.signerOK(msg, signer) {
			return "err:signer-mismatch"
		}
		err, pan := Try(e.ctx, f)
		if pan != "" {
			return "panic:" + pan
		}
		return permClass(err)
	}
	switch ws[0] {
	case "dump":
		return e.dump()
	case "perms":
		admin := kvArg(ws, "admin")
		var m uint32
		fmt.Sscan(kvArg(ws, "m"), &m)
		msg := &exchange.MsgMarketManagePermissionsRequest{Admin: e.addr[admin].String(), MarketId: m,
			ToRevoke: e.parseGrants(kvArg(ws, "revoke")), ToGrant: e.parseGrants(kvArg(ws, "grant"))}
		if ra := kvArg(ws, "revokeall"); ra != "-" && ra != "" {
			for _, n := range strings.Split(ra, "|") {
				msg.RevokeAll = append(msg.RevokeAll, e.addr[n].String())
			}
		}
		return run(msg, admin, func(ctx sdk.Context) error { _, err := e.srv.MarketManagePermissions(ctx, msg); return err })
	case "call":
		var m uint32
		fmt.Sscan(ws[2], &m)
		caller := ws[3]
		admin := e.addr[caller].String()
		a := e.addr["A"].String()
		var msg sdk.Msg
		var f func(ctx sdk.Context) error
		switch ws[1] {
		case "MarketSettle":
			mm := &exchange.MsgMarketSettleRequest{Admin: admin, MarketId: m, AskOrderIds: []uint64{900001}, BidOrderIds: []uint64{900002}}
			msg, f = mm, func(ctx sdk.Context) error { _, err := e.srv.MarketSettle(ctx, mm); return err }
		case "MarketCommitmentSettle":
			amt := sdk.NewCoins(sdk.NewInt64Coin("apple", 1))
			mm := &exchange.MsgMarketCommitmentSettleRequest{Admin: admin, MarketId: m,
				Inputs: []exchange.AccountAmount{{Account: a, Amount: amt}}, Outputs: []exchange.AccountAmount{{Account: a, Amount: amt}}}
			msg, f = mm, func(ctx sdk.Context) error { _, err := e.srv.MarketCommitmentSettle(ctx, mm); return err }
		case "MarketReleaseCommitments":
			mm := &exchange.MsgMarketReleaseCommitmentsRequest{Admin: admin, MarketId: m, ToRelease: []exchange.AccountAmount{{Account: a}}}
			msg, f = mm, func(ctx sdk.Context) error { _, err := e.srv.MarketReleaseCommitments(ctx, mm); return err }
		case "MarketSetOrderExternalID":
			oid := uint64(900003)
			for _, id := range e.orders {
				if o, err := k.GetOrder(e.ctx, id); err == nil && o != nil && o.GetMarketID() == m {
					oid = id
				}
			}
			e.flip = !e.flip
			mm := &exchange.MsgMarketSetOrderExternalIDRequest{Admin: admin, MarketId: m, OrderId: oid, ExternalId: fmt.Sprintf("ext-%v-%d", e.flip, oid)}
			msg, f = mm, func(ctx sdk.Context) error { _, err := e.srv.MarketSetOrderExternalID(ctx, mm); return err }
		case "MarketWithdraw":
			mm := &exchange.MsgMarketWithdrawRequest{Admin: admin, MarketId: m, ToAddress: a, Amount: sdk.NewCoins(sdk.NewInt64Coin("nhash", 1))}
			msg, f = mm, func(ctx sdk.Context) error { _, err := e.srv.MarketWithdraw(ctx, mm); return err }
		case "MarketUpdateDetails":
			e.flip = !e.flip
			mm := &exchange.MsgMarketUpdateDetailsRequest{Admin: admin, MarketId: m, MarketDetails: exchange.MarketDetails{Name: fmt.Sprintf("renamed %v", e.flip)}}
			msg, f = mm, func(ctx sdk.Context) error { _, err := e.srv.MarketUpdateDetails(ctx, mm); return err }
		case "MarketUpdateAcceptingOrders":
			mm := &exchange.MsgMarketUpdateAcceptingOrdersRequest{Admin: admin, MarketId: m, AcceptingOrders: !k.IsMarketAcceptingOrders(e.ctx, m)}
			msg, f = mm, func(ctx sdk.Context) error {
				if _, err := e.srv.MarketUpdateAcceptingOrders(ctx, mm); err != nil {
					return err
				}
				// restore so later order creations still work
				mm2 := *mm
				mm2.AcceptingOrders = !mm.AcceptingOrders
				_, err := e.srv.MarketUpdateAcceptingOrders(ctx, &mm2)
				return err
			}
		case "MarketUpdateUserSettle":
			mm := &exchange.MsgMarketUpdateUserSettleRequest{Admin: admin, MarketId: m, AllowUserSettlement: !k.IsUserSettlementAllowed(e.ctx, m)}
			msg, f = mm, func(ctx sdk.Context) error { _, err := e.srv.MarketUpdateUserSettle(ctx, mm); return err }
		case "MarketUpdateAcceptingCommitments":
			mm := &exchange.MsgMarketUpdateAcceptingCommitmentsRequest{Admin: admin, MarketId: m, AcceptingCommitments: !k.IsMarketAcceptingCommitments(e.ctx, m)}
			msg, f = mm, func(ctx sdk.Context) error { _, err := e.srv.MarketUpdateAcceptingCommitments(ctx, mm); return err }
		case "MarketUpdateIntermediaryDenom":
			e.flip = !e.flip
			d := "usdx"
			if e.flip {
				d = "usdy"
			}
			mm := &exchange.MsgMarketUpdateIntermediaryDenomRequest{Admin: admin, MarketId: m, IntermediaryDenom: d}
			msg, f = mm, func(ctx sdk.Context) error { _, err := e.srv.MarketUpdateIntermediaryDenom(ctx, mm); return err }
		case "MarketManageReqAttrs":
			e.flip = !e.flip
			mm := &exchange.MsgMarketManageReqAttrsRequest{Admin: admin, MarketId: m}
			cur := k.GetReqAttrsCommitment(e.ctx, m)
			if len(cur) > 0 {
				mm.CreateCommitmentToRemove = cur[:1]
			} else {
				mm.CreateCommitmentToAdd = []string{"verif.attr"}
			}
			msg, f = mm, func(ctx sdk.Context) error { _, err := e.srv.MarketManageReqAttrs(ctx, mm); return err }
		default:
			return "bad-op"
		}
		r := run(msg, caller, f)
		if r == "err:perm" || strings.HasPrefix(r, "err:signer") || strings.HasPrefix(r, "panic") {
			return r
		}
		return "pass #" + r
	case "mkorder": // harness-only: creates a real order, then tells the model via an `order` line (see drive)
		return "bad-op"
	case "cancel":
		var id uint64
		fmt.Sscan(ws[1], &id)
		msg := &exchange.MsgCancelOrderRequest{Signer: e.addr[ws[2]].String(), OrderId: id}
		return run(msg, ws[2], func(ctx sdk.Context) error { _, err := e.srv.CancelOrder(ctx, msg); return err })
	case "pay":
		p := exchange.Payment{Source: e.addr[ws[1]].String(), SourceAmount: sdk.NewCoins(sdk.NewInt64Coin("usdx", 5)), ExternalId: ws[2]}
		if ws[3] != "-" {
			p.Target = e.addr[ws[3]].String()
		}
		msg := &exchange.MsgCreatePaymentRequest{Payment: p}
		return run(msg, ws[1], func(ctx sdk.Context) error { _, err := e.srv.CreatePayment(ctx, msg); return err })
	case "accept":
		// the signer is payment.target: an account X can only ever submit an accept with target X
		p := exchange.Payment{Source: e.addr[ws[1]].String(), SourceAmount: sdk.NewCoins(sdk.NewInt64Coin("usdx", 5)), ExternalId: ws[2], Target: e.addr[ws[3]].String()}
		msg := &exchange.MsgAcceptPaymentRequest{Payment: p}
		return run(msg, ws[3], func(ctx sdk.Context) error { _, err := e.srv.AcceptPayment(ctx, msg); return err })
	case "reject":
		msg := &exchange.MsgRejectPaymentRequest{Target: e.addr[ws[3]].String(), Source: e.addr[ws[1]].String(), ExternalId: ws[2]}
		return run(msg, ws[3], func(ctx sdk.Context) error { _, err := e.srv.RejectPayment(ctx, msg); return err })
	case "cancelpay":
		msg := &exchange.MsgCancelPaymentsRequest{Source: e.addr[ws[1]].String(), ExternalIds: []string{ws[2]}}
		return run(msg, ws[1], func(ctx sdk.Context) error { _, err := e.srv.CancelPayments(ctx, msg); return err })
	case "retarget":
		msg := &exchange.MsgChangePaymentTargetRequest{Source: e.addr[ws[1]].String(), ExternalId: ws[2]}
		if ws[3] != "-" {
			msg.NewTarget = e.addr[ws[3]].String()
		}
		return run(msg, ws[1], func(ctx sdk.Context) error { _, err := e.srv.ChangePaymentTarget(ctx, msg); return err })
	case "gov":
		return e.execGov(ws[1], ws[2])
	case "order":
		// replay of an `order` line: create an equivalent real order (ids may differ in replays of
		// hand-written files; generated files carry the id the chain assigned)
		var m uint32
		fmt.Sscan(ws[2], &m)
		id, err := e.createOrder(m, ws[3])
		if err != nil {
			return "err:invalid"
		}
		if fmt.Sprint(id) != ws[1] {
			return fmt.Sprintf("err:order-id-%d", id)
		}
		return "ok"
	}
	return "bad-op"
}

func (e *permEnv) createOrder(m uint32, owner string) (uint64, error) {
	var id uint64
	err, pan := Try(e.ctx, func(ctx sdk.Context) error {
		resp, err := e.srv.CreateAsk(ctx, &exchange.MsgCreateAskRequest{AskOrder: exchange.AskOrder{
			MarketId: m, Seller: e.addr[owner].String(), Assets: sdk.NewInt64Coin("apple", 3), Price: sdk.NewInt64Coin("usdx", 7)}})
		if err == nil {
			id = resp.OrderId
		}
		return err
	})
	if pan != "" {
		return 0, fmt.Errorf("panic %s", pan)
	}
	if err == nil {
		e.orders = append(e.orders, id)
	}
	return id, err
}

// permServers returns each module's real msg server, keyed by module name.
func (e *permEnv) permServers() map[string]any {
	a := e.app
	return map[string]any{
		"attribute":    attributekeeper.NewMsgServerImpl(a.AttributeKeeper),
		"exchange":     e.srv,
		"ibchooks":     ibchookskeeper.NewMsgServerImpl(*a.IBCHooksKeeper),
		"ibcratelimit": ibcratelimitkeeper.NewMsgServer(*a.RateLimitingKeeper),
		"marker":       markerkeeper.NewMsgServerImpl(a.MarkerKeeper),
		"metadata":     metadatakeeper.NewMsgServerImpl(a.MetadataKeeper),
		"msgfees":      msgfeeskeeper.NewMsgServerImpl(a.MsgFeesKeeper),
		"name":         namekeeper.NewMsgServerImpl(a.NameKeeper),
		"oracle":       oraclekeeper.NewMsgServerImpl(&a.OracleKeeper),
		"sanction":     a.SanctionKeeper,
		"trigger":      triggerkeeper.NewMsgServerImpl(a.TriggerKeeper),
	}
}

// execGov calls the module's real msg-server method for a governance-only message whose only
// populated field is Authority = caller. A handler that compares the authority first rejects a
// stranger with its authority error before looking at anything else.
func (e *permEnv) execGov(name, caller string) string {
	var url string
	for _, u := range e.gov {
		if permGovName(u) == name {
			url = u
		}
	}
	if url == "" {
		return "bad-op"
	}
	msg, err := e.app.InterfaceRegistry().Resolve(url)
	if err != nil {
		return "bad-op"
	}
	reflect.ValueOf(msg).Elem().FieldByName("Authority").SetString(e.addr[caller].String())
	parts := strings.SplitN(name, ".", 2)
	srv, ok := e.permServers()[parts[0]]
	if !ok {
		return "err:noserver"
	}
	method := strings.TrimSuffix(strings.TrimPrefix(parts[1], "Msg"), "Request")
	mv := reflect.ValueOf(srv).MethodByName(method)
	if !mv.IsValid() {
		return "err:nomethod"
	}
	var herr error
	_, pan := Try(e.ctx, func(ctx sdk.Context) error {
		res := mv.Call([]reflect.Value{reflect.ValueOf(ctx), reflect.ValueOf(msg)})
		if len(res) == 2 && !res[1].IsNil() {
			herr = res[1].Interface().(error)
		}
		return fmt.Errorf("never write gov probes")
	})
	if pan != "" {
		return "pass #panic"
	}
	if herr != nil {
		m := herr.Error()
		if (strings.Contains(m, "expected") && strings.Contains(m, "got")) || strings.Contains(m, "invalid signer") || strings.Contains(m, "unauthorized") {
			return "err:authority"
		}
		if strings.Contains(m, "deprecated and unusable") {
			// a retired endpoint that rejects every caller, the authority included
			if caller == "GOV" {
				return "pass #rejectall"
			}
			return "err:authority #rejectall"
		}
		return "pass #err"
	}
	return "pass #ok"
}

func drivePerm(t *testing.T, rng *RNG, n int, out *Out) {
	e := permSetup(t)
	callers := []string{"GOV", "A", "B", "C", "D", "E"}
	for h := 0; h < n; h++ {
		e.newHistory()
		out.Comment(fmt.Sprintf("history %d", h))
		steps := 12 + rng.Intn(20)
		pays := map[string]bool{}
		emit := func(op string) string {
			r := e.exec(op)
			out.Count("op:" + strings.Fields(op)[0])
			out.Count("res:" + resClass(strings.Fields(r)[0]))
			out.Emit(op, r)
			return r
		}
		for s := 0; s < steps; s++ {
			switch k := rng.Intn(100); {
			case k < 35: // permissions update
				m := uint32(1 + rng.Intn(2))
				admin := Pick(rng, callers)
				if rng.Chance(55) {
					admin = "GOV"
				}
				cur := map[string][]string{}
				for _, ag := range e.app.ExchangeKeeper.GetAccessGrants(e.ctx, m) {
					for _, p := range ag.Permissions {
						cur[e.sym(ag.Address)] = append(cur[e.sym(ag.Address)], p.SimpleString())
					}
				}
				var ra, rv, gr []string
				used := map[string]bool{}
				for _, nme := range permNames {
					if used[nme] {
						continue
					}
					switch x := rng.Intn(10); {
					case x < 1 && (len(cur[nme]) > 0 || rng.Chance(15)):
						ra = append(ra, nme)
						used[nme] = true
					case x < 3:
						var ps []string
						for _, p := range permPermNames {
							has := contains(cur[nme], p)
							if (has && rng.Chance(50)) || (!has && rng.Chance(3)) {
								ps = append(ps, p)
							}
						}
						if len(ps) > 0 {
							rv = append(rv, nme+":"+strings.Join(ps, "+"))
							used[nme] = true
						}
					case x < 7:
						var ps []string
						for _, p := range permPermNames {
							has := contains(cur[nme], p)
							if (!has && rng.Chance(30)) || (has && rng.Chance(3)) {
								ps = append(ps, p)
							}
						}
						if len(ps) > 0 {
							gr = append(gr, nme+":"+strings.Join(ps, "+"))
						}
					}
				}
				if len(ra)+len(rv)+len(gr) == 0 {
					gr = []string{Pick(rng, permNames) + ":" + Pick(rng, permPermNames)}
				}
				emit(fmt.Sprintf("perms admin=%s m=%d revokeall=%s revoke=%s grant=%s", admin, m, JoinOr(ra, "|"), JoinOr(rv, "|"), JoinOr(gr, "|")))
				emit("dump")
			case k < 70:
				m := uint32(1 + rng.Intn(2))
				caller := Pick(rng, callers)
				ep := Pick(rng, permEndpoints)
				if ags := e.app.ExchangeKeeper.GetAccessGrants(e.ctx, m); len(ags) > 0 && rng.Chance(60) {
					ag := Pick(rng, ags)
					caller = e.sym(ag.Address)
					// half of these: an endpoint the caller's permission actually opens
					if want := permEndpointsFor[Pick(rng, ag.Permissions).SimpleString()]; len(want) > 0 && rng.Chance(70) {
						ep = Pick(rng, want)
					}
				}
				emit(fmt.Sprintf("call %s %d %s", ep, m, caller))
			case k < 78:
				m := uint32(1 + rng.Intn(2))
				owner := Pick(rng, permNames)
				id, err := e.createOrder(m, owner)
				if err == nil {
					out.Count("op:order")
					out.Emit(fmt.Sprintf("order %d %d %s", id, m, owner), "ok")
				}
			case k < 86:
				var id uint64 = 900009
				var live []uint64
				for _, oid := range e.orders {
					if o, err := e.app.ExchangeKeeper.GetOrder(e.ctx, oid); err == nil && o != nil {
						live = append(live, oid)
					}
				}
				signer := Pick(rng, callers)
				if len(live) > 0 && rng.Chance(85) {
					id = Pick(rng, live)
					if rng.Chance(35) {
						o, _ := e.app.ExchangeKeeper.GetOrder(e.ctx, id)
						signer = e.sym(o.GetOwner())
					}
				} else if len(e.orders) > 0 && rng.Chance(50) {
					id = Pick(rng, e.orders)
				} else if rng.Chance(80) {
					m := uint32(1 + rng.Intn(2))
					owner := Pick(rng, permNames)
					if nid, err := e.createOrder(m, owner); err == nil {
						out.Count("op:order")
						out.Emit(fmt.Sprintf("order %d %d %s", nid, m, owner), "ok")
						id = nid
					}
				}
				emit(fmt.Sprintf("cancel %d %s", id, signer))
				emit("dump")
			case k < 96:
				type lp struct{ src, ext, tgt string }
				var live []lp
				e.app.ExchangeKeeper.IteratePayments(e.ctx, func(p *exchange.Payment) bool {
					live = append(live, lp{e.sym(p.Source), p.ExternalId, e.sym(p.Target)})
					return false
				})
				ext := fmt.Sprintf("x%d", rng.Intn(3))
				src := Pick(rng, permNames)
				who := Pick(rng, permNames)
				kind := rng.Intn(6)
				if len(live) == 0 && rng.Chance(70) {
					kind = 0
				}
				if len(live) > 0 && rng.Chance(80) {
					c := Pick(rng, live)
					src, ext = c.src, c.ext
					if rng.Chance(50) {
						// the entitled party
						if kind == 2 || kind == 3 {
							if c.tgt != "-" {
								who = c.tgt
							}
						} else {
							who = c.src
						}
					}
				}
				switch kind {
				case 0, 1:
					tgt := Pick(rng, permNames)
					if rng.Chance(15) {
						tgt = "-"
					}
					r := emit(fmt.Sprintf("pay %s %s %s", src, ext, tgt))
					if r == "ok" {
						pays[src+"/"+ext] = true
					}
				case 2:
					emit(fmt.Sprintf("accept %s %s %s", src, ext, who))
				case 3:
					emit(fmt.Sprintf("reject %s %s %s", src, ext, who))
				case 4:
					emit(fmt.Sprintf("cancelpay %s %s", who, ext))
				case 5:
					nt := Pick(rng, permNames)
					if rng.Chance(15) {
						nt = "-"
					}
					emit(fmt.Sprintf("retarget %s %s %s", who, ext, nt))
				}
				emit("dump")
			default:
				emit(fmt.Sprintf("gov %s %s", permGovName(Pick(rng, e.gov)), Pick(rng, callers)))
			}
		}
		// every history ends with one probe of every gov-only message by a stranger and by the authority
		if h%10 == 0 {
			for _, u := range e.gov {
				emit(fmt.Sprintf("gov %s %s", permGovName(u), Pick(rng, permNames)))
				emit(fmt.Sprintf("gov %s GOV", permGovName(u)))
			}
			out.Count(fmt.Sprintf("gov-msg-types:%d", len(e.gov)))
		}
	}
}

func contains(xs []string, x string) bool {
	for _, y := range xs {
		if y == x {
			return true
		}
	}
	return false
}

func replayPerm(t *testing.T, ops []string, out *Out) {
	e := permSetup(t)
	e.newHistory()
	for _, op := range ops {
		if strings.HasPrefix(op, "#") {
			if strings.HasPrefix(op, "# history") {
				e.newHistory()
			}
			out.Comment(strings.TrimPrefix(op, "# "))
			continue
		}
		out.Emit(op, e.exec(op))
	}
}

var _ = sdkmath.NewInt
var _ = authtypes.ModuleName
var _ = banktypes.ModuleName
var _ proto.Message
