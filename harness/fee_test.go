package harness

import (
	"fmt"
	"math/big"
	"strings"
	"testing"

	sdkmath "cosmossdk.io/math"

	sdk "github.com/cosmos/cosmos-sdk/types"

	"github.com/provenance-io/provenance/x/exchange"
	msgfees "github.com/provenance-io/provenance/x/msgfees/types"
)

// Model "fee" (C19): pure fee arithmetic + the two keeper-level calculations.

func init() {
	drivers["fee"] = driveFee
	replayers["fee"] = replayFee
}

type feeEnv struct {
	t *testing.T
}

func bigInt(s string) (sdkmath.Int, bool) {
	b, ok := new(big.Int).SetString(s, 10)
	if !ok || b.BitLen() > 256 {
		return sdkmath.Int{}, false
	}
	return sdkmath.NewIntFromBigInt(b), true
}

func mustInt(s string) sdkmath.Int {
	v, ok := bigInt(s)
	if !ok {
		panic("bad int " + s)
	}
	return v
}

// execFee executes one op line against the real code.
func (e *feeEnv) exec(op string) string {
	ws := strings.Fields(op)
	return Guard(func() string {
		switch ws[0] {
		case "quoup":
			return exchange.QuoIntRoundUp(mustInt(ws[1]), mustInt(ws[2])).String()
		case "ratio", "applyto":
			r := exchange.FeeRatio{Price: sdk.Coin{Denom: "pdenom", Amount: mustInt(ws[2])}, Fee: sdk.Coin{Denom: "fdenom", Amount: mustInt(ws[3])}}
			price := sdk.Coin{Denom: "pdenom", Amount: mustInt(ws[1])}
			if ws[0] == "applyto" {
				c, err := r.ApplyTo(price)
				if err != nil {
					if strings.Contains(err.Error(), "division by zero") {
						return "err:divzero"
					}
					return "err:invalid"
				}
				return "ok " + c.Amount.String()
			}
			// ApplyToLoosely returns the amount; the rounded flag is observed through ApplyTo.
			c, err := r.ApplyToLoosely(price)
			if err != nil {
				if strings.Contains(err.Error(), "division by zero") {
					return "err:divzero"
				}
				return "err:invalid"
			}
			_, err2 := r.ApplyTo(price)
			rounded := "0"
			if err2 != nil {
				rounded = "1"
			}
			return "ok " + c.Amount.String() + " " + rounded
		case "dist":
			// dist den:amt:bips:rcpt|… — the Increase calls of one transaction, in order
			d := msgfees.MsgFeesDistribution{RecipientDistributions: map[string]sdk.Coins{}}
			if ws[1] != "-" {
				for _, c := range strings.Split(ws[1], "|") {
					f := strings.Split(c, ":")
					var bips uint32
					fmt.Sscan(f[2], &bips)
					rcpt := f[3]
					if rcpt == "-" {
						rcpt = ""
					}
					if err := d.Increase(sdk.Coin{Denom: f[0], Amount: mustInt(f[1])}, bips, rcpt); err != nil {
						return "err:invalid"
					}
				}
			}
			per := func(cs sdk.Coins) string {
				return cs.AmountOf("nhash").String() + "/" + cs.AmountOf("usd").String() + "/" + cs.AmountOf("btc").String()
			}
			res := "ok t=" + per(d.TotalAdditionalFees) + " m=" + per(d.AdditionalModuleFees)
			for _, r := range []string{"r1", "r2", "r3"} {
				res += " " + r + "=" + per(d.RecipientDistributions[r])
			}
			for r := range d.RecipientDistributions {
				if r != "r1" && r != "r2" && r != "r3" {
					res += " unexpected-recipient:" + r
				}
			}
			return res
		case "paytx":
			return e.execPay(ws)
		case "bips":
			var bips uint32
			fmt.Sscan(ws[2], &bips)
			rc, mc, err := msgfees.SplitCoinByBips(sdk.Coin{Denom: "nhash", Amount: mustInt(ws[1])}, bips)
			if err != nil {
				return "err:invalid"
			}
			return "ok " + rc.Amount.String() + " " + mc.Amount.String()
		}
		return e.execKeeper(ws)
	})
}

func (e *feeEnv) genFeeOp(r *RNG, out *Out) string {
	nearMultiple := func(d *big.Int) *big.Int {
		// k*d + {-1,0,1}
		k := r.BigBoundary()
		x := new(big.Int).Mul(k, d)
		x.Add(x, big.NewInt(int64(r.Intn(3)-1)))
		if x.Sign() < 0 {
			x.SetInt64(0)
		}
		if x.BitLen() > 256 {
			x.Rsh(x, uint(x.BitLen()-256))
		}
		return x
	}
	if r.Intn(100) < 2 {
		// a fee configuration set through governance and one transaction paid out through the real app
		return e.genFeePayOp(r, out)
	}
	switch k := r.Intn(100); {
	case k < 8:
		// a transaction's worth of MsgFeesDistribution.Increase calls
		n := 1 + r.Intn(8)
		var calls []string
		for i := 0; i < n; i++ {
			amt := r.BigBoundary()
			if r.Chance(40) {
				amt = nearMultiple(big.NewInt(10000))
			}
			if amt.BitLen() > 250 {
				amt.Rsh(amt, uint(amt.BitLen()-250)) // keep the sums inside 256 bits
			}
			if r.Chance(6) {
				amt.SetInt64(0)
			} else if r.Chance(3) {
				amt.Neg(amt)
			}
			bips := r.Intn(10001)
			if r.Chance(25) {
				bips = []int{0, 1, 9999, 10000, 2500, 5000}[r.Intn(6)]
			}
			if r.Chance(1) {
				bips = 10001 + r.Intn(60000)
			}
			rcpt := []string{"-", "r1", "r2", "r3"}[r.Intn(4)]
			den := []string{"nhash", "nhash", "usd", "btc"}[r.Intn(4)]
			calls = append(calls, fmt.Sprintf("%s:%s:%d:%s", den, amt, bips, rcpt))
		}
		out.Count("op:dist")
		out.Count(fmt.Sprintf("dist:calls:%d", n))
		return "dist " + strings.Join(calls, "|")
	case k < 15:
		a, b := r.BigBoundary(), r.BigBoundary()
		if b.Sign() == 0 {
			b.SetInt64(1)
		}
		if r.Chance(50) {
			a = nearMultiple(b)
		}
		if r.Chance(30) {
			a.Neg(a)
		}
		if r.Chance(30) {
			b.Neg(b)
		}
		out.Count("op:quoup")
		return fmt.Sprintf("quoup %s %s", a, b)
	case k < 35:
		rp, rf := r.BigBoundary(), r.BigBoundary()
		if rp.Sign() == 0 && r.Chance(90) {
			rp.SetInt64(int64(1 + r.Intn(50)))
		}
		p := r.BigBoundary()
		if r.Chance(50) {
			p = nearMultiple(rp)
		}
		name := "ratio"
		if r.Chance(25) {
			name = "applyto"
		}
		out.Count("op:" + name)
		return fmt.Sprintf("%s %s %s %s", name, p, rp, rf)
	case k < 55:
		amt := r.BigBoundary()
		if r.Chance(40) {
			amt = nearMultiple(big.NewInt(10000))
		}
		split := r.Intn(10001)
		if r.Chance(20) {
			split = []int{0, 1, 9999, 10000, 500, 5000}[r.Intn(6)]
		}
		out.Count("op:exsplit")
		return fmt.Sprintf("exsplit %s %d", amt, split)
	case k < 80:
		amt := r.BigBoundary()
		if r.Chance(40) {
			amt = nearMultiple(big.NewInt(10000))
		}
		bips := r.Intn(10001)
		if r.Chance(20) {
			bips = []int{0, 1, 9999, 10000, 10001, 2500, 70000}[r.Intn(7)]
		}
		out.Count("op:bips")
		return fmt.Sprintf("bips %s %d", amt, bips)
	default:
		small := func() *big.Int {
			if r.Chance(72) {
				return big.NewInt(int64(1 + r.Intn(1000)))
			}
			if r.Chance(40) {
				// around the uint64 / int64 limits (a stored net asset value's volume is a uint64)
				x := new(big.Int).Lsh(big.NewInt(1), uint(63+r.Intn(2)))
				return x.Add(x, big.NewInt(int64(r.Intn(3)-2)))
			}
			x := r.BigBoundary()
			if x.Sign() == 0 {
				x.SetInt64(1)
			}
			return x
		}
		same := r.Chance(20)
		fee := small()
		if r.Chance(30) {
			fee = big.NewInt(0)
		}
		conv := small()
		if r.Chance(30) || same {
			conv = big.NewInt(0)
		}
		n := r.Intn(4)
		var others []string
		for i := 0; i < n; i++ {
			others = append(others, fmt.Sprintf("%s:%s:%s", small(), small(), small()))
		}
		navP, navA := small(), small()
		if same {
			navP, navA = big.NewInt(1), big.NewInt(1)
		}
		bips := 1 + r.Intn(10000)
		if fee.Sign() == 0 && conv.Sign() == 0 && n == 0 {
			fee = big.NewInt(7)
		}
		out.Count("op:csf")
		sm := "0"
		if same {
			sm = "1"
		}
		line := fmt.Sprintf("csf fee=%s conv=%s others=%s nav=%s:%s bips=%d same=%s", fee, conv, JoinOr(others, "|"), navP, navA, bips, sm)
		if r.Chance(35) {
			// net asset values looked up from the marker module (uint64 volumes) instead of the request
			out.Count("csf:navsrc=state")
			line += " navsrc=state"
		}
		return line
	}
}

func driveFee(t *testing.T, rng *RNG, n int, out *Out) {
	e := &feeEnv{t: t}
	for i := 0; i < n; i++ {
		op := e.genFeeOp(rng, out)
		res := e.exec(op)
		out.Count("res:" + resClass(res))
		out.Emit(op, res)
	}
}

func replayFee(t *testing.T, ops []string, out *Out) {
	e := &feeEnv{t: t}
	for _, op := range ops {
		if strings.HasPrefix(op, "#") {
			continue
		}
		out.Emit(op, e.exec(op))
	}
}

// resClass is the first word of an impl output, with bare integers mapped to "int".
func resClass(res string) string {
	f := strings.Fields(res)
	if len(f) == 0 {
		return "empty"
	}
	w := f[0]
	if w != "" && (w[0] == '-' || (w[0] >= '0' && w[0] <= '9')) && len(w) > 0 && w != "-" {
		return "int"
	}
	return w
}
