package harness

import (
	"fmt"
	"math/big"
	"sort"
	"strconv"
	"strings"

	sdkmath "cosmossdk.io/math"

	sdk "github.com/cosmos/cosmos-sdk/types"
	banktestutil "github.com/cosmos/cosmos-sdk/x/bank/testutil"

	"github.com/provenance-io/provenance/app"
	"github.com/provenance-io/provenance/x/exchange"
	exchangekeeper "github.com/provenance-io/provenance/x/exchange/keeper"
)

// Model "admit" (C20), user fills after the market's gate.  A fill line with ids= carries the
// resting orders (orders=<o>|<o>…, <o> = <b|a><B|A><1|2>:<assets>:<price>: side, owner — B another
// account, A the filler itself —, market 1 = the line's market / 2 = another market).  They are
// created, in the order of the line (so their ids are 1, 2, …), right after the creation of the
// line's market through the real message server (MsgCreateBid / MsgCreateAsk); the owner is
// funded for the hold first (B generously, A with exactly the hold so that the spendable
// balance of the filler stays the bal= of the line).  Then MsgFillBids / MsgFillAsks names ids=.

var admitOther = sdk.AccAddress("verif_c20_other_____")

const admitMarket2 = uint32(2)

type admitOrderT struct {
	bid    bool
	owner  byte // 'A' the filler, 'B' the other account
	market int  // 1 or 2
	assets admitCoinT
	price  admitCoinT
}

func (o admitOrderT) String() string {
	side := "a"
	if o.bid {
		side = "b"
	}
	return fmt.Sprintf("%s%c%d:%s:%s", side, o.owner, o.market, admitCoinStr(&o.assets), admitCoinStr(&o.price))
}

func admitOrdersStr(os []admitOrderT) string {
	if len(os) == 0 {
		return "-"
	}
	p := make([]string, len(os))
	for i, o := range os {
		p[i] = o.String()
	}
	return strings.Join(p, "|")
}

func admitIDsStr(ids []int) string {
	if len(ids) == 0 {
		return "-"
	}
	p := make([]string, len(ids))
	for i, x := range ids {
		p[i] = strconv.Itoa(x)
	}
	return strings.Join(p, "|")
}

func admitIDs(ws []string) []uint64 {
	v := kvArg(ws, "ids")
	if v == "" || v == "-" {
		return nil
	}
	var rv []uint64
	for _, p := range strings.Split(v, "|") {
		x, err := strconv.ParseUint(p, 10, 64)
		if err != nil {
			panic("bad id " + p)
		}
		rv = append(rv, x)
	}
	return rv
}

// admitCreateOrders creates the resting orders of the line with the real message server.
func (e *admitEnv) admitCreateOrders(a *app.App, ctx sdk.Context, ws []string) error {
	v := kvArg(ws, "orders")
	if v == "" || v == "-" {
		return nil
	}
	ms := exchangekeeper.NewMsgServer(a.ExchangeKeeper)
	rich := sdk.Coins{}
	for _, d := range append([]string{"apple", "plum"}, admitDenoms...) {
		rich = rich.Add(sdk.NewCoin(d, sdkmath.NewInt(1_000_000_000_000)))
	}
	if err := banktestutil.FundAccount(ctx, a.BankKeeper, admitOther, rich); err != nil {
		return fmt.Errorf("fund other: %w", err)
	}
	market2 := false
	for i, spec := range strings.Split(v, "|") {
		f := strings.Split(spec, ":")
		if len(f) != 3 || len(f[0]) != 3 {
			return fmt.Errorf("bad order %q", spec)
		}
		bid, owner, mkt := f[0][0] == 'b', f[0][1], uint32(f[0][2]-'0')
		assets, price := admitCoin(f[1]), admitCoin(f[2])
		addr := admitOther
		if owner == 'A' {
			addr = admitUser
			hold := assets
			if bid {
				hold = price
			}
			if err := banktestutil.FundAccount(ctx, a.BankKeeper, admitUser, sdk.NewCoins(hold)); err != nil {
				return fmt.Errorf("fund own order: %w", err)
			}
		}
		if mkt == admitMarket2 && !market2 {
			market2 = true
			m2 := exchange.Market{MarketId: admitMarket2, MarketDetails: exchange.MarketDetails{Name: "verif c20 other"},
				AcceptingOrders: true, AllowUserSettlement: true}
			if _, err := a.ExchangeKeeper.CreateMarket(ctx, m2); err != nil {
				return fmt.Errorf("create market 2: %w", err)
			}
		}
		var id uint64
		if bid {
			msg := &exchange.MsgCreateBidRequest{BidOrder: exchange.BidOrder{MarketId: mkt, Buyer: addr.String(), Assets: assets, Price: price}}
			if err := msg.ValidateBasic(); err != nil {
				return fmt.Errorf("order %q: %w", spec, err)
			}
			resp, err := ms.CreateBid(ctx, msg)
			if err != nil {
				return fmt.Errorf("order %q: %w", spec, err)
			}
			id = resp.OrderId
		} else {
			msg := &exchange.MsgCreateAskRequest{AskOrder: exchange.AskOrder{MarketId: mkt, Seller: addr.String(), Assets: assets, Price: price}}
			if err := msg.ValidateBasic(); err != nil {
				return fmt.Errorf("order %q: %w", spec, err)
			}
			resp, err := ms.CreateAsk(ctx, msg)
			if err != nil {
				return fmt.Errorf("order %q: %w", spec, err)
			}
			id = resp.OrderId
		}
		if id != uint64(i+1) {
			return fmt.Errorf("order %q got id %d, want %d", spec, id, i+1)
		}
	}
	return nil
}

// ---------------------------------------------------------------------------------------------
// generator side

type admitNeed map[string]*big.Int

func (n admitNeed) add(c admitCoinT) {
	if cur, ok := n[c.d]; ok {
		n[c.d] = new(big.Int).Add(cur, c.a)
	} else {
		n[c.d] = new(big.Int).Set(c.a)
	}
}

func (n admitNeed) sub(c admitCoinT) {
	if cur, ok := n[c.d]; ok {
		n[c.d] = new(big.Int).Sub(cur, c.a)
	} else {
		n[c.d] = new(big.Int).Neg(c.a)
	}
}

func admitSumStr(n admitNeed) string {
	var ds []string
	for d, a := range n {
		if a.Sign() > 0 {
			ds = append(ds, d)
		}
	}
	sort.Strings(ds)
	p := make([]string, len(ds))
	for i, d := range ds {
		p[i] = n[d].String() + d
	}
	if len(p) == 0 {
		return "-"
	}
	return strings.Join(p, ",")
}

// fillBook draws the resting orders of a fill line and the ids the fill names.
// wantBid: the side the fill is for; priceDenoms: where good orders' prices should be (one denom
// for a fill of asks); otherSideFree: orders of the other side can be created in the line's
// market without fees or attributes.
func (g *admitGen) fillBook(wantBid bool, canCreate bool, priceDenoms []string, otherSideFree bool) (orders []admitOrderT, ids []int, named []admitOrderT) {
	r := g.r
	if !canCreate {
		g.out.Count("fill:book:none")
		// nothing can rest in a market that does not exist / does not accept orders
		if r.Chance(50) {
			ids = []int{1}
		} else {
			ids = []int{1, 2}
		}
		return nil, ids, nil
	}
	nGood := 1 + r.Intn(3)
	for i := 0; i < nGood; i++ {
		ad := "apple"
		if r.Chance(25) {
			ad = "plum"
		}
		pa := g.smallAmt()
		if r.Chance(30) {
			pa = big.NewInt(int64(1 + r.Intn(100000)))
		}
		orders = append(orders, admitOrderT{bid: wantBid, owner: 'B', market: 1,
			assets: admitCoinT{ad, g.smallAmt()}, price: admitCoinT{Pick(r, priceDenoms), pa}})
	}
	bad := -1
	if r.Chance(22) {
		o := admitOrderT{bid: wantBid, owner: 'B', market: 1, assets: admitCoinT{"apple", g.smallAmt()}, price: admitCoinT{Pick(r, priceDenoms), g.smallAmt()}}
		switch r.Intn(3) {
		case 0:
			o.bid = !wantBid
			if !otherSideFree {
				o.market = 2
			}
			g.out.Count("fill:book:other-side")
		case 1:
			o.market = 2
			g.out.Count("fill:book:other-market")
		default:
			o.owner = 'A'
			g.out.Count("fill:book:own")
		}
		bad = r.Intn(len(orders) + 1)
		orders = append(orders[:bad], append([]admitOrderT{o}, orders[bad:]...)...)
	}
	// the ids: all good ones (mostly), in some order
	for i := range orders {
		if i == bad {
			if r.Chance(55) {
				ids = append(ids, i+1)
				g.out.Count("fill:ids:names-bad-order")
			}
			continue
		}
		if len(orders) > 1 && r.Chance(12) {
			continue // leave a good order unnamed
		}
		ids = append(ids, i+1)
	}
	switch k := r.Intn(100); {
	case k < 5:
		ids = append(ids, len(orders)+1+r.Intn(3))
		g.out.Count("fill:ids:absent")
	case k < 8 && len(ids) > 0:
		ids = append(ids, ids[0])
		g.out.Count("fill:ids:duplicate")
	case k < 10:
		ids = append(ids, 0)
		g.out.Count("fill:ids:zero")
	case k < 12:
		ids = nil
		g.out.Count("fill:ids:none")
	}
	if len(ids) > 1 && r.Chance(30) {
		for i := len(ids) - 1; i > 0; i-- {
			j := r.Intn(i + 1)
			ids[i], ids[j] = ids[j], ids[i]
		}
	}
	for _, id := range ids {
		if id >= 1 && id <= len(orders) {
			named = append(named, orders[id-1])
		}
	}
	return orders, ids, named
}

// perturb returns the sum as a coin list: exact (mostly), one unit off, a denom dropped or added.
func (g *admitGen) perturbSum(n admitNeed) string {
	m := admitNeed{}
	for d, a := range n {
		m[d] = new(big.Int).Set(a)
	}
	var ds []string
	for d := range m {
		ds = append(ds, d)
	}
	sort.Strings(ds)
	switch k := g.r.Intn(100); {
	case k < 80:
		g.out.Count("fill:total:exact")
	case k < 90 && len(ds) > 0:
		d := Pick(g.r, ds)
		m[d].Add(m[d], big.NewInt(int64(2*g.r.Intn(2)-1)))
		g.out.Count("fill:total:off-by-one")
	case k < 95 && len(ds) > 1:
		delete(m, Pick(g.r, ds))
		g.out.Count("fill:total:denom-missing")
	default:
		m.add(admitCoinT{Pick(g.r, []string{"apple", "plum", "zzz"}), g.smallAmt()})
		g.out.Count("fill:total:extra")
	}
	return admitSumStr(m)
}

// sellerFeesFor: flat + ratio fees (by the aimed-at ratios) a seller filling bids pays.
func admitSellerRatioFees(ratios []admitRatioT, prices admitNeed) admitNeed {
	fees := admitNeed{}
	for d, p := range prices {
		for _, x := range ratios {
			if x.pd == d && x.fd == d && p.Sign() > 0 {
				fees.add(admitCoinT{d, admitCeil(p, x.fa, x.pa)})
			}
		}
	}
	return fees
}

func (g *admitGen) fundNeed(n admitNeed) string {
	pos := map[string]*big.Int{}
	for d, a := range n {
		if a.Sign() > 0 {
			pos[d] = a
		}
	}
	return g.fund(pos)
}

func (g *admitGen) opFillBidsFull() string {
	r := g.r
	g.out.Count("op:fillbids-full")
	req := admitNewCfg()
	ex := g.flags("fill", req)
	req.us = !r.Chance(8)
	caf, ssf := g.flats(true), g.flats(true)
	var ssr []admitRatioT
	if r.Chance(60) {
		ssr = g.sellerRatios(true)
	}
	reqs, attrs := g.reqAndAttrsP(false, 92)
	req.flats["caf"], req.flats["ssf"], req.ratios["ssr"], req.reqs["ra"] = caf, ssf, ssr, admitNormAll(reqs)
	aim, hist := req, ""
	if r.Chance(admitHistPct) {
		h := g.history("fillbidsfull", req, &ex)
		aim, hist = h.aim, h.String()
		attrs = g.attrsFor(aim.reqs["ra"], 92)
	}
	pds := admitDenoms
	if rs := aim.ratios["ssr"]; len(rs) > 0 && r.Chance(85) {
		pds = nil
		for _, x := range rs {
			pds = append(pds, x.pd)
		}
	}
	otherFree := len(caf)+len(ssf)+len(ssr)+len(reqs) == 0
	orders, ids, named := g.fillBook(true, ex && req.ao, pds, otherFree)
	assets, prices := admitNeed{}, admitNeed{}
	for _, o := range named {
		assets.add(o.assets)
		prices.add(o.price)
	}
	if len(named) == 0 {
		assets.add(admitCoinT{"apple", g.smallAmt()})
	}
	sflat := g.flatOffer(aim.flats["ssf"], true)
	cfee := g.flatOffer(aim.flats["caf"], true)
	// what the seller must own: the assets, and whatever of the fees the price received does not pay
	need, after := admitNeed{}, admitNeed{}
	for d, a := range prices {
		after.sub(admitCoinT{d, a})
	}
	for d, a := range admitSellerRatioFees(aim.ratios["ssr"], prices) {
		after.add(admitCoinT{d, a})
	}
	if sflat != nil {
		after.add(*sflat)
	}
	if cfee != nil {
		after.add(*cfee)
	}
	for d, a := range assets {
		need.add(admitCoinT{d, a})
	}
	for d, a := range after {
		if a.Sign() > 0 {
			need.add(admitCoinT{d, a})
		}
	}
	return fmt.Sprintf("fillbids %s caf=%s ssf=%s ssr=%s ra=%s attrs=%s bal=%s orders=%s ids=%s total=%s sflat=%s cfee=%s",
		admitFlagsStr(ex, req), admitCoinsStr(caf), admitCoinsStr(ssf), admitRatiosStr(ssr), admitStrsStr(reqs), admitStrsStr(attrs),
		g.fundNeed(need), admitOrdersStr(orders), admitIDsStr(ids), g.perturbSum(assets), admitCoinStr(sflat), admitCoinStr(cfee)) + hist
}

func (g *admitGen) opFillAsksFull() string {
	r := g.r
	g.out.Count("op:fillasks-full")
	req := admitNewCfg()
	ex := g.flags("fill", req)
	req.us = !r.Chance(8)
	cbf, bsf := g.flats(true), g.flats(true)
	bsr := g.buyerRatios(true)
	reqs, attrs := g.reqAndAttrsP(false, 92)
	req.flats["cbf"], req.flats["bsf"], req.ratios["bsr"], req.reqs["rb"] = cbf, bsf, bsr, admitNormAll(reqs)
	aim, hist := req, ""
	if r.Chance(admitHistPct) {
		h := g.history("fillasksfull", req, &ex)
		aim, hist = h.aim, h.String()
		attrs = g.attrsFor(aim.reqs["rb"], 92)
	}
	pd := Pick(r, admitDenoms)
	if rs := aim.ratios["bsr"]; len(rs) > 0 && r.Chance(85) {
		pd = Pick(r, rs).pd
	}
	pds := []string{pd}
	if r.Chance(8) {
		pds = append(pds, Pick(r, admitDenoms)) // asks priced in two denoms cannot be one total price
	}
	otherFree := len(cbf)+len(bsf)+len(bsr)+len(reqs) == 0
	orders, ids, named := g.fillBook(false, ex && req.ao, pds, otherFree)
	assets, prices := admitNeed{}, admitNeed{}
	for _, o := range named {
		assets.add(o.assets)
		prices.add(o.price)
	}
	tp := admitCoinT{pd, big.NewInt(0)}
	if a, ok := prices[pd]; ok {
		tp.a = new(big.Int).Set(a)
	}
	switch k := r.Intn(100); {
	case tp.a.Sign() == 0:
		tp.a = g.smallAmt()
	case k < 10:
		tp.a.Add(tp.a, big.NewInt(int64(2*r.Intn(2)-1)))
		g.out.Count("fill:total:off-by-one")
	case k < 13:
		tp.d = Pick(r, admitDenoms)
		g.out.Count("fill:total:other-denom")
	default:
		g.out.Count("fill:total:exact")
	}
	if tp.a.Sign() <= 0 {
		tp.a.SetInt64(1)
	}
	fees := g.buyerOffer(aim.flats["bsf"], aim.ratios["bsr"], tp)
	cfee := g.flatOffer(aim.flats["cbf"], true)
	need := admitNeed{}
	need.add(tp)
	for i := range fees {
		need.add(fees[i])
	}
	if cfee != nil {
		need.add(*cfee)
	}
	for d, a := range assets {
		need.sub(admitCoinT{d, a})
	}
	return fmt.Sprintf("fillasks %s cbf=%s bsf=%s bsr=%s rb=%s attrs=%s bal=%s orders=%s ids=%s price=%s fees=%s cfee=%s",
		admitFlagsStr(ex, req), admitCoinsStr(cbf), admitCoinsStr(bsf), admitRatiosStr(bsr), admitStrsStr(reqs), admitStrsStr(attrs),
		g.fundNeed(need), admitOrdersStr(orders), admitIDsStr(ids), admitCoinStr(&tp), admitCoinsStr(fees), admitCoinStr(cfee)) + hist
}
