package main

import (
	"fmt"
	"go/ast"
	"io/fs"
	"path/filepath"
	"sort"
	"strconv"
	"strings"
)

// QuarBypass (C07): every place in the repository (non-test, non-verif-hook Go files) that puts
// the quarantine bypass into a context, i.e. calls `quarantine.WithBypass(…)` where `quarantine`
// is the local name of the import ".../x/quarantine" (or a bare `WithBypass(…)` inside package
// quarantine itself).  Under that context the quarantine send restriction returns the original
// receiver, so these are exactly the routes by which an opted-in account can be credited by a
// bank transfer without a quarantine record.
//
//	sites   file (repo-relative), enclosing function, the condition of the innermost enclosing
//	        `if` ("" when unconditional), and the distinct `<recv>.bankKeeper.<Method>` calls of
//	        that function in source order — sorted by file, then source order.
func init() {
	register(Emitter{Name: "QuarBypass", Run: emitQuarBypass})
}

type qbSite struct {
	File, Func, Cond string
	Bank             []string
}

// hoistThroughHelper makes the fact robust against an "extract helper" refactor: a site found
// unconditionally inside an UNEXPORTED function that is called from exactly one place in the same
// package is attributed to that caller — its name, the innermost `if` around the call, and the
// caller's bank calls followed by the helper's. (An exported function, a second caller or a
// condition inside the helper leave the site where it is, which changes the fact: fails closed.)
func hoistThroughHelper(c *Ctx, files map[string]*ast.File, helper *ast.FuncDecl, s qbSite) qbSite {
	name := helper.Name.Name
	if s.Cond != "" || name == "" || !(name[0] >= 'a' && name[0] <= 'z') {
		return s
	}
	type callSite struct {
		file string
		fd   *ast.FuncDecl
		cond string
	}
	var callers []callSite
	for _, fname := range sortedKeys(files) {
		for _, d := range files[fname].Decls {
			fd, ok := d.(*ast.FuncDecl)
			if !ok || fd.Body == nil || fd == helper {
				continue
			}
			var ifs []*ast.IfStmt
			var walk func(n ast.Node)
			walk = func(n ast.Node) {
				ast.Inspect(n, func(m ast.Node) bool {
					switch t := m.(type) {
					case *ast.IfStmt:
						if t.Init != nil {
							walk(t.Init)
						}
						walk(t.Cond)
						ifs = append(ifs, t)
						walk(t.Body)
						ifs = ifs[:len(ifs)-1]
						if t.Else != nil {
							walk(t.Else)
						}
						return false
					case *ast.CallExpr:
						called := ""
						switch fn := t.Fun.(type) {
						case *ast.Ident:
							called = fn.Name
						case *ast.SelectorExpr:
							called = fn.Sel.Name
						}
						if called == name {
							// the innermost enclosing `if` whose BODY contains the call (an `if err := helper(..); err != nil`
							// around the call itself is the call's own error check, not a guard)
							cond := ""
							for i := len(ifs) - 1; i >= 0; i-- {
								if ifs[i].Body.Pos() <= t.Pos() && t.End() <= ifs[i].Body.End() {
									cond = c.src(ifs[i].Cond)
									break
								}
							}
							callers = append(callers, callSite{filepath.ToSlash(fname), fd, cond})
						}
					}
					return true
				})
			}
			walk(fd.Body)
		}
	}
	if len(callers) != 1 {
		return s
	}
	cs := callers[0]
	var bank []string
	seen := map[string]bool{}
	ast.Inspect(cs.fd.Body, func(m ast.Node) bool {
		if ce, ok := m.(*ast.CallExpr); ok {
			if fn, ok := ce.Fun.(*ast.SelectorExpr); ok {
				if inner, ok := fn.X.(*ast.SelectorExpr); ok && inner.Sel.Name == "bankKeeper" && !seen[fn.Sel.Name] {
					seen[fn.Sel.Name] = true
					bank = append(bank, fn.Sel.Name)
				}
			}
		}
		return true
	})
	for _, b := range s.Bank {
		if !seen[b] {
			seen[b] = true
			bank = append(bank, b)
		}
	}
	return qbSite{File: cs.file, Func: cs.fd.Name.Name, Cond: cs.cond, Bank: bank}
}

func emitQuarBypass(c *Ctx) (string, error) {
	var dirs []string
	err := filepath.WalkDir(c.Repo, func(p string, d fs.DirEntry, err error) error {
		if err != nil {
			return err
		}
		if !d.IsDir() {
			return nil
		}
		n := d.Name()
		if p != c.Repo && (strings.HasPrefix(n, ".") || n == "vendor" || n == "node_modules" || n == "third_party" || n == "testdata") {
			return filepath.SkipDir
		}
		rel, _ := filepath.Rel(c.Repo, p)
		dirs = append(dirs, rel)
		return nil
	})
	if err != nil {
		return "", err
	}
	sort.Strings(dirs)
	var sites []qbSite
	for _, rel := range dirs {
		files, err := c.parseDir(rel)
		if err != nil {
			return "", err
		}
		for _, fname := range sortedKeys(files) {
			f := files[fname]
			local := ""
			for _, im := range f.Imports {
				path, _ := strconv.Unquote(im.Path.Value)
				if strings.HasSuffix(path, "/x/quarantine") {
					local = "quarantine"
					if im.Name != nil {
						local = im.Name.Name
					}
				}
			}
			inPkg := f.Name.Name == "quarantine" && filepath.ToSlash(rel) == "x/quarantine"
			if local == "" && !inPkg {
				continue
			}
			for _, d := range f.Decls {
				fd, ok := d.(*ast.FuncDecl)
				if !ok || fd.Body == nil {
					continue
				}
				var bank []string
				seen := map[string]bool{}
				var found []qbSite
				var ifs []*ast.IfStmt
				var walk func(n ast.Node)
				walk = func(n ast.Node) {
					ast.Inspect(n, func(m ast.Node) bool {
						switch t := m.(type) {
						case *ast.IfStmt:
							if t.Init != nil {
								walk(t.Init)
							}
							walk(t.Cond)
							ifs = append(ifs, t)
							walk(t.Body)
							ifs = ifs[:len(ifs)-1]
							if t.Else != nil {
								walk(t.Else)
							}
							return false
						case *ast.CallExpr:
							isBypass := false
							switch fn := t.Fun.(type) {
							case *ast.SelectorExpr:
								if id, ok := fn.X.(*ast.Ident); ok && local != "" && id.Name == local && fn.Sel.Name == "WithBypass" {
									isBypass = true
								}
								if inner, ok := fn.X.(*ast.SelectorExpr); ok && inner.Sel.Name == "bankKeeper" && !seen[fn.Sel.Name] {
									seen[fn.Sel.Name] = true
									bank = append(bank, fn.Sel.Name)
								}
							case *ast.Ident:
								if inPkg && fn.Name == "WithBypass" {
									isBypass = true
								}
							case *ast.IndexExpr: // explicit instantiation WithBypass[T](…)
								if se, ok := fn.X.(*ast.SelectorExpr); ok {
									if id, ok := se.X.(*ast.Ident); ok && local != "" && id.Name == local && se.Sel.Name == "WithBypass" {
										isBypass = true
									}
								}
								if id, ok := fn.X.(*ast.Ident); ok && inPkg && id.Name == "WithBypass" {
									isBypass = true
								}
							}
							if isBypass {
								cond := ""
								if len(ifs) > 0 {
									cond = c.src(ifs[len(ifs)-1].Cond)
								}
								found = append(found, qbSite{File: filepath.ToSlash(fname), Func: fd.Name.Name, Cond: cond})
							}
						}
						return true
					})
				}
				walk(fd.Body)
				for _, s := range found {
					s.Bank = bank
					s = hoistThroughHelper(c, files, fd, s)
					sites = append(sites, s)
				}
			}
		}
	}
	sort.SliceStable(sites, func(i, j int) bool { return sites[i].File < sites[j].File })
	var sb strings.Builder
	sb.WriteString("import PvProofs.Facts.QuarBypass\n\nnamespace Generated.QuarBypass\nopen PvProofs.Facts\n\n")
	sb.WriteString("def sites : List BypassSite := [\n")
	for i, s := range sites {
		sep := ","
		if i == len(sites)-1 {
			sep = ""
		}
		fmt.Fprintf(&sb, "  { file := %s, fn := %s, cond := %s, bank := %s }%s\n", leanStr(s.File), leanStr(s.Func), leanStr(s.Cond), leanStrList(s.Bank), sep)
	}
	sb.WriteString("]\n\nend Generated.QuarBypass\n")
	return sb.String(), nil
}
