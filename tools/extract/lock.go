package main

import (
	"fmt"
	"go/ast"
	"go/parser"
	"os"
	"os/exec"
	"path/filepath"
	"sort"
	"strings"
)

// LockFacts (C03): the syntactic facts the hold/locked-coins theorems rely on.
//
//	bankCalls           every call of setBalance / subUnlockedCoins / addCoins and every write
//	                    through the Balances collection (Set/Remove/Clear) in the non-test files of
//	                    the forked SDK's x/bank (resolved with `go list -m`): the balance-changing
//	                    routes the model must cover
//	holdBypassCalls     every call of hold.WithBypass in the whole provenance repository (test
//	                    files included, flagged)
//	vestingBypassCalls  every call of banktypes.WithVestingLockedBypass in the repository's and the
//	                    SDK's non-test files
//	lockedGetterCalls   every call of Append/Prepend/ClearLockedCoinsGetter in the repository's and
//	                    the SDK's non-test files (who shapes the locked-coins chain)
//	appWiring           the constructor calls assigned to app.BankKeeper / app.HoldKeeper in
//	                    app/app.go with their arguments
func init() {
	register(Emitter{Name: "LockFacts", Run: emitLockFacts})
}

type lockCall struct {
	Callee, File, Func string
	Args               []string
	IsTest             bool
}

const (
	holdPkgPath     = "github.com/provenance-io/provenance/x/hold"
	bankTypesPath   = "github.com/cosmos/cosmos-sdk/x/bank/types"
	provenanceMod   = "github.com/provenance-io/provenance"
	cosmosSDKModule = "github.com/cosmos/cosmos-sdk"
)

func sdkDir(c *Ctx) (string, string, error) {
	cmd := exec.Command("go", "list", "-m", "-f", "{{.Dir}}|{{if .Replace}}{{.Replace.Path}}@{{.Replace.Version}}{{else}}{{.Path}}@{{.Version}}{{end}}", cosmosSDKModule)
	cmd.Dir = c.Repo
	cmd.Env = append(os.Environ(), "GOFLAGS=-mod=mod", "GOPROXY=off", "GOSUMDB=off", "GOTOOLCHAIN=local")
	out, err := cmd.Output()
	if err != nil {
		return "", "", fmt.Errorf("go list -m %s: %w", cosmosSDKModule, err)
	}
	p := strings.SplitN(strings.TrimSpace(string(out)), "|", 2)
	if len(p) != 2 || p[0] == "" {
		return "", "", fmt.Errorf("cannot resolve %s: %q", cosmosSDKModule, out)
	}
	return p[0], p[1], nil
}

// walkGo calls fn for every .go file under root (skipping vendor-ish and hidden dirs).
func walkGo(root string, fn func(path string) error) error {
	return filepath.WalkDir(root, func(path string, d os.DirEntry, err error) error {
		if err != nil {
			return err
		}
		if d.IsDir() {
			n := d.Name()
			if path != root && (strings.HasPrefix(n, ".") || n == "node_modules" || n == "testdata" || n == "build") {
				return filepath.SkipDir
			}
			return nil
		}
		if strings.HasSuffix(path, ".go") {
			return fn(path)
		}
		return nil
	})
}

// importName returns the local name under which file f imports path ("" if it does not).
func importName(f *ast.File, path string) string {
	for _, im := range f.Imports {
		if strings.Trim(im.Path.Value, "\"") != path {
			continue
		}
		if im.Name != nil {
			return im.Name.Name
		}
		return path[strings.LastIndex(path, "/")+1:]
	}
	return ""
}

// calleeOf splits a call's function expression into (qualifier, name); generic instantiations
// (f[T](…)) are looked through.
func calleeOf(e ast.Expr) (string, string) {
	switch t := e.(type) {
	case *ast.IndexExpr:
		return calleeOf(t.X)
	case *ast.IndexListExpr:
		return calleeOf(t.X)
	case *ast.ParenExpr:
		return calleeOf(t.X)
	case *ast.Ident:
		return "", t.Name
	case *ast.SelectorExpr:
		if id, ok := t.X.(*ast.Ident); ok {
			return id.Name, t.Sel.Name
		}
		// k.Balances.Set → qualifier "Balances"
		if s, ok := t.X.(*ast.SelectorExpr); ok {
			return s.Sel.Name, t.Sel.Name
		}
		return "?", t.Sel.Name
	}
	return "", ""
}

func isVerifHook(f *ast.File) bool {
	for _, cg := range f.Comments {
		if cg.Pos() < f.Package && strings.Contains(cg.Text(), "go:build verif") {
			return true
		}
	}
	return false
}

// scanCalls parses every Go file under root and reports the calls selected by pick
// (which receives the file, its package name, and the call's qualifier and name).
func scanCalls(c *Ctx, root, relBase string, withTests bool,
	pick func(f *ast.File, pkg, qual, name string) (string, bool)) ([]lockCall, error) {
	var res []lockCall
	err := walkGo(root, func(path string) error {
		isTest := strings.HasSuffix(path, "_test.go")
		if isTest && !withTests {
			return nil
		}
		f, err := parser.ParseFile(c.Fset, path, nil, parser.ParseComments)
		if err != nil {
			return nil // not our business (generated / broken files of other build tags)
		}
		if isVerifHook(f) {
			return nil
		}
		rel, _ := filepath.Rel(relBase, path)
		for _, d := range f.Decls {
			fd, ok := d.(*ast.FuncDecl)
			fn := "<init>"
			var body ast.Node = d
			if ok {
				fn = fd.Name.Name
				if fd.Body == nil {
					continue
				}
				body = fd.Body
			}
			ast.Inspect(body, func(n ast.Node) bool {
				call, ok := n.(*ast.CallExpr)
				if !ok {
					return true
				}
				q, name := calleeOf(call.Fun)
				if name == "" {
					return true
				}
				if callee, ok := pick(f, f.Name.Name, q, name); ok {
					lc := lockCall{Callee: callee, File: filepath.ToSlash(rel), Func: fn, IsTest: isTest}
					for _, a := range call.Args {
						lc.Args = append(lc.Args, c.src(a))
					}
					res = append(res, lc)
				}
				return true
			})
		}
		return nil
	})
	sort.Slice(res, func(i, j int) bool {
		a, b := res[i], res[j]
		if a.Callee != b.Callee {
			return a.Callee < b.Callee
		}
		if a.File != b.File {
			return a.File < b.File
		}
		if a.Func != b.Func {
			return a.Func < b.Func
		}
		return strings.Join(a.Args, ",") < strings.Join(b.Args, ",")
	})
	return res, err
}

func emitLockFacts(c *Ctx) (string, error) {
	sdk, sdkMod, err := sdkDir(c)
	if err != nil {
		return "", err
	}

	// 1. balance writers in the forked bank module
	bankNames := map[string]bool{"setBalance": true, "subUnlockedCoins": true, "addCoins": true}
	bankCalls, err := scanCalls(c, filepath.Join(sdk, "x", "bank"), sdk, false, func(_ *ast.File, _, q, name string) (string, bool) {
		if bankNames[name] {
			return name, true
		}
		if q == "Balances" && (name == "Set" || name == "Remove" || name == "Clear") {
			return "Balances." + name, true
		}
		return "", false
	})
	if err != nil {
		return "", err
	}

	// 2. hold.WithBypass anywhere in the repository (tests included)
	holdBypass, err := scanCalls(c, c.Repo, c.Repo, true, func(f *ast.File, pkg, q, name string) (string, bool) {
		if name != "WithBypass" {
			return "", false
		}
		if q == "" {
			// unqualified: only inside package hold itself (x/hold/*.go)
			if pkg == "hold" {
				return "hold.WithBypass", true
			}
			return "", false
		}
		if in := importName(f, holdPkgPath); in != "" && q == in {
			return "hold.WithBypass", true
		}
		return "", false
	})
	if err != nil {
		return "", err
	}

	// 3. the vesting bypass (repository + SDK, non-test)
	pickVest := func(f *ast.File, pkg, q, name string) (string, bool) {
		if name != "WithVestingLockedBypass" {
			return "", false
		}
		if q == "" {
			return "banktypes.WithVestingLockedBypass", pkg == "types"
		}
		if in := importName(f, bankTypesPath); in != "" && q == in {
			return "banktypes.WithVestingLockedBypass", true
		}
		return "", false
	}
	vest1, err := scanCalls(c, c.Repo, c.Repo, false, pickVest)
	if err != nil {
		return "", err
	}
	vest2, err := scanCalls(c, filepath.Join(sdk, "x"), sdk, false, pickVest)
	if err != nil {
		return "", err
	}
	for i := range vest2 {
		vest2[i].File = "sdk:" + vest2[i].File
	}

	// 4. who shapes the locked-coins getter chain
	pickGetter := func(_ *ast.File, _, _, name string) (string, bool) {
		switch name {
		case "AppendLockedCoinsGetter", "PrependLockedCoinsGetter", "ClearLockedCoinsGetter":
			return name, true
		}
		return "", false
	}
	get1, err := scanCalls(c, c.Repo, c.Repo, false, pickGetter)
	if err != nil {
		return "", err
	}
	get2, err := scanCalls(c, filepath.Join(sdk, "x"), sdk, false, pickGetter)
	if err != nil {
		return "", err
	}
	for i := range get2 {
		get2[i].File = "sdk:" + get2[i].File
	}
	// the SDK's simapp etc. are not linked into provenance; only x/ is scanned above.

	// 4b. production call sites of the hold keeper's AddHold (outside x/hold), and whether
	// CreatePayment calls payment.Validate() before it
	addHold, err := scanCalls(c, filepath.Join(c.Repo, "x"), c.Repo, false, func(_ *ast.File, pkg, q, name string) (string, bool) {
		return "AddHold", name == "AddHold" && q != ""
	})
	if err != nil {
		return "", err
	}
	var addHoldProd []lockCall
	for _, x := range addHold {
		if !strings.HasPrefix(x.File, "x/hold/") {
			addHoldProd = append(addHoldProd, x)
		}
	}
	validatesFirst := false
	if pf, err := parser.ParseFile(c.Fset, filepath.Join(c.Repo, "x", "exchange", "keeper", "payments.go"), nil, 0); err == nil {
		for _, d := range pf.Decls {
			fd, ok := d.(*ast.FuncDecl)
			if !ok || fd.Name.Name != "CreatePayment" || fd.Body == nil {
				continue
			}
			sawValidate := false
			ast.Inspect(fd.Body, func(n ast.Node) bool {
				call, ok := n.(*ast.CallExpr)
				if !ok {
					return true
				}
				switch c.src(call.Fun) {
				case "payment.Validate":
					sawValidate = true
				case "k.holdKeeper.AddHold":
					validatesFirst = sawValidate
				}
				return true
			})
		}
	}

	// 5. wiring in app/app.go
	appFile, err := parser.ParseFile(c.Fset, filepath.Join(c.Repo, "app", "app.go"), nil, 0)
	if err != nil {
		return "", err
	}
	type wiring struct {
		Target, Callee string
		Args           []string
	}
	var wires []wiring
	ast.Inspect(appFile, func(n ast.Node) bool {
		as, ok := n.(*ast.AssignStmt)
		if !ok || len(as.Lhs) != 1 || len(as.Rhs) != 1 {
			return true
		}
		tgt := c.src(as.Lhs[0])
		if tgt != "app.BankKeeper" && tgt != "app.HoldKeeper" {
			return true
		}
		w := wiring{Target: tgt, Callee: "?"}
		if call, ok := as.Rhs[0].(*ast.CallExpr); ok {
			w.Callee = c.src(call.Fun)
			for _, a := range call.Args {
				w.Args = append(w.Args, c.src(a))
			}
		} else {
			w.Callee = "expr:" + c.src(as.Rhs[0])
		}
		wires = append(wires, w)
		return true
	})
	holdAlias := importName(appFile, holdPkgPath+"/keeper")

	var sb strings.Builder
	sb.WriteString("import PvProofs.Facts.LockTypes\n\nnamespace Generated.LockFacts\nopen PvProofs.Facts\n\n")
	fmt.Fprintf(&sb, "/-- the module `%s` resolves to -/\ndef sdkModule : String := %s\n\n", cosmosSDKModule, leanStr(sdkMod))
	fmt.Fprintf(&sb, "/-- local name of `%s/keeper` in app/app.go -/\ndef holdKeeperImport : String := %s\n\n", holdPkgPath, leanStr(holdAlias))
	writeCalls := func(name, doc string, cs []lockCall) {
		fmt.Fprintf(&sb, "/-- %s -/\ndef %s : List CallSite := [\n", doc, name)
		for i, x := range cs {
			sep := ","
			if i == len(cs)-1 {
				sep = ""
			}
			fmt.Fprintf(&sb, "  { callee := %s, file := %s, func := %s, args := %s, isTest := %s }%s\n",
				leanStr(x.Callee), leanStr(x.File), leanStr(x.Func), leanStrList(x.Args), leanBool(x.IsTest), sep)
		}
		sb.WriteString("]\n\n")
	}
	writeCalls("bankCalls", "balance-writing calls in the forked SDK's x/bank (non-test files)", bankCalls)
	writeCalls("holdBypassCalls", "every call of hold.WithBypass in the repository", holdBypass)
	writeCalls("vestingBypassCalls", "every call of banktypes.WithVestingLockedBypass (repository and sdk:x/, non-test)", append(vest1, vest2...))
	writeCalls("lockedGetterCalls", "every Append/Prepend/ClearLockedCoinsGetter call (repository and sdk:x/, non-test)", append(get1, get2...))
	writeCalls("addHoldCalls", "every call of the hold keeper's AddHold outside x/hold (non-test)", addHoldProd)
	fmt.Fprintf(&sb, "/-- does the exchange keeper's CreatePayment call payment.Validate() before AddHold -/\ndef validatesBeforeAddHold : List (String × Bool) := [(\"CreatePayment\", %s)]\n\n", leanBool(validatesFirst))
	sb.WriteString("/-- constructor calls assigned to app.BankKeeper / app.HoldKeeper in app/app.go -/\ndef appWiring : List Wiring := [\n")
	for i, w := range wires {
		sep := ","
		if i == len(wires)-1 {
			sep = ""
		}
		fmt.Fprintf(&sb, "  { target := %s, callee := %s, args := %s }%s\n", leanStr(w.Target), leanStr(w.Callee), leanStrList(w.Args), sep)
	}
	sb.WriteString("]\n\nend Generated.LockFacts\n")
	return sb.String(), nil
}
