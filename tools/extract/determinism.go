package main

// Determinism: every language-level source of run-to-run difference in the state-machine
// code (non-test files of x/*, internal/handlers, internal/antewrapper, app):
//   range over a map-typed operand, time.Now, math/rand, crypto/rand, go statements, select,
//   floating-point types.
// Each `range m` is classified from the AST:
//   sorted       the loop only collects keys/values into slices that are sorted afterwards in
//                the same function (sort.*, slices.Sort*), or the function returns a sorted result
//   commutative  the body only accumulates with order-insensitive updates (x = x.Add(..), +=,
//                m2[k] = .., delete(..), boolean/any-all flags, counters)
//   unordered    anything else (order can leak)
// Uses go/types (export data from `go list -export`) because "is the operand a map" needs types.

import (
	"encoding/json"
	"fmt"
	"go/ast"
	"go/importer"
	"go/parser"
	"go/token"
	"go/types"
	"io"
	"os"
	"os/exec"
	"path/filepath"
	"sort"
	"strings"
)

func init() { register(Emitter{Name: "Determinism", Run: emitDeterminism}) }

type listPkg struct {
	ImportPath string
	Dir        string
	GoFiles    []string
	Export     string
	Standard   bool
	ImportMap  map[string]string
}

type detFact struct {
	File, Func, Kind, Cls, Detail string
}

func emitDeterminism(c *Ctx) (string, error) {
	cmd := exec.Command("go", "list", "-export", "-deps", "-json=ImportPath,Dir,GoFiles,Export,Standard,ImportMap",
		"./x/...", "./internal/handlers/...", "./internal/antewrapper/...", "./app/...")
	cmd.Dir = c.Repo
	cmd.Env = append(os.Environ(), "GOFLAGS=-mod=mod", "GOPROXY=off", "GOSUMDB=off", "GOTOOLCHAIN=local")
	cmd.Stderr = os.Stderr
	outb, err := cmd.Output()
	if err != nil {
		return "", fmt.Errorf("go list: %w", err)
	}
	exports := map[string]string{}
	var targets []listPkg
	dec := json.NewDecoder(strings.NewReader(string(outb)))
	const mod = "github.com/provenance-io/provenance/"
	for dec.More() {
		var p listPkg
		if err := dec.Decode(&p); err != nil {
			return "", err
		}
		if p.Export != "" {
			exports[p.ImportPath] = p.Export
		}
		if strings.HasPrefix(p.ImportPath, mod) {
			rel := strings.TrimPrefix(p.ImportPath, mod)
			if strings.HasPrefix(rel, "x/") || strings.HasPrefix(rel, "internal/handlers") || strings.HasPrefix(rel, "internal/antewrapper") || rel == "app" || strings.HasPrefix(rel, "app/") {
				if strings.Contains(rel, "/simulation") || strings.Contains(rel, "/client/") || strings.HasSuffix(rel, "/client") || strings.Contains(rel, "testutil") || strings.Contains(rel, "verifhooks") {
					continue // CLI / simulation / test helpers never run inside the state machine
				}
				targets = append(targets, p)
			}
		}
	}
	fset := token.NewFileSet()
	imp := importer.ForCompiler(fset, "gc", func(path string) (io.ReadCloser, error) {
		f, ok := exports[path]
		if !ok {
			return nil, fmt.Errorf("no export data for %s", path)
		}
		return os.Open(f)
	})
	var facts []detFact
	for _, p := range targets {
		var files []*ast.File
		for _, gf := range p.GoFiles {
			if strings.HasSuffix(gf, ".pb.go") || strings.HasSuffix(gf, ".pb.gw.go") {
				// generated protobuf code: marshalling iterates no state maps; skipped to keep the table small
				f, err := parser.ParseFile(fset, filepath.Join(p.Dir, gf), nil, parser.SkipObjectResolution)
				if err != nil {
					return "", err
				}
				files = append(files, f)
				continue
			}
			f, err := parser.ParseFile(fset, filepath.Join(p.Dir, gf), nil, parser.ParseComments)
			if err != nil {
				return "", err
			}
			files = append(files, f)
		}
		info := &types.Info{Types: map[ast.Expr]types.TypeAndValue{}, Uses: map[*ast.Ident]types.Object{}}
		conf := types.Config{Importer: importerWithMap{imp, p.ImportMap}, Error: func(error) {}}
		_, _ = conf.Check(p.ImportPath, fset, files, info)
		for _, f := range files {
			fname := fset.Position(f.Pos()).Filename
			rel, _ := filepath.Rel(c.Repo, fname)
			if strings.HasSuffix(rel, ".pb.go") || strings.HasSuffix(rel, ".pb.gw.go") {
				continue
			}
			for _, d := range f.Decls {
				fd, ok := d.(*ast.FuncDecl)
				if !ok || fd.Body == nil {
					continue
				}
				fn := fd.Name.Name
				if r := recvTypeName(fd); r != "" {
					fn = r + "." + fn
				}
				facts = append(facts, scanFunc(c, fset, info, rel, fn, fd)...)
			}
		}
	}
	sort.Slice(facts, func(i, j int) bool {
		a, b := facts[i], facts[j]
		if a.File != b.File {
			return a.File < b.File
		}
		if a.Func != b.Func {
			return a.Func < b.Func
		}
		if a.Kind != b.Kind {
			return a.Kind < b.Kind
		}
		return a.Detail < b.Detail
	})
	var sb strings.Builder
	sb.WriteString("import PvProofs.Facts.DetTypes\n\nnamespace Generated\nopen PvProofs.Facts\n\ndef determinism : List DetFact := [\n")
	for i, f := range facts {
		sep := ","
		if i == len(facts)-1 {
			sep = ""
		}
		fmt.Fprintf(&sb, "  { file := %s, func := %s, kind := %s, cls := %s, detail := %s }%s\n",
			leanStr(f.File), leanStr(f.Func), leanStr(f.Kind), leanStr(f.Cls), leanStr(f.Detail), sep)
	}
	sb.WriteString("]\n\nend Generated\n")
	return sb.String(), nil
}

type importerWithMap struct {
	imp types.Importer
	m   map[string]string
}

func (i importerWithMap) Import(path string) (*types.Package, error) {
	if r, ok := i.m[path]; ok {
		path = r
	}
	return i.imp.Import(path)
}

func scanFunc(c *Ctx, fset *token.FileSet, info *types.Info, file, fn string, fd *ast.FuncDecl) []detFact {
	var res []detFact
	add := func(kind, cls, detail string) {
		res = append(res, detFact{File: file, Func: fn, Kind: kind, Cls: cls, Detail: detail})
	}
	ast.Inspect(fd.Body, func(n ast.Node) bool {
		switch s := n.(type) {
		case *ast.RangeStmt:
			tv, ok := info.Types[s.X]
			if !ok || tv.Type == nil {
				return true
			}
			if _, isMap := tv.Type.Underlying().(*types.Map); isMap {
				add("range-map", classifyRange(c, fd, s), exprStr(fset, s.X))
			}
		case *ast.GoStmt:
			add("go-stmt", "concurrency", "")
		case *ast.SelectStmt:
			add("select", "concurrency", "")
		case *ast.CallExpr:
			if sel, ok := s.Fun.(*ast.SelectorExpr); ok {
				if id, ok := sel.X.(*ast.Ident); ok {
					if obj, ok := info.Uses[id].(*types.PkgName); ok {
						switch obj.Imported().Path() {
						case "time":
							if sel.Sel.Name == "Now" || sel.Sel.Name == "Since" || sel.Sel.Name == "Until" {
								add("clock", clockClass(fset, fd, s), "time."+sel.Sel.Name)
							}
						case "math/rand", "math/rand/v2", "crypto/rand":
							add("random", "random", obj.Imported().Path()+"."+sel.Sel.Name)
						}
					}
				}
			}
		case *ast.Ident:
			if s.Name == "float32" || s.Name == "float64" {
				if _, ok := info.Uses[s].(*types.TypeName); ok {
					add("float", "float", s.Name)
				}
			}
		}
		return true
	})
	return res
}

func exprStr(fset *token.FileSet, e ast.Expr) string {
	c := &Ctx{Fset: fset}
	s := c.src(e)
	if len(s) > 60 {
		s = s[:60]
	}
	return s
}

// clockClass: time.Now() used only as the argument of telemetry (MeasureSince / telemetry.Now is
// a different package) is "telemetry"; anything else "clock".
func clockClass(fset *token.FileSet, fd *ast.FuncDecl, call *ast.CallExpr) string {
	cls := "clock"
	ast.Inspect(fd.Body, func(n ast.Node) bool {
		if outer, ok := n.(*ast.CallExpr); ok {
			for _, a := range outer.Args {
				if a == ast.Expr(call) {
					if sel, ok := outer.Fun.(*ast.SelectorExpr); ok && (strings.Contains(sel.Sel.Name, "MeasureSince") || strings.Contains(sel.Sel.Name, "Measure")) {
						cls = "telemetry"
					}
				}
			}
		}
		return true
	})
	return cls
}

// classifyRange inspects the loop body. Every statement must be one of
//   collect      x = append(x, …)            (order-sensitive unless x is sorted afterwards)
//   commutative  x = x.Add(…), m2[k] = …, x += …, n++, delete(…), flag = true/false
//   neutral      local := definitions, continue, if/for/block wrappers of the above
// otherwise the loop is "unordered".
func classifyRange(c *Ctx, fd *ast.FuncDecl, rs *ast.RangeStmt) string {
	collected := map[string]bool{}
	other := false
	var check func(st ast.Stmt)
	checkBlock := func(b *ast.BlockStmt) {
		if b == nil {
			return
		}
		for _, st := range b.List {
			check(st)
		}
	}
	check = func(st ast.Stmt) {
		switch s := st.(type) {
		case *ast.AssignStmt:
			if s.Tok == token.DEFINE {
				return // temporaries
			}
			if s.Tok == token.ADD_ASSIGN || s.Tok == token.OR_ASSIGN || s.Tok == token.AND_ASSIGN {
				return
			}
			if len(s.Lhs) == 1 && len(s.Rhs) == 1 {
				if _, ok := s.Lhs[0].(*ast.IndexExpr); ok {
					return // m2[k] = …
				}
				if call, ok := s.Rhs[0].(*ast.CallExpr); ok {
					if id, ok := call.Fun.(*ast.Ident); ok && id.Name == "append" && len(call.Args) >= 1 && c.src(s.Lhs[0]) == c.src(call.Args[0]) {
						collected[c.src(s.Lhs[0])] = true
						return
					}
					if sel, ok := call.Fun.(*ast.SelectorExpr); ok {
						switch sel.Sel.Name {
						case "Add", "Sub", "AddRaw", "Max", "Min":
							if c.src(sel.X) == c.src(s.Lhs[0]) {
								return
							}
						}
					}
				}
				if id, ok := s.Rhs[0].(*ast.Ident); ok && (id.Name == "true" || id.Name == "false") {
					return
				}
			}
			other = true
		case *ast.IncDecStmt:
			return
		case *ast.ExprStmt:
			if call, ok := s.X.(*ast.CallExpr); ok {
				if id, ok := call.Fun.(*ast.Ident); ok && id.Name == "delete" {
					return
				}
			}
			other = true
		case *ast.IfStmt:
			if s.Init != nil {
				check(s.Init)
			}
			checkBlock(s.Body)
			switch e := s.Else.(type) {
			case *ast.BlockStmt:
				checkBlock(e)
			case ast.Stmt:
				check(e)
			}
		case *ast.RangeStmt:
			checkBlock(s.Body)
		case *ast.ForStmt:
			checkBlock(s.Body)
		case *ast.BlockStmt:
			checkBlock(s)
		case *ast.BranchStmt:
			if s.Tok != token.CONTINUE {
				other = true
			}
		default:
			other = true
		}
	}
	checkBlock(rs.Body)
	if other {
		return "unordered"
	}
	for name := range collected {
		if !sortedLater(c, fd, rs, name) {
			return "unordered"
		}
	}
	if len(collected) > 0 {
		return "sorted"
	}
	return "commutative"
}

// sortedLater: after the range statement, the function calls sort.X(name…) / slices.SortX(name…)
// (or passes it to a function whose name contains "sort").
func sortedLater(c *Ctx, fd *ast.FuncDecl, rs *ast.RangeStmt, name string) bool {
	found := false
	ast.Inspect(fd.Body, func(n ast.Node) bool {
		call, ok := n.(*ast.CallExpr)
		if !ok || call.Pos() < rs.End() {
			return true
		}
		fn := strings.ToLower(c.src(call.Fun))
		if !strings.Contains(fn, "sort") {
			return true
		}
		for _, a := range call.Args {
			if strings.Contains(c.src(a), name) {
				found = true
			}
		}
		return true
	})
	return found
}
