package main

// KeeperState: in-memory state that survives between blocks inside keeper objects is the classic
// way a node's behaviour comes to depend on when it was (re)started. For every struct type named
// Keeper (and the app-level wrappers in internal/handlers, internal/antewrapper) this emitter
// lists the fields that can hold mutable in-memory data (map, slice, chan, and pointer-to-struct
// fields declared in the same package) together with every function OTHER than the constructors
// that assigns to the field, indexes into it on the left-hand side, appends to it or deletes from
// it. The Lean side proves that no such mutation exists outside the reviewed list.

import (
	"fmt"
	"go/ast"
	"go/token"
	"os"
	"path/filepath"
	"sort"
	"strings"
)

func init() { register(Emitter{Name: "KeeperState", Run: emitKeeperState}) }

type keeperField struct {
	Pkg, Type, Field, Kind string
	MutatedIn              []string
}

func emitKeeperState(c *Ctx) (string, error) {
	var dirs []string
	mods, err := os.ReadDir(filepath.Join(c.Repo, "x"))
	if err != nil {
		return "", err
	}
	for _, m := range mods {
		if m.IsDir() {
			d := filepath.Join("x", m.Name(), "keeper")
			if _, err := os.Stat(filepath.Join(c.Repo, d)); err == nil {
				dirs = append(dirs, d)
			}
		}
	}
	dirs = append(dirs, "internal/handlers", "internal/antewrapper")
	var facts []keeperField
	for _, d := range dirs {
		files, err := c.parseDir(d)
		if err != nil {
			continue
		}
		// 1. struct types of interest and their mutable-capable fields; struct types of the same
		// package that a keeper points to (`cache *fooCache`) are followed one level down
		type tf struct{ typ, field, kind string }
		var fields []tf
		structs := map[string]*ast.StructType{}
		for _, f := range files {
			for _, decl := range f.Decls {
				gd, ok := decl.(*ast.GenDecl)
				if !ok || gd.Tok != token.TYPE {
					continue
				}
				for _, sp := range gd.Specs {
					ts := sp.(*ast.TypeSpec)
					if st, ok := ts.Type.(*ast.StructType); ok {
						structs[ts.Name.Name] = st
					}
				}
			}
		}
		isKeeperLike := func(n string) bool {
			return n == "Keeper" || strings.HasSuffix(n, "Keeper") || strings.HasSuffix(n, "Router") || strings.HasSuffix(n, "Invoker") || strings.HasSuffix(n, "Decorator")
		}
		interesting := map[string]bool{}
		for n := range structs {
			if isKeeperLike(n) {
				interesting[n] = true
			}
		}
		for n := range structs {
			if !isKeeperLike(n) {
				continue
			}
			for _, fl := range structs[n].Fields.List {
				t := fl.Type
				if se, ok := t.(*ast.StarExpr); ok {
					t = se.X
				}
				if id, ok := t.(*ast.Ident); ok {
					if _, ok := structs[id.Name]; ok {
						interesting[id.Name] = true
					}
				}
			}
		}
		for _, n := range sortedKeys(interesting) {
			for _, fl := range structs[n].Fields.List {
				kind := ""
				switch fl.Type.(type) {
				case *ast.MapType:
					kind = "map"
				case *ast.ArrayType:
					kind = "slice"
				case *ast.ChanType:
					kind = "chan"
				}
				if kind == "" {
					continue
				}
				for _, nm := range fl.Names {
					fields = append(fields, tf{n, nm.Name, kind})
				}
			}
		}
		if len(fields) == 0 {
			continue
		}
		// 2. mutations outside constructors
		for _, fld := range fields {
			mut := map[string]bool{}
			for _, f := range files {
				for _, decl := range f.Decls {
					fd, ok := decl.(*ast.FuncDecl)
					if !ok || fd.Body == nil {
						continue
					}
					if strings.HasPrefix(fd.Name.Name, "New") || strings.HasPrefix(fd.Name.Name, "new") {
						continue // constructors configure the keeper once at start-up
					}
					fn := fd.Name.Name
					if r := recvTypeName(fd); r != "" {
						fn = r + "." + fn
					}
					isField := func(e ast.Expr) bool {
						for {
							switch t := e.(type) {
							case *ast.IndexExpr:
								e = t.X
								continue
							case *ast.ParenExpr:
								e = t.X
								continue
							case *ast.StarExpr:
								e = t.X
								continue
							case *ast.SelectorExpr:
								return t.Sel.Name == fld.field
							}
							return false
						}
					}
					ast.Inspect(fd.Body, func(n ast.Node) bool {
						switch s := n.(type) {
						case *ast.AssignStmt:
							for _, l := range s.Lhs {
								if isField(l) {
									mut[fn] = true
								}
							}
						case *ast.IncDecStmt:
							if isField(s.X) {
								mut[fn] = true
							}
						case *ast.CallExpr:
							if id, ok := s.Fun.(*ast.Ident); ok && id.Name == "delete" && len(s.Args) > 0 && isField(s.Args[0]) {
								mut[fn] = true
							}
						}
						return true
					})
				}
			}
			facts = append(facts, keeperField{Pkg: d, Type: fld.typ, Field: fld.field, Kind: fld.kind, MutatedIn: sortedKeys(mut)})
		}
	}
	sort.Slice(facts, func(i, j int) bool {
		a, b := facts[i], facts[j]
		if a.Pkg != b.Pkg {
			return a.Pkg < b.Pkg
		}
		if a.Type != b.Type {
			return a.Type < b.Type
		}
		return a.Field < b.Field
	})
	var sb strings.Builder
	sb.WriteString("import PvProofs.Facts.DetTypes\n\nnamespace Generated\nopen PvProofs.Facts\n\ndef keeperState : List KeeperField := [\n")
	for i, f := range facts {
		sep := ","
		if i == len(facts)-1 {
			sep = ""
		}
		fmt.Fprintf(&sb, "  { pkg := %s, type := %s, field := %s, kind := %s, mutatedIn := %s }%s\n",
			leanStr(f.Pkg), leanStr(f.Type), leanStr(f.Field), leanStr(f.Kind), leanStrList(f.MutatedIn), sep)
	}
	sb.WriteString("]\n\nend Generated\n")
	return sb.String(), nil
}
