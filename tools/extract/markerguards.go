package main

import (
	"fmt"
	"go/ast"
	"path/filepath"
	"sort"
	"strings"
)

// MarkerGuards (C12): for every method of x/marker/keeper's `msgServer` and every `Keeper`
// method of x/marker/keeper/marker.go:
//
//	checks      (<Method>, <Right>) for each call of HasAccess / AddressHasAccess /
//	            ValidateHasAccess / ValidateAddressHasAccess (also AtLeastOneAddrHasAccess
//	            variants) whose role argument is the constant types.Access_<Right>, in source order
//	calls       the methods of marker.go's Keeper that the function calls on its receiver
//	            (k.X(…) or k.Keeper.X(…)), in order of first use
//	statuses    the types.Status<S> constants it mentions, in order of first use
//	authority   it calls GetAuthority() or ValidateAuthority(…)
//	govEnabled  it calls HasGovernanceEnabled()
//	anyGrants   it calls GrantsForAddress(…) (any right at all)
//
// plus, from x/marker/types/authz.go, the fields that `Accept` sets in the
// `MarkerTransferAuthorization` it returns as `Updated`, and the methods that
// `accountControlsAllSupply` calls (does it read the recorded or the bank supply?).
func init() {
	register(Emitter{Name: "MarkerGuards", Run: emitMarkerGuards})
}

type markerFn struct {
	File, Recv, Name      string
	Checks                [][2]string
	Calls, Statuses       []string
	Authority, GovEnabled bool
	AnyGrants             bool
}

var accessCheckFns = map[string]bool{
	"HasAccess": true, "AddressHasAccess": true, "ValidateHasAccess": true, "ValidateAddressHasAccess": true,
	"AtLeastOneAddrHasAccess": true, "ValidateAtLeastOneAddrHasAccess": true,
}

func emitMarkerGuards(c *Ctx) (string, error) {
	rel := filepath.Join("x", "marker", "keeper")
	files, err := c.parseDir(rel)
	if err != nil {
		return "", err
	}
	// the Keeper methods defined in marker.go
	keeperFns := map[string]bool{}
	for fname, f := range files {
		if filepath.Base(fname) != "marker.go" {
			continue
		}
		for _, d := range f.Decls {
			if fd, ok := d.(*ast.FuncDecl); ok && fd.Body != nil && recvTypeName(fd) == "Keeper" {
				keeperFns[fd.Name.Name] = true
			}
		}
	}
	var fns []markerFn
	var supplyCalls []string
	for _, fname := range sortedKeys(files) {
		base := filepath.Base(fname)
		if base != "marker.go" && base != "msg_server.go" {
			continue
		}
		for _, d := range files[fname].Decls {
			fd, ok := d.(*ast.FuncDecl)
			if !ok || fd.Body == nil || fd.Recv == nil {
				continue
			}
			recv := recvTypeName(fd)
			if recv != "Keeper" && recv != "msgServer" {
				continue
			}
			recvVar := ""
			if len(fd.Recv.List[0].Names) > 0 {
				recvVar = fd.Recv.List[0].Names[0].Name
			}
			if fd.Name.Name == "accountControlsAllSupply" {
				seen := map[string]bool{}
				ast.Inspect(fd.Body, func(n ast.Node) bool {
					if call, ok := n.(*ast.CallExpr); ok {
						if _, ok := call.Fun.(*ast.SelectorExpr); ok {
							if src := c.src(call.Fun); !seen[src] {
								seen[src] = true
								supplyCalls = append(supplyCalls, src)
							}
						}
					}
					return true
				})
			}
			mf := markerFn{File: base, Recv: recv, Name: fd.Name.Name}
			seenCall, seenStatus := map[string]bool{}, map[string]bool{}
			ast.Inspect(fd.Body, func(n ast.Node) bool {
				switch t := n.(type) {
				case *ast.CallExpr:
					sel, ok := t.Fun.(*ast.SelectorExpr)
					if !ok {
						return true
					}
					name := sel.Sel.Name
					if accessCheckFns[name] {
						for _, a := range t.Args {
							if s, ok := a.(*ast.SelectorExpr); ok && strings.HasPrefix(s.Sel.Name, "Access_") {
								mf.Checks = append(mf.Checks, [2]string{name, strings.TrimPrefix(s.Sel.Name, "Access_")})
							}
						}
					}
					switch name {
					case "GetAuthority", "ValidateAuthority":
						mf.Authority = true
					case "HasGovernanceEnabled":
						mf.GovEnabled = true
					case "GrantsForAddress":
						mf.AnyGrants = true
					}
					// k.X(…) / k.Keeper.X(…)
					if keeperFns[name] && isRecvOrEmbeddedKeeper(sel.X, recvVar) && !seenCall[name] {
						seenCall[name] = true
						mf.Calls = append(mf.Calls, name)
					}
				case *ast.SelectorExpr:
					if strings.HasPrefix(t.Sel.Name, "Status") && len(t.Sel.Name) > 6 {
						if id, ok := t.X.(*ast.Ident); ok && id.Name == "types" && !seenStatus[t.Sel.Name] {
							seenStatus[t.Sel.Name] = true
							mf.Statuses = append(mf.Statuses, strings.TrimPrefix(t.Sel.Name, "Status"))
						}
					}
				}
				return true
			})
			fns = append(fns, mf)
		}
	}
	sort.Slice(fns, func(i, j int) bool {
		if fns[i].Recv != fns[j].Recv {
			return fns[i].Recv < fns[j].Recv
		}
		return fns[i].Name < fns[j].Name
	})

	// authz.go: fields of the Updated authorization returned by Accept
	tfiles, err := c.parseDir(filepath.Join("x", "marker", "types"))
	if err != nil {
		return "", err
	}
	var updated []string
	foundAccept := false
	for fname, f := range tfiles {
		if filepath.Base(fname) != "authz.go" {
			continue
		}
		for _, d := range f.Decls {
			fd, ok := d.(*ast.FuncDecl)
			if !ok || fd.Body == nil || fd.Name.Name != "Accept" || recvTypeName(fd) != "MarkerTransferAuthorization" {
				continue
			}
			foundAccept = true
			ast.Inspect(fd.Body, func(n ast.Node) bool {
				kv, ok := n.(*ast.KeyValueExpr)
				if !ok {
					return true
				}
				if id, ok := kv.Key.(*ast.Ident); !ok || id.Name != "Updated" {
					return true
				}
				v := kv.Value
				if u, ok := v.(*ast.UnaryExpr); ok {
					v = u.X
				}
				if cl, ok := v.(*ast.CompositeLit); ok {
					for _, el := range cl.Elts {
						if ekv, ok := el.(*ast.KeyValueExpr); ok {
							if id, ok := ekv.Key.(*ast.Ident); ok {
								updated = append(updated, id.Name)
							}
						}
					}
				}
				return true
			})
		}
	}
	if !foundAccept {
		return "", fmt.Errorf("MarkerTransferAuthorization.Accept not found in x/marker/types/authz.go")
	}

	var sb strings.Builder
	sb.WriteString("import PvProofs.Facts.MarkerGuardTypes\n\nnamespace Generated\nopen PvProofs.Facts\n\n")
	sb.WriteString("def markerFns : List MarkerFn := [\n")
	for i, f := range fns {
		sep := ","
		if i == len(fns)-1 {
			sep = ""
		}
		fmt.Fprintf(&sb, "  { file := %s, recv := %s, name := %s, checks := %s, calls := %s, statuses := %s, authority := %s, govEnabled := %s, anyGrants := %s }%s\n",
			leanStr(f.File), leanStr(f.Recv), leanStr(f.Name), leanPairList(f.Checks), leanStrList(f.Calls), leanStrList(f.Statuses),
			leanBool(f.Authority), leanBool(f.GovEnabled), leanBool(f.AnyGrants), sep)
	}
	sb.WriteString("]\n\n/-- the fields set in the `MarkerTransferAuthorization` literal that `Accept` returns as `Updated` -/\n")
	fmt.Fprintf(&sb, "def acceptUpdatedFields : List String := %s\n\n", leanStrList(updated))
	sb.WriteString("/-- the methods `accountControlsAllSupply` calls (selector as written), in order of first use -/\n")
	fmt.Fprintf(&sb, "def supplyControlCalls : List String := %s\n\nend Generated\n", leanStrList(supplyCalls))
	return sb.String(), nil
}

// isRecvOrEmbeddedKeeper: e is the receiver variable `v` or `v.Keeper`.
func isRecvOrEmbeddedKeeper(e ast.Expr, v string) bool {
	switch t := e.(type) {
	case *ast.Ident:
		return v != "" && t.Name == v
	case *ast.SelectorExpr:
		if id, ok := t.X.(*ast.Ident); ok {
			return v != "" && id.Name == v && t.Sel.Name == "Keeper"
		}
	}
	return false
}

func leanPairList(xs [][2]string) string {
	ys := make([]string, len(xs))
	for i, x := range xs {
		ys[i] = "(" + leanStr(x[0]) + ", " + leanStr(x[1]) + ")"
	}
	return "[" + strings.Join(ys, ", ") + "]"
}
