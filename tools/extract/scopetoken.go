package main

import (
	"fmt"
	"go/ast"
	"path/filepath"
	"sort"
	"strings"
)

// ScopeToken (C09): where the metadata module touches the bank keeper and who calls the
// functions that move a scope's value-owner token.
//
//	bankCalls    every `<recv>.bankKeeper.<Method>(…)` call in x/metadata/keeper (non-test):
//	             file, enclosing function, method — in source order.
//	setterCalls  every call of SetScope / RemoveScope / SetScopeValueOwner / SetScopeValueOwners
//	             in x/metadata/keeper (non-test): file, enclosing function, callee, and
//	               agents      the slice spread into markertypes.WithTransferAgents(ctx, X...) when
//	                           that is the call's context argument, "" for a plain context;
//	               agentsFrom  the keeper method whose first result X was assigned from;
//	               scopeFrom   for SetScope: "msg" when the scope argument is <msg>.Scope,
//	                           "GetScope" when it is a variable assigned from <recv>.GetScope(…)
//	                           (directly or through `x := y` copies), "param" when it is a
//	                           parameter/range variable, "other" otherwise; "" for other callees.
//	getScopeClearsValueOwner   readScopeBz assigns scope.ValueOwnerAddress = "" and GetScope
//	                           returns through mustReadScopeBz → readScopeBz.
func init() {
	register(Emitter{Name: "ScopeToken", Run: emitScopeToken})
}

type stBankCall struct{ File, Func, Method string }
type stSetterCall struct{ File, Func, Callee, Agents, AgentsFrom, ScopeFrom string }

var stSetters = map[string]bool{"SetScope": true, "RemoveScope": true, "SetScopeValueOwner": true, "SetScopeValueOwners": true}

func emitScopeToken(c *Ctx) (string, error) {
	rel := filepath.Join("x", "metadata", "keeper")
	files, err := c.parseDir(rel)
	if err != nil {
		return "", err
	}
	var banks []stBankCall
	var setters []stSetterCall
	clears, mustCalls, getCalls := false, false, false
	for _, fname := range sortedKeys(files) {
		f := files[fname]
		base := filepath.Base(fname)
		for _, d := range f.Decls {
			fd, ok := d.(*ast.FuncDecl)
			if !ok || fd.Body == nil {
				continue
			}
			fn := fd.Name.Name
			// variable origins within this function
			from := map[string]string{}   // var -> keeper method its value came from (first result)
			origin := map[string]string{} // var -> "GetScope" | "param" | …
			msgVar := ""
			if fd.Type.Params != nil {
				for _, p := range fd.Type.Params.List {
					for _, n := range p.Names {
						origin[n.Name] = "param"
						if st, ok := p.Type.(*ast.StarExpr); ok {
							if se, ok := st.X.(*ast.SelectorExpr); ok && strings.HasPrefix(se.Sel.Name, "Msg") {
								msgVar = n.Name
							}
						}
					}
				}
			}
			ast.Inspect(fd.Body, func(n ast.Node) bool {
				switch t := n.(type) {
				case *ast.RangeStmt:
					if id, ok := t.Value.(*ast.Ident); ok {
						origin[id.Name] = "param"
					}
				case *ast.AssignStmt:
					if len(t.Rhs) == 1 && len(t.Lhs) >= 1 {
						if lhs, ok := t.Lhs[0].(*ast.Ident); ok {
							switch r := t.Rhs[0].(type) {
							case *ast.CallExpr:
								if se, ok := r.Fun.(*ast.SelectorExpr); ok {
									if _, isIdent := se.X.(*ast.Ident); isIdent {
										from[lhs.Name] = se.Sel.Name
										if se.Sel.Name == "GetScope" {
											origin[lhs.Name] = "GetScope"
										} else {
											origin[lhs.Name] = "other"
										}
									}
								}
							case *ast.Ident:
								if o, ok := origin[r.Name]; ok {
									origin[lhs.Name] = o
								}
								if o, ok := from[r.Name]; ok {
									from[lhs.Name] = o
								}
							}
						}
					}
					// scope.ValueOwnerAddress = "" inside readScopeBz
					if fn == "readScopeBz" && len(t.Lhs) == 1 && len(t.Rhs) == 1 {
						if se, ok := t.Lhs[0].(*ast.SelectorExpr); ok && se.Sel.Name == "ValueOwnerAddress" {
							if bl, ok := t.Rhs[0].(*ast.BasicLit); ok && bl.Value == `""` {
								clears = true
							}
						}
					}
				case *ast.CallExpr:
					se, ok := t.Fun.(*ast.SelectorExpr)
					if !ok {
						return true
					}
					// <recv>.bankKeeper.<Method>(…)
					if inner, ok := se.X.(*ast.SelectorExpr); ok && inner.Sel.Name == "bankKeeper" {
						banks = append(banks, stBankCall{base, fn, se.Sel.Name})
					}
					if fn == "mustReadScopeBz" && se.Sel.Name == "readScopeBz" {
						mustCalls = true
					}
					if fn == "GetScope" && se.Sel.Name == "mustReadScopeBz" {
						getCalls = true
					}
					if _, isIdent := se.X.(*ast.Ident); isIdent && stSetters[se.Sel.Name] && len(t.Args) >= 1 {
						sc := stSetterCall{File: base, Func: fn, Callee: se.Sel.Name}
						if ce, ok := t.Args[0].(*ast.CallExpr); ok {
							if cs, ok := ce.Fun.(*ast.SelectorExpr); ok && cs.Sel.Name == "WithTransferAgents" && len(ce.Args) == 2 && ce.Ellipsis.IsValid() {
								if id, ok := ce.Args[1].(*ast.Ident); ok {
									sc.Agents = id.Name
									sc.AgentsFrom = from[id.Name]
								} else {
									sc.Agents = c.src(ce.Args[1])
								}
							} else {
								sc.Agents = "?" + c.src(t.Args[0])
							}
						}
						if se.Sel.Name == "SetScope" && len(t.Args) == 2 {
							sc.ScopeFrom = "other"
							switch a := t.Args[1].(type) {
							case *ast.Ident:
								if o, ok := origin[a.Name]; ok {
									sc.ScopeFrom = o
								}
							case *ast.SelectorExpr:
								if id, ok := a.X.(*ast.Ident); ok && id.Name == msgVar && a.Sel.Name == "Scope" {
									sc.ScopeFrom = "msg"
								}
							}
						}
						setters = append(setters, sc)
					}
				}
				return true
			})
		}
	}
	sort.SliceStable(setters, func(i, j int) bool {
		if setters[i].File != setters[j].File {
			return setters[i].File < setters[j].File
		}
		return false
	})
	var sb strings.Builder
	sb.WriteString("import PvProofs.Facts.ScopeToken\n\nnamespace Generated.ScopeToken\nopen PvProofs.Facts\n\n")
	sb.WriteString("def bankCalls : List BankCall := [\n")
	for i, b := range banks {
		sep := ","
		if i == len(banks)-1 {
			sep = ""
		}
		fmt.Fprintf(&sb, "  { file := %s, fn := %s, method := %s }%s\n", leanStr(b.File), leanStr(b.Func), leanStr(b.Method), sep)
	}
	sb.WriteString("]\n\ndef setterCalls : List SetterCall := [\n")
	for i, s := range setters {
		sep := ","
		if i == len(setters)-1 {
			sep = ""
		}
		fmt.Fprintf(&sb, "  { file := %s, fn := %s, callee := %s, agents := %s, agentsFrom := %s, scopeFrom := %s }%s\n",
			leanStr(s.File), leanStr(s.Func), leanStr(s.Callee), leanStr(s.Agents), leanStr(s.AgentsFrom), leanStr(s.ScopeFrom), sep)
	}
	fmt.Fprintf(&sb, "]\n\ndef getScopeClearsValueOwner : Bool := %s\n\nend Generated.ScopeToken\n", leanBool(clears && mustCalls && getCalls))
	return sb.String(), nil
}
