package main

// Arith: a translator (not a fact extractor) for the pure big-integer kernels of the fee code.
// It re-reads the Go functions listed in arithTargets on every run and writes them as Lean
// definitions in the `Except AErr` monad over the primitives of lean/PvModel/GoInt.lean
// (sdkmath.Int = unbounded Int + 256-bit overflow panic, T-division, sdk.Coin = denom × amount).
// lean/PvProofs/C19Gen.lean then proves, for all inputs, that each translated definition equals
// the hand-written model the C19 theorems are about — so those theorems are re-checked against
// what the code says now, not only against sampled executions.
//
// Supported Go subset (anything else makes the function "untranslatable", which removes its
// definition and thereby breaks the equality theorem — a broken proof obligation):
//   statements : `x := e`, `x = e`, `x.Field = e`, `a, b := f(..)`, `if c {..} [else {..}]`, `return ..`
//   expressions: identifiers, field selectors of Coin/FeeRatio, integer/string literals, `!`, `&&`,
//                `||`, comparisons, `*` of Sign() values, the sdkmath.Int / sdk.Coin methods and
//                constructors in the tables below, calls of other translated functions,
//                `sdk.Coin{Denom:.., Amount:..}`.
// Translation rules: every operation that can panic in Go (overflow, division by zero, negative
// coin) is a monadic primitive, bound in evaluation order (ANF); an `if` whose branches contain a
// `return` gets the rest of the block copied into both branches; an `if` without `return` yields
// the tuple of outer variables it assigns; `v.., err := f(..)` binds in the monad and a following
// `if err != nil { return .. }` is therefore dropped; returning a non-nil error is `throw`.

import (
	"fmt"
	"go/ast"
	"go/token"
	"strings"
)

func init() { register(Emitter{Name: "FeeArith", Run: emitArith}) }

type arithTarget struct {
	Dir, Recv, Name string
}

var arithTargets = []arithTarget{
	{"x/exchange", "", "MinSDKInt"},
	{"x/exchange", "", "QuoIntRoundUp"},
	{"x/exchange", "FeeRatio", "applyLooselyTo"},
	{"x/exchange", "FeeRatio", "ApplyTo"},
	{"x/exchange", "FeeRatio", "ApplyToLoosely"},
	{"x/msgfees/types", "", "SplitCoinByBips"},
}

// Lean-side types
const (
	tInt    = "Int"
	tNat    = "Nat"
	tBool   = "Bool"
	tStr    = "String"
	tCoin   = "GoCoin"
	tRatio  = "GoFeeRatio"
	tErr    = "error"
	tConst  = "const" // untyped integer constant
	tMachI  = "MachInt"
	tBig    = "BigInt"   // *big.Int value: unbounded, no overflow panic
	tBigNew = "BigFresh" // `new(big.Int)`: a fresh receiver / result slot
	tNat32  = "Nat32"    // an unsigned value known to be below 2^32 (uint32 / uint16)
	tUnsupp = ""
)

func goTypeToLean(c *Ctx, e ast.Expr) string {
	switch c.src(e) {
	case "sdkmath.Int", "math.Int":
		return tInt
	case "sdk.Coin":
		return tCoin
	case "FeeRatio":
		return tRatio
	case "bool":
		return tBool
	case "string":
		return tStr
	case "error":
		return tErr
	case "uint32", "uint64", "uint16", "uint8", "uint":
		return tNat
	case "int64", "int", "int32":
		return tMachI
	}
	return tUnsupp
}

func leanTypeName(t string) string {
	if t == tMachI || t == tConst || t == tBig {
		return "Int"
	}
	if t == tNat32 {
		return "Nat"
	}
	return t
}

type untranslatable struct{ msg string }

func (u untranslatable) Error() string { return u.msg }

type arithFn struct {
	target  arithTarget
	params  []string // lean binder text
	results []string // lean result types (without error)
	named   []string // named results (without error) or nil
	hasErr  bool
}

type arithTr struct {
	c     *Ctx
	fns   map[string]*arithFn // translated functions by (recv.)name
	cur   *arithFn
	tmp   int
	lines []string
	// loop-body mode (translateLoopBody): the body of a `for _, x := range xs` loop becomes a
	// function of the loop variable; `continue` yields none, `acc = append(acc, e)` yields some e.
	loopAcc    string            // name of the accumulator slice, "" outside loop-body mode
	opaque     map[string]string // receiver-method calls treated as inputs: method -> lean type
	opaqueUsed []string
	consts     map[string]string // package-level constants (Int) by identifier
}

type scope struct {
	vars    map[string]string // name -> lean type
	nilErr  map[string]bool   // error variables known to be nil (bound by a monadic call)
	renames map[string]string
}

func (s *scope) clone() *scope {
	n := &scope{vars: map[string]string{}, nilErr: map[string]bool{}}
	for k, v := range s.vars {
		n.vars[k] = v
	}
	for k, v := range s.nilErr {
		n.nilErr[k] = v
	}
	return n
}

func (t *arithTr) fail(n ast.Node, format string, a ...any) {
	panic(untranslatable{fmt.Sprintf("%s: %s [%s]", t.c.Fset.Position(n.Pos()), fmt.Sprintf(format, a...), t.c.src(n))})
}

func (t *arithTr) fresh() string {
	t.tmp++
	return fmt.Sprintf("t%d", t.tmp)
}

// intMethods: sdkmath.Int methods. monadic ones name a GoInt primitive returning Except.
var intMonadic = map[string]string{
	"Mul": "GoInt.mul", "Add": "GoInt.add", "Sub": "GoInt.sub", "Quo": "GoInt.quo", "Mod": "GoInt.mod",
	"MulRaw": "GoInt.mul", "AddRaw": "GoInt.add", "SubRaw": "GoInt.sub", "QuoRaw": "GoInt.quo",
}
var intPureBool = map[string]string{
	"IsZero": "GoInt.isZero", "IsNegative": "GoInt.isNegative", "IsPositive": "GoInt.isPositive",
}
var intCmp = map[string]string{
	"GT": "GoInt.gt", "GTE": "GoInt.gte", "LT": "GoInt.lt", "LTE": "GoInt.lte", "Equal": "GoInt.eq",
}

// expr translates e, hoisting monadic sub-computations into pre (in evaluation order).
// noHoist forbids hoisting (right operand of a short-circuit operator).
func (t *arithTr) expr(e ast.Expr, sc *scope, pre *[]string, noHoist bool) (string, string) {
	bind := func(n ast.Node, rhs, typ string) (string, string) {
		if noHoist {
			t.fail(n, "operation that can panic inside a short-circuit operand")
		}
		v := t.fresh()
		*pre = append(*pre, fmt.Sprintf("let %s ← %s", v, rhs))
		return v, typ
	}
	switch x := e.(type) {
	case *ast.ParenExpr:
		return t.expr(x.X, sc, pre, noHoist)
	case *ast.Ident:
		if x.Name == "true" || x.Name == "false" {
			return x.Name, tBool
		}
		if ty, ok := sc.vars[x.Name]; ok {
			if ty == tErr {
				t.fail(x, "error value used as an expression")
			}
			return leanIdent(x.Name), ty
		}
		if v, ok := t.consts[x.Name]; ok {
			return "(" + v + " : Int)", tInt
		}
		if v, ok := t.consts["const:"+x.Name]; ok {
			return v, tConst // untyped integer constant of the package
		}
		t.fail(x, "unknown identifier")
	case *ast.BasicLit:
		switch x.Kind {
		case token.INT:
			return strings.ReplaceAll(x.Value, "_", ""), tConst
		case token.STRING:
			return x.Value, tStr
		}
		t.fail(x, "unsupported literal")
	case *ast.UnaryExpr:
		if x.Op == token.NOT {
			s, ty := t.expr(x.X, sc, pre, noHoist)
			if ty != tBool {
				t.fail(x, "! of non-bool")
			}
			return "(!" + s + ")", tBool
		}
		if x.Op == token.SUB {
			if bl, ok := x.X.(*ast.BasicLit); ok && bl.Kind == token.INT {
				return "(-" + strings.ReplaceAll(bl.Value, "_", "") + ")", tConst
			}
		}
		t.fail(x, "unsupported unary operator")
	case *ast.BinaryExpr:
		switch x.Op {
		case token.LAND, token.LOR:
			l, lt := t.expr(x.X, sc, pre, noHoist)
			r, rt := t.expr(x.Y, sc, pre, true)
			if lt != tBool || rt != tBool {
				t.fail(x, "logical operator on non-bool")
			}
			op := "&&"
			if x.Op == token.LOR {
				op = "||"
			}
			return "(" + l + " " + op + " " + r + ")", tBool
		case token.EQL, token.NEQ, token.LSS, token.GTR, token.LEQ, token.GEQ:
			l, lt := t.expr(x.X, sc, pre, noHoist)
			r, rt := t.expr(x.Y, sc, pre, noHoist)
			ty := unifyNum(lt, rt)
			if ty == tUnsupp {
				t.fail(x, "comparison of %s and %s", lt, rt)
			}
			if ty == tInt {
				t.fail(x, "sdkmath.Int compared with an operator")
			}
			if ty == tConst {
				ty = tMachI
			}
			ops := map[token.Token]string{token.EQL: "=", token.NEQ: "≠", token.LSS: "<", token.GTR: ">", token.LEQ: "≤", token.GEQ: "≥"}
			if ty == tStr || ty == tBool {
				if x.Op != token.EQL && x.Op != token.NEQ {
					t.fail(x, "ordering on %s", ty)
				}
			}
			return fmt.Sprintf("(decide ((%s : %s) %s %s))", l, leanTypeName(ty), ops[x.Op], r), tBool
		case token.MUL:
			// machine-int arithmetic is translated as unbounded: only allowed on Sign() values / literals
			if !t.isSmall(x.X) || !t.isSmall(x.Y) {
				t.fail(x, "machine-integer arithmetic on operands that are not Sign() values or literals")
			}
			l, _ := t.expr(x.X, sc, pre, noHoist)
			r, _ := t.expr(x.Y, sc, pre, noHoist)
			return "(" + l + " * " + r + ")", tMachI
		}
		t.fail(x, "unsupported binary operator")
	case *ast.SelectorExpr:
		if src := t.c.src(x); src == "sdkmath.MaxBitLen" || src == "math.MaxBitLen" {
			return "256", tConst
		}
		s, ty := t.expr(x.X, sc, pre, noHoist)
		switch {
		case ty == tCoin && x.Sel.Name == "Denom":
			return s + ".denom", tStr
		case ty == tCoin && x.Sel.Name == "Amount":
			return s + ".amount", tInt
		case ty == tRatio && x.Sel.Name == "Price":
			return s + ".price", tCoin
		case ty == tRatio && x.Sel.Name == "Fee":
			return s + ".fee", tCoin
		}
		t.fail(x, "unsupported field")
	case *ast.CompositeLit:
		if t.c.src(x.Type) == "sdk.Coin" {
			den, amt := "\"\"", ""
			for _, el := range x.Elts {
				kv, ok := el.(*ast.KeyValueExpr)
				if !ok {
					t.fail(x, "positional composite literal")
				}
				v, vt := t.expr(kv.Value, sc, pre, noHoist)
				switch t.c.src(kv.Key) {
				case "Denom":
					if vt != tStr {
						t.fail(kv, "Denom is not a string")
					}
					den = v
				case "Amount":
					if vt != tInt {
						t.fail(kv, "Amount is not an Int")
					}
					amt = v
				}
			}
			if amt == "" {
				t.fail(x, "sdk.Coin literal without Amount (nil Int)")
			}
			return fmt.Sprintf("({ denom := %s, amount := %s } : GoCoin)", den, amt), tCoin
		}
		t.fail(x, "unsupported composite literal")
	case *ast.CallExpr:
		fn := t.c.src(x.Fun)
		arg := func(i int) (string, string) { return t.expr(x.Args[i], sc, pre, noHoist) }
		wantArgs := func(n int) {
			if len(x.Args) != n {
				t.fail(x, "unexpected argument count")
			}
		}
		asInt := func(s, ty string) string {
			switch ty {
			case tInt, tMachI:
				return s
			case tConst:
				return "(" + s + " : Int)"
			case tNat:
				return "((" + s + " : Nat) : Int)"
			}
			t.fail(x, "argument of type %s where an integer is needed", ty)
			return ""
		}
		switch fn {
		case "new":
			if len(x.Args) == 1 && t.c.src(x.Args[0]) == "big.Int" {
				return "(0 : Int)", tBigNew
			}
			t.fail(x, "unsupported allocation")
		case "big.NewInt":
			wantArgs(1)
			s, ty := arg(0)
			if ty != tConst && ty != tMachI {
				t.fail(x, "big.NewInt of %s", ty)
			}
			return asInt(s, ty), tBig
		case "sdkmath.NewIntFromBigInt", "math.NewIntFromBigInt":
			// returns a nil Int above 256 bits (every later use panics): modelled as failing here
			wantArgs(1)
			s, ty := arg(0)
			if ty != tBig {
				t.fail(x, "NewIntFromBigInt of %s", ty)
			}
			return bind(x, "GoInt.newIntFromBigInt "+s, tInt)
		case "sdkmath.ZeroInt", "math.ZeroInt":
			wantArgs(0)
			return "(0 : Int)", tInt
		case "sdkmath.OneInt", "math.OneInt":
			wantArgs(0)
			return "(1 : Int)", tInt
		case "sdkmath.NewInt", "math.NewInt":
			wantArgs(1)
			s, ty := arg(0)
			if ty != tConst && ty != tMachI {
				t.fail(x, "NewInt of %s", ty)
			}
			return asInt(s, ty), tInt
		case "sdkmath.NewIntFromUint64", "math.NewIntFromUint64":
			wantArgs(1)
			s, ty := arg(0)
			if ty != tNat && ty != tConst {
				t.fail(x, "NewIntFromUint64 of %s", ty)
			}
			return asInt(s, ty), tInt
		case "uint64", "uint32", "uint":
			wantArgs(1)
			s, ty := arg(0)
			// only widening of an unsigned value or a literal
			if ty == tConst {
				return "(" + s + " : Nat)", tNat
			}
			if ty == tNat && fn == "uint64" {
				return s, tNat
			}
			t.fail(x, "integer conversion that may wrap")
		case "int64", "int":
			wantArgs(1)
			s, ty := arg(0)
			if ty == tConst {
				return "(" + s + " : Int)", tMachI
			}
			if ty == tNat32 && fn == "int64" {
				return "((" + s + " : Nat) : Int)", tMachI // uint32 -> int64 cannot wrap
			}
			t.fail(x, "integer conversion that may wrap")
		case "sdk.NewCoin":
			wantArgs(2)
			d, dt := arg(0)
			a, at := arg(1)
			if dt != tStr || at != tInt {
				t.fail(x, "NewCoin argument types")
			}
			return bind(x, fmt.Sprintf("GoInt.newCoin %s %s", d, a), tCoin)
		case "sdk.NewInt64Coin":
			wantArgs(2)
			d, dt := arg(0)
			a, at := arg(1)
			if dt != tStr || (at != tConst && at != tMachI) {
				t.fail(x, "NewInt64Coin argument types")
			}
			return bind(x, fmt.Sprintf("GoInt.newCoin %s %s", d, asInt(a, at)), tCoin)
		case "QuoRemInt":
			// defined with math/big directly: a primitive (T-division, panics on zero divisor)
			t.fail(x, "QuoRemInt must be bound with a two-value assignment")
		}
		// package-level translated function (possibly called through the `exchange.` package name)
		if id, ok := x.Fun.(*ast.Ident); ok {
			if f, ok := t.fns[id.Name]; ok && len(f.results) == 1 {
				args := t.callArgs(x, f, nil, sc, pre, noHoist)
				return bind(x, "«"+id.Name+"» "+args, f.results[0])
			}
		}
		if se, ok := x.Fun.(*ast.SelectorExpr); ok {
			if pk, ok := se.X.(*ast.Ident); ok && pk.Name == "exchange" {
				if f, ok := t.fns[se.Sel.Name]; ok && len(f.results) == 1 && f.target.Recv == "" {
					args := t.callArgs(x, f, nil, sc, pre, noHoist)
					return bind(x, "«"+se.Sel.Name+"» "+args, f.results[0])
				}
			}
			// opaque keeper look-ups (loop-body mode): an input of the translated function
			if rcv, ok := se.X.(*ast.Ident); ok && rcv.Name == "k" && t.opaque != nil {
				if ty, ok := t.opaque[se.Sel.Name]; ok {
					seen := false
					for _, u := range t.opaqueUsed {
						if u == se.Sel.Name {
							seen = true
						}
					}
					if !seen {
						t.opaqueUsed = append(t.opaqueUsed, se.Sel.Name)
					}
					return leanIdent(se.Sel.Name), ty
				}
			}
		}
		// methods
		if sel, ok := x.Fun.(*ast.SelectorExpr); ok {
			// evaluate receiver first (Go evaluation order)
			rs, rt := t.expr(sel.X, sc, pre, noHoist)
			m := sel.Sel.Name
			switch rt {
			case tInt:
				if p, ok := intMonadic[m]; ok {
					wantArgs(1)
					a, at := arg(0)
					return bind(x, fmt.Sprintf("%s %s %s", p, rs, asInt(a, at)), tInt)
				}
				if p, ok := intPureBool[m]; ok {
					wantArgs(0)
					return fmt.Sprintf("(%s %s)", p, rs), tBool
				}
				if p, ok := intCmp[m]; ok {
					wantArgs(1)
					a, at := arg(0)
					if at != tInt {
						t.fail(x, "comparison argument is not an Int")
					}
					return fmt.Sprintf("(%s %s %s)", p, rs, a), tBool
				}
				switch m {
				case "Sign":
					wantArgs(0)
					return fmt.Sprintf("(GoInt.sign %s)", rs), tMachI
				case "Neg":
					wantArgs(0)
					return fmt.Sprintf("(- %s)", rs), tInt
				case "BigInt":
					wantArgs(0)
					return rs, tBig // a copy of the value as *big.Int
				}
			case tBigNew:
				// z := new(big.Int).Op(x, y): no aliasing, the result is the value of the expression
				ops := map[string]string{"Mul": "*", "Add": "+", "Sub": "-"}
				if op, ok := ops[m]; ok {
					wantArgs(2)
					a, at := arg(0)
					b, bt := arg(1)
					if at != tBig || bt != tBig {
						t.fail(x, "big.Int operand types %s, %s", at, bt)
					}
					return "(" + a + " " + op + " " + b + ")", tBig
				}
			case tBig:
				switch m {
				case "Sign":
					wantArgs(0)
					return fmt.Sprintf("(GoInt.sign %s)", rs), tMachI
				case "BitLen":
					wantArgs(0)
					return fmt.Sprintf("(GoInt.bitLen %s)", rs), tMachI
				}
			case tCoin:
				switch m {
				case "IsZero", "IsPositive", "IsNegative":
					wantArgs(0)
					return fmt.Sprintf("(%s %s.amount)", intPureBool[m], rs), tBool
				}
			case tRatio:
				if f, ok := t.fns["FeeRatio."+m]; ok && len(f.results) == 1 {
					args := t.callArgs(x, f, &rs, sc, pre, noHoist)
					return bind(x, "«"+m+"» "+args, f.results[0])
				}
			}
			t.fail(x, "unsupported method %s on %s", m, rt)
		}
		t.fail(x, "unsupported call")
	}
	t.fail(e, "unsupported expression")
	return "", ""
}

func (t *arithTr) isSmall(e ast.Expr) bool {
	switch x := e.(type) {
	case *ast.ParenExpr:
		return t.isSmall(x.X)
	case *ast.BasicLit:
		return x.Kind == token.INT
	case *ast.CallExpr:
		if sel, ok := x.Fun.(*ast.SelectorExpr); ok && sel.Sel.Name == "Sign" && len(x.Args) == 0 {
			return true
		}
	}
	return false
}

func unifyNum(a, b string) string {
	if a == b {
		return a
	}
	if a == tConst {
		return b
	}
	if b == tConst {
		return a
	}
	return tUnsupp
}

func (t *arithTr) callArgs(x *ast.CallExpr, f *arithFn, recv *string, sc *scope, pre *[]string, noHoist bool) string {
	var parts []string
	if recv != nil {
		parts = append(parts, *recv)
	}
	for _, a := range x.Args {
		s, _ := t.expr(a, sc, pre, noHoist)
		parts = append(parts, s)
	}
	if len(parts) != len(f.params) {
		t.fail(x, "argument count does not match the translated callee")
	}
	return strings.Join(parts, " ")
}

func leanIdent(s string) string { return "«" + s + "»" }

func hasReturn(n ast.Node) bool {
	found := false
	ast.Inspect(n, func(x ast.Node) bool {
		if _, ok := x.(*ast.ReturnStmt); ok {
			found = true
		}
		// loop-body mode: `continue` ends the iteration like a return ends the function
		if b, ok := x.(*ast.BranchStmt); ok && b.Tok == token.CONTINUE {
			found = true
		}
		if _, ok := x.(*ast.FuncLit); ok {
			return false
		}
		return true
	})
	return found
}

// assignedOuter lists (sorted) the variables of sc that the statements assign.
func (t *arithTr) assignedOuter(n ast.Node, sc *scope) []string {
	set := map[string]bool{}
	ast.Inspect(n, func(x ast.Node) bool {
		if es, ok := x.(*ast.ExprStmt); ok {
			// in-place update v.Op(v, e) of a *big.Int variable
			if call, ok := es.X.(*ast.CallExpr); ok {
				if se, ok := call.Fun.(*ast.SelectorExpr); ok {
					if id, ok := se.X.(*ast.Ident); ok && sc.vars[id.Name] == tBig {
						set[id.Name] = true
					}
				}
			}
			return true
		}
		as, ok := x.(*ast.AssignStmt)
		if !ok {
			return true
		}
		for _, l := range as.Lhs {
			root := l
			for {
				if se, ok := root.(*ast.SelectorExpr); ok {
					root = se.X
					continue
				}
				break
			}
			if id, ok := root.(*ast.Ident); ok && id.Name != "_" {
				if ty, ok := sc.vars[id.Name]; ok && ty != tErr {
					// `:=` inside the nested block declares a new variable unless it already exists there;
					// treating it as an assignment to the outer one would be wrong, so reject shadowing.
					if as.Tok == token.DEFINE {
						t.fail(as, "`:=` shadows outer variable %s inside a branch", id.Name)
					}
					set[id.Name] = true
				}
			}
		}
		return true
	})
	return sortedKeys(set)
}

func tuple(names []string) string {
	q := make([]string, len(names))
	for i, n := range names {
		q[i] = leanIdent(n)
	}
	if len(q) == 1 {
		return q[0]
	}
	return "(" + strings.Join(q, ", ") + ")"
}

// block translates stmts; every path ends in `pure ..`/`throw ..` (fallthrough of the function
// body = naked return of the named results); cont = what to emit when the list falls through.
func (t *arithTr) block(stmts []ast.Stmt, sc *scope, ind string, cont func(sc *scope, ind string) []string) []string {
	var out []string
	emit := func(pre []string, line string) {
		for _, p := range pre {
			out = append(out, ind+p)
		}
		if line != "" {
			out = append(out, ind+line)
		}
	}
	for i, st := range stmts {
		switch s := st.(type) {
		case *ast.AssignStmt:
			var pre []string
			if t.loopAcc != "" && len(s.Lhs) == 1 && len(s.Rhs) == 1 && t.c.src(s.Lhs[0]) == t.loopAcc {
				// acc = append(acc, e): the iteration's contribution; must end the body
				call, ok := s.Rhs[0].(*ast.CallExpr)
				if !ok || t.c.src(call.Fun) != "append" || len(call.Args) != 2 || t.c.src(call.Args[0]) != t.loopAcc {
					t.fail(s, "the accumulator may only be appended to")
				}
				if i != len(stmts)-1 {
					t.fail(s, "statements after the append of the iteration")
				}
				v, ty := t.expr(call.Args[1], sc, &pre, false)
				if ty != tCoin {
					t.fail(s, "appended element is not a coin")
				}
				emit(pre, "pure (some "+v+")")
				return out
			}
			if len(s.Lhs) == 1 && len(s.Rhs) == 1 {
				v, ty := t.expr(s.Rhs[0], sc, &pre, false)
				switch l := s.Lhs[0].(type) {
				case *ast.Ident:
					if s.Tok == token.DEFINE {
						if _, ok := sc.vars[l.Name]; ok {
							t.fail(s, "redeclaration")
						}
					} else if old, ok := sc.vars[l.Name]; !ok || (old != ty && !(ty == tConst && (old == tMachI || old == tNat))) {
						t.fail(s, "assignment changes the type or targets an unknown variable")
					}
					if s.Tok == token.DEFINE {
						if ty == tConst {
							t.fail(s, "untyped constant variable")
						}
						sc.vars[l.Name] = ty
					}
					emit(pre, fmt.Sprintf("let %s : %s := %s", leanIdent(l.Name), leanTypeName(sc.vars[l.Name]), v))
				case *ast.SelectorExpr:
					root, ok := l.X.(*ast.Ident)
					if !ok || sc.vars[root.Name] != tCoin || s.Tok != token.ASSIGN {
						t.fail(s, "unsupported field assignment")
					}
					switch {
					case l.Sel.Name == "Denom" && ty == tStr:
						emit(pre, fmt.Sprintf("let %s : GoCoin := { %s with denom := %s }", leanIdent(root.Name), leanIdent(root.Name), v))
					case l.Sel.Name == "Amount" && ty == tInt:
						emit(pre, fmt.Sprintf("let %s : GoCoin := { %s with amount := %s }", leanIdent(root.Name), leanIdent(root.Name), v))
					default:
						t.fail(s, "unsupported field assignment")
					}
				default:
					t.fail(s, "unsupported assignment target")
				}
				continue
			}
			// multi-value: a, b[, err] := f(..)
			if len(s.Rhs) != 1 {
				t.fail(s, "parallel assignment")
			}
			call, ok := s.Rhs[0].(*ast.CallExpr)
			if !ok {
				t.fail(s, "multi-value assignment from a non-call")
			}
			var rhs string
			var rtypes []string
			hasErr := false
			if fn := t.c.src(call.Fun); fn == "QuoRemInt" || fn == "exchange.QuoRemInt" {
				if len(call.Args) != 2 {
					t.fail(s, "QuoRemInt arity")
				}
				a, at := t.expr(call.Args[0], sc, &pre, false)
				b, bt := t.expr(call.Args[1], sc, &pre, false)
				if at != tInt || bt != tInt {
					t.fail(s, "QuoRemInt argument types")
				}
				rhs = fmt.Sprintf("GoInt.quoRemInt %s %s", a, b)
				rtypes = []string{tInt, tInt}
			} else if se, ok := call.Fun.(*ast.SelectorExpr); ok && se.Sel.Name == "QuoRem" && t.c.src(se.X) == "new(big.Int)" {
				// q, r := new(big.Int).QuoRem(a, b, new(big.Int)): big.Int T-division, panics on a zero divisor
				if len(call.Args) != 3 || t.c.src(call.Args[2]) != "new(big.Int)" {
					t.fail(s, "big.Int.QuoRem must get fresh result slots")
				}
				a, at := t.expr(call.Args[0], sc, &pre, false)
				b, bt := t.expr(call.Args[1], sc, &pre, false)
				if at != tBig || bt != tBig {
					t.fail(s, "big.Int.QuoRem argument types")
				}
				rhs = fmt.Sprintf("GoInt.quoRemInt %s %s", a, b)
				rtypes = []string{tBig, tBig}
			} else {
				var f *arithFn
				var recv *string
				switch fx := call.Fun.(type) {
				case *ast.Ident:
					f = t.fns[fx.Name]
				case *ast.SelectorExpr:
					rs, rt := t.expr(fx.X, sc, &pre, false)
					if rt == tRatio {
						f = t.fns["FeeRatio."+fx.Sel.Name]
						recv = &rs
					}
				}
				if f == nil {
					t.fail(s, "call of a function that is not translated")
				}
				rhs = "«" + f.target.Name + "» " + t.callArgs(call, f, recv, sc, &pre, false)
				rtypes = f.results
				hasErr = f.hasErr
			}
			want := len(rtypes)
			if hasErr {
				want++
			}
			if len(s.Lhs) != want {
				t.fail(s, "result count mismatch")
			}
			var pats []string
			for j, l := range s.Lhs {
				id, ok := l.(*ast.Ident)
				if !ok {
					t.fail(s, "unsupported assignment target")
				}
				if hasErr && j == len(s.Lhs)-1 {
					if id.Name != "_" {
						sc.vars[id.Name] = tErr
						sc.nilErr[id.Name] = true
					}
					continue
				}
				if id.Name == "_" {
					pats = append(pats, "_")
					continue
				}
				if old, ok := sc.vars[id.Name]; ok && old != rtypes[j] {
					t.fail(s, "assignment changes the type")
				}
				sc.vars[id.Name] = rtypes[j]
				pats = append(pats, leanIdent(id.Name))
			}
			pat := pats[0]
			if len(pats) > 1 {
				pat = "(" + strings.Join(pats, ", ") + ")"
			}
			emit(pre, fmt.Sprintf("let %s ← %s", pat, rhs))
		case *ast.ExprStmt:
			// v.Op(v, e) on a *big.Int variable: in-place update of v
			call, ok := s.X.(*ast.CallExpr)
			if !ok {
				t.fail(s, "unsupported expression statement")
			}
			se, ok := call.Fun.(*ast.SelectorExpr)
			if !ok {
				t.fail(s, "unsupported expression statement")
			}
			recv, ok := se.X.(*ast.Ident)
			ops := map[string]string{"Mul": "*", "Add": "+", "Sub": "-"}
			op, okOp := ops[se.Sel.Name]
			if !ok || !okOp || sc.vars[recv.Name] != tBig || len(call.Args) != 2 {
				t.fail(s, "unsupported expression statement")
			}
			if a0, ok := call.Args[0].(*ast.Ident); !ok || a0.Name != recv.Name {
				t.fail(s, "in-place big.Int update must have the form v.Op(v, e)")
			}
			var pre []string
			e, et := t.expr(call.Args[1], sc, &pre, false)
			if et != tBig {
				t.fail(s, "big.Int operand type %s", et)
			}
			emit(pre, fmt.Sprintf("let %s : Int := %s %s %s", leanIdent(recv.Name), leanIdent(recv.Name), op, e))
		case *ast.BranchStmt:
			if t.loopAcc != "" && s.Tok == token.CONTINUE && s.Label == nil {
				out = append(out, ind+"pure none")
				return out
			}
			t.fail(s, "unsupported branch statement")
		case *ast.DeclStmt:
			t.fail(s, "declaration statement")
		case *ast.IfStmt:
			if s.Init != nil {
				t.fail(s, "if with init statement")
			}
			// `if err != nil { return .. }` after a monadic bind of err: already propagated
			if be, ok := s.Cond.(*ast.BinaryExpr); ok && be.Op == token.NEQ && s.Else == nil {
				if id, ok := be.X.(*ast.Ident); ok && sc.nilErr[id.Name] && t.c.src(be.Y) == "nil" {
					continue
				}
			}
			var pre []string
			cond, ct := t.expr(s.Cond, sc, &pre, false)
			if ct != tBool {
				t.fail(s, "condition is not a bool")
			}
			var elseStmts []ast.Stmt
			switch e := s.Else.(type) {
			case nil:
			case *ast.BlockStmt:
				elseStmts = e.List
			case *ast.IfStmt:
				elseStmts = []ast.Stmt{e}
			}
			rest := stmts[i+1:]
			if hasReturn(s) {
				// copy the rest of the block into both branches
				restCont := func(sc2 *scope, ind2 string) []string { return t.block(rest, sc2, ind2, cont) }
				emit(pre, fmt.Sprintf("if %s then do", cond))
				out = append(out, t.block(s.Body.List, sc.clone(), ind+"  ", restCont)...)
				out = append(out, ind+"else do")
				out = append(out, t.block(elseStmts, sc.clone(), ind+"  ", restCont)...)
				return out
			}
			vs := t.assignedOuter(s, sc)
			if len(vs) == 0 {
				// no effect on the outer variables; but panics inside still matter: keep as unit-valued branch
				vs = nil
			}
			ret := "pure ()"
			pat := "()"
			if len(vs) > 0 {
				ret = "pure " + tuple(vs)
				pat = tuple(vs)
			}
			fall := func(sc2 *scope, ind2 string) []string { return []string{ind2 + ret} }
			emit(pre, fmt.Sprintf("let %s ← (if %s then do", pat, cond))
			out = append(out, t.block(s.Body.List, sc.clone(), ind+"    ", fall)...)
			out = append(out, ind+"  else do")
			out = append(out, t.block(elseStmts, sc.clone(), ind+"    ", fall)...)
			out[len(out)-1] += ")"
		case *ast.ReturnStmt:
			f := t.cur
			if len(s.Results) == 0 {
				if f.named == nil {
					t.fail(s, "naked return without named results")
				}
				out = append(out, ind+"pure "+tuple(f.named))
				return out
			}
			n := len(f.results)
			if f.hasErr {
				n++
			}
			if len(s.Results) != n {
				t.fail(s, "return of a multi-value call")
			}
			if f.hasErr {
				er := s.Results[n-1]
				if t.c.src(er) != "nil" {
					if !isErrorConstructor(t.c, er) {
						if id, ok := er.(*ast.Ident); ok && sc.nilErr[id.Name] {
							// returning an error variable known to be nil
						} else {
							t.fail(s, "returned error is neither nil nor a recognised error constructor")
						}
					} else {
						cls := ".invalid"
						if strings.Contains(t.c.src(er), "division by zero") {
							cls = ".divzero"
						}
						out = append(out, ind+"throw "+cls)
						return out
					}
				}
			}
			var pre []string
			var vals []string
			for j := 0; j < len(f.results); j++ {
				v, ty := t.expr(s.Results[j], sc, &pre, false)
				if ty != f.results[j] && !(ty == tConst && f.results[j] != tInt) {
					t.fail(s, "result type mismatch: %s vs %s", ty, f.results[j])
				}
				vals = append(vals, v)
			}
			r := vals[0]
			if len(vals) > 1 {
				r = "(" + strings.Join(vals, ", ") + ")"
			}
			emit(pre, "pure "+r)
			return out
		default:
			t.fail(st, "unsupported statement")
		}
	}
	out = append(out, cont(sc, ind)...)
	return out
}

func isErrorConstructor(c *Ctx, e ast.Expr) bool {
	call, ok := e.(*ast.CallExpr)
	if !ok {
		return false
	}
	fn := c.src(call.Fun)
	if fn == "fmt.Errorf" || fn == "errors.New" {
		return true
	}
	return strings.HasSuffix(fn, ".Wrapf") || strings.HasSuffix(fn, ".Wrap")
}

func (t *arithTr) translate(fd *ast.FuncDecl, tg arithTarget) (code string, err error) {
	defer func() {
		if r := recover(); r != nil {
			if u, ok := r.(untranslatable); ok {
				err = u
				return
			}
			panic(r)
		}
	}()
	f := &arithFn{target: tg}
	sc := &scope{vars: map[string]string{}, nilErr: map[string]bool{}}
	if fd.Recv != nil {
		r := fd.Recv.List[0]
		ty := goTypeToLean(t.c, r.Type)
		if ty == tUnsupp || len(r.Names) != 1 {
			t.fail(fd, "unsupported receiver")
		}
		sc.vars[r.Names[0].Name] = ty
		f.params = append(f.params, fmt.Sprintf("(%s : %s)", leanIdent(r.Names[0].Name), ty))
	}
	for _, p := range fd.Type.Params.List {
		ty := goTypeToLean(t.c, p.Type)
		if ty == tUnsupp || ty == tErr {
			t.fail(p, "unsupported parameter type")
		}
		for _, n := range p.Names {
			sc.vars[n.Name] = ty
			f.params = append(f.params, fmt.Sprintf("(%s : %s)", leanIdent(n.Name), leanTypeName(ty)))
		}
	}
	var namedInit []string
	if fd.Type.Results != nil {
		for _, r := range fd.Type.Results.List {
			ty := goTypeToLean(t.c, r.Type)
			if ty == tUnsupp {
				t.fail(r, "unsupported result type")
			}
			cnt := len(r.Names)
			if cnt == 0 {
				cnt = 1
			}
			for k := 0; k < cnt; k++ {
				if ty == tErr {
					f.hasErr = true
					if len(r.Names) > 0 {
						sc.vars[r.Names[k].Name] = tErr
						sc.nilErr[r.Names[k].Name] = true
					}
					continue
				}
				if f.hasErr {
					t.fail(r, "error is not the last result")
				}
				f.results = append(f.results, ty)
				if len(r.Names) > 0 {
					n := r.Names[k].Name
					f.named = append(f.named, n)
					sc.vars[n] = ty
					zero := map[string]string{tInt: "GoInt.nilInt", tCoin: "GoInt.zeroCoin", tBool: "false", tStr: "\"\"", tNat: "0", tMachI: "0"}[ty]
					namedInit = append(namedInit, fmt.Sprintf("  let %s : %s := %s", leanIdent(n), leanTypeName(ty), zero))
				}
			}
		}
	}
	if len(f.results) == 0 {
		t.fail(fd, "no results")
	}
	t.cur = f
	t.tmp = 0
	body := t.block(fd.Body.List, sc, "  ", func(sc2 *scope, ind string) []string {
		if f.named == nil {
			t.fail(fd, "function body falls through without a return")
		}
		return []string{ind + "pure " + tuple(f.named)}
	})
	rt := make([]string, len(f.results))
	for i, r := range f.results {
		rt[i] = leanTypeName(r)
	}
	var sb strings.Builder
	fmt.Fprintf(&sb, "/-- translated from `%s` (%s) -/\n", fd.Name.Name, t.c.Fset.Position(fd.Pos()))
	fmt.Fprintf(&sb, "def «%s» %s : Except AErr (%s) := do\n", fd.Name.Name, strings.Join(f.params, " "), strings.Join(rt, " × "))
	for _, l := range namedInit {
		sb.WriteString(l + "\n")
	}
	for _, l := range body {
		sb.WriteString(l + "\n")
	}
	key := tg.Name
	if tg.Recv != "" {
		key = tg.Recv + "." + tg.Name
	}
	t.fns[key] = f
	return sb.String(), nil
}

// ---- loop bodies ----

type arithLoopTarget struct {
	Dir, Recv, Name string
	Acc             string            // accumulator slice the loop appends to
	Opaque          map[string]string // keeper look-ups treated as inputs: method -> lean type
}

var arithLoopTargets = []arithLoopTarget{
	{"x/exchange/keeper", "Keeper", "CalculateExchangeSplit", "exchangeAmt", map[string]string{"GetExchangeSplit": tNat32}},
}

// packageIntConsts finds package-level `X = sdkmath.NewInt(<literal>)` variables.
func packageIntConsts(c *Ctx, files map[string]*ast.File) map[string]string {
	res := map[string]string{}
	for _, k := range sortedKeys(files) {
		for _, d := range files[k].Decls {
			gd, ok := d.(*ast.GenDecl)
			if !ok || (gd.Tok != token.VAR && gd.Tok != token.CONST) {
				continue
			}
			for _, sp := range gd.Specs {
				vs := sp.(*ast.ValueSpec)
				if len(vs.Names) != 1 || len(vs.Values) != 1 {
					continue
				}
				// `const maxBips = 10_000` (untyped integer constant)
				if gd.Tok == token.CONST {
					if bl, ok := vs.Values[0].(*ast.BasicLit); ok && bl.Kind == token.INT && vs.Type == nil {
						res["const:"+vs.Names[0].Name] = strings.ReplaceAll(bl.Value, "_", "")
					}
					continue
				}
				call, ok := vs.Values[0].(*ast.CallExpr)
				if !ok || len(call.Args) != 1 {
					continue
				}
				if fn := c.src(call.Fun); fn != "sdkmath.NewInt" && fn != "math.NewInt" {
					continue
				}
				if bl, ok := call.Args[0].(*ast.BasicLit); ok && bl.Kind == token.INT {
					res[vs.Names[0].Name] = strings.ReplaceAll(bl.Value, "_", "")
				}
			}
		}
	}
	return res
}

// translateLoopBody translates the body of the first `for _, x := range <sdk.Coins param>` loop of
// fd into a function of the loop variable (and of the opaque keeper look-ups it uses) returning
// `Option GoCoin`: `continue` = none, `acc = append(acc, e)` = some e.
func (t *arithTr) translateLoopBody(fd *ast.FuncDecl, tg arithLoopTarget, consts map[string]string) (code string, err error) {
	defer func() {
		t.loopAcc, t.opaque, t.consts = "", nil, nil
		if r := recover(); r != nil {
			if u, ok := r.(untranslatable); ok {
				err = u
				return
			}
			panic(r)
		}
	}()
	var loop *ast.RangeStmt
	for _, st := range fd.Body.List {
		if rs, ok := st.(*ast.RangeStmt); ok {
			loop = rs
			break
		}
	}
	if loop == nil {
		t.fail(fd, "no range loop at the top level of the function body")
	}
	val, ok := loop.Value.(*ast.Ident)
	if !ok || (loop.Key != nil && t.c.src(loop.Key) != "_") {
		t.fail(loop, "loop must have the form `for _, x := range xs`")
	}
	// the ranged expression must be a parameter of type sdk.Coins
	okParam := false
	for _, p := range fd.Type.Params.List {
		if t.c.src(p.Type) == "sdk.Coins" {
			for _, n := range p.Names {
				if n.Name == t.c.src(loop.X) {
					okParam = true
				}
			}
		}
	}
	if !okParam {
		t.fail(loop, "ranged expression is not an sdk.Coins parameter")
	}
	sc := &scope{vars: map[string]string{val.Name: tCoin}, nilErr: map[string]bool{}}
	f := &arithFn{results: []string{"Option GoCoin"}}
	t.cur, t.tmp = f, 0
	t.loopAcc, t.opaque, t.opaqueUsed, t.consts = tg.Acc, tg.Opaque, nil, consts
	body := t.block(loop.Body.List, sc, "  ", func(sc2 *scope, ind string) []string {
		// falling off the end of the body without an append contributes nothing
		return []string{ind + "pure none"}
	})
	params := []string{fmt.Sprintf("(%s : GoCoin)", leanIdent(val.Name))}
	for _, o := range t.opaqueUsed {
		params = append(params, fmt.Sprintf("(%s : %s)", leanIdent(o), leanTypeName(tg.Opaque[o])))
	}
	var sb strings.Builder
	fmt.Fprintf(&sb, "/-- translated from the body of the `for _, %s := range %s` loop of `%s` (%s); inputs: the loop\nvariable and the keeper look-ups %v -/\n", val.Name, t.c.src(loop.X), fd.Name.Name, t.c.Fset.Position(loop.Pos()), t.opaqueUsed)
	fmt.Fprintf(&sb, "def «%s.body» %s : Except AErr (Option GoCoin) := do\n", fd.Name.Name, strings.Join(params, " "))
	for _, l := range body {
		sb.WriteString(l + "\n")
	}
	return sb.String(), nil
}

func emitArith(c *Ctx) (string, error) {
	t := &arithTr{c: c, fns: map[string]*arithFn{}}
	var sb strings.Builder
	sb.WriteString("import PvModel.GoInt\nset_option linter.unusedVariables false\n\nnamespace Generated.FeeArith\nopen PvModel PvModel.GoInt\n\n")
	var status []string
	cache := map[string]map[string]*ast.File{}
	for _, tg := range arithTargets {
		files, ok := cache[tg.Dir]
		if !ok {
			var err error
			files, err = c.parseDir(tg.Dir)
			if err != nil {
				return "", err
			}
			cache[tg.Dir] = files
		}
		fd := findFunc(files, tg.Recv, tg.Name)
		if fd == nil || fd.Body == nil {
			status = append(status, fmt.Sprintf("(%s, %s)", leanStr(tg.Name), leanStr("missing: function not found in "+tg.Dir)))
			continue
		}
		t.consts = packageIntConsts(c, files)
		code, err := t.translate(fd, tg)
		t.consts = nil
		if err != nil {
			status = append(status, fmt.Sprintf("(%s, %s)", leanStr(tg.Name), leanStr("untranslatable: "+strings.TrimPrefix(err.Error(), c.Repo+"/"))))
			fmt.Fprintf(&sb, "-- %s: untranslatable: %s\n\n", tg.Name, strings.ReplaceAll(strings.TrimPrefix(err.Error(), c.Repo+"/"), "\n", " "))
			continue
		}
		status = append(status, fmt.Sprintf("(%s, %s)", leanStr(tg.Name), leanStr("ok")))
		sb.WriteString(strings.ReplaceAll(code, c.Repo+"/", "") + "\n")
	}
	for _, tg := range arithLoopTargets {
		files, ok := cache[tg.Dir]
		if !ok {
			var err error
			files, err = c.parseDir(tg.Dir)
			if err != nil {
				return "", err
			}
			cache[tg.Dir] = files
		}
		name := tg.Name + ".body"
		fd := findFunc(files, tg.Recv, tg.Name)
		if fd == nil || fd.Body == nil {
			status = append(status, fmt.Sprintf("(%s, %s)", leanStr(name), leanStr("missing: function not found in "+tg.Dir)))
			continue
		}
		code, err := t.translateLoopBody(fd, tg, packageIntConsts(c, files))
		if err != nil {
			msg := strings.TrimPrefix(err.Error(), c.Repo+"/")
			status = append(status, fmt.Sprintf("(%s, %s)", leanStr(name), leanStr("untranslatable: "+msg)))
			fmt.Fprintf(&sb, "-- %s: untranslatable: %s\n\n", name, strings.ReplaceAll(msg, "\n", " "))
			continue
		}
		status = append(status, fmt.Sprintf("(%s, %s)", leanStr(name), leanStr("ok")))
		sb.WriteString(strings.ReplaceAll(code, c.Repo+"/", "") + "\n")
	}
	sb.WriteString("/-- translation status per target function -/\ndef status : List (String × String) := [\n  " + strings.Join(status, ",\n  ") + "\n]\n\nend Generated.FeeArith\n")
	return sb.String(), nil
}
