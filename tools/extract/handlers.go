package main

import (
	"fmt"
	"go/ast"
	"go/token"
	"os"
	"path/filepath"
	"sort"
	"strings"
)

// Handlers: for every method of every x/<module>/keeper/msg_server.go that has the msg-server
// shape (ctx, *Msg…) the classified statements up to and including the first guard.
//
//	unwrap        ctx := sdk.UnwrapSDKContext(goCtx)   (and similar pure conversions)
//	authority:cmp                if <keeper authority> != <msg>.Authority { return … }
//	                             (the handler itself compares the two strings exactly)
//	authority:ValidateAuthority  if err := X.ValidateAuthority(<msg>.Authority); err != nil { return … }
//	                             (how that compares is in the helper's body, see guardBodies)
//	perm:<Fn>(<args>)   if !k.<Fn>(…) { return … }  where Fn starts with Can
//	other:<src prefix>  anything else
func init() {
	register(Emitter{Name: "Handlers", Run: emitHandlers})
}

type handlerFact struct {
	Module, Method, Req string
	Pre                 []string
	Guard               string
	HasAuthorityField   bool
	HasAdminField       bool
}

func emitHandlers(c *Ctx) (string, error) {
	mods, err := os.ReadDir(filepath.Join(c.Repo, "x"))
	if err != nil {
		return "", err
	}
	var facts []handlerFact
	var bodies [][2]string
	type guardCall struct {
		name  string
		calls []string
	}
	var gcalls []guardCall
	for _, m := range mods {
		if !m.IsDir() {
			continue
		}
		rel := filepath.Join("x", m.Name(), "keeper")
		if _, err := os.Stat(filepath.Join(c.Repo, rel, "msg_server.go")); err != nil {
			continue
		}
		files, err := c.parseDir(rel)
		if err != nil {
			return "", err
		}
		authFields := msgTypesWithField(c, filepath.Join("x", m.Name()), "Authority")
		adminFields := msgTypesWithField(c, filepath.Join("x", m.Name()), "Admin")
		for _, fname := range sortedKeys(files) {
			f := files[fname]
			for _, d := range f.Decls {
				fd, ok := d.(*ast.FuncDecl)
				if !ok || fd.Body == nil {
					continue
				}
				// helper bodies the guards rely on
				if fd.Name.Name == "ValidateAuthority" || fd.Name.Name == "IsAuthority" || fd.Name.Name == "HasPermission" ||
					(isCanFn(fd.Name.Name) && fd.Recv != nil) {
					bodies = append(bodies, [2]string{m.Name() + "." + recvTypeName(fd) + "." + fd.Name.Name, c.src(fd.Body)})
					// the set of functions the helper calls: robust against re-arrangements of the body
					// (early return vs `err == nil && …`), sensitive to a new dependency such as a bypass
					set := map[string]bool{}
					for _, cn := range callsIn(c, fd.Body) {
						set[cn] = true
					}
					gcalls = append(gcalls, guardCall{m.Name() + "." + recvTypeName(fd) + "." + fd.Name.Name, sortedKeys(set)})
				}
				if !strings.HasSuffix(fname, "msg_server.go") || fd.Recv == nil {
					continue
				}
				req, msgVar := handlerShape(fd)
				if req == "" {
					continue
				}
				hf := handlerFact{Module: m.Name(), Method: fd.Name.Name, Req: req, Guard: "none"}
				hf.HasAuthorityField = authFields[req]
				hf.HasAdminField = adminFields[req]
				for _, st := range fd.Body.List {
					k := classifyStmt(c, st, msgVar)
					if strings.HasPrefix(k, "authority:") || strings.HasPrefix(k, "perm:") {
						hf.Guard = k
						break
					}
					hf.Pre = append(hf.Pre, k)
				}
				if hf.Guard == "none" {
					// unguarded handler: the statements are irrelevant, except "rejects everything"
					if len(hf.Pre) > 0 && hf.Pre[0] == "rejectall" {
						hf.Guard = "rejectall"
					}
					hf.Pre = nil
				}
				facts = append(facts, hf)
			}
		}
	}
	sort.Slice(facts, func(i, j int) bool {
		if facts[i].Module != facts[j].Module {
			return facts[i].Module < facts[j].Module
		}
		return facts[i].Method < facts[j].Method
	})
	sort.Slice(bodies, func(i, j int) bool { return bodies[i][0] < bodies[j][0] })
	var sb strings.Builder
	sb.WriteString("import PvProofs.Facts.Types\n\nnamespace Generated\nopen PvProofs.Facts\n\n")
	sb.WriteString("def handlers : List Handler := [\n")
	for i, h := range facts {
		sep := ","
		if i == len(facts)-1 {
			sep = ""
		}
		fmt.Fprintf(&sb, "  { module := %s, method := %s, req := %s, pre := %s, guard := %s, hasAuthorityField := %s, hasAdminField := %s }%s\n",
			leanStr(h.Module), leanStr(h.Method), leanStr(h.Req), leanStrList(h.Pre), leanStr(h.Guard), leanBool(h.HasAuthorityField), leanBool(h.HasAdminField), sep)
	}
	sb.WriteString("]\n\n/-- normalised source of the helper functions the guards rely on -/\ndef guardBodies : List (String × String) := [\n")
	for i, b := range bodies {
		sep := ","
		if i == len(bodies)-1 {
			sep = ""
		}
		fmt.Fprintf(&sb, "  (%s, %s)%s\n", leanStr(b[0]), leanStr(b[1]), sep)
	}
	sb.WriteString("]\n\n/-- the functions each guard helper calls (sorted, unique) -/\ndef guardCalls : List (String × List String) := [\n")
	sort.Slice(gcalls, func(i, j int) bool { return gcalls[i].name < gcalls[j].name })
	for i, g := range gcalls {
		sep := ","
		if i == len(gcalls)-1 {
			sep = ""
		}
		fmt.Fprintf(&sb, "  (%s, %s)%s\n", leanStr(g.name), leanStrList(g.calls), sep)
	}
	sb.WriteString("]\n\nend Generated\n")
	return sb.String(), nil
}

// handlerShape returns the request type name ("MsgXxxRequest") and the name of the msg
// parameter if fd looks like a msg-server method: (ctx, msg *pkg.MsgXxx) (*pkg.Resp, error).
func handlerShape(fd *ast.FuncDecl) (string, string) {
	if fd.Type.Params == nil || len(fd.Type.Params.List) != 2 || fd.Type.Results == nil || len(fd.Type.Results.List) != 2 {
		return "", ""
	}
	p := fd.Type.Params.List[1]
	st, ok := p.Type.(*ast.StarExpr)
	if !ok {
		return "", ""
	}
	name := ""
	switch t := st.X.(type) {
	case *ast.SelectorExpr:
		name = t.Sel.Name
	case *ast.Ident:
		name = t.Name
	}
	if !strings.HasPrefix(name, "Msg") {
		return "", ""
	}
	v := "_"
	if len(p.Names) > 0 {
		v = p.Names[0].Name
	}
	return name, v
}

func isMsgAuthority(e ast.Expr, msgVar string) bool {
	switch t := e.(type) {
	case *ast.SelectorExpr:
		if id, ok := t.X.(*ast.Ident); ok && id.Name == msgVar && t.Sel.Name == "Authority" {
			return true
		}
	case *ast.CallExpr:
		if s, ok := t.Fun.(*ast.SelectorExpr); ok && s.Sel.Name == "GetAuthority" && len(t.Args) == 0 {
			if id, ok := s.X.(*ast.Ident); ok && id.Name == msgVar {
				return true
			}
		}
	}
	return false
}

func isKeeperAuthority(e ast.Expr, msgVar string) bool {
	switch t := e.(type) {
	case *ast.SelectorExpr:
		if t.Sel.Name == "authority" {
			return true
		}
	case *ast.CallExpr:
		if s, ok := t.Fun.(*ast.SelectorExpr); ok && s.Sel.Name == "GetAuthority" && len(t.Args) == 0 {
			if id, ok := s.X.(*ast.Ident); ok && id.Name == msgVar {
				return false
			}
			return true
		}
	}
	return false
}

// returnsError: the block's last statement is `return nil, <non-nil>`-like.
func returnsError(b *ast.BlockStmt) bool {
	if b == nil || len(b.List) == 0 {
		return false
	}
	r, ok := b.List[len(b.List)-1].(*ast.ReturnStmt)
	if !ok || len(r.Results) == 0 {
		return false
	}
	last := r.Results[len(r.Results)-1]
	if id, ok := last.(*ast.Ident); ok && id.Name == "nil" {
		return false
	}
	return true
}

func classifyStmt(c *Ctx, st ast.Stmt, msgVar string) string {
	switch s := st.(type) {
	case *ast.ReturnStmt:
		if len(s.Results) > 0 {
			if id, ok := s.Results[len(s.Results)-1].(*ast.Ident); !ok || id.Name != "nil" {
				return "rejectall"
			}
		}
	case *ast.AssignStmt:
		if len(s.Rhs) == 1 {
			if call, ok := s.Rhs[0].(*ast.CallExpr); ok {
				if sel, ok := call.Fun.(*ast.SelectorExpr); ok && sel.Sel.Name == "UnwrapSDKContext" {
					return "unwrap"
				}
			}
		}
	case *ast.IfStmt:
		if s.Else == nil && returnsError(s.Body) {
			// if A != B { return err }
			if be, ok := s.Cond.(*ast.BinaryExpr); ok && be.Op == token.NEQ && s.Init == nil {
				if (isMsgAuthority(be.X, msgVar) && isKeeperAuthority(be.Y, msgVar)) || (isMsgAuthority(be.Y, msgVar) && isKeeperAuthority(be.X, msgVar)) {
					return "authority:cmp"
				}
			}
			// if err := X.ValidateAuthority(msg.Authority); err != nil { return err }
			if as, ok := s.Init.(*ast.AssignStmt); ok && len(as.Rhs) == 1 {
				if call, ok := as.Rhs[0].(*ast.CallExpr); ok {
					if sel, ok := call.Fun.(*ast.SelectorExpr); ok && sel.Sel.Name == "ValidateAuthority" && len(call.Args) == 1 && isMsgAuthority(call.Args[0], msgVar) {
						if be, ok := s.Cond.(*ast.BinaryExpr); ok && be.Op == token.NEQ {
							return "authority:ValidateAuthority"
						}
					}
				}
			}
			// if !k.CanXxx(args) { return err }
			if ue, ok := s.Cond.(*ast.UnaryExpr); ok && ue.Op == token.NOT && s.Init == nil {
				if call, ok := ue.X.(*ast.CallExpr); ok {
					if sel, ok := call.Fun.(*ast.SelectorExpr); ok && isCanFn(sel.Sel.Name) {
						args := make([]string, len(call.Args))
						for i, a := range call.Args {
							args[i] = c.src(a)
						}
						return "perm:" + sel.Sel.Name + "(" + strings.Join(args, ",") + ")"
					}
				}
			}
		}
	}
	src := c.src(st)
	if len(src) > 70 {
		src = src[:70]
	}
	return "other:" + src
}

// msgTypesWithField scans the module's *.pb.go for `type MsgXxx struct { … <field> string …}`.
func msgTypesWithField(c *Ctx, rel, field string) map[string]bool {
	res := map[string]bool{}
	dirs := []string{rel, filepath.Join(rel, "types")}
	for _, d := range dirs {
		files, err := c.parseDir(d)
		if err != nil {
			continue
		}
		for n, f := range files {
			if !strings.HasSuffix(n, ".pb.go") {
				continue
			}
			for _, decl := range f.Decls {
				gd, ok := decl.(*ast.GenDecl)
				if !ok {
					continue
				}
				for _, sp := range gd.Specs {
					ts, ok := sp.(*ast.TypeSpec)
					if !ok || !strings.HasPrefix(ts.Name.Name, "Msg") {
						continue
					}
					stt, ok := ts.Type.(*ast.StructType)
					if !ok {
						continue
					}
					for _, fl := range stt.Fields.List {
						for _, nm := range fl.Names {
							if nm.Name == field {
								res[ts.Name.Name] = true
							}
						}
					}
				}
			}
		}
	}
	return res
}

// isCanFn: CanXxx permission helpers (not Cancel…).
func isCanFn(n string) bool {
	return strings.HasPrefix(n, "Can") && len(n) > 3 && n[3] >= 'A' && n[3] <= 'Z' && !strings.HasPrefix(n, "Cancel")
}
