package main

import (
	"go/ast"
	"go/token"
	"path/filepath"
	"strconv"
	"strings"
)

// DenomRegex (C09): the two texts the hand-written model of the marker module's unrestricted-denom
// test (lean/PvModel/DenomRegex.lean) rests on.
//
//	defaultUnrestrictedDenomRegex  the string value of the constant DefaultUnrestrictedDenomRegex
//	                               (x/marker/types/params.go); "" when there is no such string constant
//	sprintfFormats                 the format string literals (first argument) of every fmt.Sprintf
//	                               call inside Keeper.ValidateUnrestictedDenom (x/marker/keeper), in
//	                               source order — the one there wraps the expression in the anchors
//
// Nothing else of the function is pinned (how the expression is read from the params, the error
// text, the compile call), so that a refactor of those stays quiet; what they do is exercised by the
// `mkadd` correspondence op on the real msg server.
func init() {
	register(Emitter{Name: "DenomRegex", Run: emitDenomRegex})
}

func emitDenomRegex(c *Ctx) (string, error) {
	def := ""
	tfiles, err := c.parseDir(filepath.Join("x", "marker", "types"))
	if err != nil {
		return "", err
	}
	for _, fname := range sortedKeys(tfiles) {
		for _, d := range tfiles[fname].Decls {
			gd, ok := d.(*ast.GenDecl)
			if !ok || gd.Tok != token.CONST {
				continue
			}
			for _, sp := range gd.Specs {
				vs, ok := sp.(*ast.ValueSpec)
				if !ok {
					continue
				}
				for i, n := range vs.Names {
					if n.Name != "DefaultUnrestrictedDenomRegex" || i >= len(vs.Values) {
						continue
					}
					if bl, ok := vs.Values[i].(*ast.BasicLit); ok && bl.Kind == token.STRING {
						if v, err := strconv.Unquote(bl.Value); err == nil {
							def = v
						}
					}
				}
			}
		}
	}

	formats := []string{}
	kfiles, err := c.parseDir(filepath.Join("x", "marker", "keeper"))
	if err != nil {
		return "", err
	}
	for _, fname := range sortedKeys(kfiles) {
		for _, d := range kfiles[fname].Decls {
			fd, ok := d.(*ast.FuncDecl)
			if !ok || fd.Body == nil || fd.Name.Name != "ValidateUnrestictedDenom" || recvTypeName(fd) != "Keeper" {
				continue
			}
			ast.Inspect(fd.Body, func(n ast.Node) bool {
				ce, ok := n.(*ast.CallExpr)
				if !ok || len(ce.Args) == 0 {
					return true
				}
				se, ok := ce.Fun.(*ast.SelectorExpr)
				if !ok || se.Sel.Name != "Sprintf" {
					return true
				}
				if id, ok := se.X.(*ast.Ident); !ok || id.Name != "fmt" {
					return true
				}
				if bl, ok := ce.Args[0].(*ast.BasicLit); ok && bl.Kind == token.STRING {
					if v, err := strconv.Unquote(bl.Value); err == nil {
						formats = append(formats, v)
						return true
					}
				}
				formats = append(formats, "<"+c.src(ce.Args[0])+">") // not a literal: fails closed
				return true
			})
		}
	}

	var sb strings.Builder
	sb.WriteString("namespace Generated.DenomRegex\n\n")
	sb.WriteString("def defaultUnrestrictedDenomRegex : String := " + leanStr(def) + "\n\n")
	sb.WriteString("def sprintfFormats : List String := " + leanStrList(formats) + "\n\n")
	sb.WriteString("end Generated.DenomRegex\n")
	return sb.String(), nil
}
