package main

// Emitter SignerCalls (C10): for every function of x/metadata/keeper/{scope,session,record}.go,
// the calls of the signer-validation functions and of the specification look-ups, with their
// arguments (minus ctx and msg), and the statements that build the required-party lists, in
// source order.  The Lean side (PvProofs/C10Facts.lean) compares them with the case split the
// model of the callers encodes.

import (
	"go/ast"
	"sort"
	"strings"
)

func init() {
	register(Emitter{Name: "SignerCalls", Run: emitSignerCalls})
}

var signerCallees = map[string]bool{
	"validateAllRequiredPartiesSigned": true, "ValidateSignersWithParties": true,
	"validateAllRequiredSigned": true, "ValidateSignersWithoutParties": true,
	"validateRolesPresent": true, "validateProvenanceRole": true, "validatePartiesArePresent": true,
	"validateSmartContractSigners": true, "ValidateOptionalParties": true,
	"GetScopeSpecification": true, "GetContractSpecification": true, "GetRecordSpecification": true,
}

var signerListVars = map[string]bool{"reqParties": true, "availableParties": true, "reqSigs": true, "reqRoles": true}

func emitSignerCalls(c *Ctx) (string, error) {
	files, err := c.parseDir("x/metadata/keeper")
	if err != nil {
		return "", err
	}
	var sb strings.Builder
	sb.WriteString("import PvProofs.Facts.SignerCalls\n\nnamespace Generated.SignerCalls\nopen PvProofs.Facts\n\n")
	sb.WriteString("def calls : List SignerCall := [\n")
	first := true
	names := sortedKeys(files)
	for _, fn := range names {
		base := fn[strings.LastIndex(fn, "/")+1:]
		if base != "scope.go" && base != "session.go" && base != "record.go" {
			continue
		}
		f := files[fn]
		var decls []*ast.FuncDecl
		for _, d := range f.Decls {
			if fd, ok := d.(*ast.FuncDecl); ok && fd.Body != nil && strings.HasPrefix(fd.Name.Name, "Validate") {
				decls = append(decls, fd)
			}
		}
		sort.Slice(decls, func(i, j int) bool { return decls[i].Pos() < decls[j].Pos() })
		for _, fd := range decls {
			type ent struct {
				pos    int
				callee string
				args   []string
			}
			var ents []ent
			ast.Inspect(fd.Body, func(n ast.Node) bool {
				switch x := n.(type) {
				case *ast.CallExpr:
					name := ""
					switch fun := x.Fun.(type) {
					case *ast.SelectorExpr:
						name = fun.Sel.Name
					case *ast.Ident:
						name = fun.Name
					}
					if signerCallees[name] {
						var args []string
						for _, a := range x.Args {
							s := c.src(a)
							if s == "ctx" || s == "msg" {
								continue
							}
							args = append(args, s)
						}
						ents = append(ents, ent{int(x.Pos()), name, args})
					}
				case *ast.AssignStmt:
					if len(x.Lhs) == 1 && len(x.Rhs) == 1 {
						if id, ok := x.Lhs[0].(*ast.Ident); ok && signerListVars[id.Name] {
							ents = append(ents, ent{int(x.Pos()), "set:" + id.Name, []string{c.src(x.Rhs[0])}})
						}
					}
				}
				return true
			})
			sort.SliceStable(ents, func(i, j int) bool { return ents[i].pos < ents[j].pos })
			for _, e := range ents {
				if !first {
					sb.WriteString(",\n")
				}
				first = false
				sb.WriteString("  ⟨" + leanStr(fd.Name.Name) + ", " + leanStr(e.callee) + ", " + leanStrList(e.args) + "⟩")
			}
		}
	}
	sb.WriteString("\n]\n\nend Generated.SignerCalls\n")
	return sb.String(), nil
}
