package main

// Emitter SignerCalls (C10): for every function of x/metadata/keeper/{scope,session,record}.go,
// the calls of the signer-validation functions and of the specification look-ups, with their
// arguments (minus ctx and msg), and the statements that build the required-party lists, in
// source order.  The Lean side (PvProofs/C10Facts.lean) compares them with the case split the
// model of the callers encodes.

import (
	"go/ast"
	"sort"
	"strings"
)

func init() {
	register(Emitter{Name: "SignerCalls", Run: emitSignerCalls})
}

var signerCallees = map[string]bool{
	"validateAllRequiredPartiesSigned": true, "ValidateSignersWithParties": true,
	"validateAllRequiredSigned": true, "ValidateSignersWithoutParties": true,
	"validateRolesPresent": true, "validateProvenanceRole": true, "validatePartiesArePresent": true,
	"validateSmartContractSigners": true, "ValidateOptionalParties": true,
	"GetScopeSpecification": true, "GetContractSpecification": true, "GetRecordSpecification": true,
	// the value-owner side of the scope endpoints
	"GetScopeValueOwner": true, "ValidateScopeValueOwnersSigners": true,
}

var signerListVars = map[string]bool{"reqParties": true, "availableParties": true, "reqSigs": true, "reqRoles": true,
	// "the ONLY change is the value owner": what is compared decides whether the owners must sign
	"onlyChangeIsValueOwner": true}

func emitSignerCalls(c *Ctx) (string, error) {
	files, err := c.parseDir("x/metadata/keeper")
	if err != nil {
		return "", err
	}
	var sb strings.Builder
	sb.WriteString("import PvProofs.Facts.SignerCalls\n\nnamespace Generated.SignerCalls\nopen PvProofs.Facts\n\n")
	sb.WriteString("def calls : List SignerCall := [\n")
	first := true
	names := sortedKeys(files)
	for _, fn := range names {
		base := fn[strings.LastIndex(fn, "/")+1:]
		if base != "scope.go" && base != "session.go" && base != "record.go" {
			continue
		}
		f := files[fn]
		var decls []*ast.FuncDecl
		for _, d := range f.Decls {
			if fd, ok := d.(*ast.FuncDecl); ok && fd.Body != nil && strings.HasPrefix(fd.Name.Name, "Validate") {
				decls = append(decls, fd)
			}
		}
		sort.Slice(decls, func(i, j int) bool { return decls[i].Pos() < decls[j].Pos() })
		for _, fd := range decls {
			type ent struct {
				pos    int
				callee string
				args   []string
			}
			var ents []ent
			ast.Inspect(fd.Body, func(n ast.Node) bool {
				switch x := n.(type) {
				case *ast.CallExpr:
					name := ""
					switch fun := x.Fun.(type) {
					case *ast.SelectorExpr:
						name = fun.Sel.Name
					case *ast.Ident:
						name = fun.Name
					}
					if signerCallees[name] {
						var args []string
						for _, a := range x.Args {
							s := c.src(a)
							if s == "ctx" || s == "msg" {
								continue
							}
							args = append(args, s)
						}
						ents = append(ents, ent{int(x.Pos()), name, args})
					}
				case *ast.AssignStmt:
					if len(x.Lhs) == 1 && len(x.Rhs) == 1 {
						if id, ok := x.Lhs[0].(*ast.Ident); ok && signerListVars[id.Name] {
							ents = append(ents, ent{int(x.Pos()), "set:" + id.Name, []string{c.src(x.Rhs[0])}})
						}
					}
				}
				return true
			})
			sort.SliceStable(ents, func(i, j int) bool { return ents[i].pos < ents[j].pos })
			for _, e := range ents {
				if !first {
					sb.WriteString(",\n")
				}
				first = false
				sb.WriteString("  ⟨" + leanStr(fd.Name.Name) + ", " + leanStr(e.callee) + ", " + leanStrList(e.args) + "⟩")
			}
		}
	}
	sb.WriteString("\n]\n\n")
	sb.WriteString(emitMsgServerCalls(c, files))
	sb.WriteString("\nend Generated.SignerCalls\n")
	return sb.String(), nil
}

// msgServerEndpoints: the endpoints of x/metadata/keeper/msg_server.go whose signer rules C10
// covers.  For each of them, in source order: the look-up of the stored entry, the copy
// `proposed := existing`, the conversion of the optional id fields, the edits of the owner / data-access lists (receiver.method), the call
// of the Validate… function (arguments without ctx) and the store write.
var msgServerEndpoints = map[string]bool{
	"WriteScope": true, "DeleteScope": true, "AddScopeDataAccess": true, "DeleteScopeDataAccess": true,
	"AddScopeOwner": true, "DeleteScopeOwner": true, "WriteSession": true, "WriteRecord": true, "DeleteRecord": true,
}

var msgServerCallees = map[string]bool{
	"GetScope": true, "GetSession": true, "GetRecord": true,
	"AddOwners": true, "RemoveOwners": true, "AddDataAccess": true, "RemoveDataAccess": true,
	"SetScope": true, "SetSession": true, "SetRecord": true, "RemoveScope": true, "RemoveRecord": true,
	"ValidateBasic": true,
	// the optional id fields (scope_uuid, session_id_components, …) become the entry's ids: this
	// has to happen BEFORE the look-up of the stored entry
	"ConvertOptionalFields": true,
}

func emitMsgServerCalls(c *Ctx, files map[string]*ast.File) string {
	var sb strings.Builder
	sb.WriteString("def msgServerCalls : List SignerCall := [\n")
	first := true
	for _, fn := range sortedKeys(files) {
		if fn[strings.LastIndex(fn, "/")+1:] != "msg_server.go" {
			continue
		}
		var decls []*ast.FuncDecl
		for _, d := range files[fn].Decls {
			if fd, ok := d.(*ast.FuncDecl); ok && fd.Body != nil && recvTypeName(fd) == "msgServer" && msgServerEndpoints[fd.Name.Name] {
				decls = append(decls, fd)
			}
		}
		sort.Slice(decls, func(i, j int) bool { return decls[i].Pos() < decls[j].Pos() })
		for _, fd := range decls {
			type ent struct {
				pos    int
				callee string
				args   []string
			}
			var ents []ent
			ast.Inspect(fd.Body, func(n ast.Node) bool {
				switch x := n.(type) {
				case *ast.CallExpr:
					sel, ok := x.Fun.(*ast.SelectorExpr)
					if !ok {
						return true
					}
					name := sel.Sel.Name
					if !msgServerCallees[name] && !strings.HasPrefix(name, "Validate") {
						return true
					}
					callee := name
					if recv := c.src(sel.X); recv != "k" {
						callee = recv + "." + name
					}
					var args []string
					for _, a := range x.Args {
						s := c.src(a)
						if s == "ctx" {
							continue
						}
						if ce, ok := a.(*ast.CallExpr); ok && strings.HasSuffix(c.src(ce.Fun), "WithTransferAgents") {
							continue // ctx with transfer agents
						}
						args = append(args, s)
					}
					ents = append(ents, ent{int(x.Pos()), callee, args})
				case *ast.AssignStmt:
					if len(x.Lhs) == 1 && len(x.Rhs) == 1 {
						if id, ok := x.Lhs[0].(*ast.Ident); ok && (id.Name == "proposed" || id.Name == "existing") {
							ents = append(ents, ent{int(x.Pos()), "set:" + id.Name, []string{c.src(x.Rhs[0])}})
						}
					}
				}
				return true
			})
			sort.SliceStable(ents, func(i, j int) bool { return ents[i].pos < ents[j].pos })
			for _, e := range ents {
				if !first {
					sb.WriteString(",\n")
				}
				first = false
				sb.WriteString("  ⟨" + leanStr(fd.Name.Name) + ", " + leanStr(e.callee) + ", " + leanStrList(e.args) + "⟩")
			}
		}
	}
	sb.WriteString("\n]\n")
	return sb.String()
}
