package main

// Fee wiring facts for C08 (DESIGN §2.3(b)): the syntactic facts the `txfee` model assumes about
// how the fee code is wired together.
//   * `anteDecorators`   – the constructor calls, in order, of the `decorators` slice in
//                          internal/antewrapper/handler.go (NewAnteHandler);
//   * `routerCalls`      – the calls, in source order, inside the closure stored in
//                          `msr.routes[...]` by PioMsgServiceRouter.registerMsgServiceHandler;
//   * `appFeeCalls`      – the calls in app/app.go (function `New` and the set*Handler helpers)
//                          that install the router, the ante handler and the fee handler;
//   * `invokeCalls`      – selected calls of MsgFeeInvoker.Invoke, in source order;
//   * `deductCalls`      – selected calls of checkDeductBaseFee, in source order;
//   * `recheckReaders`   – the functions of internal/antewrapper and internal/handlers that read
//                          the mempool RECHECK flag (`IsReCheckTx`): the model treats a recheck
//                          as a full repeat of the mempool check.

import (
	"fmt"
	"go/ast"
	"path/filepath"
	"strings"
)

func init() { register(Emitter{Name: "FeeWiring", Run: emitFeeWiring}) }

func callName(c *Ctx, e ast.Expr) string {
	switch f := e.(type) {
	case *ast.Ident:
		return f.Name
	case *ast.SelectorExpr:
		return callName(c, f.X) + "." + f.Sel.Name
	case *ast.CallExpr:
		return callName(c, f.Fun) + "()"
	case *ast.IndexExpr:
		return callName(c, f.X)
	case *ast.ParenExpr:
		return callName(c, f.X)
	case *ast.TypeAssertExpr:
		return callName(c, f.X)
	}
	return "?"
}

// callsIn lists the names of all calls under n in source order.
func callsIn(c *Ctx, n ast.Node) []string {
	var out []string
	ast.Inspect(n, func(x ast.Node) bool {
		if ce, ok := x.(*ast.CallExpr); ok {
			out = append(out, callName(c, ce.Fun))
		}
		return true
	})
	return out
}

func findFunc(files map[string]*ast.File, recv, name string) *ast.FuncDecl {
	for _, k := range sortedKeys(files) {
		for _, d := range files[k].Decls {
			fd, ok := d.(*ast.FuncDecl)
			if !ok || fd.Name.Name != name {
				continue
			}
			if recv == "" && fd.Recv == nil || recv != "" && recvTypeName(fd) == recv {
				return fd
			}
		}
	}
	return nil
}

func keep(xs []string, want ...string) []string {
	var out []string
	for _, x := range xs {
		for _, w := range want {
			if x == w || strings.HasSuffix(x, "."+w) {
				out = append(out, x)
				break
			}
		}
	}
	return out
}

func emitFeeWiring(c *Ctx) (string, error) {
	ante, err := c.parseDir(filepath.Join("internal", "antewrapper"))
	if err != nil {
		return "", err
	}
	handlers, err := c.parseDir(filepath.Join("internal", "handlers"))
	if err != nil {
		return "", err
	}
	appFiles, err := c.parseDir("app")
	if err != nil {
		return "", err
	}

	// 1. ante decorators
	var decorators []string
	if fd := findFunc(ante, "", "NewAnteHandler"); fd != nil {
		ast.Inspect(fd.Body, func(x ast.Node) bool {
			as, ok := x.(*ast.AssignStmt)
			if !ok || len(as.Lhs) != 1 || len(as.Rhs) != 1 {
				return true
			}
			if id, ok := as.Lhs[0].(*ast.Ident); !ok || id.Name != "decorators" {
				return true
			}
			if cl, ok := as.Rhs[0].(*ast.CompositeLit); ok {
				for _, el := range cl.Elts {
					if ce, ok := el.(*ast.CallExpr); ok {
						decorators = append(decorators, callName(c, ce.Fun))
					} else {
						decorators = append(decorators, "?"+c.src(el))
					}
				}
			}
			return true
		})
	}
	if len(decorators) == 0 {
		return "", fmt.Errorf("NewAnteHandler: decorators slice not found")
	}

	// 2. the router's per-message closure
	var routerCalls []string
	if fd := findFunc(handlers, "PioMsgServiceRouter", "registerMsgServiceHandler"); fd != nil {
		ast.Inspect(fd.Body, func(x ast.Node) bool {
			as, ok := x.(*ast.AssignStmt)
			if !ok || len(as.Lhs) != 1 || len(as.Rhs) != 1 {
				return true
			}
			ix, ok := as.Lhs[0].(*ast.IndexExpr)
			if !ok || callName(c, ix.X) != "msr.routes" {
				return true
			}
			if fl, ok := as.Rhs[0].(*ast.FuncLit); ok {
				routerCalls = keep(callsIn(c, fl.Body), "consumeMsgFees", "methodHandler", "ValidateBasic", "IsAllowed")
			}
			return true
		})
	}
	if len(routerCalls) == 0 {
		return "", fmt.Errorf("registerMsgServiceHandler: route closure not found")
	}

	// 3. app wiring
	var appCalls []string
	for _, fn := range []struct{ recv, name string }{{"", "New"}, {"App", "setAnteHandler"}, {"App", "setFeeHandler"}} {
		fd := findFunc(appFiles, fn.recv, fn.name)
		if fd == nil {
			return "", fmt.Errorf("app: func %s not found", fn.name)
		}
		for _, n := range keep(callsIn(c, fd.Body), "SetMsgServiceRouter", "NewPioMsgServiceRouter", "SetMsgFeesKeeper",
			"setAnteHandler", "setFeeHandler", "NewAnteHandler", "SetAnteHandler", "NewAdditionalMsgFeeHandler", "SetFeeHandler") {
			appCalls = append(appCalls, fn.name+":"+n)
		}
	}

	// 4. the end-of-tx sweep and the ante deduction
	var invokeCalls, deductCalls, feeHandlerCalls []string
	if fd := findFunc(handlers, "MsgFeeInvoker", "Invoke"); fd != nil {
		invokeCalls = keep(callsIn(c, fd.Body), "FeeConsumed", "BaseFeeConsumed", "SafeSub", "GetFeePayerUsingFeeGrant",
			"DeductFeesDistributions", "FeeConsumedDistributions")
	}
	if fd := findFunc(ante, "ProvenanceDeductFeeDecorator", "checkDeductBaseFee"); fd != nil {
		deductCalls = keep(callsIn(c, fd.Body), "CalculateBaseFee", "CalculateAdditionalFeesToBePaid", "GetFeePayerUsingFeeGrant",
			"DeductFees", "ConsumeBaseFee")
	}
	if fd := findFunc(handlers, "", "NewAdditionalMsgFeeHandler"); fd != nil {
		feeHandlerCalls = keep(callsIn(c, fd.Body), "NewMsgFeeInvoker")
	}
	if len(invokeCalls) == 0 || len(deductCalls) == 0 {
		return "", fmt.Errorf("Invoke / checkDeductBaseFee not found")
	}

	// 5. who distinguishes a mempool recheck from a first check
	var recheckReaders []string
	for _, pk := range []struct {
		name  string
		files map[string]*ast.File
	}{{"antewrapper", ante}, {"handlers", handlers}} {
		for _, k := range sortedKeys(pk.files) {
			for _, d := range pk.files[k].Decls {
				fd, ok := d.(*ast.FuncDecl)
				if !ok || fd.Body == nil {
					continue
				}
				for _, n := range callsIn(c, fd.Body) {
					if strings.HasSuffix(n, "IsReCheckTx") {
						recheckReaders = append(recheckReaders, pk.name+":"+recvTypeName(fd)+"."+fd.Name.Name)
						break
					}
				}
			}
		}
	}

	var sb strings.Builder
	sb.WriteString("namespace Generated.FeeWiring\n\n")
	fmt.Fprintf(&sb, "def anteDecorators : List String := %s\n\n", leanStrList(decorators))
	var local []string
	for _, d := range decorators {
		if !strings.Contains(d, ".") {
			local = append(local, d)
		}
	}
	fmt.Fprintf(&sb, "/-- decorators constructed by the antewrapper package itself (no package qualifier) -/\ndef localDecorators : List String := %s\n\n", leanStrList(local))
	fmt.Fprintf(&sb, "def routerCalls : List String := %s\n\n", leanStrList(routerCalls))
	fmt.Fprintf(&sb, "def appFeeCalls : List String := %s\n\n", leanStrList(appCalls))
	fmt.Fprintf(&sb, "def invokeCalls : List String := %s\n\n", leanStrList(invokeCalls))
	fmt.Fprintf(&sb, "def deductCalls : List String := %s\n\n", leanStrList(deductCalls))
	fmt.Fprintf(&sb, "def feeHandlerCalls : List String := %s\n\n", leanStrList(feeHandlerCalls))
	fmt.Fprintf(&sb, "/-- functions of the fee packages that read `ctx.IsReCheckTx()` -/\ndef recheckReaders : List String := %s\n\n", leanStrList(recheckReaders))
	sb.WriteString("end Generated.FeeWiring\n")
	return sb.String(), nil
}
