import PvProofs.C19
#print axioms PvProofs.C19.quoIntRoundUp_away_from_zero
#print axioms PvProofs.C19.quoIntRoundUp_is_ceil
#print axioms PvProofs.C19.applyLoosely_is_ceil
#print axioms PvProofs.C19.applyLoosely_fails_iff
#print axioms PvProofs.C19.ratio_can_fail
#print axioms PvProofs.C19.applyTo_exact
#print axioms PvProofs.C19.exchangeSplit_is_ceil
#print axioms PvProofs.C19.exchangeSplit_skips
#print axioms PvProofs.C19.exchangeSplit_fails_iff
#print axioms PvProofs.C19.splitByBips_floor_and_adds_up
#print axioms PvProofs.C19.splitCoinByBips_never_fails
#print axioms PvProofs.C19.splitCoinByBips_rejects
#print axioms PvProofs.C19.ratio_fee_monotone
#print axioms PvProofs.C19.csfOthers_ok
#print axioms PvProofs.C19.commitmentFee_formula
