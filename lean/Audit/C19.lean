import PvProofs.C19
import PvProofs.C19Gen
import PvProofs.C19Dist
import PvProofs.C19Csf
#print axioms PvProofs.C19.quoIntRoundUp_away_from_zero
#print axioms PvProofs.C19.quoIntRoundUp_is_ceil
#print axioms PvProofs.C19.applyLoosely_is_ceil
#print axioms PvProofs.C19.applyLoosely_fails_iff
#print axioms PvProofs.C19.ratio_can_fail
#print axioms PvProofs.C19.ratio_failed_before_fix
#print axioms PvProofs.C19.applyLoosely_never_fails_when_fee_le_price
#print axioms PvProofs.C19.applyLoosely_error_invalid
#print axioms PvProofs.C19.applyLoosely_fee_le_price
#print axioms PvProofs.C19.applyTo_exact
#print axioms PvProofs.C19.exchangeSplit_is_ceil
#print axioms PvProofs.C19.exchangeSplit_skips
#print axioms PvProofs.C19.exchangeSplit_never_fails
#print axioms PvProofs.C19.exchangeSplit_fails_iff_before_fix
#print axioms PvProofs.C19.exchangeSplit_witness_before_fix
#print axioms PvProofs.C19.splitByBips_floor_and_adds_up
#print axioms PvProofs.C19.splitCoinByBips_never_fails
#print axioms PvProofs.C19.splitCoinByBips_rejects
#print axioms PvProofs.C19.ratio_fee_monotone
#print axioms PvProofs.C19.csfOthers_ok
#print axioms PvProofs.C19.commitmentFee_formula
#print axioms PvProofs.C19Gen.translation_complete
#print axioms PvProofs.C19Gen.translation_targets
#print axioms PvProofs.C19Gen.gen_MinSDKInt
#print axioms PvProofs.C19Gen.gen_QuoIntRoundUp
#print axioms PvProofs.C19Gen.gen_applyLooselyTo
#print axioms PvProofs.C19Gen.gen_ApplyTo
#print axioms PvProofs.C19Gen.gen_ApplyToLoosely
#print axioms PvProofs.C19Gen.gen_SplitCoinByBips
#print axioms PvProofs.C19Gen.code_QuoIntRoundUp_away_from_zero
#print axioms PvProofs.C19Gen.code_ApplyToLoosely_is_ceil
#print axioms PvProofs.C19Gen.code_ApplyTo_exact
#print axioms PvProofs.C19Gen.code_SplitCoinByBips_floor_and_adds_up
#print axioms PvProofs.C19Gen.code_SplitCoinByBips_rejects
#print axioms PvProofs.C19Dist.increase_fails_iff
#print axioms PvProofs.C19Dist.increase_step
#print axioms PvProofs.C19Dist.increaseAll_adds_up
#print axioms PvProofs.C19Dist.distribution_adds_up
#print axioms PvProofs.C19Dist.increaseAll_never_fails
#print axioms PvProofs.C19Gen.bitLen_gt_iff
#print axioms PvProofs.C19Csf.commitmentFee_okB
#print axioms PvProofs.C19Csf.commitmentFee_succeeds_iff
#print axioms PvProofs.C19Gen.gen_exchangeSplit_body
#print axioms PvProofs.C19Gen.code_exchangeSplit_is_ceil
