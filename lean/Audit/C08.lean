import PvProofs.C08
#print axioms PvProofs.C08.success_stages
#print axioms PvProofs.C08.failed_tx_charges_base_fee_only
#print axioms PvProofs.C08.baseFee_amount
#print axioms PvProofs.C08.rejected_tx_changes_nothing
#print axioms PvProofs.C08.successful_tx_charges_declared_fee
#print axioms PvProofs.C08.success_debit_is_declared_fee
#print axioms PvProofs.C08.recipient_gets_exact_share
#print axioms PvProofs.C08.collector_gets_the_rest
#print axioms PvProofs.C08.share_is_floor
#print axioms PvProofs.C08.fees_conserve_supply
#print axioms PvProofs.C08.additional_fees_covered_or_fail
#print axioms PvProofs.C08.uncovered_fee_never_succeeds
#print axioms PvProofs.C08.nested_message_fees_are_incurred
#print axioms PvProofs.C08.mempool_reject_never_charged
#print axioms PvProofs.C08.admitted_tx_is_charged
#print axioms PvProofs.C08.admitted_fee_covers_base_and_top_level
#print axioms PvProofs.C08.admitted_base_fee_le_declared
