import PvProofs.C01
