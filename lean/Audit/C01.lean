import PvProofs.C01
#print axioms PvProofs.C01.split_exact
#print axioms PvProofs.C01.split_prices_positive
#print axioms PvProofs.C01.split_hold
#print axioms PvProofs.C01.split_checker_sound
#print axioms PvProofs.C01.buildSettlement_eq
#print axioms PvProofs.C01.at_most_one_partial
#print axioms PvProofs.C01.orders_filled_exactly
#print axioms PvProofs.C01.conservation
#print axioms PvProofs.C01.transfers_balanced
#print axioms PvProofs.C01.account_deltas
#print axioms PvProofs.C01.fee_inputs_exact
#print axioms PvProofs.C01.fee_formula
#print axioms PvProofs.C01.filled_is_reordering
