import PvProofs.C18
import PvProofs.C18Trigger
import PvProofs.C18Name
import PvProofs.C18Attr
import PvProofs.C07
import PvProofs.C02
#print axioms PvProofs.C18.import_export
#print axioms PvProofs.C18.export_validates
#print axioms PvProofs.C18.set_sorted
#print axioms PvProofs.C18.delete_sorted
#print axioms PvProofs.C18.reachable_sorted
#print axioms PvProofs.C18.reachable_roundtrip
#print axioms PvProofs.C18.module_roundtrip
#print axioms PvProofs.C18.determinism_sources_benign
#print axioms PvProofs.C18.determinism_facts_nonvacuous
#print axioms PvProofs.C18.keeper_state_constant
#print axioms PvProofs.C18.sorted_iteration_order_independent
#print axioms PvProofs.C18.commutative_iteration_order_independent
-- module-level genesis round trips proved over the module models of other properties (cited by C18)
#print axioms PvProofs.C18Trigger.genesis_round_trip
#print axioms PvProofs.C18Trigger.export_validates
#print axioms PvProofs.C18Trigger.continuation_after_round_trip
#print axioms PvProofs.C07.regenesis_preserves_partial_observation
#print axioms PvProofs.C02.initGenesis_accepts_iff
#print axioms PvProofs.C02.from_matching_genesis
#print axioms PvProofs.C18Name.genesis_round_trip
#print axioms PvProofs.C18Name.exported_genesis_validates
#print axioms PvProofs.C18Attr.genesis_round_trip
#print axioms PvProofs.C18Attr.genesis_accepts_own_export
#print axioms PvProofs.C18Attr.regenesis_counters_exact
#print axioms PvProofs.C18Attr.regenesis_queue_exact
#print axioms PvProofs.C18Attr.continuation_after_round_trip
