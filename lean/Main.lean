/-
`pvmodel <model>`: reads op lines on stdin (`<op line>` or `<op line>\t<impl output>`),
writes `<model output>\t<verdict>` per line.  Core-only (no Mathlib) so it links as an exe.
-/
import PvModel.Registry

open PvModel

partial def loop (d : Driver) (hin hout : IO.FS.Stream) (s : d.σ) : IO Unit := do
  let line ← hin.getLine
  if line.isEmpty then return ()
  let line := (line.dropEndWhile (fun c => c = '\n' || c = '\r')).toString
  if line.isEmpty || line.startsWith "#" then
    hout.putStrLn "#"
    -- "# history …" starts a fresh history: reset the model state
    if line.startsWith "# history" then loop d hin hout d.init else loop d hin hout s
  else
    let (op, impl) := match line.splitOn "\t" with
      | [o] => (o, none)
      | o :: i :: _ => (o, some i)
      | [] => ("", none)
    let (s', out, verdict) := d.step s op impl
    hout.putStrLn s!"{out}\t{verdict}"
    loop d hin hout s'

def main (args : List String) : IO UInt32 := do
  match args with
  | [m] =>
    match registry.lookup m with
    | some d =>
      let hin ← IO.getStdin
      let hout ← IO.getStdout
      loop d hin hout d.init
      hout.flush
      return 0
    | none => IO.eprintln s!"unknown model {m}"; return 2
  | _ => IO.eprintln "usage: pvmodel <model>"; return 2
