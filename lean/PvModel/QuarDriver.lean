/-
Line-protocol driver + implementation-state checker for the C07 model (`quar`).

Every op line's output is `<result> ;; <dump>` where `<dump>` is the canonical rendering of
the whole state after the op (balances incl. the holder `H`, opt-ins, auto-responses,
records with both sender lists, suffix index).  The verdict parses the *implementation's*
dump into a `State` and evaluates the conclusions of the C07 theorems on it (clause names
below), relative to the implementation's previous dump.  The clauses about WHO may be paid or
credited do not trust the store's own bookkeeping (accepted lists, auto-response entries, opt-in
flags): they are evaluated on `Hist.view`, the previous dump read through the history of the
receiver's successful messages that the driver rebuilds op by op (`Hist.step`).
-/
import PvModel.QuarSpec
import PvModel.Util
-- registry: quar PvModel.Quar.driver

namespace PvModel.Quar
open PvModel

/-! ### rendering -/

def sortStr (l : List String) : List String := l.mergeSort fun a b => decide (a ≤ b)

def joinOr (l : List String) (sep : String) : String := if l.isEmpty then "-" else sep.intercalate l

def showSfx (x : Suffix) : String := joinOr x "+"
def showAddrs (l : List Addr) : String := joinOr l ","
def showAuto : AutoResp → String
  | .accept => "a" | .decline => "d" | .unspec => "u"

def showRec (e : (Addr × Suffix) × Record) : String :=
  s!"{e.1.1}<{showSfx e.1.2}/u={showAddrs e.2.unacc}/a={showAddrs e.2.acc}/c={showCoins (Coins.canon e.2.coins)}/d={boolStr e.2.declined}"

def dump (accts : List Addr) (s : State) : String :=
  let bals := accts.map fun a => s!"{a}={showCoins (Ledger.balances s.bank a)}"
  let opt := sortStr (s.optin.map (·.1))
  let auto := sortStr (s.auto.map fun e => s!"{e.1.1}<{e.1.2}={showAuto e.2}")
  let recs := sortStr (s.recs.map showRec)
  let idx := sortStr (s.index.map fun e => s!"{e.1.1}<{e.1.2}={joinOr (sortStr (e.2.map showSfx)) ","}")
  let inv := if fundsHolderBalanceInvariant s then "ok" else "broken"
  s!"bal:{joinOr bals ";"} | opt:{joinOr opt ","} | auto:{joinOr auto ";"} | rec:{joinOr recs ";"} | idx:{joinOr idx ";"} | inv:{inv}"

/-! ### parsing ops -/

def parseAuto? : String → Option AutoResp
  | "a" => some .accept | "d" => some .decline | "u" => some .unspec | _ => none

/-- `X:coins` -/
def parseAddrCoins? (s : String) : Option (Addr × Coins) :=
  match s.splitOn ":" with
  | [a, c] => (parseCoins? c).map fun c => (a, c)
  | _ => none

def parseOp? (ws : List String) : Option Op :=
  match ws with
  | ["optin", a] => some (.optIn a)
  | ["optout", a] => some (.optOut a)
  | ["auto", to, ups] =>
    (splitList ups).mapM (fun (u : String) => match u.splitOn ":" with
      | [f, r] => (parseAuto? r).map fun r => (f, r)
      | _ => none) |>.map (.auto to)
  | ["send", f, t, c] => (parseCoins? c).map (.send f t)
  | ["bsend", f, t, c] => (parseCoins? c).map (.bsend f t)
  | ["msend", f, outs] => ((splitList outs).mapM parseAddrCoins?).map (.msend f)
  | ["iosend", ins, t] => ((splitList ins).mapM parseAddrCoins?).map (.iosend · t)
  | ["accept", t, fs, p] => some (.accept t (splitList fs) (p = "perm=1"))
  | ["decline", t, fs, p] => some (.decline t (splitList fs) (p = "perm=1"))
  | ["qadd", t, fs, c, p] => (parseCoins? c).map fun c => .qadd t (splitList fs) c ((p.splitOn "=").getLastD "")
  | _ => none

/-! ### parsing the implementation's dump into a `State` -/

def parseSfx (s : String) : Suffix := splitList s "+"

def parseRec? (s : String) : Option ((Addr × Suffix) × Record) :=
  match s.splitOn "/" with
  | [key, u, a, c, d] =>
    match key.splitOn "<", parseCoins? ((c.drop 2).toString) with
    | [to, sfx], some coins =>
      some ((to, parseSfx sfx),
        { unacc := splitList ((u.drop 2).toString) ",", acc := splitList ((a.drop 2).toString) ",", coins := coins,
          declined := d = "d=1" })
    | _, _ => none
  | _ => none

def parseKeyVal? (s : String) : Option ((Addr × Addr) × String) :=
  match s.splitOn "=" with
  | [k, v] => match k.splitOn "<" with
    | [a, b] => some ((a, b), v)
    | _ => none
  | _ => none

structure Dump where
  accts : List Addr
  st : State
  /-- what the chain's own `FundsHolderBalanceInvariant` said (true = not broken) -/
  invOk : Bool

def section? (parts : List String) (name : String) : Option String :=
  parts.findSome? fun p => if p.startsWith (name ++ ":") then some ((p.drop (name.length + 1)).toString) else none

def parseDump? (holder : Addr) (restricted : List Denom) (xfer : List Addr) (s : String) : Option Dump := do
  let parts := (s.splitOn " | ").map fun p => p.trimAscii.toString
  let bal ← section? parts "bal"
  let bals ← (splitList bal ";").mapM fun e => match e.splitOn "=" with
    | [a, c] => (parseCoins? c).map fun c => (a, c)
    | _ => none
  let opt := splitList ((section? parts "opt").getD "-") ","
  let auto ← (splitList ((section? parts "auto").getD "-") ";").mapM fun e => do
    let (k, v) ← parseKeyVal? e
    let r ← parseAuto? v
    pure (k, r)
  let recs ← (splitList ((section? parts "rec").getD "-") ";").mapM parseRec?
  let idx ← (splitList ((section? parts "idx").getD "-") ";").mapM fun e => do
    let (k, v) ← parseKeyVal? e
    pure (k, (splitList v ",").map parseSfx)
  let bank : Ledger := bals.flatMap fun (a, c) => Ledger.entries a c
  pure { accts := bals.map (·.1), invOk := (section? parts "inv").getD "ok" = "ok",
         st := { holder, restricted, xfer, optin := opt.map (·, ()), auto, recs, index := idx, bank, qin := [], qout := [] } }

/-! ### the checker: theorem conclusions on the implementation's states -/

def dedupStr (l : List String) : List String := l.foldr (fun x acc => if acc.contains x then acc else x :: acc) []

def allDenoms (a b : State) : List Denom := dedupStr (denomsOf a ++ denomsOf b)

def totalOf (accts : List Addr) (s : State) (d : Denom) : Int :=
  (accts.map fun a => Ledger.bal s.bank a d).foldl (· + ·) 0

def firstFail (cs : List (Bool × String)) : String :=
  match cs.find? (fun c => !c.1) with
  | some c => "fail:" ++ c.2
  | none => "ok"

def sameRecCoins (p c : State) (ds : List Denom) : Bool :=
  (p.recs.all fun e => ds.all fun d => Coins.amountOf (coinsAt c e.1.1 e.1.2) d = Coins.amountOf e.2.coins d) &&
  (c.recs.all fun e => (kvGet p.recs e.1).isSome)

def sameBalances (accts : List Addr) (p c : State) (ds : List Denom) : Bool :=
  accts.all fun a => ds.all fun d => Ledger.bal p.bank a d = Ledger.bal c.bank a d

/-- invariants of a single state -/
def stateChecks (tainted : Bool) (invOk : Bool) (c : State) (ds : List Denom) : List (Bool × String) :=
  [ (tainted || holderCoversB c ds, "holder_covers_records"),
    (chainInvariantAgrees invOk c ds, "chain_invariant_wrong"),
    (keyOKB c, "record_key_mismatch"),
    (noneFullyAcceptedB c, "fully_accepted_record_kept"),
    (indexOKB c, "index_incomplete") ]

/-- `check prev prevAsTheHistoryReadsIt op ok? released cur`: `p` is the implementation's previous
dump, `pv` the same state with the receiver's choices (opt-in, auto-responses, who is accepted on
which record) taken from the history of successful messages (`Hist.view`) instead of from the
store — the clauses about WHO may be paid / credited are evaluated on `pv`. -/
def check (accts : List Addr) (tainted invOk : Bool) (p pv : State) (op : Op) (ok : Bool) (released : Coins) (c : State) : String :=
  let ds := allDenoms p c
  let h := p.holder
  if !ok then
    let neverFails : Bool := match op with
      | .accept _ froms _ => tainted || froms.isEmpty   -- `accept_never_fails`
      | .optIn _ | .optOut _ => false
      | _ => true
    firstFail ([ (neverFails, "accept_or_opt_failed"), (sameBalances accts p c ds && sameRecCoins p c ds && sameRecCoins c p ds
                  && p.optin.length = c.optin.length && p.auto.length = c.auto.length, "rejected_changes_state") ]
               ++ stateChecks tainted invOk c ds)
  else
  let common : List (Bool × String) := stateChecks tainted invOk c ds ++
    [ (ds.all fun d => totalOf accts p d = totalOf accts c d, "supply_not_conserved"),
      (!op.holderNeverSigns h || ds.all fun d => decide (slack p d ≤ slack c d), "holder_slack_decreased"),
      (!op.holderNotNamed h || ds.all fun d => slack p d = slack c d, "holder_slack_not_exact") ]
  let specific : List (Bool × String) :=
    match op with
    | .optIn _ | .optOut _ | .auto _ _ | .decline _ _ _ =>
      [ (sameBalances accts p c ds, "moved_funds:balance"),
        (sameRecCoins p c ds, "moved_funds:record") ]
    | .send _ _ _ | .msend _ _ | .iosend _ _ =>
      let xs := op.xfers
      -- who is quarantined for whom is read off the HISTORY (`pv`): opted in and not set to auto-accept
      -- by an UpdateAutoResponses / permanent accept seen so far
      [ (accts.all fun a => ds.all fun d =>
            !(isQuarantinedAddr pv a && a ≠ h) ||
              decide (Ledger.bal c.bank a d - Ledger.bal p.bank a d ≤ expDelta pv xs a d), "credited_before_accept"),
        (ds.all fun d => decide (expDelta pv xs h d ≤ Ledger.bal c.bank h d - Ledger.bal p.bank h d), "quarantined_not_held"),
        (accts.all fun a => ds.all fun d =>
            Ledger.bal c.bank a d - Ledger.bal p.bank a d = expDelta pv xs a d, "direct_delivery_wrong"),
        (ds.all fun d => outstanding c d - outstanding p d = expQuarantined pv xs d, "record_total_wrong"),
        (xs.all fun x => ds.all fun d =>
            Coins.amountOf (coinsAt c x.to [x.from_]) d - Coins.amountOf (coinsAt p x.to [x.from_]) d
              = expRecord pv xs x.to x.from_ d, "record_not_topped_up") ]
    | .accept to froms _ =>
      -- which records this accept completes is read off the HISTORY (`pv`): every sender of the record
      -- is named now or was accepted earlier and not declined since
      [ (pv.recs.all fun e => !(e.1.1 = to) || completes froms e.2 || (kvGet c.recs e.1).isSome,
          "paid_before_every_sender_accepted"),
        (pv.recs.all fun e => !(e.1.1 = to && completes froms e.2) || (kvGet c.recs e.1).isNone, "released_record_remains"),
        (pv.recs.all fun e => (e.1.1 = to && completes froms e.2) ||
            ds.all fun d => Coins.amountOf (coinsAt c e.1.1 e.1.2) d = Coins.amountOf e.2.coins d, "unreleased_record_changed"),
        (c.recs.all fun e => (kvGet p.recs e.1).isSome, "record_appeared"),
        (ds.all fun d => Coins.amountOf released d = expReleased pv.recs to froms d, "released_not_in_full"),
        (accts.all fun a => ds.all fun d =>
            Ledger.bal c.bank a d - Ledger.bal p.bank a d =
              (if a = to then expReleased pv.recs to froms d else 0) - (if a = h then expReleased pv.recs to froms d else 0),
          "release_payment_wrong") ]
    | .bsend f t amt =>
      [ (accts.all fun a => ds.all fun d =>
            Ledger.bal c.bank a d - Ledger.bal p.bank a d =
              (if a = t then Coins.amountOf amt d else 0) - (if a = f then Coins.amountOf amt d else 0),
          "bypass_delivery_wrong"),
        (sameRecCoins p c ds, "bypass_touched_records") ]
    | .qadd to froms amt payer =>
      [ (accts.all fun a => ds.all fun d =>
            Ledger.bal c.bank a d - Ledger.bal p.bank a d =
              (if a = h then Coins.amountOf amt d else 0) - (if a = payer then Coins.amountOf amt d else 0),
          "qadd_payment_wrong"),
        (ds.all fun d => Coins.amountOf (coinsAt c to (createRecordSuffix froms)) d
            = Coins.amountOf (coinsAt p to (createRecordSuffix froms)) d + Coins.amountOf amt d, "record_not_topped_up") ]
  firstFail (common ++ specific)

/-! ### the driver -/

structure DState where
  accts : List Addr
  model : State
  impl : Option State
  /-- the receiver's choices according to the successful messages of this history so far -/
  hist : Hist := Hist.empty
  /-- an operation signed by the holder has succeeded in this history (outside the property's
  quantifier; from then on only the clauses that do not presuppose it are evaluated) -/
  tainted : Bool := false

def holderName : Addr := "H"
def restrictedDenoms : List Denom := ["rcoin"]
def xferAddrs : List Addr := ["A", "B"]

def emptyState : State := init holderName restrictedDenoms xferAddrs []

/-- `init A=5aaa,3bbb B=- …` -/
def parseInit? (ws : List String) : Option (List (Addr × Coins)) :=
  ws.mapM fun w => match w.splitOn "=" with
    | [a, c] => (parseCoins? c).map fun c => (a, c)
    | _ => none

def pureOp (ws : List String) : Option String :=
  match ws with
  | ["simplify", rm, l] =>
    let rm := (splitList ((rm.drop 3).toString) ",").map parseSfx
    let l := (splitList ((l.drop 2).toString) ",").map parseSfx
    some ("ok " ++ joinOr ((simplify rm l).map showSfx) ",")
  | _ => none

def checkPure (ws : List String) (impl : String) : String :=
  match ws with
  | ["simplify", rm, l] =>
    let rm := (splitList ((rm.drop 3).toString) ",").map parseSfx
    let l := (splitList ((l.drop 2).toString) ",").map parseSfx
    match words impl with
    | ["ok", out] =>
      let out := (splitList out ",").map parseSfx
      simplifyVerdict rm l out
    | _ => "fail:simplify_failed"
  | _ => "-"

/-- the order in which the harness writes the exported funds into the genesis it imports -/
def genKey (g : GenFunds) : String :=
  s!"{g.to}<{showSfx (createRecordSuffix g.unacc)}/{showCoins (Coins.canon g.coins)}/{boolStr g.declined}/{showAddrs g.unacc}"

def genOrder (l : List GenFunds) : List GenFunds :=
  l.mergeSort fun a b => decide (genKey a ≤ genKey b)

def splitOut (s : String) : String × String :=
  match s.splitOn " ;; " with
  | [r, d] => (r, d)
  | _ => (s, "")

def stepD (σ : DState) (opLine : String) (impl : Option String) : DState × String × String :=
  let ws := words opLine
  match ws with
  | "init" :: rest =>
    match parseInit? rest with
    | none => (σ, "bad-op", "-")
    | some bals =>
      let accts := bals.map (·.1)
      let bank : Ledger := bals.flatMap fun (a, c) => Ledger.entries a c
      let m := init holderName restrictedDenoms xferAddrs bank
      let implSt := impl.bind fun i => (parseDump? holderName restrictedDenoms xferAddrs (splitOut i).2).map (·.st)
      ({ accts, model := m, impl := implSt, hist := (implSt.map Hist.ofState).getD Hist.empty, tainted := false },
        s!"ok ;; {dump accts m}", "-")
  | _ =>
  match pureOp ws with
  | some out => (σ, out, match impl with | some i => checkPure ws i | none => "-")
  | none =>
  if ws = ["regenesis"] then
    let (m', res) := match regenesis σ.model genOrder with
      | .ok s' => (s', "ok")
      | .error e => (σ.model, e.toString)
    let out := s!"{res} ;; {dump σ.accts m'}"
    match impl with
    | none => ({ σ with model := m' }, out, "-")
    | some i =>
      let (ires, idump) := splitOut i
      match parseDump? holderName restrictedDenoms xferAddrs idump, σ.impl with
      | some d, some p =>
        -- correspondence only: genesis export/import is outside C07's quantifier (it belongs to C18)
        -- (a genesis import starts a new history from what it imported)
        let _ := p; let _ := ires
        ({ σ with model := m', impl := some d.st, hist := Hist.ofState d.st }, out, "-")
      | some d, none => ({ σ with model := m', impl := some d.st, hist := Hist.ofState d.st }, out, "-")
      | none, _ => ({ σ with model := m' }, out, "fail:unparsed_dump")
  else
  match parseOp? ws with
  | none => (σ, "bad-op", "-")
  | some op =>
    let (m', res) := match exec σ.model op with
      | .ok (s', rel) => (s', match op with
          | .accept _ _ _ => s!"ok {showCoins (Coins.canon rel)}"
          | _ => "ok")
      | .error e => (σ.model, e.toString)
    let out := s!"{res} ;; {dump σ.accts m'}"
    match impl with
    | none => ({ σ with model := m' }, out, "-")
    | some i =>
      let (ires, idump) := splitOut i
      match parseDump? holderName restrictedDenoms xferAddrs idump, σ.impl with
      | some d, some p =>
        let iw := words ires
        let ok := iw.head? = some "ok"
        let rel := match iw with
          | ["ok", c] => (parseCoins? c).getD []
          | _ => []
        let tainted := σ.tainted || (ok && !op.holderNeverSigns holderName)
        let hist := if ok then σ.hist.step op (d.st.recs.map (·.1)) else σ.hist
        ({ σ with model := m', impl := some d.st, hist, tainted }, out,
          check σ.accts tainted d.invOk p (σ.hist.view p) op ok rel d.st)
      | some d, none => ({ σ with model := m', impl := some d.st, hist := Hist.ofState d.st }, out, "-")
      | none, _ => ({ σ with model := m' }, out, "fail:unparsed_dump")

def driver : Driver where
  σ := DState
  init := { accts := [], model := emptyState, impl := none }
  step := stepD

end PvModel.Quar
