/-
C11 — privileged endpoints (executable model).

Mirrors:
* `Keeper.HasPermission` / `Can*`              x/exchange/keeper/market.go:1017-1080
* `Keeper.UpdatePermissions`                    x/exchange/keeper/market.go:1094
* the guard at the top of every market endpoint x/exchange/keeper/msg_server.go
* `Keeper.CancelOrder` (owner or cancel perm)   x/exchange/keeper/orders.go:709
* payment identity checks                       x/exchange/keeper/payments.go:230-425
* the authority comparison of gov-only handlers (all modules)
-/
import PvModel.Util

namespace PvModel.Perms
open PvModel

/-- `exchange.Permission` (market.pb.go:34-48), without `unspecified`. -/
inductive Perm where
  | settle | set_ids | cancel | withdraw | update | permissions | attributes
  deriving DecidableEq, Repr

def Perm.all : List Perm := [.settle, .set_ids, .cancel, .withdraw, .update, .permissions, .attributes]

def Perm.toString : Perm → String
  | .settle => "settle" | .set_ids => "set_ids" | .cancel => "cancel" | .withdraw => "withdraw"
  | .update => "update" | .permissions => "permissions" | .attributes => "attributes"

def Perm.ofString? (s : String) : Option Perm := Perm.all.find? (·.toString = s)

/-- The market-management endpoints and the one permission each requires
(x/exchange/spec/03_messages.md; proto/provenance/exchange/v1/market.proto `Permission`). -/
inductive Endpoint where
  | MarketSettle | MarketCommitmentSettle | MarketReleaseCommitments | MarketSetOrderExternalID
  | MarketWithdraw | MarketUpdateDetails | MarketUpdateAcceptingOrders | MarketUpdateUserSettle
  | MarketUpdateAcceptingCommitments | MarketUpdateIntermediaryDenom | MarketManagePermissions
  | MarketManageReqAttrs
  deriving DecidableEq, Repr

def Endpoint.all : List Endpoint := [.MarketSettle, .MarketCommitmentSettle, .MarketReleaseCommitments,
  .MarketSetOrderExternalID, .MarketWithdraw, .MarketUpdateDetails, .MarketUpdateAcceptingOrders,
  .MarketUpdateUserSettle, .MarketUpdateAcceptingCommitments, .MarketUpdateIntermediaryDenom,
  .MarketManagePermissions, .MarketManageReqAttrs]

def Endpoint.name : Endpoint → String
  | .MarketSettle => "MarketSettle" | .MarketCommitmentSettle => "MarketCommitmentSettle"
  | .MarketReleaseCommitments => "MarketReleaseCommitments"
  | .MarketSetOrderExternalID => "MarketSetOrderExternalID" | .MarketWithdraw => "MarketWithdraw"
  | .MarketUpdateDetails => "MarketUpdateDetails"
  | .MarketUpdateAcceptingOrders => "MarketUpdateAcceptingOrders"
  | .MarketUpdateUserSettle => "MarketUpdateUserSettle"
  | .MarketUpdateAcceptingCommitments => "MarketUpdateAcceptingCommitments"
  | .MarketUpdateIntermediaryDenom => "MarketUpdateIntermediaryDenom"
  | .MarketManagePermissions => "MarketManagePermissions"
  | .MarketManageReqAttrs => "MarketManageReqAttrs"

def Endpoint.ofString? (s : String) : Option Endpoint := Endpoint.all.find? (·.name = s)

/-- the documented permission of each endpoint -/
def Endpoint.required : Endpoint → Perm
  | .MarketSettle => .settle | .MarketCommitmentSettle => .settle
  | .MarketReleaseCommitments => .cancel | .MarketSetOrderExternalID => .set_ids
  | .MarketWithdraw => .withdraw | .MarketUpdateDetails => .update
  | .MarketUpdateAcceptingOrders => .update | .MarketUpdateUserSettle => .update
  | .MarketUpdateAcceptingCommitments => .update | .MarketUpdateIntermediaryDenom => .update
  | .MarketManagePermissions => .permissions | .MarketManageReqAttrs => .attributes

/-- the `Can*` helper the handler calls (checked against the regenerated facts) -/
def Endpoint.canFn : Endpoint → String
  | .MarketSettle => "CanSettleOrders" | .MarketCommitmentSettle => "CanSettleCommitments"
  | .MarketReleaseCommitments => "CanReleaseCommitmentsForMarket"
  | .MarketSetOrderExternalID => "CanSetIDs" | .MarketWithdraw => "CanWithdrawMarketFunds"
  | .MarketUpdateDetails => "CanUpdateMarket" | .MarketUpdateAcceptingOrders => "CanUpdateMarket"
  | .MarketUpdateUserSettle => "CanUpdateMarket" | .MarketUpdateAcceptingCommitments => "CanUpdateMarket"
  | .MarketUpdateIntermediaryDenom => "CanUpdateMarket"
  | .MarketManagePermissions => "CanManagePermissions" | .MarketManageReqAttrs => "CanManageReqAttrs"

abbrev Grant := Nat × String × Perm      -- (market, address, permission)

structure Order where
  id : Nat
  market : Nat
  owner : String
  deriving DecidableEq, Repr

structure Payment where
  source : String
  extId : String
  target : String
  deriving DecidableEq, Repr

structure State where
  authority : String := "GOV"
  grants : List Grant := []
  orders : List Order := []
  payments : List Payment := []
  deriving Repr

/-- `storeHasPermission` -/
def storeHas (s : State) (m : Nat) (a : String) (p : Perm) : Bool := s.grants.contains (m, a, p)

/-- `Keeper.HasPermission`: the authority always passes. -/
def hasPermission (s : State) (m : Nat) (a : String) (p : Perm) : Bool :=
  a == s.authority || storeHas s m a p

/-- the guard at the top of a market endpoint -/
def endpointAllowed (s : State) (e : Endpoint) (m : Nat) (caller : String) : Bool :=
  hasPermission s m caller e.required

def userPerms (s : State) (m : Nat) (a : String) : List Perm :=
  Perm.all.filter fun p => storeHas s m a p

/-- A `MsgMarketManagePermissionsRequest` body. -/
structure PermUpdate where
  revokeAll : List String
  toRevoke : List (String × List Perm)
  toGrant : List (String × List Perm)

/-- first pass of `UpdatePermissions`: `RevokeAll`. `none` = an error was recorded (the Go code
keeps going to collect every error, but the update then fails as a whole and the partially
written store is discarded with the transaction, so stopping early is observationally equal). -/
def revokeAllPass (m : Nat) : List String → List Grant → Option (List Grant)
  | [], gs => some gs
  | a :: rest, gs =>
    if Perm.all.any (fun p => gs.contains (m, a, p)) then
      revokeAllPass m rest (gs.filter fun g => !(g.1 == m && g.2.1 == a))
    else none

/-- second pass: `ToRevoke` — every named permission must be present. -/
def revokePass (m : Nat) : List (String × List Perm) → List Grant → Option (List Grant)
  | [], gs => some gs
  | (a, ps) :: rest, gs =>
    if ps.all (fun p => gs.contains (m, a, p)) then
      revokePass m rest (gs.filter fun g => !(g.1 == m && g.2.1 == a && ps.contains g.2.2))
    else none

/-- third pass: `ToGrant` — no named permission may be present already. -/
def grantPass (m : Nat) : List (String × List Perm) → List Grant → Option (List Grant)
  | [], gs => some gs
  | (a, ps) :: rest, gs =>
    if ps.all (fun p => !gs.contains (m, a, p)) then
      grantPass m rest (gs ++ ps.map fun p => (m, a, p))
    else none

/-- `Keeper.UpdatePermissions` (x/exchange/keeper/market.go:1094). -/
def updatePermissions (s : State) (m : Nat) (u : PermUpdate) : Except String State :=
  match (revokeAllPass m u.revokeAll s.grants >>= revokePass m u.toRevoke) >>= grantPass m u.toGrant with
  | some gs => .ok { s with grants := gs }
  | none => .error "invalid"

/-- `Keeper.CancelOrder`: owner, or cancel permission on the order's market. -/
def cancelOrder (s : State) (id : Nat) (signer : String) : Except String State :=
  match s.orders.find? (·.id = id) with
  | none => .error "notfound"
  | some o =>
    if signer ≠ o.owner ∧ !hasPermission s o.market signer .cancel then .error "perm"
    else .ok { s with orders := s.orders.filter (·.id ≠ id) }

def findPayment (s : State) (source extId : String) : Option Payment :=
  s.payments.find? fun p => p.source = source ∧ p.extId = extId

def removePayment (s : State) (p : Payment) : State :=
  { s with payments := s.payments.filter fun q => !(q.source = p.source ∧ q.extId = p.extId) }

/-- `AcceptPayment`: the message carries the full payment; the signer is `payment.target`.
`signer` below is that target field. -/
def acceptPayment (s : State) (source extId : String) (signer : String) : Except String State :=
  if signer = "" then .error "invalid" else
  match findPayment s source extId with
  | none => .error "notfound"
  | some p => if p.target ≠ signer then .error "perm" else .ok (removePayment s p)

/-- `RejectPayment`: signer is `msg.Target`. -/
def rejectPayment (s : State) (source extId : String) (signer : String) : Except String State :=
  match findPayment s source extId with
  | none => .error "notfound"
  | some p =>
    if p.target = "" then .error "invalid"
    else if p.target ≠ signer then .error "perm" else .ok (removePayment s p)

/-- `CancelPayments` (one id): the payment is looked up under the signer as source. -/
def cancelPayment (s : State) (signer extId : String) : Except String State :=
  match findPayment s signer extId with
  | none => .error "notfound"
  | some p => .ok (removePayment s p)

/-- `UpdatePaymentTarget`: looked up under the signer as source. -/
def changeTarget (s : State) (signer extId newTarget : String) : Except String State :=
  match findPayment s signer extId with
  | none => .error "notfound"
  | some p =>
    if p.target = newTarget then .error "invalid"
    else .ok { s with payments := s.payments.map fun q =>
      if q.source = signer ∧ q.extId = extId then { q with target := newTarget } else q }

def createPayment (s : State) (source extId target : String) : Except String State :=
  match findPayment s source extId with
  | some _ => .error "exists"
  | none => .ok { s with payments := s.payments ++ [{ source := source, extId := extId, target := target }] }

/-- a governance-only handler: `if authority != msg.Authority { return err }` -/
def govAllowed (s : State) (caller : String) : Bool := caller == s.authority

/-- What a governance-only request carries besides its `Authority`: the market its market-id
field names, the account its address-typed fields name (record address, target, recipient, new
administrator, new oracle, sanctioned address, access-grant holder …), the denom of its
denom/coin fields, the kind of name of its name record. None of it takes part in the decision
whether the caller may use the endpoint (`gov_result_ignores_payload_and_standing`). -/
structure GovPayload where
  market : Nat := 0
  subject : String := ""
  denom : String := ""
  nameKind : String := ""
  deriving DecidableEq, Repr

/-- The operations of a history (what the harness drives through the real msg server). -/
inductive Op where
  | perms (admin : String) (m : Nat) (u : PermUpdate)
  | call (e : Endpoint) (m : Nat) (caller : String)
  | order (id m : Nat) (owner : String)          -- an order was created (id assigned by the chain)
  | cancel (id : Nat) (signer : String)
  | pay (source ext target : String)
  | accept (source ext signer : String)
  | reject (source ext signer : String)
  | cancelpay (signer ext : String)
  | retarget (signer ext newTarget : String)
  | gov (name caller : String) (payload : GovPayload)

def opResult (r : Except String State) (s : State) : State × String :=
  match r with
  | .ok s' => (s', "ok")
  | .error e => (s, "err:" ++ e)

/-- One transaction: new state and canonical result (a rejected op leaves the state as it was). -/
def applyOp (s : State) : Op → State × String
  | .perms admin m u =>
    if !endpointAllowed s .MarketManagePermissions m admin then (s, "err:perm")
    else opResult (updatePermissions s m u) s
  | .call e m caller => (s, if endpointAllowed s e m caller then "pass" else "err:perm")
  | .order id m owner => ({ s with orders := s.orders ++ [{ id := id, market := m, owner := owner }] }, "ok")
  | .cancel id signer => opResult (cancelOrder s id signer) s
  | .pay source ext target => opResult (createPayment s source ext target) s
  | .accept source ext signer => opResult (acceptPayment s source ext signer) s
  | .reject source ext signer => opResult (rejectPayment s source ext signer) s
  | .cancelpay signer ext => opResult (cancelPayment s signer ext) s
  | .retarget signer ext nt => opResult (changeTarget s signer ext nt) s
  | .gov _ caller _ => (s, if govAllowed s caller then "pass" else "err:authority")

def run (s : State) (ops : List Op) : State := ops.foldl (fun s op => (applyOp s op).1) s

end PvModel.Perms
