/-
C11 — privileged endpoints (executable model).

Mirrors:
* `Keeper.HasPermission` / `Can*`              x/exchange/keeper/market.go:1017-1080
* `Keeper.UpdatePermissions`                    x/exchange/keeper/market.go:1094
* the guard at the top of every market endpoint x/exchange/keeper/msg_server.go
* `Keeper.CancelOrder` (owner or cancel perm)   x/exchange/keeper/orders.go:709
* payment identity checks                       x/exchange/keeper/payments.go:230-425
* the authority comparison of gov-only handlers (all modules)

Spellings: the guards receive the TEXT of an address field.  `Text` = (account, spelling):
`Keeper.IsAuthority` is `strings.EqualFold` (any case of the authority's letters passes),
`HasPermission` then decodes the text (`sdk.AccAddressFromBech32`: all-lower and all-upper case
are the same account, mixed case is an error) and looks the ACCOUNT up; `CancelOrder` compares the
signer TEXT with the stored owner TEXT; governance handlers compare up to case or exactly,
handler by handler (`govFoldMsgs`).  Payment parties are not varied in spelling (plain names).
-/
import PvModel.Util

namespace PvModel.Perms
open PvModel

/-- `exchange.Permission` (market.pb.go:34-48), without `unspecified`. -/
inductive Perm where
  | settle | set_ids | cancel | withdraw | update | permissions | attributes
  deriving DecidableEq, Repr

def Perm.all : List Perm := [.settle, .set_ids, .cancel, .withdraw, .update, .permissions, .attributes]

def Perm.toString : Perm → String
  | .settle => "settle" | .set_ids => "set_ids" | .cancel => "cancel" | .withdraw => "withdraw"
  | .update => "update" | .permissions => "permissions" | .attributes => "attributes"

def Perm.ofString? (s : String) : Option Perm := Perm.all.find? (·.toString = s)

/-- The market-management endpoints and the one permission each requires
(x/exchange/spec/03_messages.md; proto/provenance/exchange/v1/market.proto `Permission`). -/
inductive Endpoint where
  | MarketSettle | MarketCommitmentSettle | MarketReleaseCommitments | MarketSetOrderExternalID
  | MarketWithdraw | MarketUpdateDetails | MarketUpdateAcceptingOrders | MarketUpdateUserSettle
  | MarketUpdateAcceptingCommitments | MarketUpdateIntermediaryDenom | MarketManagePermissions
  | MarketManageReqAttrs
  deriving DecidableEq, Repr

def Endpoint.all : List Endpoint := [.MarketSettle, .MarketCommitmentSettle, .MarketReleaseCommitments,
  .MarketSetOrderExternalID, .MarketWithdraw, .MarketUpdateDetails, .MarketUpdateAcceptingOrders,
  .MarketUpdateUserSettle, .MarketUpdateAcceptingCommitments, .MarketUpdateIntermediaryDenom,
  .MarketManagePermissions, .MarketManageReqAttrs]

def Endpoint.name : Endpoint → String
  | .MarketSettle => "MarketSettle" | .MarketCommitmentSettle => "MarketCommitmentSettle"
  | .MarketReleaseCommitments => "MarketReleaseCommitments"
  | .MarketSetOrderExternalID => "MarketSetOrderExternalID" | .MarketWithdraw => "MarketWithdraw"
  | .MarketUpdateDetails => "MarketUpdateDetails"
  | .MarketUpdateAcceptingOrders => "MarketUpdateAcceptingOrders"
  | .MarketUpdateUserSettle => "MarketUpdateUserSettle"
  | .MarketUpdateAcceptingCommitments => "MarketUpdateAcceptingCommitments"
  | .MarketUpdateIntermediaryDenom => "MarketUpdateIntermediaryDenom"
  | .MarketManagePermissions => "MarketManagePermissions"
  | .MarketManageReqAttrs => "MarketManageReqAttrs"

def Endpoint.ofString? (s : String) : Option Endpoint := Endpoint.all.find? (·.name = s)

/-- the documented permission of each endpoint -/
def Endpoint.required : Endpoint → Perm
  | .MarketSettle => .settle | .MarketCommitmentSettle => .settle
  | .MarketReleaseCommitments => .cancel | .MarketSetOrderExternalID => .set_ids
  | .MarketWithdraw => .withdraw | .MarketUpdateDetails => .update
  | .MarketUpdateAcceptingOrders => .update | .MarketUpdateUserSettle => .update
  | .MarketUpdateAcceptingCommitments => .update | .MarketUpdateIntermediaryDenom => .update
  | .MarketManagePermissions => .permissions | .MarketManageReqAttrs => .attributes

/-- the `Can*` helper the handler calls (checked against the regenerated facts) -/
def Endpoint.canFn : Endpoint → String
  | .MarketSettle => "CanSettleOrders" | .MarketCommitmentSettle => "CanSettleCommitments"
  | .MarketReleaseCommitments => "CanReleaseCommitmentsForMarket"
  | .MarketSetOrderExternalID => "CanSetIDs" | .MarketWithdraw => "CanWithdrawMarketFunds"
  | .MarketUpdateDetails => "CanUpdateMarket" | .MarketUpdateAcceptingOrders => "CanUpdateMarket"
  | .MarketUpdateUserSettle => "CanUpdateMarket" | .MarketUpdateAcceptingCommitments => "CanUpdateMarket"
  | .MarketUpdateIntermediaryDenom => "CanUpdateMarket"
  | .MarketManagePermissions => "CanManagePermissions" | .MarketManageReqAttrs => "CanManageReqAttrs"

abbrev Grant := Nat × String × Perm      -- (market, account, permission)

/-- How the address field of a message is spelled. The Go guards receive the TEXT of the field:
`lower` is the usual bech32 text (`AccAddress.String()`), `upper` the all-upper-case bech32 text
of the same bytes (accepted by `sdk.AccAddressFromBech32`, equal to the lower-case text under
`strings.EqualFold`), `mixed` a mixed-case text of the same letters (still equal under
`strings.EqualFold`, but rejected by `sdk.AccAddressFromBech32`, so no transaction can be signed
under it — it reaches the guards only when they are called directly). -/
inductive Spelling where
  | lower | upper | mixed
  deriving DecidableEq, Repr

/-- The text of an address field: which account's bech32 letters it consists of, and their case.
Accounts are symbolic names (`"A"`, `"GOV"`, …); the store is keyed by account (address bytes). -/
structure Text where
  acc : String
  sp : Spelling := .lower
  deriving DecidableEq, Repr

/-- what `strings.EqualFold` compares: the letters without their case -/
def Text.fold (t : Text) : String := t.acc

/-- `sdk.AccAddressFromBech32`: all-lower and all-upper case texts decode to the account, a
mixed-case text is an error. -/
def Text.decode (t : Text) : Option String :=
  match t.sp with
  | .mixed => none
  | _ => some t.acc

/-- the canonical (lower-case) text of an account -/
def Text.of (a : String) : Text := { acc := a }

structure Order where
  id : Nat
  market : Nat
  owner : Text          -- the TEXT of the `seller`/`buyer` field as stored with the order
  ext : String := ""    -- the order's external id ("" = none)
  deriving DecidableEq, Repr

structure Payment where
  source : String
  extId : String
  target : String
  deriving DecidableEq, Repr

structure State where
  authority : String := "GOV"
  grants : List Grant := []
  orders : List Order := []
  payments : List Payment := []
  commits : List (Nat × String) := []   -- (market, account) pairs with funds committed to the market
  deriving Repr

/-- `storeHasPermission` -/
def storeHas (s : State) (m : Nat) (a : String) (p : Perm) : Bool := s.grants.contains (m, a, p)

/-- `Keeper.IsAuthority` (x/exchange/keeper/keeper.go:128): `strings.EqualFold(k.authority, addr)`. -/
def isAuthority (s : State) (a : Text) : Bool := a.fold == s.authority

/-- `Keeper.HasPermission` (market.go:1017): the authority (under any spelling) always passes;
otherwise the text must decode and the store must hold the key of the decoded account. -/
def hasPermission (s : State) (m : Nat) (a : Text) (p : Perm) : Bool :=
  isAuthority s a ||
    match a.decode with
    | none => false
    | some x => storeHas s m x p

/-- the guard at the top of a market endpoint -/
def endpointAllowed (s : State) (e : Endpoint) (m : Nat) (caller : Text) : Bool :=
  hasPermission s m caller e.required

def userPerms (s : State) (m : Nat) (a : String) : List Perm :=
  Perm.all.filter fun p => storeHas s m a p

/-- A `MsgMarketManagePermissionsRequest` body. The three lists name ACCOUNTS: `UpdatePermissions`
turns every address text into bytes first (`sdk.MustAccAddressFromBech32`), so the spelling of a
grantee makes no difference (the driver's parser decodes `A^` to `A`; a text that does not decode
is rejected by `ValidateBasic` before the handler). -/
structure PermUpdate where
  revokeAll : List String
  toRevoke : List (String × List Perm)
  toGrant : List (String × List Perm)

/-- first pass of `UpdatePermissions`: `RevokeAll`. `none` = an error was recorded (the Go code
keeps going to collect every error, but the update then fails as a whole and the partially
written store is discarded with the transaction, so stopping early is observationally equal). -/
def revokeAllPass (m : Nat) : List String → List Grant → Option (List Grant)
  | [], gs => some gs
  | a :: rest, gs =>
    if Perm.all.any (fun p => gs.contains (m, a, p)) then
      revokeAllPass m rest (gs.filter fun g => !(g.1 == m && g.2.1 == a))
    else none

/-- second pass: `ToRevoke` — every named permission must be present. -/
def revokePass (m : Nat) : List (String × List Perm) → List Grant → Option (List Grant)
  | [], gs => some gs
  | (a, ps) :: rest, gs =>
    if ps.all (fun p => gs.contains (m, a, p)) then
      revokePass m rest (gs.filter fun g => !(g.1 == m && g.2.1 == a && ps.contains g.2.2))
    else none

/-- third pass: `ToGrant` — no named permission may be present already. -/
def grantPass (m : Nat) : List (String × List Perm) → List Grant → Option (List Grant)
  | [], gs => some gs
  | (a, ps) :: rest, gs =>
    if ps.all (fun p => !gs.contains (m, a, p)) then
      grantPass m rest (gs ++ ps.map fun p => (m, a, p))
    else none

/-- `Keeper.UpdatePermissions` (x/exchange/keeper/market.go:1094). -/
def updatePermissions (s : State) (m : Nat) (u : PermUpdate) : Except String State :=
  match (revokeAllPass m u.revokeAll s.grants >>= revokePass m u.toRevoke) >>= grantPass m u.toGrant with
  | some gs => .ok { s with grants := gs }
  | none => .error "invalid"

/-- `Keeper.CancelOrder` (orders.go:718): `signer != orderOwner` compares the two TEXTS; failing
that, the cancel permission on the order's market. -/
def cancelOrder (s : State) (id : Nat) (signer : Text) : Except String State :=
  match s.orders.find? (·.id = id) with
  | none => .error "notfound"
  | some o =>
    if signer ≠ o.owner ∧ !hasPermission s o.market signer .cancel then .error "perm"
    else .ok { s with orders := s.orders.filter (·.id ≠ id) }

/-- `Keeper.SetOrderExternalID` (orders.go:747), after the handler's `CanSetIDs(msg.MarketId, msg.Admin)`:
the order must exist, must live in the market the request names (`order %d has market id %d,
expected %d`), must not have that external id already, and (`setOrderInStore`, orders.go:180) the
(market, external id) index entry must not belong to another order. An empty id clears it. -/
def setOrderExternalID (s : State) (m id : Nat) (ext : String) : Except String State :=
  match s.orders.find? (·.id = id) with
  | none => .error "notfound"
  | some o =>
    if o.market ≠ m then .error "invalid"
    else if o.ext = ext then .error "invalid"
    else if ext ≠ "" ∧ s.orders.any (fun q => q.market = m ∧ q.ext = ext) then .error "invalid"
    else .ok { s with orders := s.orders.map fun q => if q.id = id then { q with ext := ext } else q }

/-- `Keeper.ReleaseCommitments` (commitments.go:192) with empty amounts (= everything the account
has committed): every named account must have funds committed to the market; entries are
processed in order (a second entry for the same account finds nothing left). -/
def releasePass (m : Nat) : List String → List (Nat × String) → Option (List (Nat × String))
  | [], cs => some cs
  | a :: rest, cs =>
    if cs.contains (m, a) then releasePass m rest (cs.filter fun c => !(c.1 == m && c.2 == a))
    else none

def releaseCommitments (s : State) (m : Nat) (accts : List String) : Except String State :=
  match releasePass m accts s.commits with
  | some cs => .ok { s with commits := cs }
  | none => .error "invalid"

def findPayment (s : State) (source extId : String) : Option Payment :=
  s.payments.find? fun p => p.source = source ∧ p.extId = extId

def removePayment (s : State) (p : Payment) : State :=
  { s with payments := s.payments.filter fun q => !(q.source = p.source ∧ q.extId = p.extId) }

/-- `AcceptPayment`: the message carries the full payment; the signer is `payment.target`.
`signer` below is that target field. -/
def acceptPayment (s : State) (source extId : String) (signer : String) : Except String State :=
  if signer = "" then .error "invalid" else
  match findPayment s source extId with
  | none => .error "notfound"
  | some p => if p.target ≠ signer then .error "perm" else .ok (removePayment s p)

/-- `RejectPayment`: signer is `msg.Target`. -/
def rejectPayment (s : State) (source extId : String) (signer : String) : Except String State :=
  match findPayment s source extId with
  | none => .error "notfound"
  | some p =>
    if p.target = "" then .error "invalid"
    else if p.target ≠ signer then .error "perm" else .ok (removePayment s p)

/-- `CancelPayments` (one id): the payment is looked up under the signer as source. -/
def cancelPayment (s : State) (signer extId : String) : Except String State :=
  match findPayment s signer extId with
  | none => .error "notfound"
  | some p => .ok (removePayment s p)

/-- `UpdatePaymentTarget`: looked up under the signer as source. -/
def changeTarget (s : State) (signer extId newTarget : String) : Except String State :=
  match findPayment s signer extId with
  | none => .error "notfound"
  | some p =>
    if p.target = newTarget then .error "invalid"
    else .ok { s with payments := s.payments.map fun q =>
      if q.source = signer ∧ q.extId = extId then { q with target := newTarget } else q }

def createPayment (s : State) (source extId target : String) : Except String State :=
  match findPayment s source extId with
  | some _ => .error "exists"
  | none => .ok { s with payments := s.payments ++ [{ source := source, extId := extId, target := target }] }

/-- The governance handlers that compare through `Keeper.ValidateAuthority` → `Keeper.IsAuthority`
(`strings.EqualFold`); every other one compares the two strings with `!=` (in the handler, or in
ibcratelimit's `ValidateAuthority`). Checked handler by handler against the regenerated source
facts (`PvProofs.C11.gov_handlers_guarded`). -/
def govFoldMsgs : List (String × String) := [
  ("attribute", "MsgUpdateParamsRequest"),
  ("exchange", "MsgGovCloseMarketRequest"), ("exchange", "MsgGovCreateMarketRequest"),
  ("exchange", "MsgGovManageFeesRequest"), ("exchange", "MsgUpdateParamsRequest"),
  ("ibchooks", "MsgUpdateParamsRequest"), ("marker", "MsgUpdateParamsRequest"),
  ("name", "MsgUpdateParamsRequest")]

/-- a governance-only handler `module.msg`: `if err := k.ValidateAuthority(msg.Authority); err != nil`
(case folding) or `if authority != msg.Authority { return err }` (exact text). -/
def govAllowed (s : State) (module msg : String) (caller : Text) : Bool :=
  if govFoldMsgs.contains (module, msg) then caller.fold == s.authority
  else caller == Text.of s.authority

/-- What a governance-only request carries besides its `Authority`: the market its market-id
field names, the account its address-typed fields name (record address, target, recipient, new
administrator, new oracle, sanctioned address, access-grant holder …), the denom of its
denom/coin fields, the kind of name of its name record. None of it takes part in the decision
whether the caller may use the endpoint (`gov_result_ignores_payload_and_standing`). -/
structure GovPayload where
  market : Nat := 0
  subject : String := ""
  denom : String := ""
  nameKind : String := ""
  deriving DecidableEq, Repr

/-- The operations of a history (what the harness drives through the real msg server). -/
inductive Op where
  | perms (admin : Text) (m : Nat) (u : PermUpdate)
  | call (e : Endpoint) (m : Nat) (caller : Text)
  | hasperm (m : Nat) (a : Text) (p : Perm)      -- `Keeper.HasPermission` called directly
  | order (id m : Nat) (owner : Text)            -- an order was created (id assigned by the chain)
  | cancel (id : Nat) (signer : Text)
  | pay (source ext target : String)
  | accept (source ext signer : String)
  | reject (source ext signer : String)
  | cancelpay (signer ext : String)
  | retarget (signer ext newTarget : String)
  | gov (module msg : String) (caller : Text) (payload : GovPayload)   -- message `module.msg`
  /-- `MsgMarketSetOrderExternalIDRequest{Admin: caller, MarketId: m, OrderId: id, ExternalId: ext}`:
  the order may live in ANY market of the history, not only in the one the request names -/
  | setid (m id : Nat) (caller : Text) (ext : String)
  /-- an account committed funds to market `m` (`MsgCommitFundsRequest`, done by the harness) -/
  | commit (m : Nat) (acct : String)
  /-- `MsgMarketReleaseCommitmentsRequest{Admin: caller, MarketId: m, ToRelease: accts}` — the
  caller may itself be the owner of the committed funds -/
  | release (m : Nat) (caller : Text) (accts : List String)
  /-- `MsgMarketSettleRequest{Admin: caller, MarketId: m, AskOrderIds: [ask], BidOrderIds: [bid]}`
  naming two orders of the history (of any market), run on a discarded branch of the state: only
  the guard's answer is modelled (`pass` = got past `CanSettleOrders`) -/
  | settle (m ask bid : Nat) (caller : Text)

def opResult (r : Except String State) (s : State) : State × String :=
  match r with
  | .ok s' => (s', "ok")
  | .error e => (s, "err:" ++ e)

/-- One transaction: new state and canonical result (a rejected op leaves the state as it was). -/
def applyOp (s : State) : Op → State × String
  | .perms admin m u =>
    if !endpointAllowed s .MarketManagePermissions m admin then (s, "err:perm")
    else opResult (updatePermissions s m u) s
  | .call e m caller => (s, if endpointAllowed s e m caller then "pass" else "err:perm")
  | .hasperm m a p => (s, if hasPermission s m a p then "true" else "false")
  | .order id m owner => ({ s with orders := s.orders ++ [{ id := id, market := m, owner := owner }] }, "ok")
  | .cancel id signer => opResult (cancelOrder s id signer) s
  | .pay source ext target => opResult (createPayment s source ext target) s
  | .accept source ext signer => opResult (acceptPayment s source ext signer) s
  | .reject source ext signer => opResult (rejectPayment s source ext signer) s
  | .cancelpay signer ext => opResult (cancelPayment s signer ext) s
  | .retarget signer ext nt => opResult (changeTarget s signer ext nt) s
  | .gov module msg caller _ => (s, if govAllowed s module msg caller then "pass" else "err:authority")
  | .setid m id caller ext =>
    if !endpointAllowed s .MarketSetOrderExternalID m caller then (s, "err:perm")
    else opResult (setOrderExternalID s m id ext) s
  | .settle m _ _ caller => (s, if endpointAllowed s .MarketSettle m caller then "pass" else "err:perm")
  | .commit m acct => ({ s with commits := if s.commits.contains (m, acct) then s.commits else s.commits ++ [(m, acct)] }, "ok")
  | .release m caller accts =>
    if !endpointAllowed s .MarketReleaseCommitments m caller then (s, "err:perm")
    else opResult (releaseCommitments s m accts) s

def run (s : State) (ops : List Op) : State := ops.foldl (fun s op => (applyOp s op).1) s

end PvModel.Perms
