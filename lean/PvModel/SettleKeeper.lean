/-
C01 — keeper level (executable model): `SettleOrders` (MsgMarketSettle), `FillBids`, `FillAsks` and
`closeSettlement` over an order store and the shared `Ledger`
(x/exchange/keeper/fulfillment.go:42,138,229,267; keeper/orders.go:486,526 `getAskOrders`/`getBidOrders`;
keeper/market.go:386,458 `getSellerSettlementRatio`/`calculateSellerSettlementRatioFee`).

The messages are modelled as the chain runs them: the request's `ValidateBasic` (msgs.go:157,197,235 —
its order-id part) and then the keeper function (`msgMarketSettle` / `msgFillBids` / `msgFillAsks`).

Not modelled here (other properties' subject, kept out of the generated histories): the hold module's
own bookkeeping (C02; `holdsOf` only states what is on hold as a function of the open orders, for the
dump and for what the bank may spend), permissions / required attributes (C11), creation fees, insufficient
funds at order creation.

A message runs on a cache (`runTx`'s cached context; the harness's `Try`): `closeSettlement` issues its bank
sends one after the other, each is written to the cache when the sender can spend the coins and refused
otherwise (`runSends`); the keeper collects the errors, goes on with the remaining sends, and returns the
errors at the end — the cache, with whatever was written to it, is then discarded (`KState.closeCached`,
`KState.close`).
-/
import PvModel.Settle

namespace PvModel.Settle
open PvModel

/-- keeper-level result classes in addition to `Err` -/
inductive KErr where
  | build (e : Err)        -- an error of `BuildSettlement` / the arithmetic
  | order                  -- getAskOrders/getBidOrders: not found, wrong type, own order
  | total                  -- "total assets/price … does not equal sum of … order assets/prices"
  | priceNotAboveFees      -- validateAskPrice: "price … is not more than … fee …"
  | expectPartial          -- "settlement resulted in unexpected partial order" / "… all orders fully filled"
  | noIds                  -- ValidateBasic: "no ask/bid order ids provided"
  | zeroId                 -- ValidateBasic: "invalid … order ids: cannot contain order id zero"
  | dupIds                 -- ValidateBasic: "duplicate … order ids provided"
  | bothSides              -- ValidateBasic: "order ids duplicated as both bid and ask"
  | funds                  -- bank: "spendable balance … is smaller than …: insufficient funds"
  deriving DecidableEq, Repr

def KErr.toString : KErr → String
  | .build e => e.toString
  | .order => "err:order"
  | .total => "err:total"
  | .expectPartial => "err:expectpartial"
  | .priceNotAboveFees => "err:price_not_above_fees"
  | .noIds => "err:noids"
  | .zeroId => "err:zeroid"
  | .dupIds => "err:dupids"
  | .bothSides => "err:bothsides"
  | .funds => "err:funds"

/-- the part of the chain state a settlement touches -/
structure KState where
  ratio : Option Ratio := none          -- the market's seller settlement ratio (one price denom)
  split : List (Denom × Nat) := []      -- exchange params: denom splits
  dfltSplit : Nat := 0                  -- exchange params: default split
  nextId : Nat := 1
  orders : List Order := []
  ledger : Ledger := []
  deriving DecidableEq

def KState.splitOf (s : KState) (d : Denom) : Nat :=
  match s.split.find? (·.1 = d) with
  | some p => p.2
  | none => s.dfltSplit

/-- `getSellerSettlementRatio(store, marketID, priceDenom)`: the ratio for the denom, `nil` if the market
has no ratios at all, an error if it has ratios but none for this denom. -/
def KState.lookup (s : KState) (d : Denom) : Except Err (Option Ratio) :=
  match s.ratio with
  | none => .ok none
  | some r => if r.priceDenom = d then .ok (some r) else .error .ratioLookup

/-- `validateAskPrice` (keeper/market.go:412): an ask's price must exceed the fees that come out of it
(the flat fee if it is in the price denom, plus the ratio fee of the price). -/
def KState.validateAskPrice (s : KState) (o : Order) : Except KErr Unit :=
  match s.lookup o.priceDenom with
  | .error e => .error (.build e)
  | .ok ratio =>
    let flat := Coins.amountOf o.fees o.priceDenom
    match ratio with
    | none => if flat ≠ 0 ∧ o.price ≤ flat then .error .priceNotAboveFees else .ok ()
    | some r =>
      match ratioFee r o.priceDenom o.price with
      | .error e => .error (.build e)
      | .ok fee => if o.price ≤ flat + fee.2 then .error .priceNotAboveFees else .ok ()

/-- `getAskOrders` / `getBidOrders` (`other` = the requesting counter-party, `""` for the market). -/
def KState.getOrders (s : KState) (wantAsk : Bool) (ids : List Nat) (other : Addr) : Except KErr (List Order) :=
  ids.mapM fun id =>
    match s.orders.find? (·.id = id) with
    | none => .error .order
    | some o => if o.isAsk ≠ wantAsk ∨ o.owner = other then .error .order else .ok o

/-- The bank sends of `closeSettlement` in the order the keeper issues them (keeper/fulfillment.go:284-294,
keeper.go:289-324): every transfer (`DoTransfer`), then all fee inputs to the market account
(`CollectFees`), then the exchange's share `ex` from the market account to the fee collector. -/
def closeSends (market collector : Addr) (st : Settlement) (ex : Coins) : List Transfer :=
  st.transfers ++ [⟨st.feeInputs, [(market, st.feeInputs.total)]⟩, ⟨[(market, ex)], [(collector, ex)]⟩]

/-- bank `subUnlockedCoins`: an input can be sent iff, per denom, it does not exceed the sender's balance
minus what is locked (on hold) for the sender. -/
def canSend (locked : Addr → Coins) (L : Ledger) (inp : Addr × Coins) : Bool :=
  (Coins.denoms inp.2).all fun d =>
    decide (Coins.amountOf inp.2 d ≤ Ledger.bal L inp.1 d - Coins.amountOf (locked inp.1) d)

/-- The sends run one after the other **on the message's cache** `L`: a send all of whose inputs are
spendable at that moment is written to the cache; one that is not is refused — and, as `closeSettlement`
collects the errors and goes on, the later sends still run on the cache.  Returns the cache at the end
and whether every send went through. -/
def runSends (locked : Addr → Coins) : Ledger → List Transfer → Ledger × Bool
  | L, [] => (L, true)
  | L, t :: rest =>
    if t.inputs.all (canSend locked L) then runSends locked (L ++ t.ledger) rest
    else ((runSends locked L rest).1, false)

/-- the order records after `closeSettlement`: fully filled orders deleted, the partial remainder rewritten -/
def KState.keptOrders (s : KState) (st : Settlement) : List Order :=
  match st.partialLeft with
  | some left => (s.orders.filter (fun o => !(st.fullyFilled.map (·.order.id)).contains o.id)).map
      (fun o => if o.id = left.id then left else o)
  | none => s.orders.filter (fun o => !(st.fullyFilled.map (·.order.id)).contains o.id)

/-- what is locked for an account given the open orders: their hold amounts -/
def lockedOf (orders : List Order) (a : Addr) : Coins :=
  ((orders.filter (·.owner = a)).map Order.holdAmount).flatten

/-- `closeSettlement` on the message's cache: the holds of the filled orders are released (what stays
locked is what the remaining open orders need), the sends run on the cache, then the order records are
written (partial remainder rewritten, fully filled orders deleted).  Returns the **cache** as it is when
the keeper function returns, and the error it returns (`none` = success).  Whether the cache is kept is
the caller's business (`KState.close`). -/
def KState.closeCached (s : KState) (market collector : Addr) (st : Settlement) : KState × Option KErr :=
  match exchangeSplit s.splitOf st.feeInputs.total with
  | .error e => (s, some (.build e))
  | .ok ex =>
    let r := runSends (lockedOf (s.keptOrders st)) s.ledger (closeSends market collector st ex)
    if r.2 then ({ s with orders := s.keptOrders st, ledger := r.1 }, none)
    else ({ s with ledger := r.1 }, some .funds)

/-- `closeSettlement` as the message sees it: the cache is committed when the keeper function returned no
error and **discarded** otherwise (nothing the failed run wrote is kept). -/
def KState.close (s : KState) (market collector : Addr) (st : Settlement) : Except KErr KState :=
  match s.closeCached market collector st with
  | (cache, none) => .ok cache
  | (_, some e) => .error e

/-- `SettleOrders` (MsgMarketSettle). -/
def KState.settleOrders (s : KState) (market collector : Addr) (askIds bidIds : List Nat) (expectPartial : Bool) :
    Except KErr KState :=
  match s.getOrders true askIds "", s.getOrders false bidIds "" with
  | .error e, _ => .error e
  | _, .error e => .error e
  | .ok asks, .ok bids =>
    match buildSettlement asks bids s.lookup with
    | .error e => .error (.build e)
    | .ok st =>
      if expectPartial ≠ st.partialFilled.isSome then .error .expectPartial
      else s.close market collector st

/-- per-denom sums as canonical coins (`sdk.Coins.Add`) -/
def sumCoins (cs : List Coins) : Coins := Coins.canon cs.flatten

/-- `calculateSellerSettlementRatioFee(store, marketID, price)` -/
def KState.ratioFeeOf (s : KState) (price : Denom × Int) : Except Err Coins :=
  match s.lookup price.1 with
  | .error e => .error e
  | .ok none => .ok []
  | .ok (some r) =>
    match ratioFee r price.1 price.2 with
    | .error e => .error e
    | .ok fee => .ok [fee]

/-- `FillBids`: the seller gives every buyer its assets and receives every bid's price; the buyers pay
their settlement fees; the seller pays the flat fee plus the ratio fee of each price total. -/
def KState.fillBids (s : KState) (market collector : Addr) (seller : Addr) (ids : List Nat) (totalAssets : Coins)
    (flat : Coins) : Except KErr KState :=
  match s.getOrders false ids seller with
  | .error e => .error e
  | .ok orders =>
    let assets := sumCoins (orders.map fun o => [(o.assetsDenom, o.assets)])
    let price := sumCoins (orders.map fun o => [(o.priceDenom, o.price)])
    if assets ≠ Coins.canon totalAssets then .error .total else
    match price.mapM s.ratioFeeOf with
    | .error e => .error (.build e)
    | .ok ratioFees =>
      let assetsOut : Indexed := orders.foldl (fun idx o => idx.add o.owner [(o.assetsDenom, o.assets)]) []
      let priceIn : Indexed := orders.foldl (fun idx o => idx.add o.owner [(o.priceDenom, o.price)]) []
      let feeIdx : Indexed := orders.foldl (fun idx o => idx.add o.owner o.fees) []
      let feeIdx := feeIdx.add seller (flat ++ ratioFees.flatten)
      let st : Settlement := {
        transfers := [⟨[(seller, totalAssets)], assetsOut⟩, ⟨priceIn, [(seller, price)]⟩],
        feeInputs := feeIdx,
        fullyFilled := orders.map fun o => ⟨o, o.price, o.fees⟩,
        partialFilled := none, partialLeft := none }
      s.close market collector st

/-- `FillAsks`: the buyer pays every ask its price and receives its assets; each seller pays its flat
fee plus the ratio fee of its price; the buyer pays the settlement fees it offers. -/
def KState.fillAsks (s : KState) (market collector : Addr) (buyer : Addr) (ids : List Nat) (totalPrice : Denom × Int)
    (buyerFees : Coins) : Except KErr KState :=
  match s.getOrders true ids buyer with
  | .error e => .error e
  | .ok orders =>
    let assets := sumCoins (orders.map fun o => [(o.assetsDenom, o.assets)])
    let price := sumCoins (orders.map fun o => [(o.priceDenom, o.price)])
    if price ≠ Coins.canon [totalPrice] then .error .total else
    match orders.mapM (fun o => s.ratioFeeOf (o.priceDenom, o.price)) with
    | .error e => .error (.build e)
    | .ok ratioFees =>
      let withFees := orders.zip ratioFees
      let assetsIn : Indexed := orders.foldl (fun idx o => idx.add o.owner [(o.assetsDenom, o.assets)]) []
      let priceOut : Indexed := orders.foldl (fun idx o => idx.add o.owner [(o.priceDenom, o.price)]) []
      let feeIdx : Indexed := withFees.foldl (fun idx p => idx.add p.1.owner (p.1.fees ++ p.2)) []
      let feeIdx := feeIdx.add buyer buyerFees
      let st : Settlement := {
        transfers := [⟨assetsIn, [(buyer, assets)]⟩, ⟨[(buyer, [totalPrice])], priceOut⟩],
        feeInputs := feeIdx,
        fullyFilled := withFees.map fun p => ⟨p.1, p.1.price, p.1.fees ++ p.2⟩,
        partialFilled := none, partialLeft := none }
      s.close market collector st

/-- `CreateAskOrder` / `CreateBidOrder` (keeper/orders.go:624,668) as far as the order store goes:
`Order.Validate` (positive assets, price, fees), `validateAskPrice` for asks, the next order id. -/
def KState.createOrder (s : KState) (o : Order) : Except KErr KState :=
  if ¬ (0 < o.assets ∧ 0 < o.price ∧ o.fees.all (fun c => 0 < c.2)) then .error .order
  else match (if o.isAsk then s.validateAskPrice o else .ok ()) with
    | .error e => .error e
    | .ok () => .ok { s with nextId := s.nextId + 1, orders := s.orders ++ [{ o with id := s.nextId }] }

/-! ### The messages' `ValidateBasic` (x/exchange/msgs.go:157,197,235; orders.go:60,87)

What `runTx` runs before the message reaches the msg server.  Only the order-id part is modelled (the
other fields — addresses, market id, the coins' well-formedness — are kept valid in the generated
histories): `ValidateOrderIDs` wants at least one id, no zero id and no id twice (`findDuplicateIDs`);
`MsgMarketSettleRequest.ValidateBasic` additionally wants no id in both lists (`IntersectionUint64`).
The errors are joined in this order; the first one decides the class. -/

/-- `ValidateOrderIDs(field, orderIDs)` (orders.go:87) -/
def validateOrderIDs (ids : List Nat) : Except KErr Unit :=
  if ids = [] then .error .noIds
  else if 0 ∈ ids then .error .zeroId
  else if ¬ ids.Nodup then .error .dupIds
  else .ok ()

/-- `MsgMarketSettleRequest.ValidateBasic` (msgs.go:235), the order-id part -/
def settleValidateBasic (askIds bidIds : List Nat) : Except KErr Unit :=
  match validateOrderIDs askIds with
  | .error e => .error e
  | .ok () =>
    match validateOrderIDs bidIds with
    | .error e => .error e
    | .ok () => if askIds.any (bidIds.contains ·) then .error .bothSides else .ok ()

/-- `MsgMarketSettle` as the chain runs it: `ValidateBasic`, then the msg server → `SettleOrders`. -/
def KState.msgMarketSettle (s : KState) (market collector : Addr) (askIds bidIds : List Nat) (expectPartial : Bool) :
    Except KErr KState :=
  match settleValidateBasic askIds bidIds with
  | .error e => .error e
  | .ok () => s.settleOrders market collector askIds bidIds expectPartial

/-- `MsgFillBids`: `ValidateBasic` (msgs.go:157), then the msg server → `FillBids`. -/
def KState.msgFillBids (s : KState) (market collector : Addr) (seller : Addr) (ids : List Nat) (totalAssets : Coins)
    (flat : Coins) : Except KErr KState :=
  match validateOrderIDs ids with
  | .error e => .error e
  | .ok () => s.fillBids market collector seller ids totalAssets flat

/-- `MsgFillAsks`: `ValidateBasic` (msgs.go:197), then the msg server → `FillAsks`. -/
def KState.msgFillAsks (s : KState) (market collector : Addr) (buyer : Addr) (ids : List Nat) (totalPrice : Denom × Int)
    (buyerFees : Coins) : Except KErr KState :=
  match validateOrderIDs ids with
  | .error e => .error e
  | .ok () => s.fillAsks market collector buyer ids totalPrice buyerFees

/-- what is on hold for an account: the hold amounts of its open orders (`CreateAskOrder`/`CreateBidOrder`
add `GetHoldAmount()`, `closeSettlement` releases the filled orders' `GetHoldAmount()`; the hold module
itself is C02's subject — here it is an observation of the dump) -/
def KState.holdsOf (s : KState) (a : Addr) : Coins :=
  ((s.orders.filter (·.owner = a)).map Order.holdAmount).flatten

/-- the messages of a history -/
inductive KOp where
  | create (o : Order)
  | settle (askIds bidIds : List Nat) (expectPartial : Bool)
  | fillBids (seller : Addr) (ids : List Nat) (totalAssets flat : Coins)
  | fillAsks (buyer : Addr) (ids : List Nat) (totalPrice : Denom × Int) (fees : Coins)

/-- one message (through `ValidateBasic` and the msg server); a rejected message leaves the state unchanged -/
def KState.apply (market collector : Addr) (s : KState) (op : KOp) : KState :=
  let r := match op with
    | .create o => s.createOrder o
    | .settle a b ep => s.msgMarketSettle market collector a b ep
    | .fillBids seller ids ta flat => s.msgFillBids market collector seller ids ta flat
    | .fillAsks buyer ids tp fees => s.msgFillAsks market collector buyer ids tp fees
  match r with
  | .ok s' => s'
  | .error _ => s

end PvModel.Settle
