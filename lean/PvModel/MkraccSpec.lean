/-
C12 — declarative side: who may do what to a marker, written from the documentation and
independent of the handlers' control flow.

Sources:
* proto/provenance/marker/v1/accessgrant.proto — the `Access` enum comments (which right
  enables which operation);
* x/marker/spec/12_transfers.md — "Transfer Permission", "Force Transfer Permission",
  "Forced Transfers", "Deposits", and the `MsgTransferRequest` flowchart;
* x/marker/spec/11_authorization.md — `MarkerTransferAuthorization`: the transfer limit is
  "the total amount the grantee can transfer"; with a non-empty allow list "the destination
  must be in the `allow_list`";
* x/marker/spec/03_messages.md — statuses in which each message is available, the
  governance alternative of `SetAccountData` / `UpdateRequiredAttributes` /
  `UpdateSendDenyList` / `AddNetAssetValues`, manager-only `Finalize` / `Activate`.
One credential is documented only in a code comment (marker.go:866): the holder of the whole
supply of a finalized/active marker may change its access list.
-/
import PvModel.Mkracc

namespace PvModel.Mkracc.Spec
open PvModel PvModel.Mkracc

/-- A credential that can authorise a marker operation. -/
inductive Cred where
  | right (a : Access)      -- the caller's access grant carries `a`
  | userRight (a : Access)  -- same, for a signer other than the governance authority
  | manager                 -- the caller is the marker's manager
  | governance              -- signer is the governance authority and the marker allows governance control
  | anyRight                -- the caller's access grant carries at least one right
  | allSupply               -- the caller holds the marker's whole supply
  deriving DecidableEq, Repr

def Cred.holds (c : Cfg) : Cred → Bool
  | .right a => c.acc.contains a
  | .userRight a => !c.gov && c.acc.contains a
  | .manager => c.mgr
  | .governance => c.gov && c.govCtl
  | .anyRight => !c.acc.isEmpty
  | .allSupply => c.ctlSupply

/-- The table: for each operation and marker status, the credentials of which any one
suffices; `none` = the operation does not exist in that status. -/
def creds : Op → Status → Option (List Cred)
  -- ACCESS_MINT "is the ability to increase the supply of a marker"
  | .mint, .proposed | .mint, .finalized | .mint, .active => some [.right .mint]
  -- ACCESS_BURN "is the ability to decrease the supply of the marker using coin held by the marker"
  | .burn, .proposed | .burn, .finalized | .burn, .active => some [.right .burn]
  -- ACCESS_WITHDRAW "is the ability to transfer funds from this marker account to another account";
  -- 12_transfers "Withdraws": the source marker must be active
  | .withdraw, .active => some [.right .withdraw]
  -- ACCESS_DELETE "is the ability to move a proposed, finalized or active marker into the
  -- cancelled state"; a proposed marker is also under its manager's control
  | .cancel, .proposed => some [.right .delete, .manager]
  | .cancel, .finalized | .cancel, .active => some [.right .delete]
  -- "This access also allows cancelled markers to be marked for deletion."
  | .delete, .cancelled => some [.right .delete, .manager]
  -- ACCESS_ADMIN "is the ability to add access grants for accounts to the list of marker
  -- permissions"; 03_messages: pending markers by the manager only
  | .addAccess, .proposed | .deleteAccess, .proposed => some [.manager]
  | .addAccess, .finalized | .deleteAccess, .finalized => some [.manager, .right .admin, .allSupply]
  | .addAccess, .active | .deleteAccess, .active => some [.right .admin, .allSupply]
  -- 03_messages: only the manager finalizes a proposed / activates a finalized marker
  | .finalize, .proposed => some [.manager]
  | .activate, .finalized => some [.manager]
  -- ACCESS_ADMIN "also gives the ability to update the marker's denom metadata"
  | .setDenomMetadata, .proposed | .setDenomMetadata, .finalized | .setDenomMetadata, .active =>
    some [.right .admin, .manager]
  -- 03_messages Msg/GrantAllowance: "The administrator does not have ADMIN access" ⇒ fail
  | .grantAllowance, _ => some [.right .admin]
  -- ACCESS_TRANSFER: "Update the marker's required attributes", "Update the send-deny list";
  -- both "or via gov proposal"
  | .updateRequiredAttributes, _ => some [.governance, .userRight .transfer]
  | .updateSendDenyList, _ => some [.governance, .userRight .transfer]
  -- 03_messages Msg/UpdateForcedTransfer: "must be submitted via governance proposal"
  | .updateForcedTransfer, _ => some [.governance]
  -- 03_messages Msg/SetAccountData: governance, or deposit access
  | .setAccountData, _ => some [.governance, .userRight .deposit]
  -- 03_messages Msg/AddNetAssetValues: governance, or any access on the marker
  | .addNetAssetValues, _ => some [.governance, .anyRight]
  | _, _ => none

/-- marker.go:866: "the caller account address possess 100% of the total supply of a marker" —
of the coins that exist, and there have to be some. -/
def holdsWholeSupply (callerBal circulating : Int) : Bool :=
  decide (0 < circulating) && circulating == callerBal

/-- operations that exist for restricted markers only -/
def restrictedOnly : Op → Bool
  | .updateRequiredAttributes | .updateSendDenyList | .updateForcedTransfer => true
  | _ => false

/-- The caller holds a documented credential for `op` in the marker's current status. -/
def authorised (op : Op) (c : Cfg) : Bool :=
  match creds op c.status with
  | some cs => cs.any (Cred.holds c)
  | none => false

/-- `op` exists for this status and marker type. -/
def available (op : Op) (c : Cfg) : Bool :=
  (creds op c.status).isSome && (!restrictedOnly op || c.mtype == .restricted)

/-- Conditions that are not about the caller: a withdrawal into a restricted marker needs
`deposit` there and cannot go to a blocked address; a marker can only be cancelled /
deleted when it holds its whole supply. -/
def envOk (op : Op) (c : Cfg) (e : Env) : Bool :=
  match op with
  | .withdraw => e.dest != .rmkNoDep && e.dest != .blocked
  | .cancel => c.status == .proposed || !e.circ
  | .delete => !e.circ
  | _ => true

/-- `Cancel` on an already cancelled marker is accepted from anyone and does nothing. -/
def noop (op : Op) (c : Cfg) : Bool := op == .cancel && c.status == .cancelled

/-- The rights whose presence can matter for `op` (all of them for `anyRight`). -/
def relevant (op : Op) : List Access :=
  match op with
  | .mint => [.mint] | .burn => [.burn] | .withdraw => [.withdraw]
  | .cancel | .delete => [.delete]
  | .addAccess | .deleteAccess | .setDenomMetadata | .grantAllowance => [.admin]
  | .finalize | .activate | .updateForcedTransfer => []
  | .updateRequiredAttributes | .updateSendDenyList => [.transfer]
  | .setAccountData => [.deposit]
  | .addNetAssetValues => Access.all

/-! ## Transfers (12_transfers.md) -/

/-- "Forced transfer cannot be used to move restricted coins out of module accounts or smart
contract accounts": such accounts exist, have never signed (sequence 0) and are neither
marker, market nor group-policy accounts. -/
def moduleOrContractLike (a : Acct) : Bool :=
  a.present && !a.seqNonZero && !a.isMarker && !a.isMarket && !a.isGroup

/-- 11_authorization.md: the stored grant covers this use — an amount of coin (never negative)
within what is left of the limit, to a recipient the allow list admits. -/
def grantCovers (stored : Option Grant) (u : Use) : Bool :=
  match stored with
  | none => false
  | some g =>
    decide (0 ≤ u.amount) && Coins.nonneg (Coins.sub g.limit [(u.denom, u.amount)])
      && (g.allow.isEmpty || g.allow.contains u.to)

/-- The `MsgTransferRequest` flowchart of 12_transfers.md, node by node, preceded by the
"marker is Active" condition of 03_messages.md and followed by the bank's balance check. -/
def transferAllowed (c : Cfg) (x : Xfer) : Bool :=
  c.status == .active
  -- "Is Denom a restricted coin?"
  && c.mtype == .restricted
  -- "Does Admin have transfer or force-transfer for Denom?"
  && (c.has .transfer || c.has .forceTransfer)
  -- checkReceiverMarker(Receiver, Sender, Admin)
  && x.dest != .rmkNoDep
  -- "Does Sender == Admin?"
  && (x.selfFrom
      -- "Is forced transfer allowed for Denom?" / "Does Admin have force-transfer?"
      || (if c.forced && c.has .forceTransfer
          -- "Is Sender a module account?" (and smart-contract accounts, per the text)
          then !moduleOrContractLike x.src
          -- "Has Sender granted Admin permission with authz?"
          else grantCovers x.stored x.use))
  -- "Is Receiver an address blocked by the bank module?"
  && x.dest != .blocked
  && decide (x.use.amount ≤ x.fromBal)

/-! ## Sequences of uses of one grant (11_authorization.md) -/

/-- "transfer_limit is the total amount the grantee can transfer": the accepted uses of a
grant stay within its limit, denom by denom. -/
def WithinLimit (g : Grant) (accepted : List Use) : Prop :=
  ∀ d, moved accepted d ≤ Coins.amountOf g.limit d

/-- "otherwise, the destination must be in the `allow_list`". -/
def RecipientsAllowed (g : Grant) (accepted : List Use) : Prop :=
  g.allow ≠ [] → ∀ u ∈ accepted, u.to ∈ g.allow

/-- The same with every NEGATIVE amount left out of the sum: what was really moved. (The signed sum
`moved` would let a negative "use" make room for later ones.) -/
def movedPos (us : List Use) (d : Denom) : Int :=
  match us with
  | [] => 0
  | u :: rest => (if u.denom = d ∧ 0 < u.amount then u.amount else 0) + movedPos rest d

def WithinLimitPos (g : Grant) (accepted : List Use) : Prop :=
  ∀ d, movedPos accepted d ≤ Coins.amountOf g.limit d

/-! ## Histories of messages on one marker -/

/-- The credential documented for changing the access list, read off the marker's state `s` for the
signer `b` IN THE STATUS THE MARKER HAS THEN: the manager while the marker is proposed; manager,
`admin` or the whole supply while finalized; `admin` or the whole supply once active (the manager
is gone); nobody afterwards. -/
def accessCred (s : MState) (b : String) : Bool :=
  match s.status with
  | .proposed => s.manager == some b
  | .finalized => s.manager == some b || (s.rightsOf b).contains .admin
      || holdsWholeSupply (s.balOf b) s.circulating
  | .active => (s.rightsOf b).contains .admin || holdsWholeSupply (s.balOf b) s.circulating
  | _ => false

/-- executable versions for the checker -/
def recipientAllowed (g : Grant) (to : String) : Bool := g.allow.isEmpty || g.allow.contains to

end PvModel.Mkracc.Spec
