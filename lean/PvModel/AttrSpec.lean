/-
C16 — declarative side: the clauses of the property as decidable predicates over
(state before, message, state after).  They do not look at the model's control flow; the
theorems of `PvProofs.C16` prove them of the model for all histories, and the driver
evaluates the same predicates on the states the implementation dumps.

Property text: "Only the current owner of a name can add, update or delete attributes under
that name, on any account. An attribute disappears only when its name's owner deletes it,
when the name itself is deleted, or when the expiration time currently stored on it has
passed, in which case it is gone after the next block begins; and the
accounts-by-attribute-name lookup never omits an account that holds such an attribute."
-/
import PvModel.Attr

namespace PvModel.Attr

/-- Number of attribute records under `(name, addr)`. -/
def count (s : State) (name addr : String) : Nat :=
  (s.recs.filter (fun r => decide (r.name = name) && decide (r.addr = addr))).length

/-- Signer and attribute name of an attribute-writing message. -/
def Op.write? : Op → Option (String × String)
  | .add signer a => some (signer, a.name)
  | .update signer _ name _ _ _ _ => some (signer, name)
  | .updateExp signer _ name _ _ => some (signer, name)
  | .delete signer _ name => some (signer, name)
  | .deleteDistinct signer _ name _ => some (signer, name)
  | _ => none

/-- Clause 1: the signer of an attribute-writing message owns the name at that time. -/
def writerIsOwner (s : State) (op : Op) : Bool :=
  match op.write? with
  | some (signer, name) => resolvesTo s name signer
  | none => true

/-- Clause 4: every account holding an attribute is listed by the lookup for its name. -/
def lookupComplete (s : State) : Bool :=
  s.recs.all (fun r => (accountsByAttribute s r.name).contains r.addr)

def hasKey (s : State) (k : Key) : Bool := s.recs.any (fun r => decide (r.key = k))

/-- Clause 2: the three documented reasons for an attribute `r` of state `s` to be gone after
`op`: a deletion (or update away from its value) signed by the owner of its name, the
deletion of its name, a block beginning after the expiration stored on `r`. -/
def justified (s : State) (op : Op) (r : Attribute) : Bool :=
  match op with
  | .delete signer addr name =>
    resolvesTo s name signer && decide (r.addr = addr) && decide (r.name = name)
  | .deleteDistinct signer addr name v =>
    resolvesTo s name signer && decide (r.addr = addr) && decide (r.name = name) && decide (r.value = v)
  | .update signer addr name ov ot _ _ =>
    resolvesTo s name signer && decide (r.key = (addr, name, ov)) && decide (r.ty = ot)
  | .deleteName signer name => resolvesTo s name signer && decide (r.name = name)
  | .beginBlock t => match r.exp with | some e => decide (e < t) | none => false
  | _ => false

def disappearancesJustified (s : State) (op : Op) (s' : State) : Bool :=
  s.recs.all (fun r => hasKey s' r.key || justified s op r)

/-- A record that is stored after `op` and was not stored (identically) before is exactly what
an attribute-writing message signed by the owner of the name says. -/
def mayWrite (s : State) (op : Op) (r' : Attribute) : Bool :=
  match op with
  | .add signer a => resolvesTo s a.name signer && decide (r' = a)
  | .update signer addr name _ _ nv nt =>
    resolvesTo s name signer && decide (r' = ⟨addr, name, nv, nt, none⟩)
  | .updateExp signer addr name value exp =>
    resolvesTo s name signer && decide (r'.key = (addr, name, value)) && decide (r'.exp = exp) &&
      s.recs.any (fun r => decide (r.key = r'.key) && decide (r.ty = r'.ty))
  | _ => false

def appearancesJustified (s : State) (op : Op) (s' : State) : Bool :=
  s'.recs.all (fun r' => s.recs.contains r' || mayWrite s op r')

/-- Clause 2, the deletion of a name: after an accepted `MsgDeleteName` no attribute is stored under
the (normalised) name any more, on any account (theorem `deleteName_purges_exactly`).  An attribute
left under a name that nobody owns can be deleted by anybody (`DeleteAttribute` cannot check the
owner of a name that does not exist) and is inherited by whoever binds the name next: "only the
current owner of a name deletes attributes under it" is lost with it. -/
def namePurged (op : Op) (s' : State) : Bool :=
  match op with
  | .deleteName _ name => s'.recs.all (fun r => decide (r.name ≠ name))
  | _ => true

/-- Clause 3: after a block begins at time `t` no stored attribute has an expiration before `t`. -/
def expiredGone (t : Nat) (s' : State) : Bool :=
  s'.recs.all (fun r => match r.exp with | some e => decide (t ≤ e) | none => true)

/-- The stored expiration of `r` has passed when a block begins at `t`. -/
def isExpired (t : Nat) (r : Attribute) : Bool :=
  match r.exp with
  | some e => decide (e < t)
  | none => false

/-- Number of stored attributes whose stored expiration is before `t`. -/
def expiredCount (s : State) (t : Nat) : Nat := (s.recs.filter (isExpired t)).length

/-- Clause 3 in the presence of the sweep's per-block cap (`limit`, 0 = none), on an observed
sweep at time `t` from `s` to `s'`:
* `ok` — nothing expired is left;
* `capped` — something expired is left, but more than `limit` attributes were expired when the
  block began and at least `limit` of them are gone: all the CODE promises above its cap
  (theorem `capped_sweep_removes_min`); the property's "gone after the next block begins" is
  not met;
* `short` — expired attributes are left although the cap was not reached. -/
inductive SweepResult
  | ok | capped | short
  deriving DecidableEq, Repr

def sweepResult (limit : Nat) (s : State) (t : Nat) (s' : State) : SweepResult :=
  if expiredGone t s' then .ok
  else if limit ≠ 0 ∧ limit < expiredCount s t ∧ expiredCount s' t + limit ≤ expiredCount s t then .capped
  else .short

/-- The `i`-th of infinitely many different non-empty values (`v`, `vv`, `vvv`, …). -/
def nthValue (i : Nat) : String := String.ofList (List.replicate (i + 1) 'v')

/-- `n` add messages by `signer` that differ only in the value, all with expiration `exp`. -/
def manyAdds (signer addr name : String) (exp n : Nat) : List Op :=
  (List.range n).map fun i => .add signer ⟨addr, name, nthValue i, .string, some exp⟩

/-- No stale queue entries: every queue entry is the stored expiration of a stored attribute. -/
def noStale (s : State) : Bool :=
  s.queue.all (fun q => s.recs.any (fun r => decide (r.key = q.2) && decide (r.exp = some q.1)))

/-- `r` (stored in `s`) has a queue entry at a time before `t` that is not its stored
expiration: the situation in which the sweep at `t` removes it early. -/
def staleBefore (s : State) (t : Nat) (r : Attribute) : Bool :=
  s.queue.any (fun q => decide (q.2 = r.key) && decide (q.1 < t) && decide (r.exp ≠ some q.1))

/-- Messages that never store over an existing record: an `add` of a key that is not stored,
an `update` whose new value is not already stored (or equals the original value). -/
def noOverwrite (s : State) : Op → Bool
  | .add _ a => !hasKey s a.key
  | .update _ addr name ov _ nv _ => !hasKey s (addr, name, nv) || decide (nv = ov)
  | _ => true

def noOverwriteRun : State → List Op → Bool
  | _, [] => true
  | s, op :: t => noOverwrite s op && noOverwriteRun (apply s op) t

/-- What an accepted message adds to the surplus of the `(n, x)` lookup counter over the number of
records: 1 when it increments the counter without a new record — an `add` onto a stored key
(`SetAttribute` does not look the key up), an `update` onto ANOTHER stored value (the original
record and one counter unit go, the new record replaces a stored one, the counter goes up again). -/
def overwriteOf (s : State) (op : Op) (n x : String) : Nat :=
  match op with
  | .add _ a => if (a.name, a.addr) = (n, x) ∧ hasKey s a.key = true then 1 else 0
  | .update _ addr name ov _ nv _ =>
    if (name, addr) = (n, x) ∧ (hasKey s (addr, name, nv) = true ∧ nv ≠ ov) then 1 else 0
  | _ => 0

/-- Number of accepted overwriting writes under `(n, x)` in the history `ops` from `s`. -/
def overwrites : State → List Op → String → String → Nat
  | _, [], _, _ => 0
  | s, op :: rest, n, x =>
    (match step s op with
      | .ok _ => overwriteOf s op n x
      | .error _ => 0) + overwrites (apply s op) rest n x

/-- Every block of the history began with at most `MaxExpiredAttributionCount` expired attributes
(the sweep never hit its cap). -/
def underCapRun : State → List Op → Bool
  | _, [] => true
  | s, op :: rest =>
    (match op with
      | .beginBlock t => decide (expiredCount s t ≤ maxExpiredAttributionCount)
      | _ => true) && underCapRun (apply s op) rest

/-- No stored attribute has an expiration before the block time of the state. -/
def noneExpired (s : State) : Bool := expiredGone s.now s

/-- The lookup lists only holders: no counter in the store exceeds the number of records under its
(name, account) pair (so a listed account holds at least one attribute under the name). -/
def lookupOnlyHolders (s : State) : Bool :=
  s.cnt.all (fun p => decide (getCnt s p.1.1 p.1.2 ≤ count s p.1.1 p.1.2))

/-- Every stored expiration has its queue entry. -/
def queueComplete (s : State) : Bool :=
  s.recs.all (fun r => match r.exp with | some e => s.queue.contains (e, r.key) | none => true)

/-- The checker of a genesis round trip (op line `regen <t>`: `ExportGenesis`, then `InitGenesis`
into an emptied attribute store at block time `t`), judged on the states the implementation dumped
before (`s`) and after (`s'`): the conclusions of `PvProofs.C18Attr`.  A refused import of the
chain's own export is a failure as soon as every exported record passes `ValidateBasic`. -/
def verdictGenesis (s : State) (t : Nat) (accepted : Bool) (s' : State) : String :=
  if !accepted then
    (if genesisValid (exportGenesis s) then "fail:genesis:own_export_refused" else "ok")
  else if !s.recs.all (fun r => isExpired t r || s'.recs.contains r) then "fail:genesis:record_lost"
  else if !s'.recs.all (fun r => s.recs.contains r && !isExpired t r) then "fail:genesis:record_not_exported_or_expired"
  else if !lookupComplete s' then "fail:lookup_omits_holder"
  else if !lookupOnlyHolders s' then "fail:genesis:lookup_lists_non_holder"
  else if !noStale s' then "fail:genesis:stale_queue_entry"
  else if !queueComplete s' then "fail:genesis:expiration_not_queued"
  else "ok"

/-- The checker: the conclusions of the theorems evaluated on an observed transition.
`accepted` = the implementation returned no error. Clause names are what
`known_findings.json` matches on.  `cap` is the per-block cap of the sweep that produced the
transition (`verdict`: the chain's `attribute.MaxExpiredAttributionCount`). -/
def verdictCap (cap : Nat) (s : State) (op : Op) (accepted : Bool) (s' : State) : String :=
  if !accepted then "ok"
  else if !writerIsOwner s op then "fail:write_by_non_owner"
  else if !lookupComplete s' then "fail:lookup_omits_holder"
  else if !appearancesJustified s op s' then "fail:record_written_without_owner_message"
  else if !namePurged op s' then "fail:name_deleted_attributes_remain"
  else
    match s.recs.find? (fun r => !(hasKey s' r.key || justified s op r)) with
    | some r =>
      match op with
      | .beginBlock t =>
        if staleBefore s t r then "fail:disappears:swept_at_stale_queue_time"
        else "fail:disappears:swept_before_stored_expiration"
      | .deleteName _ _ => "fail:disappears:other_name_purged"
      | _ => "fail:disappears:not_deleted_by_owner"
    | none =>
      match op with
      | .beginBlock t =>
        match sweepResult cap s t s' with
        | .ok => "ok"
        | .capped => "fail:expired_survives_begin_block:more_expired_than_the_sweep_cap"
        | .short => "fail:expired_survives_begin_block"
      | _ => "ok"

def verdict (s : State) (op : Op) (accepted : Bool) (s' : State) : String :=
  verdictCap maxExpiredAttributionCount s op accepted s'

/-- The checker on a transaction of several `MsgAddAttribute` messages by one signer (op line
`bulk`): the same clauses, judged on the states before and after the whole transaction. -/
def verdictBulk (s : State) (signer : String) (attrs : List Attribute) (accepted : Bool) (s' : State) : String :=
  if !accepted then "ok"
  else if !attrs.all (fun a => resolvesTo s a.name signer) then "fail:write_by_non_owner"
  else if !lookupComplete s' then "fail:lookup_omits_holder"
  else if !s'.recs.all (fun r' => s.recs.contains r' || attrs.contains r') then
    "fail:record_written_without_owner_message"
  else if !s.recs.all (fun r => hasKey s' r.key) then "fail:disappears:not_deleted_by_owner"
  else "ok"

end PvModel.Attr
