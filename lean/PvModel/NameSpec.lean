/-
C15 — declarative side: what the property says about names, independent of the model's control
flow.  These are the predicates the theorems of `PvProofs.C15` conclude and the ones the driver's
checker evaluates on the implementation's observed output / dumped state.
-/
import PvModel.Name

namespace PvModel.Name

/-- "A name can be bound only under an existing parent and, if the parent is restricted, only by
the parent's owner": `parent` is what the parent name resolves to, `signer` the message signer. -/
def bindAllowed (parent : Option Record) (signer : Addr) : Bool :=
  match parent with
  | none => false
  | some p => !p.restricted || p.addr == signer

/-- the IMMEDIATE parent of a name: the name without its first segment (`a.b.c` ↦ `b.c`).  A
single-segment name gives the empty name, which never resolves.  "Bound only under an existing
parent" is a statement about THIS name, whatever parent the bind message mentioned. -/
def immediateParent (name : Bytes) : Bytes := joinDot (splitDot name).tail

/-- "only a name's owner or governance can modify it" -/
def modifyAllowed (authority : Addr) (existing : Option Record) (signer : Addr) : Bool :=
  match existing with
  | none => false
  | some e => signer == authority || signer == e.addr

/-- "only its owner can delete it" -/
def deleteAllowed (existing : Option Record) (signer : Addr) : Bool :=
  match existing with
  | none => false
  | some e => e.addr == signer

/-- root names are created by governance only -/
def rootAllowed (authority signer : Addr) : Bool := signer == authority

/-- "the by-address lookup lists exactly the names currently bound to each address":
the listing for `a` is, up to order, the records of the store whose address is `a`
(no omission, no stale entry, no duplicate). -/
def IndexAgrees (recs : List Record) (a : Addr) (listing : List Record) : Prop :=
  listing.Perm (recs.filter fun r => r.addr = a)

/-- the (trimmed) segments of a name as written, left to right -/
def segments (name : Bytes) : List Bytes := (splitDot name).map trimSpace

/-- the segment-length profile of a name -/
def profile (name : Bytes) : List Nat := (segments name).map List.length

/-- a name that `Keeper.Normalize` accepts and leaves as it is: valid, normalized, within limits -/
def IsNormalized {κ : Type} (cfg : Cfg κ) (name : Bytes) : Prop := normalize cfg name = .ok name

/-- "Two different valid names never resolve to the same record": every name resolves, if at
all, to the record that carries that very name. -/
def ResolvesOwn (name : Bytes) (r : Record) : Prop := r.name = name

/-- the names a successful message may touch (as normalized names). -/
def rootSuffixes (name : Bytes) : List Bytes :=
  ((splitDot name).reverse.foldl (fun (acc : List Bytes × Bytes) seg =>
      let n := trimRightDots (seg ++ dot :: acc.2)
      (normalizeName n :: acc.1, n)) ([], [])).1

def Op.targets : Op → List Bytes
  | .root _ n _ _ => rootSuffixes n
  | .bind pn _ rn _ _ => [normalizeName (rn ++ dot :: pn)]
  | .modify _ n _ _ => [normalizeName n]
  | .delete n _ => [normalizeName n]

end PvModel.Name
