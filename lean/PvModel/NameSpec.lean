/-
C15 — declarative side: what the property says about names, independent of the model's control
flow.  These are the predicates the theorems of `PvProofs.C15` conclude and the ones the driver's
checker evaluates on the implementation's observed output / dumped state.
-/
import PvModel.Name

namespace PvModel.Name

/-- "A name can be bound only under an existing parent and, if the parent is restricted, only by
the parent's owner": `parent` is what the parent name resolves to, `signer` the message signer. -/
def bindAllowed (parent : Option Record) (signer : Addr) : Bool :=
  match parent with
  | none => false
  | some p => !p.restricted || p.addr == signer

/-- the IMMEDIATE parent of a name: the name without its first segment (`a.b.c` ↦ `b.c`).  A
single-segment name gives the empty name, which never resolves.  "Bound only under an existing
parent" is a statement about THIS name, whatever parent the bind message mentioned. -/
def immediateParent (name : Bytes) : Bytes := joinDot (splitDot name).tail

/-- "only a name's owner or governance can modify it" -/
def modifyAllowed (authority : Addr) (existing : Option Record) (signer : Addr) : Bool :=
  match existing with
  | none => false
  | some e => signer == authority || signer == e.addr

/-- "only its owner can delete it" -/
def deleteAllowed (existing : Option Record) (signer : Addr) : Bool :=
  match existing with
  | none => false
  | some e => e.addr == signer

/-- root names are created by governance only -/
def rootAllowed (authority signer : Addr) : Bool := signer == authority

/-- "the by-address lookup lists exactly the names currently bound to each address":
the listing for `a` is, up to order, the records of the store whose address is `a`
(no omission, no stale entry, no duplicate). -/
def IndexAgrees (recs : List Record) (a : Addr) (listing : List Record) : Prop :=
  listing.Perm (recs.filter fun r => r.addr = a)

/-- the (trimmed) segments of a name as written, left to right -/
def segments (name : Bytes) : List Bytes := (splitDot name).map trimSpace

/-- the segment-length profile of a name -/
def profile (name : Bytes) : List Nat := (segments name).map List.length

/-- a name that `Keeper.Normalize` accepts and leaves as it is: valid, normalized, within limits -/
def IsNormalized {κ : Type} (cfg : Cfg κ) (name : Bytes) : Prop := normalize cfg name = .ok name

/-- "Two different valid names never resolve to the same record": every name resolves, if at
all, to the record that carries that very name. -/
def ResolvesOwn (name : Bytes) (r : Record) : Prop := r.name = name

/-- the names a successful message may touch (as normalized names). -/
def rootSuffixes (name : Bytes) : List Bytes :=
  ((splitDot name).reverse.foldl (fun (acc : List Bytes × Bytes) seg =>
      let n := trimRightDots (seg ++ dot :: acc.2)
      (normalizeName n :: acc.1, n)) ([], [])).1

def Op.targets : Op → List Bytes
  | .root _ n _ _ => rootSuffixes n
  | .bind pn _ rn _ _ => [normalizeName (rn ++ dot :: pn)]
  | .modify _ n _ _ => [normalizeName n]
  | .delete n _ => [normalizeName n]

/-! ### collision freedom of the hash on the names actually involved

SHA-256 is not injective (finite codomain), so no theorem may assume `Function.Injective cfg.H`.
What the proofs need is that the hash separates the finitely many key pre-images that occur: those
of the names stored in the state and of the names the messages mention. -/

/-- the key pre-images of a list of names (names without a key contribute nothing) -/
def preimagesOf (names : List Bytes) : List Bytes :=
  names.filterMap fun n => match preimage n with | .ok p => some p | .error _ => none

/-- `H` is injective on the byte strings of the list (`Set.InjOn H {p | p ∈ ps}`) -/
def InjOnList {κ : Type} (H : Bytes → κ) (ps : List Bytes) : Prop :=
  ∀ p ∈ ps, ∀ q ∈ ps, H p = H q → p = q

instance {κ : Type} [DecidableEq κ] (H : Bytes → κ) (ps : List Bytes) : Decidable (InjOnList H ps) := by
  unfold InjOnList; infer_instance

/-- the hash of the configuration has no collision among the key pre-images of `names` -/
def NoHashCollision {κ : Type} (cfg : Cfg κ) (names : List Bytes) : Prop :=
  InjOnList cfg.H (preimagesOf names)

instance {κ : Type} [DecidableEq κ] (cfg : Cfg κ) (names : List Bytes) :
    Decidable (NoHashCollision cfg names) := by
  unfold NoHashCollision; infer_instance

/-- the names of the stored records -/
def storedNames {κ : Type} (st : State κ) : List Bytes := (allRecords st).map (·.name)

/-- the names `Keeper.CreateRootName` builds while it walks the segments (last segment first):
`segs` are the segments still to visit, `n` the name built so far — AS WRITTEN (not normalized);
these are the names it looks up. -/
def rootPath : List Bytes → Bytes → List Bytes
  | [], _ => []
  | seg :: rest, n => trimRightDots (seg ++ dot :: n) :: rootPath rest (trimRightDots (seg ++ dot :: n))

/-- the names a message looks up in the store, as written in the message -/
def Op.lookups : Op → List Bytes
  | .root _ n _ _ => n :: rootPath (splitDot n).reverse []
  | .bind pn _ _ _ _ => [pn]
  | .modify _ n _ _ => [n]
  | .delete _ _ => []

/-- every name a message can touch or look up: as written, and normalized -/
def Op.names (op : Op) : List Bytes := op.lookups ++ op.lookups.map normalizeName ++ op.targets

/-- `Keeper.ExportGenesis` (genesis.go:24): every record of the store becomes a binding. -/
def exportGenesis {κ : Type} (st : State κ) : List Record := allRecords st

/-- two states hold the same key-value pairs in both halves of the store (the order of the
association lists is a representation detail: the real store iterates in key order) -/
def StateEq {κ : Type} [DecidableEq κ] (s t : State κ) : Prop :=
  (∀ k, KV.get s.recs k = KV.get t.recs k) ∧ (∀ ak, KV.get s.idx ak = KV.get t.idx ak)

end PvModel.Name
