/-
Sequences of transactions for the C08 model (`txfee` stream): the `seq` and `mempool` ops.

`seq floor= conv= sched= payfee= auth= balP= balX= balG= alP=<-|unl|coins> alX=<…> n=<k> blk=<b1,…,bk>
   [floor2= conv2= sched2=] p<i>=<P|X|G> fg<i>=<0|1> fee<i>= gas<i>= sq<i>=<k> body<i>=<tok;…> obs=<o1,…,ok>`
`k` (2–4) really signed transactions — payers P, X, G mixed, fee grants G → P (`alP`) and G → X
(`alX`), transaction `i` signed with the account sequence `sq<i>` (relative to the payer's initial
one) — delivered through the REAL `FinalizeBlock`: the transactions with `blk = 0` in one block,
those with `blk = 1` in the next one (committed in between; `floor2/conv2/sched2`, when present,
is the fee configuration written before that commit and in force from block 1 on), and so on.
The model answers with `runsOf` / `runTxs` (PvModel.Txfee: `deliverIn` on the chain state the
previous element left): `t<i>=<ok|error class>` per transaction and, after every block `b`,
`s<b><payer>` (sequence), `a<b>P a<b>X` (what is left of the allowances), `d<b><role>` (balance
change since the start).

`mempool …` (same fields without `blk`/`…2`): the same transactions arrive at the mempool one after
the other (`CheckTx(New)`, the check state carrying fee deductions and sequence bumps from one
arrival to the next); the model answers with `checkIn` / `checkTxs`: `c<i>=` and the state of the
mempool after every arrival (`s<i-1>…`).

`obs=`: per transaction the observed gas outcome (`a`: the ante handler ran out of gas, `m`: message
execution did, `g`: CheckTx did, `-`) and whether its block result carried events (`1`: it got past
the ante handler for sure — the forked `runTx` returns the ante events of a transaction whose
MESSAGES failed, none for one the ante handler refused, and none either for one whose end-of-tx fee
sweep failed).

The sequence check of the signature verification is not an observed input here: `sigOk` of
element `i` is resolved on the running state (`signed sequence = the payer's sequence then`), and
the resulting list is what `runTxs` / `checkTxs` — the functions the theorems of `PvProofs.C08Seq`
are about — are applied to.
-/
import PvModel.TxfeeDriver
-- registry: txfee PvModel.Txfee.driverAll

namespace PvModel.Txfee
open PvModel

def seqPayers : List Addr := ["P", "X", "G"]

/-- One element of a `seq` / `mempool` op. -/
structure SeqTx where
  tx : Tx                                -- `sigOk` still without the sequence check
  sq : Nat                               -- the sequence it was signed with (relative)
  blk : Nat
  fg : Bool
  sends : List (Addr × Addr × Coins)
  ev : Bool                              -- observed: its block result carries events

structure SeqOp where
  check : Bool                           -- `mempool` op
  cfg0 : Cfg
  cfg2 : Option Cfg                      -- in force from block 1 on
  alP : Allow
  alX : Allow
  l0 : Ledger
  txs : List SeqTx

def SeqOp.chain (op : SeqOp) : Chain :=
  { ledger := op.l0,
    allows := fun g p => if g = "G" ∧ p = "P" then op.alP else if g = "G" ∧ p = "X" then op.alX else .none,
    seqs := fun _ => 0 }

def SeqOp.cfgOf (op : SeqOp) (e : SeqTx) : Cfg :=
  if e.blk = 0 then op.cfg0 else op.cfg2.getD op.cfg0

def parseCfgAt (ws : List String) (sfx : String) : Option Cfg := do
  let floor ← (kv ws ("floor" ++ sfx)) >>= parseCoin?
  let (d, r) ← match ((kv ws ("conv" ++ sfx)).getD "").splitOn ":" with
    | [d, r] => r.toNat?.map fun r => (d, r)
    | _ => none
  let sched ← parseSched ((kv ws ("sched" ++ sfx)).getD "-")
  pure { floor := floor, convDenom := d, nhashPerUsdMil := r, sched := sched }

def parseAllow (s : String) : Option Allow :=
  if s = "-" ∨ s = "" then some Allow.none
  else if s = "unl" then some Allow.unl
  else (parseCoins? s).map Allow.lim

def parseSeqTx (ws : List String) (auth : Bool) (payfee : Option Coin) (check : Bool)
    (blks obs : List String) (i : Nat) : Option SeqTx := do
  let payer ← kv ws s!"p{i}"
  guard (seqPayers.contains payer)
  let fg := kv ws s!"fg{i}" = some "1"
  let fee ← parseCoins? ((kv ws s!"fee{i}").getD "-")
  let gas ← (kv ws s!"gas{i}") >>= String.toNat?
  let sq ← (kv ws s!"sq{i}") >>= String.toNat?
  let body := ((kv ws s!"body{i}").getD "").splitOn ";"
  let (forest, sends) ← bodyForest auth payfee payer body [] .nil []
  let blk ← if check then pure (i - 1) else (blks.getD (i - 1) "") |>.toNat?
  let o := (obs.getD (i - 1) "--").toList
  let g := o.head?
  pure {
    tx := { fee := fee, gas := gas, payer := payer, granter := if fg ∧ payer ≠ "G" then some "G" else none,
            top := forest.roots, steps := forest.flatten, sigOk := true,
            oogCheck := g = some 'g', oogAnte := g = some 'a', oogMsgs := g = some 'm' },
    sq := sq, blk := blk, fg := fg ∧ payer ≠ "G", sends := sends, ev := (o.drop 1).head? = some '1' }

def parseSeqOp (ws : List String) : Option SeqOp := do
  let check := ws.head? = some "mempool"
  guard (check ∨ ws.head? = some "seq")
  let cfg0 ← parseCfgAt ws ""
  let cfg2 ← if ¬ check ∧ (kv ws "floor2").isSome then (parseCfgAt ws "2").map some else pure none
  let payfee : Option Coin := (kv ws "payfee") >>= fun s => if s = "-" then none else parseCoin? s
  let auth := kv ws "auth" = some "1"
  let balP ← parseCoins? ((kv ws "balP").getD "-")
  let balG ← parseCoins? ((kv ws "balG").getD "-")
  let balX ← parseCoins? ((kv ws "balX").getD "-")
  let alP ← parseAllow ((kv ws "alP").getD "-")
  let alX ← parseAllow ((kv ws "alX").getD "-")
  let n ← (kv ws "n") >>= String.toNat?
  guard (1 ≤ n ∧ n ≤ 8)
  let blks := ((kv ws "blk").getD "").splitOn ","
  let obs := ((kv ws "obs").getD "").splitOn ","
  let txs ← (List.range n).mapM fun j => parseSeqTx ws auth payfee check blks obs (j + 1)
  pure { check := check, cfg0 := cfg0, cfg2 := cfg2, alP := alP, alX := alX,
         l0 := (Ledger.entries "P" balP) ++ (Ledger.entries "G" balG) ++ (Ledger.entries "X" balX),
         txs := txs }

/-- Resolve the sequence check of each element on the state the elements before it left
(`next` = `deliverIn` in a block, `checkIn` at the mempool). -/
def resolveItems (next : Cfg → Chain → Tx → Chain) : Chain → List (Cfg × SeqTx) → List (Cfg × Tx)
  | _, [] => []
  | c, (cfg, e) :: rest =>
    let tx : Tx := { e.tx with sigOk := e.tx.sigOk && (c.seqs e.tx.payer == e.sq) }
    (cfg, tx) :: resolveItems next (next cfg c tx) rest

def SeqOp.items (op : SeqOp) : List (Cfg × Tx) :=
  resolveItems (fun cfg c tx => if op.check then (checkIn cfg c tx).1 else (deliverIn cfg c tx).1)
    op.chain (op.txs.map fun e => (op.cfgOf e, e))

/-- What each arrival was told (`none` = admitted). -/
def checksOf : Chain → List (Cfg × Tx) → List (Option Err)
  | _, [] => []
  | c, (cfg, tx) :: rest => (checkIn cfg c tx).2 :: checksOf (checkIn cfg c tx).1 rest

def dumpChain (k : Nat) (l0 : Ledger) (c : Chain) : String :=
  String.join (seqPayers.map fun r => s!" s{k}{r}={c.seqs r}") ++
    s!" a{k}P={showAllow (c.allows "G" "P")} a{k}X={showAllow (c.allows "G" "X")}" ++
    String.join (roles.map fun a => s!" d{k}{a}={showCoins (delta l0 c.ledger a)}")

def SeqOp.nBlocks (op : SeqOp) : Nat := (op.txs.foldl (fun m e => max m e.blk) 0) + 1

/-- How many elements lie in blocks `≤ b`. -/
def SeqOp.upTo (op : SeqOp) (b : Nat) : Nat := (op.txs.filter fun e => e.blk ≤ b).length

def renderSeq (op : SeqOp) : String :=
  let items := op.items
  let c0 := op.chain
  if op.check then
    let rs := checksOf c0 items
    let heads := (rs.zipIdx.map fun (r, i) =>
      s!"c{i + 1}={match r with | none => "ok" | some e => e.toString}")
    " ".intercalate heads ++
      String.join ((List.range items.length).map fun i => dumpChain i op.l0 (checkTxs c0 (items.take (i + 1))))
  else
    let rs := runsOf c0 items
    let heads := (rs.zipIdx.map fun (r, i) =>
      s!"t{i + 1}={match r.outcome with | .ok => "ok" | .rejected e => e.toString | .failed e => e.toString}")
    " ".intercalate heads ++
      String.join ((List.range op.nBlocks).map fun b => dumpChain b op.l0 (runTxs c0 (items.take (op.upTo b))))

/-! ### Checker: the per-transaction clauses on the observed output of every element -/

structure Dump where
  seqs : List (Addr × Nat)
  alP : String
  alX : String
  deltas : List (Addr × Coins)

def parseDump (ws : List String) (k : Nat) : Option Dump := do
  let seqs ← seqPayers.mapM fun r => do
    let v ← kv ws s!"s{k}{r}"
    let n ← v.toNat?
    pure (r, n)
  let alP ← kv ws s!"a{k}P"
  let alX ← kv ws s!"a{k}X"
  let ds ← roles.mapM fun r => do
    let v ← kv ws s!"d{k}{r}"
    let cs ← parseCoins? v
    pure (r, Coins.canon cs)
  pure { seqs := seqs, alP := alP, alX := alX, deltas := ds }

def Dump.seq (d : Dump) (r : Addr) : Nat := (d.seqs.find? (·.1 = r)).map (·.2) |>.getD 0
def Dump.delta (d : Dump) (a : Addr) : Coins := (d.deltas.find? (·.1 = a)).map (·.2) |>.getD []
def Dump.al (d : Dump) (p : Addr) : String := if p = "P" then d.alP else d.alX

def SeqOp.dump0 (op : SeqOp) : Dump :=
  { seqs := seqPayers.map fun r => (r, 0), alP := showAllow op.alP, alX := showAllow op.alX,
    deltas := roles.map fun r => (r, []) }

def seqDenoms (op : SeqOp) (dumps : List Dump) : List Denom :=
  let cfgs := op.cfg0 :: op.cfg2.toList
  ((op.txs.flatMap fun e =>
      Coins.denoms e.tx.fee ++ (cfgs.flatMap fun c => (stepsIncurred c e.tx.steps).map (·.denom)) ++
        (e.sends.flatMap fun s => Coins.denoms s.2.2)) ++
    cfgs.map (·.floor.1) ++
    (dumps.flatMap fun d => d.deltas.flatMap fun x => Coins.denoms x.2)).eraseDups

/-- The balance change of account `a` an element with fate `f` prescribes (fees as the property
says, plus — success only — what its own messages moved). -/
def elemDelta (cfg : Cfg) (e : SeqTx) (f : Fate) (ds : List Denom) (a : Addr) : Coins :=
  (if f = .ok then sendsDelta e.sends a else []) ++ ds.map fun d => (d, fateFeeDelta cfg e.tx f a d)

/-- All ways of deciding the elements whose fate the block result leaves open. -/
def fateChoices : List (Option Fate) → List (List Fate)
  | [] => [[]]
  | some f :: rest => (fateChoices rest).map (f :: ·)
  | none :: rest => (fateChoices rest).flatMap fun l => [Fate.rejected :: l, Fate.failed :: l]

/-- The allowance G → `p` after the elements of a block, by their fates. -/
def allowAfter (op : SeqOp) (p : Addr) : List (SeqTx × Fate) → Allow → Option Allow
  | [], a => some a
  | (e, f) :: rest, a =>
    if e.fg ∧ e.tx.payer = p then
      match fateAllow (op.cfgOf e) e.tx f a with
      | some a' => allowAfter op p rest a'
      | none => none
    else allowAfter op p rest a

/-- One block (or one mempool arrival) against the states observed before and after it: `none` =
the fates `efs` explain the observed change exactly, `some clause` otherwise. -/
def blockClause (op : SeqOp) (efs : List (SeqTx × Fate)) (prev cur : Dump) (ds : List Denom) : Option String :=
  let obs (a : Addr) : Coins := Coins.canon (Coins.sub (cur.delta a) (prev.delta a))
  let exp (a : Addr) : Coins := Coins.canon (efs.flatMap fun (e, f) => elemDelta (op.cfgOf e) e f ds a)
  let okSrc (a : Addr) : Bool := efs.any fun (e, f) => f = .ok ∧ e.tx.from = a
  let failSrc (a : Addr) : Bool := efs.any fun (e, f) => f = .failed ∧ e.tx.from = a
  let anyOk : Bool := efs.any fun (_, f) => f = .ok
  let order := (roles.filter okSrc) ++ (roles.filter fun a => !okSrc a && failSrc a) ++
    (roles.filter fun a => !okSrc a && !failSrc a && a != "C") ++ (roles.filter fun a => !okSrc a && !failSrc a && a == "C")
  match order.find? (fun a => obs a ≠ exp a) with
  | some a =>
    if okSrc a then some "seq_success_debit_not_declared_fee"
    else if failSrc a then some "seq_failed_tx_debit_not_base_fee"
    else if a = "C" then
      some (if anyOk then "seq_collector_credit_wrong" else "seq_failed_tx_collector_not_base_fee")
    else if anyOk then some s!"seq_recipient_credit_wrong:{a}"
    else some "seq_failed_or_rejected_tx_changed_other_balances"
  | none =>
    if Coins.canon (roles.flatMap obs) ≠ [] then some "seq_not_conserved"
    else
      let alBad (p : Addr) : Bool :=
        match parseAllow (prev.al p) with
        | none => true
        | some a0 =>
          match allowAfter op p efs a0 with
          | some a1 => showAllow a1 != cur.al p
          | none => true
      if alBad "P" ∨ alBad "X" then some "seq_allowance_not_charged_as_prescribed" else none

/-- A block of really executed transactions: every element that succeeded must have declared at
least base + everything it incurred; the observed sequences say how many elements of each payer
got past the ante handler; some assignment of fates to the elements the block result leaves open
(no events, not ok: refused by the ante handler, or failed in the end-of-tx sweep) that agrees
with those counts must explain the observed change of every balance and allowance EXACTLY. -/
def verdictBlock (op : SeqOp) (elems : List (SeqTx × String)) (prev cur : Dump) (ds : List Denom) : String :=
  let uncovered := elems.any fun (e, cls) =>
    cls = "ok" ∧ ¬ covered e.tx.fee (baseFee (op.cfgOf e).floor e.tx.gas) (stepsIncurred (op.cfgOf e) e.tx.steps) ds
  if uncovered then "fail:seq_fee_not_covered_but_success" else
  let known : List (Option Fate) := elems.map fun (e, cls) =>
    if cls = "ok" then some .ok else if e.ev then some .failed else none
  let choices := (fateChoices known).map fun fs => (elems.map (·.1)).zip fs
  let consistent := choices.filter fun efs =>
    seqPayers.all fun r =>
      cur.seq r == prev.seq r + (efs.filter fun (e, f) => e.tx.payer = r ∧ f ≠ .rejected).length
  match consistent with
  | [] => "fail:seq_sequence_not_count_of_executed_txs"
  | first :: _ =>
    if consistent.any fun efs => (blockClause op efs prev cur ds).isNone then "ok"
    else "fail:" ++ ((blockClause op first prev cur ds).getD "seq")

/-- One mempool arrival against the mempool states observed before and after it. -/
def verdictArrival (op : SeqOp) (e : SeqTx) (cls : String) (prev cur : Dump) (ds : List Denom) : String :=
  let cfg := op.cfgOf e
  let obs (a : Addr) : Coins := Coins.canon (Coins.sub (cur.delta a) (prev.delta a))
  let otherAl : Addr := if e.tx.payer = "P" then "X" else "P"
  if cls ≠ "ok" then
    if roles.any (fun a => obs a ≠ []) then "fail:mempool_reject_charged"
    else if seqPayers.any (fun r => cur.seq r ≠ prev.seq r) ∨ cur.alP ≠ prev.alP ∨ cur.alX ≠ prev.alX then
      "fail:mempool_reject_changed_state"
    else "ok"
  else if ¬ admissible cfg e.tx.fee e.tx.gas e.tx.top ds then "fail:mempool_admitted_insufficient_fee"
  else if roles.any (fun a => obs a ≠ Coins.canon (ds.map fun d => (d, fateFeeDelta cfg e.tx .failed a d))) then
    "fail:mempool_admitted_not_charged_base_fee"
  else if seqPayers.any (fun r => cur.seq r ≠ prev.seq r + (if r = e.tx.payer then 1 else 0)) then
    "fail:mempool_admitted_sequence"
  else
    let used : Bool := e.fg
    let usedBad : Bool := used && (match parseAllow (prev.al e.tx.payer) with
      | none => true
      | some a0 => match fateAllow cfg e.tx .failed a0 with
        | some a1 => showAllow a1 != cur.al e.tx.payer
        | none => true)
    let restBad : Bool := (cur.al otherAl != prev.al otherAl) || (!used && cur.al e.tx.payer != prev.al e.tx.payer)
    if usedBad ∨ restBad then "fail:mempool_admitted_allowance_not_base_fee" else "ok"

def verdictSeq (op : SeqOp) (impl : String) : String :=
  let ws := words impl
  let n := op.txs.length
  let pre := if op.check then "c" else "t"
  match (List.range n).mapM (fun i => kv ws s!"{pre}{i + 1}") with
  | none => "-"
  | some clss =>
    let nb := if op.check then n else op.nBlocks
    match (List.range nb).mapM (parseDump ws) with
    | none => "-"
    | some dumps =>
      let ds := seqDenoms op dumps
      let elems := op.txs.zip clss
      let vs := (List.range nb).map fun b =>
        let prev := if b = 0 then op.dump0 else dumps.getD (b - 1) op.dump0
        let cur := dumps.getD b op.dump0
        let es := elems.filter fun (e, _) => e.blk = b
        if op.check then
          match es with
          | [(e, cls)] => verdictArrival op e cls prev cur ds
          | _ => "-"
        else verdictBlock op es prev cur ds
      match vs.find? (·.startsWith "fail:") with
      | some v => v
      | none => if vs.all (· = "ok") then "ok" else "-"

def stepSeq (ws : List String) (impl : Option String) : String × String :=
  match parseSeqOp ws with
  | none => ("bad-op", "-")
  | some op =>
    let v := match impl with
      | none => "-"
      | some i => verdictSeq op i
    (renderSeq op, v)

def driverAll : Driver where
  σ := Unit
  init := ()
  step := fun s op impl =>
    let ws := words op
    let (o, v) := if ws.head? = some "seq" ∨ ws.head? = some "mempool" then stepSeq ws impl else stepOp ws impl
    (s, o, v)

end PvModel.Txfee
