/-
Line-protocol driver + implementation-output checker for the MetadataAddress codec (`mdaddr`).

ops (bytes are lower-case hex, `-` = empty):
  new <kind> <uuid> <uuid2 | name-utf8 | ->      constructors; kind ∈ scope session record cspec sspec rspec
  parse <bytes>                                   every accessor / validator on arbitrary bytes
  derive <bytes> session <uuid> | record <name> | rspec <name>      As…Address on arbitrary bytes
  key <ix> <first> <second>                       index key makers; ix ∈ as ss ap cp ac nav
  pfx <ix> <a> <a2> <id>                          is key(a2,id) under the iterator prefix of a?
  unb32 <utf8 bytes of a text>                    ParseMetadataAddressFromBech32 / MetadataAddressFromBech32
-/
import PvModel.MdAddrSpec
import PvModel.Sha256
-- registry: mdaddr PvModel.MdAddr.driver

namespace PvModel.MdAddr
open PvModel

def hexDigit (n : Nat) : Char := if n < 10 then Char.ofNat (48 + n) else Char.ofNat (87 + n)

def toHex (bs : Bytes) : String :=
  if bs.isEmpty then "-" else
  String.ofList (bs.flatMap fun b => [hexDigit (b.toNat / 16), hexDigit (b.toNat % 16)])

def hexVal? (c : Char) : Option Nat :=
  if '0' ≤ c ∧ c ≤ '9' then some (c.toNat - 48)
  else if 'a' ≤ c ∧ c ≤ 'f' then some (c.toNat - 87) else none

def ofHexChars : List Char → Option Bytes
  | [] => some []
  | [_] => none
  | a :: b :: r => do
    let x ← hexVal? a
    let y ← hexVal? b
    let t ← ofHexChars r
    pure (UInt8.ofNat (16 * x + y) :: t)

def ofHex? (s : String) : Option Bytes := if s = "-" then some [] else ofHexChars s.toList

def bytesToString (bs : Bytes) : String :=
  match String.fromUTF8? (ByteArray.mk bs.toArray) with
  | some s => s
  | none => ""

/-- the driver's instance of the abstract name hash: real SHA-256 -/
def realSha (s : String) : Bytes := Sha256.sumString s

def kindOfString? (s : String) : Option Kind :=
  match s with
  | "scope" => some .scope | "session" => some .session | "record" => some .record
  | "cspec" => some .contractSpec | "sspec" => some .scopeSpec | "rspec" => some .recordSpec
  | _ => none

def indexOfString? (s : String) : Option Index :=
  match s with
  | "as" => some .addrScope | "ss" => some .scopeSpecScope | "ap" => some .addrScopeSpec
  | "cp" => some .cSpecScopeSpec | "ac" => some .addrCSpec | "nav" => some .nav
  | _ => none

def showE (e : Except AErr Bytes) : String :=
  match e with
  | .ok b => toHex b
  | .error .err => "!"
  | .error .panic => "!!"

/-- canonical rendering of everything the Go type says about a byte string -/
def describe (bz : Bytes) : String :=
  let (hrp, err) := verifyMetadataAddressFormat bz
  let v := match err with | none => "ok" | some e => e.toString
  let d := getDetails bz
  let is := String.join ([isScopeAddress bz, isSessionAddress bz, isRecordAddress bz,
      isContractSpecificationAddress bz, isScopeSpecificationAddress bz,
      isRecordSpecificationAddress bz].map boolStr)
  let det := "/".intercalate [toHex d.pfx, toHex d.primary, toHex d.secondary, toHex d.nameHash,
      toHex d.excess, toHex d.parent]
  let b32 := if err.isNone then (toBech32 bz).getD "?" else "-"
  -- a session address put together again from its own parts: parent scope address + session uuid
  let rb := if err.isNone ∧ isSessionAddress bz then
      (match asScopeAddress bz, sessionUUID bz with
       | .ok sc, .ok su => showE (asSessionAddress sc su)
       | _, _ => "!")
    else "-"
  s!"a={toHex bz} v={v} hrp={if hrp = "" then "-" else hrp} pu={showE (primaryUUID bz)} " ++
  s!"su={showE (secondaryUUID bz)} nh={showE (nameHash bz)} scu={showE (scopeUUID bz)} " ++
  s!"seu={showE (sessionUUID bz)} ssu={showE (scopeSpecUUID bz)} csu={showE (contractSpecUUID bz)} " ++
  s!"asc={showE (asScopeAddress bz)} acs={showE (asContractSpecAddress bz)} " ++
  s!"sit={showE (scopeSessionIteratorPrefix bz)} rit={showE (scopeRecordIteratorPrefix bz)} " ++
  s!"rsit={showE (contractSpecRecordSpecIteratorPrefix bz)} is={is} um={boolStr (unmarshal bz)} " ++
  s!"det={det} b32={b32} rb={rb}"

inductive Op where
  | new (k : Kind) (u : Bytes) (arg : Bytes)
  | parse (bz : Bytes)
  | derive (bz : Bytes) (k : Kind) (arg : Bytes)
  | key (ix : Index) (first second : Bytes)
  | pfx (ix : Index) (a a2 id : Bytes)
  | unb32 (text : Bytes)

def parseOp (ws : List String) : Option Op :=
  match ws with
  | ["new", k, u, arg] => do pure (.new (← kindOfString? k) (← ofHex? u) (← ofHex? arg))
  | ["parse", bz] => do pure (.parse (← ofHex? bz))
  | ["derive", bz, k, arg] => do pure (.derive (← ofHex? bz) (← kindOfString? k) (← ofHex? arg))
  | ["key", ix, a, b] => do pure (.key (← indexOfString? ix) (← ofHex? a) (← ofHex? b))
  | ["pfx", ix, a, a2, id] => do pure (.pfx (← indexOfString? ix) (← ofHex? a) (← ofHex? a2) (← ofHex? id))
  | ["unb32", t] => do pure (.unb32 (← ofHex? t))
  | _ => none

/-- the constructors, by kind; `none` = panic -/
def build (k : Kind) (u arg : Bytes) : Option Bytes :=
  match k with
  | .scope => some (scopeMetadataAddress u)
  | .session => some (sessionMetadataAddress u arg)
  | .record => recordMetadataAddress realSha u (bytesToString arg)
  | .contractSpec => some (contractSpecMetadataAddress u)
  | .scopeSpec => some (scopeSpecMetadataAddress u)
  | .recordSpec => recordSpecMetadataAddress realSha u (bytesToString arg)

/-- the tail the documentation prescribes for `new k u arg` -/
def expectedTail (k : Kind) (arg : Bytes) : Bytes :=
  match k with
  | .session => arg
  | .record | .recordSpec => nameHash16 realSha (bytesToString arg)
  | _ => []

def runOp (op : Op) : String :=
  match op with
  | .new k u arg =>
    match build k u arg with
    | none => "panic"
    | some a => "ok " ++ describe a
  | .parse bz => describe bz
  | .derive bz k arg =>
    let r := match k with
      | .session => asSessionAddress bz arg
      | .record => asRecordAddress realSha bz (bytesToString arg)
      | .recordSpec => asRecordSpecAddress realSha bz (bytesToString arg)
      | .scope => asScopeAddress bz
      | .contractSpec => asContractSpecAddress bz
      | .scopeSpec => .error .err
    match r with
    | .ok a => "ok " ++ toHex a
    | .error .err => "err"
    | .error .panic => "panic"
  | .key ix a b =>
    match iterPrefix ix a, indexKey ix a b with
    | some p, some k => s!"p={toHex p} k={toHex k} d={toHex (k.drop p.length)}"
    | _, _ => "panic"
  | .pfx ix a a2 id =>
    match iterPrefix ix a, indexKey ix a2 id with
    | some p, some k => boolStr (p.isPrefixOf k)
    | _, _ => "panic"
  | .unb32 t =>
    match parseMetadataAddressFromBech32 (bytesToString t) with
    | some (a, hrp) => s!"ok {toHex a} {hrp}"
    | none => "err"

/-- checks on a described VALID address `a` whose documented components are `p` -/
def checkValid (ws : List String) (a : Bytes) (p : Parts) : String :=
  let f (k : String) := (kv ws k).getD "?"
  let det := (f "det").splitOn "/"
  let parentHex := match p.parent? with | some q => toHex q.toBytes | none => "-"
  let sec := if p.kind = .session then toHex p.tail else "-"
  let nh := if p.kind = .record ∨ p.kind = .recordSpec then toHex p.tail else "-"
  let isExp := String.join (Kind.all.map fun k => boolStr (k = p.kind))
  if f "v" ≠ "ok" then "fail:built_or_wellformed_address_rejected"
  else if f "hrp" ≠ p.kind.hrp then "fail:address_wrong_type"
  else if det ≠ [toHex [p.kind.byte], toHex p.primary, sec, nh, "-", parentHex] then
    (if det.getD 5 "" ≠ parentHex then "fail:derived_parent_mismatch" else "fail:parts_roundtrip")
  else if p.kind.parent? = some .scope ∧ f "asc" ≠ parentHex then "fail:derived_parent_mismatch"
  else if p.kind.parent? = some .contractSpec ∧ f "acs" ≠ parentHex then "fail:derived_parent_mismatch"
  else if f "pu" ≠ toHex p.primary then "fail:parts_roundtrip"
  else if f "is" ≠ isExp then "fail:is_kind_flags"
  else if f "um" ≠ "1" then "fail:unmarshal_rejects_valid"
  -- the implementation's text, read by the model's decoder, gives back the bytes and the hrp
  else if parseMetadataAddressFromBech32 (f "b32") ≠ some (a, p.kind.hrp) then "fail:bech32_roundtrip"
  else if f "a" ≠ toHex a then "fail:bytes_roundtrip"
  -- parts → address: a session address is rebuilt from its scope address and its session uuid
  else if p.kind = .session ∧ f "rb" ≠ toHex a then "fail:rebuild_from_parts"
  else "ok"

/-- The documented result of `As…Address` on a WELL-FORMED parent address (`none` = the
documentation does not promise a result): a scope / session / record address yields the scope
address, the session address of every 16-byte uuid and the record address of every name that does
not normalise to ""; a contract-spec / record-spec address yields the contract-spec address and
the record-spec address of every such name.  (`PvProofs.C14.asSessionAddress_of_toBytes`,
`asRecordAddress_of_session`, `asRecordSpecAddress_of_contractSpec`, `getDetails_parent_*`.) -/
def derivedParts? (bz : Bytes) (k : Kind) (arg : Bytes) : Option Parts :=
  match Parts.ofBytes? bz with
  | none => none
  | some p =>
    let underScope := p.kind = .scope ∨ p.kind = .session ∨ p.kind = .record
    let underCSpec := p.kind = .contractSpec ∨ p.kind = .recordSpec
    let name := bytesToString arg
    let named := normalizeName name ≠ ""
    match k with
    | .scope => if underScope then some ⟨.scope, p.primary, []⟩ else none
    | .session => if underScope ∧ arg.length = 16 then some ⟨.session, p.primary, arg⟩ else none
    | .record => if underScope ∧ named then some ⟨.record, p.primary, nameHash16 realSha name⟩ else none
    | .contractSpec => if underCSpec then some ⟨.contractSpec, p.primary, []⟩ else none
    | .recordSpec => if underCSpec ∧ named then some ⟨.recordSpec, p.primary, nameHash16 realSha name⟩ else none
    | .scopeSpec => none

/-- the property's conclusions evaluated on the implementation's output -/
def verdict (op : Op) (impl : String) : String :=
  let ws := words impl
  match op with
  | .new k u arg =>
    if ws.head? = some "panic" then
      -- only the name constructors may panic, and only for names that normalise to ""
      if (k = .record ∨ k = .recordSpec) ∧ normalizeName (bytesToString arg) = "" then "ok"
      else "fail:constructor_panics"
    else
      match (kv ws "a").bind ofHex? with
      | none => "fail:bytes_roundtrip"
      | some a =>
        let want : Parts := ⟨k, u, expectedTail k arg⟩
        -- build → bytes → parse gives back the inputs
        if Parts.ofBytes? a ≠ some want then "fail:bytes_roundtrip"
        else checkValid ws a want
  | .parse bz =>
    let v := (kv ws "v").getD "?"
    if (v = "ok") ≠ decide (WellFormed bz) then "fail:validate_iff_wellformed"
    else if v = "ok" then
      match Parts.ofBytes? bz with
      | none => "fail:validate_iff_wellformed"
      | some p => if p.toBytes ≠ bz then "fail:parts_roundtrip" else checkValid ws bz p
    else
      if (kv ws "is").getD "?" ≠ "000000" then "fail:is_kind_flags"
      else if (kv ws "um").getD "?" ≠ boolStr bz.isEmpty then "fail:unmarshal_accepts_invalid"
      else "ok"
  | .derive bz k arg =>
    match ws with
    | ["ok", ah] =>
      match (ofHex? ah).bind Parts.ofBytes? with
      | none => "fail:derived_address_invalid"
      | some p =>
        let tail := match k with
          | .session => arg
          | .record | .recordSpec => nameHash16 realSha (bytesToString arg)
          | _ => []
        if p.kind ≠ k then "fail:derived_address_invalid"
        else if p.primary ≠ slice1_17 bz then "fail:derived_parent_mismatch"
        else if p.tail ≠ tail then "fail:derived_address_invalid"
        else "ok"
    | _ =>
      -- parts → address loses nothing: every documented (parent, component) pair has its address
      match derivedParts? bz k arg with
      | some _ => "fail:derive_rejects_valid_parts"
      | none => "ok"
  | .key _ _ b =>
    match (kv ws "d") with
    | some d => if d = toHex b then "ok" else "fail:index_key_decode"
    | none => "ok"
  | .pfx _ a a2 _ =>
    -- an empty first component has no length byte: its prefix is the whole index (degenerate)
    if a = [] ∨ a2 = [] then "ok" else
    match ws with
    | ["1"] => if a = a2 then "ok" else "fail:index_key_prefix_confusion"
    | ["0"] => if a = a2 then "fail:index_key_prefix_missed" else "ok"
    | _ => "ok"
  | .unb32 t =>
    match ws with
    | ["ok", ah, hrp] =>
      -- an accepted text denotes a well-formed address of the hrp's type, and writing that
      -- address gives the text back (in lower case): text → bytes → text loses nothing
      match (ofHex? ah).bind Parts.ofBytes? with
      | none => "fail:bech32_parse_accepts_invalid"
      | some p =>
        if p.kind.hrp ≠ hrp then "fail:address_wrong_type"
        else if toBech32 p.toBytes ≠ some (String.ofList ((bytesToString t).toList.map lowerChar)) then
          "fail:bech32_roundtrip"
        else "ok"
    | ["mismatch"] => "fail:bech32_parse_variants_disagree"
    | _ => "ok"

def stepOp (ws : List String) (impl : Option String) : String × String :=
  match parseOp ws with
  | none => ("bad-op", "-")
  | some op =>
    let out := runOp op
    let v := match impl with
      | none => "-"
      | some i => verdict op i
    (out, v)

def driver : Driver where
  σ := Unit
  init := ()
  step := fun _ op impl => let (o, v) := stepOp (words op) impl; ((), o, v)

end PvModel.MdAddr
