/-
Line-protocol driver + implementation-output checker for the C20 model (`admit`).

Ops (every line is self-contained; `-` = empty list / absent coin, `%` = empty string,
`~` = a space inside a name):
  reqattr   req=<s> acc=<s>                                 -> ok 0|1
  unmatched reqs=a|b accs=c|d                               -> ok <unmatched reqs>
  normalize s=<s>                                           -> ok <normalised>
  flatfee   kind=ask|bid|commit|seller opts=<coins> fee=<coin>   -> ok | err:fee
  askprice  ssr=<ratios> price=<coin> flat=<coin>           -> ok | err:price | panic:overflow
  buyerfee  bsf=<coins> bsr=<ratios> price=<coin> fee=<coins>    -> ok | err:fee | panic:overflow
  cancreate kind=ask|bid|commit reqs=.. attrs=..            -> ok 0|1
  createask|createbid|commit|fillbids|fillasks  <market> attrs=.. bal=<coins> <message>
                                                            -> ok | err:<class> | panic:overflow
<market> = ex=0|1 ao=0|1 us=0|1 ac=0|1 caf= cbf= ccf= ssf= bsf= (coins) ssr= bsr= (ratios
`pd:pa:fd:fa|…`) ra= rb= rc= (required attributes as requested at market creation).
<message> = assets= price= sflat= cfee= fees= amount=.
User fills with `ids=`: the full admission.  `orders=<o>|<o>…` are resting orders created, in this
order (ids 1, 2, …), right after the market's creation by the real CreateBid / CreateAsk:
`<o>` = `<b|a><B|A><1|2>:<assets>:<price>` (side; owner B = another account, A = the filler
itself; market 1 = the line's market, 2 = another market); `ids=1|2|…` the ids the fill names;
a `close` among the `post=` messages cancels the orders of market 1;
`total=<coins>` the total assets of a fill of bids (`price=` is the total price of a fill of
asks); `bal=` the filler's balance.  Without `ids=` the line is a gate line (an absent id is
named and the outcome observed up to the order lookup).
Optional history around the creation of the market (all sent by the governance authority for
the market's id): `pre=<steps>` before the market is created (with `ex=0`: for an id that
never becomes a market), `post=<steps>` after it.  `<steps>` = `step;step;…` with
  ao0|ao1|us0|us1|ac0|ac1   MsgMarketUpdateAcceptingOrders / UserSettle / AcceptingCommitments
  close                     MsgGovCloseMarket
  F<kind>/<remove>/<add>    MsgGovManageFees, kind caf|cbf|ccf|ssf|bsf (coins) or ssr|bsr (ratios)
  R<kind>/<remove>/<add>    MsgMarketManageReqAttrs, kind ra|rb|rc (names `a|b`)
-/
import PvModel.AdmitSpec
-- registry: admit PvModel.Admit.driver

namespace PvModel.Admit
open PvModel

def decodeStr (s : String) : String :=
  if s = "%" then "" else s.replace "~" " "
def encodeStr (s : String) : String :=
  if s = "" then "%" else s.replace " " "~"

def getStrs (ws : List String) (k : String) : List String :=
  (splitList ((kv ws k).getD "-")).map decodeStr

def getCoins (ws : List String) (k : String) : Option (List Coin) :=
  parseCoins? ((kv ws k).getD "-")

def getCoin (ws : List String) (k : String) : Option (Option Coin) :=
  match (kv ws k).getD "-" with
  | "-" => some none
  | s => (parseCoin? s).map some

def parseRatio? (s : String) : Option Ratio :=
  match s.splitOn ":" with
  | [pd, pa, fd, fa] =>
    match parseInt? pa, parseInt? fa with
    | some pa, some fa => some ⟨pd, pa, fd, fa⟩
    | _, _ => none
  | _ => none

def getRatios (ws : List String) (k : String) : Option (List Ratio) :=
  (splitList ((kv ws k).getD "-")).mapM parseRatio?

def flag (ws : List String) (k : String) (dflt : Bool) : Bool :=
  match kv ws k with
  | some "1" => true
  | some "0" => false
  | _ => dflt

/-- the market as requested at creation (`none` = no such market) -/
def parseMarket (ws : List String) : Option (Option Market) := do
  let caf ← getCoins ws "caf"
  let cbf ← getCoins ws "cbf"
  let ccf ← getCoins ws "ccf"
  let ssf ← getCoins ws "ssf"
  let bsf ← getCoins ws "bsf"
  let ssr ← getRatios ws "ssr"
  let bsr ← getRatios ws "bsr"
  if !flag ws "ex" true then return none
  return some {
    createAskFlat := caf, createBidFlat := cbf, createCommitFlat := ccf, sellerFlat := ssf,
    buyerFlat := bsf, sellerRatios := ssr, buyerRatios := bsr,
    acceptingOrders := flag ws "ao" true, userSettle := flag ws "us" false,
    acceptingCommitments := flag ws "ac" false,
    reqAsk := getStrs ws "ra", reqBid := getStrs ws "rb", reqCommit := getStrs ws "rc" }

def parseStrs (s : String) : List String := (splitList s).map decodeStr

def parseStep? (s : String) : Option Step :=
  match s with
  | "ao0" => some (.acceptingOrders false)
  | "ao1" => some (.acceptingOrders true)
  | "us0" => some (.userSettle false)
  | "us1" => some (.userSettle true)
  | "ac0" => some (.acceptingCommitments false)
  | "ac1" => some (.acceptingCommitments true)
  | "close" => some .close
  | _ =>
    match s.splitOn "/" with
    | [hd, rem, add] =>
      let flat (k : FlatKind) : Option Step := do
        let r ← parseCoins? rem
        let a ← parseCoins? add
        return .flatFees k r a
      let ratio (seller : Bool) : Option Step := do
        let r ← (splitList rem).mapM parseRatio?
        let a ← (splitList add).mapM parseRatio?
        return .ratios seller r a
      match hd with
      | "Fcaf" => flat .ask
      | "Fcbf" => flat .bid
      | "Fccf" => flat .commit
      | "Fssf" => flat .seller
      | "Fbsf" => flat .buyer
      | "Fssr" => ratio true
      | "Fbsr" => ratio false
      | "Rra" => some (.reqAttrs .ask (parseStrs rem) (parseStrs add))
      | "Rrb" => some (.reqAttrs .bid (parseStrs rem) (parseStrs add))
      | "Rrc" => some (.reqAttrs .commit (parseStrs rem) (parseStrs add))
      | _ => none
    | _ => none

def getSteps (ws : List String) (k : String) : Option (List Step) :=
  (splitList ((kv ws k).getD "-") ";").mapM parseStep?

def showR : Except Rej Unit → String
  | .ok _ => "ok"
  | .error e => e.toString

def nodupKeys {α} [DecidableEq α] (l : List α) : Bool := decide l.Nodup

def flatsWfB (opts : List Coin) : Bool :=
  nodupKeys (opts.map (·.1)) && opts.all fun o => decide (0 < o.2)
def ratiosWfB (rs : List Ratio) : Bool :=
  nodupKeys (rs.map fun r => (r.pd, r.fd)) && rs.all fun r => decide (0 < r.pa) && decide (0 ≤ r.fa)
def coinOptNonneg (c : Option Coin) : Bool := match c with | some f => decide (0 ≤ f.2) | none => true

def buyerWfB (flats : List Coin) (ratios : List Ratio) (price : Coin) : Bool :=
  flatsWfB flats && ratiosWfB ratios && decide (0 ≤ price.2) &&
  decide (RatiosFit ratios price) && decide (SumsFit flats ratios price)
def askWfB (rs : List Ratio) (price : Coin) (flat : Option Coin) : Bool :=
  ratiosWfB rs && decide (0 < price.2) && coinOptNonneg flat &&
  decide (RatiosFit rs price) && decide (AskSumFits rs price flat)

structure Parsed where
  requested : Option Market
  attrs : List String
  bal : Coins
  hist : History

/-- the store entries under the market's id at the end of the line's history (model) -/
def Parsed.store (p : Parsed) : MStore := p.hist.run

def parseCommon (ws : List String) : Option Parsed := do
  let mk ← parseMarket ws
  let bal ← getCoins ws "bal"
  let pre ← getSteps ws "pre"
  let post ← getSteps ws "post"
  return { requested := mk, attrs := getStrs ws "attrs", bal := bal,
           hist := { pre := pre, requested := mk, post := post } }

def parseAsk (ws : List String) : Option AskMsg := do
  let assets ← (kv ws "assets") >>= parseCoin?
  let price ← (kv ws "price") >>= parseCoin?
  let sflat ← getCoin ws "sflat"
  let cfee ← getCoin ws "cfee"
  return { marketId := 1, assets := assets, price := price, sflat := sflat, cfee := cfee }

def parseBid (ws : List String) : Option BidMsg := do
  let assets ← (kv ws "assets") >>= parseCoin?
  let price ← (kv ws "price") >>= parseCoin?
  let fees ← getCoins ws "fees"
  let cfee ← getCoin ws "cfee"
  return { marketId := 1, assets := assets, price := price, fees := fees, cfee := cfee }

def parseCommit (ws : List String) : Option CommitMsg := do
  let amount ← getCoins ws "amount"
  let cfee ← getCoin ws "cfee"
  return { marketId := 1, amount := amount, cfee := cfee }

def fillerName : String := "A"

def parseOrder? (idx : Nat) (s : String) : Option Order :=
  match s.splitOn ":" with
  | [hd, assets, price] =>
    match hd.toList, parseCoin? assets, parseCoin? price with
    | [side, owner, mkt], some a, some p =>
      if (side = 'b' || side = 'a') && (owner = 'A' || owner = 'B') && (mkt = '1' || mkt = '2') then
        some { id := idx + 1, isBid := side = 'b', marketId := if mkt = '1' then 1 else 2,
               owner := String.singleton owner, assets := a, price := p }
      else none
    | _, _, _ => none
  | _ => none

def parseOrdersFrom (idx : Nat) : List String → Option (List Order)
  | [] => some []
  | s :: rest => do
    let o ← parseOrder? idx s
    let os ← parseOrdersFrom (idx + 1) rest
    return o :: os

/-- the resting orders at the time of the fill: created right after the market (before the
`post=` messages), cancelled by a later MsgGovCloseMarket -/
def getBook (ws : List String) : Option (List Order) := do
  let book ← parseOrdersFrom 0 (splitList ((kv ws "orders").getD "-"))
  let post ← getSteps ws "post"
  return ordersAfter post 1 book

def getIds (ws : List String) : Option (List Nat) :=
  (splitList ((kv ws "ids").getD "-")).mapM parseNat?

def parseFillBids (ws : List String) : Option FillBidsMsg := do
  let total ← getCoins ws "total"
  let ids ← getIds ws
  let sflat ← getCoin ws "sflat"
  let cfee ← getCoin ws "cfee"
  return { marketId := 1, totalAssets := total, ids := ids, sflat := sflat, cfee := cfee }

def parseFillAsks (ws : List String) : Option FillAsksMsg := do
  let price ← (kv ws "price") >>= parseCoin?
  let ids ← getIds ws
  let fees ← getCoins ws "fees"
  let cfee ← getCoin ws "cfee"
  return { marketId := 1, totalPrice := price, ids := ids, fees := fees, cfee := cfee }

def showF : Except FillRej Unit → String
  | .ok _ => "ok"
  | .error e => e.toString

def hasIds (ws : List String) : Bool := (kv ws "ids").isSome

def flatKind (m : Market) : String → Option (List Coin)
  | "ask" => some m.createAskFlat
  | "bid" => some m.createBidFlat
  | "commit" => some m.createCommitFlat
  | "seller" => some m.sellerFlat
  | _ => none

/-- Model output for one op line. -/
def run (ws : List String) : String :=
  match ws with
  | "reqattr" :: rest =>
    match kv rest "req", kv rest "acc" with
    | some r, some a => s!"ok {boolStr (isReqAttrMatch (decodeStr r) (decodeStr a))}"
    | _, _ => "bad-op"
  | "unmatched" :: rest =>
    let u := findUnmatchedReqAttrs (getStrs rest "reqs") (getStrs rest "accs")
    "ok " ++ (if u.isEmpty then "-" else "|".intercalate (u.map encodeStr))
  | "normalize" :: rest =>
    match kv rest "s" with
    | some s => "ok " ++ encodeStr (normalizeName (decodeStr s))
    | none => "bad-op"
  | "flatfee" :: rest =>
    match getCoins rest "opts", getCoin rest "fee" with
    | some opts, some fee => showR (validateFlatFee opts fee)
    | _, _ => "bad-op"
  | "askprice" :: rest =>
    match getRatios rest "ssr", (kv rest "price") >>= parseCoin?, getCoin rest "flat" with
    | some rs, some price, some flat => showR (validateAskPrice rs price flat)
    | _, _, _ => "bad-op"
  | "buyerfee" :: rest =>
    match getCoins rest "bsf", getRatios rest "bsr", (kv rest "price") >>= parseCoin?, getCoins rest "fee" with
    | some flats, some rs, some price, some fee => showR (validateBuyerSettlementFee flats rs price fee)
    | _, _, _, _ => "bad-op"
  | "cancreate" :: rest =>
    let reqs := getStrs rest "reqs"
    let attrs := getStrs rest "attrs"
    let m : Market := match (kv rest "kind").getD "" with
      | "ask" => { reqAsk := reqs }
      | "bid" => { reqBid := reqs }
      | _ => { reqCommit := reqs }
    let st := storeMarket m
    let stored := match (kv rest "kind").getD "" with
      | "ask" => st.reqAsk
      | "bid" => st.reqBid
      | _ => st.reqCommit
    s!"ok {boolStr (acctHasReqAttrs stored attrs)}"
  | "createask" :: rest =>
    match parseCommon rest, parseAsk rest with
    | some p, some m => showR (createAsk p.store.view p.attrs p.bal m)
    | _, _ => "bad-op"
  | "createbid" :: rest =>
    match parseCommon rest, parseBid rest with
    | some p, some m => showR (createBid p.store.view p.attrs p.bal m)
    | _, _ => "bad-op"
  | "commit" :: rest =>
    match parseCommon rest, parseCommit rest with
    | some p, some m => showR (commitFunds p.store p.attrs p.bal m)
    | _, _ => "bad-op"
  | "fillbids" :: rest =>
    if hasIds rest then
      match parseCommon rest, parseFillBids rest, getBook rest with
      | some p, some m, some book => showF (fillBids p.store.view p.attrs book fillerName p.bal m)
      | _, _, _ => "bad-op"
    else
    match parseCommon rest, getCoin rest "cfee", getCoin rest "sflat" with
    | some p, some cfee, some sflat => showR (fillBidsGate p.store.view p.attrs cfee sflat)
    | _, _, _ => "bad-op"
  | "fillasks" :: rest =>
    if hasIds rest then
      match parseCommon rest, parseFillAsks rest, getBook rest with
      | some p, some m, some book => showF (fillAsks p.store.view p.attrs book fillerName p.bal m)
      | _, _, _ => "bad-op"
    else
    match parseCommon rest, getCoin rest "cfee", (kv rest "price") >>= parseCoin?, getCoins rest "fees" with
    | some p, some cfee, some price, some fees =>
      showR (fillAsksGate p.store.view p.attrs cfee price fees)
    | _, _, _, _ => "bad-op"
  | _ => "bad-op"

/-- verdict for a check with an accept/reject outcome: `spec` is the declarative condition,
`guards` whether the theorem's hypotheses hold for this input. -/
def verdictAR (name : String) (impl : String) (guards spec : Bool) (acceptCl refuseCl : String) : String :=
  if !guards then "-"
  else if impl = "ok" then (if spec then "ok" else s!"fail:{name}_{acceptCl}")
  else if impl.startsWith "err:" then (if spec then s!"fail:{name}_{refuseCl}" else "ok")
  else s!"fail:{name}_panics_inside_guards"

/-- first condition of an admission that does not hold (in the order of the property text) -/
def firstFailing (conds : List (String × Bool)) : Option String :=
  (conds.find? fun c => !c.2).map (·.1)

def verdictAdmit (name : String) (impl : String) (guards : Bool) (conds : List (String × Bool))
    (normOnly : Bool) : String :=
  if !guards then "-"
  else match firstFailing conds with
    | none =>
      if impl = "ok" then "ok"
      else if impl.startsWith "err:" then
        (if normOnly then s!"fail:{name}_refuses_admissible:reqattr_not_normalised"
         else s!"fail:{name}_refuses_admissible")
      else s!"fail:{name}_panics_inside_guards"
    | some c =>
      if impl = "ok" then s!"fail:{name}_admits:{c}" else
      if impl.startsWith "err:" then "ok" else s!"fail:{name}_panics_inside_guards"

def marketFlatsWf (m : Market) : Bool :=
  flatsWfB m.createAskFlat && flatsWfB m.createBidFlat && flatsWfB m.createCommitFlat &&
  flatsWfB m.sellerFlat

/-- The property's conclusion evaluated on what the implementation returned. -/
def check (ws : List String) (impl : String) : String :=
  match ws with
  | "reqattr" :: rest =>
    match kv rest "req", kv rest "acc" with
    | some r, some a =>
      let r := decodeStr r
      let a := decodeStr a
      -- the documented rule on segments (`DocMatch`), independent of `isReqAttrMatch`
      if !decide (MatchGuard r a) then "-"
      else if impl = s!"ok {boolStr (decide (DocMatch r a))}" then "ok"
      else if isWild r then "fail:reqattr_wildcard" else "fail:reqattr_exact"
    | _, _ => "-"
  | "unmatched" :: rest =>
    let reqs := getStrs rest "reqs"
    let accs := getStrs rest "accs"
    if !decide (PairsOk reqs accs) then "-"
    else
      -- exact list: order and multiplicities (theorem `findUnmatched_eq_doc`)
      let want := docUnmatched reqs accs
      let wantS := "ok " ++ (if want.isEmpty then "-" else "|".intercalate (want.map encodeStr))
      if impl = wantS then "ok" else "fail:unmatched_list"
  | "flatfee" :: rest =>
    match getCoins rest "opts", getCoin rest "fee" with
    | some opts, some fee =>
      verdictAR "flatfee" impl (nodupKeys (opts.map (·.1))) (decide (FlatFeeOk opts fee))
        "accepts_uncovered" "refuses_covered"
    | _, _ => "-"
  | "askprice" :: rest =>
    match getRatios rest "ssr", (kv rest "price") >>= parseCoin?, getCoin rest "flat" with
    | some rs, some price, some flat =>
      verdictAR "askprice" impl (askWfB rs price flat) (decide (AskPriceOk rs price flat))
        "accepts_uncoverable" "refuses_coverable"
    | _, _, _ => "-"
  | "buyerfee" :: rest =>
    match getCoins rest "bsf", getRatios rest "bsr", (kv rest "price") >>= parseCoin?, getCoins rest "fee" with
    | some flats, some rs, some price, some fee =>
      -- for fee lists repeating a denom the positional reading applies; the checker only
      -- speaks about valid fee lists (one coin per denom, any order)
      verdictAR "buyerfee" impl (buyerWfB flats rs price && nodupKeys (fee.map (·.1)))
        (decide (BuyerFeeOk flats rs price fee)) "accepts_uncovered" "refuses_covered"
    | _, _, _, _ => "-"
  | "cancreate" :: rest =>
    let reqs := getStrs rest "reqs"
    let attrs := getStrs rest "attrs"
    let kind := (kv rest "kind").getD ""
    let spec := decide (AttrsOkNorm reqs attrs)
    let raw := decide (AttrsOk reqs attrs)
    if !decide (PairsOk (reqs.map normalizeName) attrs) then "-"
    else if impl = s!"ok {boolStr spec}" then "ok"
    else if impl = "ok 1" then s!"fail:cancreate_{kind}_allows_missing_attr"
    else if impl = "ok 0" then
      (if !raw then s!"fail:cancreate_{kind}_denies_holder:reqattr_not_normalised"
       else s!"fail:cancreate_{kind}_denies_holder")
    else s!"fail:cancreate_{kind}_fails"
  | "createask" :: rest =>
    match parseCommon rest, parseAsk rest with
    | some p, some m =>
      match p.hist.configInForce with
      | none => verdictAdmit "createask" impl true [("invalid", m.valid), ("market", false)] false
      | some c =>
        let g := marketFlatsWf c && decide (PairsOk c.reqAsk p.attrs) &&
          (!m.valid || askWfB c.sellerRatios m.price m.sflat)
        verdictAdmit "createask" impl g
          [("invalid", m.valid), ("closed", c.acceptingOrders),
           ("attr", decide (AttrsOk c.reqAsk p.attrs)),
           ("fee", decide (FlatFeeOk c.createAskFlat m.cfee) && decide (FlatFeeOk c.sellerFlat m.sflat)),
           ("price", decide (AskPriceOk c.sellerRatios m.price m.sflat)),
           ("funds", decide (FundsOk p.bal m.cfee m.holdAmount))] false
    | _, _ => "-"
  | "createbid" :: rest =>
    match parseCommon rest, parseBid rest with
    | some p, some m =>
      match p.hist.configInForce with
      | none => verdictAdmit "createbid" impl true [("invalid", m.valid), ("market", false)] false
      | some c =>
        let g := marketFlatsWf c && decide (PairsOk c.reqBid p.attrs) &&
          (!m.valid || buyerWfB c.buyerFlat c.buyerRatios m.price)
        verdictAdmit "createbid" impl g
          [("invalid", m.valid), ("closed", c.acceptingOrders),
           ("attr", decide (AttrsOk c.reqBid p.attrs)),
           ("fee", decide (FlatFeeOk c.createBidFlat m.cfee) &&
                   decide (BuyerFeeOk c.buyerFlat c.buyerRatios m.price m.fees)),
           ("funds", decide (FundsOk p.bal m.cfee m.holdAmount))] false
    | _, _ => "-"
  | "commit" :: rest =>
    match parseCommon rest, parseCommit rest with
    | some p, some m =>
      match p.hist.configInForce with
      | none => verdictAdmit "commit" impl true [("invalid", m.valid), ("market", false)] false
      | some c =>
        -- admissible only because the requested names are normalised (tag of a fixed finding)
        let normOnly := match p.requested with
          | some rq => p.hist.pre.isEmpty && p.hist.post.isEmpty && decide (AttrsOkNorm rq.reqCommit p.attrs) &&
                       !decide (AttrsOk rq.reqCommit p.attrs)
          | none => false
        verdictAdmit "commit" impl (marketFlatsWf c && decide (PairsOk c.reqCommit p.attrs))
          [("invalid", m.valid), ("closed", c.acceptingCommitments),
           ("attr", decide (AttrsOk c.reqCommit p.attrs)),
           ("fee", decide (FlatFeeOk c.createCommitFlat m.cfee)),
           ("funds", decide (FundsOk p.bal m.cfee m.amount))] normOnly
    | _, _ => "-"
  | "fillbids" :: rest =>
    if hasIds rest then
      match parseCommon rest, parseFillBids rest, getBook rest with
      | some p, some m, some book =>
        match p.hist.configInForce with
        | none => verdictAdmit "fillbids" impl true [("invalid", m.valid), ("market", false)] false
        | some c =>
          let prices := namedPrices book m.ids
          let g := marketFlatsWf c && ratiosWfB c.sellerRatios &&
            (sumDenoms prices).all (fun d => decide (0 ≤ Coins.amountOf prices d) &&
              decide (RatiosFit c.sellerRatios (d, Coins.amountOf prices d)))
          let oo := decide (FillBidsOrdersOk (some c) book fillerName m)
          verdictAdmit "fillbids" impl g
            [("invalid", m.valid), ("closed", c.acceptingOrders), ("usersettle", c.userSettle),
             ("attr", decide (AttrsOk c.reqAsk p.attrs)),
             ("fee", decide (FlatFeeOk c.createAskFlat m.cfee) && decide (FlatFeeOk c.sellerFlat m.sflat)),
             ("order", decide (∀ id ∈ m.ids, Fillable book m.marketId true fillerName id)),
             ("total", decide (TotalsEq (namedAssets book m.ids) m.totalAssets)),
             ("ratio", oo),
             ("funds", decide (FillBidsFunded (some c) book p.bal m))] false
      | _, _, _ => "-"
    else
    match parseCommon rest, getCoin rest "cfee", getCoin rest "sflat" with
    | some p, some cfee, some sflat =>
      match p.hist.configInForce with
      | none => verdictAdmit "fillbids" impl true [("invalid", fillBidsValid cfee sflat), ("market", false)] false
      | some c =>
        verdictAdmit "fillbids" impl (marketFlatsWf c && decide (PairsOk c.reqAsk p.attrs))
          [("invalid", fillBidsValid cfee sflat), ("closed", c.acceptingOrders), ("usersettle", c.userSettle),
           ("attr", decide (AttrsOk c.reqAsk p.attrs)),
           ("fee", decide (FlatFeeOk c.createAskFlat cfee) && decide (FlatFeeOk c.sellerFlat sflat))] false
    | _, _, _ => "-"
  | "fillasks" :: rest =>
    if hasIds rest then
      match parseCommon rest, parseFillAsks rest, getBook rest with
      | some p, some m, some book =>
        match p.hist.configInForce with
        | none => verdictAdmit "fillasks" impl true [("invalid", m.valid), ("market", false)] false
        | some c =>
          let named := namedOrders book m.ids
          let g := marketFlatsWf c && ratiosWfB c.sellerRatios &&
            (!m.valid || buyerWfB c.buyerFlat c.buyerRatios m.totalPrice) &&
            named.all (fun o => decide (0 ≤ o.price.2) && decide (RatiosFit c.sellerRatios o.price))
          verdictAdmit "fillasks" impl g
            [("invalid", m.valid), ("closed", c.acceptingOrders), ("usersettle", c.userSettle),
             ("attr", decide (AttrsOk c.reqBid p.attrs)),
             ("fee", decide (FlatFeeOk c.createBidFlat m.cfee) &&
                     decide (BuyerFeeOk c.buyerFlat c.buyerRatios m.totalPrice m.fees)),
             ("order", decide (∀ id ∈ m.ids, Fillable book m.marketId false fillerName id)),
             ("total", decide (TotalsEq (namedPrices book m.ids) [m.totalPrice])),
             ("ratio", decide (FillAsksOrdersOk (some c) book fillerName m)),
             ("funds", decide (FillAsksFunded book p.bal m))] false
      | _, _, _ => "-"
    else
    match parseCommon rest, getCoin rest "cfee", (kv rest "price") >>= parseCoin?, getCoins rest "fees" with
    | some p, some cfee, some price, some fees =>
      match p.hist.configInForce with
      | none => verdictAdmit "fillasks" impl true [("invalid", fillAsksValid cfee price fees), ("market", false)] false
      | some c =>
        let v := fillAsksValid cfee price fees
        let g := marketFlatsWf c && decide (PairsOk c.reqBid p.attrs) &&
          (!v || buyerWfB c.buyerFlat c.buyerRatios price)
        verdictAdmit "fillasks" impl g
          [("invalid", v), ("closed", c.acceptingOrders), ("usersettle", c.userSettle),
           ("attr", decide (AttrsOk c.reqBid p.attrs)),
           ("fee", decide (FlatFeeOk c.createBidFlat cfee) &&
                   decide (BuyerFeeOk c.buyerFlat c.buyerRatios price fees))] false
    | _, _, _, _ => "-"
  | _ => "-"

def driver : Driver where
  σ := Unit
  init := ()
  step := fun _ op impl =>
    let ws := words op
    ((), run ws, match impl with | some i => check ws i | none => "-")

end PvModel.Admit
