/-
C12 — marker operations need the matching access right; authz transfers stay in grant
(executable model).

Mirrors, function by function:
* `MarkerAccount.HasAccess` / `ValidateHasAccess`            x/marker/types/marker.go:138-165
* `MintCoin`, `BurnCoin`, `WithdrawCoins`                     x/marker/keeper/marker.go:169-290
* `AddAccess`, `RemoveAccess`                                 x/marker/keeper/marker.go:82-165
* `FinalizeMarker`, `ActivateMarker`, `CancelMarker`, `DeleteMarker`   marker.go:406-620
* `SetMarkerDenomMetadata`                                    marker.go:811
* `TransferCoin`, `canForceTransferFrom`, `authzHandler`, `validateSendToMarker`
                                                              marker.go:624-724, 790-808, 878
* msg-server-only guards: `GrantAllowance`, `UpdateRequiredAttributes`, `UpdateForcedTransfer`,
  `SetAccountData`, `UpdateSendDenyList`, `AddNetAssetValues`  x/marker/keeper/msg_server.go
* `MarkerTransferAuthorization.Accept` / `DecreaseTransferLimit`   x/marker/types/authz.go:31-96

A handler sees the marker and its caller only through the fields of `Cfg`; everything else a
handler consults (coins in circulation, kind of destination, balance of the source) is an
explicit input, so each function below is total and its error branches are in the order of
the Go code.
-/
import PvModel.Coins
import PvModel.Util

namespace PvModel.Mkracc
open PvModel

/-! ## Access rights, status, type -/

/-- `types.Access` (accessgrant.proto), without `ACCESS_UNSPECIFIED`. -/
inductive Access where
  | mint | burn | deposit | withdraw | delete | admin | transfer | forceTransfer
  deriving DecidableEq, Repr

def Access.all : List Access :=
  [.mint, .burn, .deposit, .withdraw, .delete, .admin, .transfer, .forceTransfer]

def Access.toString : Access → String
  | .mint => "mint" | .burn => "burn" | .deposit => "deposit" | .withdraw => "withdraw"
  | .delete => "delete" | .admin => "admin" | .transfer => "transfer"
  | .forceTransfer => "force_transfer"

def Access.ofString? (s : String) : Option Access := Access.all.find? (·.toString = s)

/-- `types.MarkerStatus` without `Undefined` (a stored marker never has it: `Validate`). -/
inductive Status where
  | proposed | finalized | active | cancelled | destroyed
  deriving DecidableEq, Repr

def Status.all : List Status := [.proposed, .finalized, .active, .cancelled, .destroyed]
def Status.toString : Status → String
  | .proposed => "proposed" | .finalized => "finalized" | .active => "active"
  | .cancelled => "cancelled" | .destroyed => "destroyed"
def Status.ofString? (s : String) : Option Status := Status.all.find? (·.toString = s)

inductive MType where
  | coin | restricted
  deriving DecidableEq, Repr

def MType.toString : MType → String
  | .coin => "coin" | .restricted => "restricted"
def MType.ofString? : String → Option MType
  | "coin" => some .coin | "restricted" => some .restricted | _ => none

/-- What a handler sees of the marker and of its caller. -/
structure Cfg where
  acc : List Access        -- the rights the caller's entry in `AccessControl` carries
  mgr : Bool               -- `caller.Equals(m.GetManager())`
  gov : Bool               -- the signer string equals `k.GetAuthority()`
  status : Status
  mtype : MType
  forced : Bool            -- `m.AllowsForcedTransfer()`
  govCtl : Bool            -- `m.HasGovernanceEnabled()`
  ctlSupply : Bool         -- `k.accountControlsAllSupply(ctx, caller, m)`
  deriving DecidableEq, Repr

/-- `MarkerAccount.HasAccess` for the caller. -/
def Cfg.has (c : Cfg) (a : Access) : Bool := c.acc.contains a

/-- Rejection classes, one per distinguishable error branch. -/
inductive Err where
  | noaccess (a : Access)  -- `ValidateHasAccess`: "<addr> does not have ACCESS_<a> on <denom> marker"
  | perm                   -- other authorisation refusals (manager / admin-or-manager / no grants)
  | status                 -- wrong marker status for the operation
  | mtype                  -- operation needs a restricted marker
  | nogov                  -- "marker does not allow governance control"
  | authority              -- signer is not the governance authority
  | circulation            -- coins outside the marker account (cancel / delete)
  | noauthz                -- no MarkerTransferAuthorization from the source account
  | limit                  -- authz: amount above remaining transfer limit
  | recipient              -- authz: recipient not on the allow list
  | forcedFrom             -- forced transfer out of an account that does not permit it
  | blocked                -- recipient is blocked by the bank module
  | funds                  -- source has not enough coins
  | invalid                -- `ValidateBasic` of the message / `MarkerAccount.Validate` of the marker it would leave
  | negcoin                -- `sdk.Coin.Sub` panics ("negative coin amount"; baseapp turns it into a failed tx)
  | badcoins               -- `sdk.NewCoins` panics on a negative coin ("invalid coin set"; likewise)
  deriving DecidableEq, Repr

def Err.toString : Err → String
  | .noaccess a => "err:noaccess:" ++ a.toString
  | .perm => "err:perm" | .status => "err:status" | .mtype => "err:type" | .nogov => "err:nogov"
  | .authority => "err:authority" | .circulation => "err:circulation" | .noauthz => "err:noauthz"
  | .limit => "err:limit" | .recipient => "err:recipient" | .forcedFrom => "err:forcedfrom"
  | .blocked => "err:blocked" | .funds => "err:funds" | .invalid => "err:invalid"
  | .negcoin => "panic:negcoin" | .badcoins => "panic:other"

abbrev Res := Except Err Unit

/-- `ValidateAddressHasAccess(caller, a)`. -/
def validateHasAccess (c : Cfg) (a : Access) : Res :=
  if c.has a then .ok () else .error (.noaccess a)

/-- Kind of the receiving address, as far as `WithdrawCoins` / `TransferCoin` look at it. -/
inductive Dest where
  | plain       -- not a restricted marker, not blocked
  | rmkDep      -- a restricted marker on which the caller has `deposit`
  | rmkNoDep    -- a restricted marker on which the caller lacks `deposit`
  | blocked     -- `bankKeeper.BlockedAddr` (module accounts)
  deriving DecidableEq, Repr

def Dest.toString : Dest → String
  | .plain => "plain" | .rmkDep => "rmkdep" | .rmkNoDep => "rmknodep" | .blocked => "blocked"
def Dest.ofString? : String → Option Dest
  | "plain" => some .plain | "rmkdep" => some .rmkDep | "rmknodep" => some .rmkNoDep
  | "blocked" => some .blocked | _ => none

/-- `validateSendToMarker` (marker.go:878): deposit right on a restricted destination marker. -/
def validateSendToMarker : Dest → Res
  | .rmkNoDep => .error (.noaccess .deposit)
  | _ => .ok ()

/-! ## Keeper functions behind the messages -/

/-- `MintCoin` (marker.go:214). -/
def mintCoin (c : Cfg) : Res :=
  if !c.has .mint then .error (.noaccess .mint)
  else match c.status with
    | .proposed | .finalized | .active => .ok ()
    | _ => .error .status

/-- `BurnCoin` (marker.go:254). -/
def burnCoin (c : Cfg) : Res :=
  if !c.has .burn then .error (.noaccess .burn)
  else match c.status with
    | .proposed | .finalized | .active => .ok ()
    | _ => .error .status

/-- `WithdrawCoins` (marker.go:169). -/
def withdrawCoins (c : Cfg) (dest : Dest) : Res :=
  if !c.has .withdraw then .error (.noaccess .withdraw)
  else match validateSendToMarker dest with
    | .error e => .error e
    | .ok () =>
      if c.status ≠ .active then .error .status
      else if dest = .blocked then .error .blocked
      else .ok ()

/-- `accountControlsAllSupply` (marker.go:868). As found (`viaBank = false`): the caller's
balance of the marker's denom equals the supply RECORDED in the marker (`m.GetSupply()`),
whatever coins exist — a record of 0 (a marker created with amount 0, and for ever so when its
supply floats, because `IncreaseSupply` only updates the record of fixed-supply markers) makes
every account with a zero balance "control all supply". Repaired (`viaBank = true`): the
caller holds every coin in existence (`bankKeeper.GetSupply`) and there is at least one.
This is what `Cfg.ctlSupply` holds. -/
def accountControlsAllSupplyWith (viaBank : Bool) (callerBal supplyRecord circulating : Int) : Bool :=
  if viaBank then decide (0 < circulating) && circulating == callerBal
  else supplyRecord == callerBal

/- ======================================================================================
   SECOND SWITCH.  `false` = the code as it is (compares with the recorded supply).
   After the repair of `accountControlsAllSupply` (compare with `bankKeeper.GetSupply`,
   require it positive) set this to `true`; the theorems of `PvProofs.C12` cover both values.
   ====================================================================================== -/
def supplyControlViaBank : Bool := true   -- repaired in /repo by a784a9d34

def accountControlsAllSupply (callerBal supplyRecord circulating : Int) : Bool :=
  accountControlsAllSupplyWith supplyControlViaBank callerBal supplyRecord circulating

/-- the shared guard of `AddAccess` (marker.go:82) and `RemoveAccess` (marker.go:126). -/
def accessChange (c : Cfg) : Res :=
  match c.status with
  | .finalized | .active =>
    if !(c.mgr && c.status == .finalized) && !c.has .admin && !c.ctlSupply then .error .perm
    -- fallthrough into the `StatusProposed` case: its manager test only fires when proposed
    else .ok ()
  | .proposed => if !c.mgr then .error .perm else .ok ()
  | _ => .error .status

def addAccess (c : Cfg) : Res := accessChange c
def removeAccess (c : Cfg) : Res := accessChange c

/-- `FinalizeMarker` (marker.go:406). -/
def finalizeMarker (c : Cfg) : Res :=
  if !c.mgr then .error .perm
  else if c.status ≠ .proposed then .error .status
  else .ok ()

/-- `ActivateMarker` (marker.go:467). -/
def activateMarker (c : Cfg) : Res :=
  if !c.mgr then .error .perm
  else if c.status ≠ .finalized then .error .status
  else .ok ()

/-- `CancelMarker` (marker.go:518); `circ`: some of the supply is outside the marker account.
On a cancelled marker the function returns `nil` before any check and changes nothing. -/
def cancelMarker (c : Cfg) (circ : Bool) : Res :=
  match c.status with
  | .finalized | .active =>
    if !c.has .delete then .error (.noaccess .delete)
    else if circ then .error .circulation
    else .ok ()
  | .proposed => if !c.has .delete && !c.mgr then .error (.noaccess .delete) else .ok ()
  | .cancelled => .ok ()
  | .destroyed => .error .status

/-- does a successful `CancelMarker` write the marker? (not on an already cancelled one) -/
def cancelChangesState (c : Cfg) : Bool := c.status != .cancelled

/-- `DeleteMarker` (marker.go:566). -/
def deleteMarker (c : Cfg) (circ : Bool) : Res :=
  if !c.has .delete && !c.mgr then .error (.noaccess .delete)
  else if c.status ≠ .cancelled then .error .status
  else if circ then .error .circulation
  else .ok ()

/-- `SetMarkerDenomMetadata` (marker.go:811) followed by the status test of
`ValidateDenomMetadata` (denom.go:31). -/
def setMarkerDenomMetadata (c : Cfg) : Res :=
  if !c.has .admin && !c.mgr then .error (.noaccess .admin)
  else match c.status with
    | .proposed | .finalized | .active => .ok ()
    | _ => .error .status

/-! ## Guards that live in the msg server -/

/-- `msgServer.GrantAllowance` (msg_server.go:34). -/
def grantAllowance (c : Cfg) : Res := validateHasAccess c .admin

/-- `msgServer.UpdateRequiredAttributes` (msg_server.go:576). -/
def updateRequiredAttributes (c : Cfg) : Res :=
  if c.mtype ≠ .restricted then .error .mtype
  else if c.gov then (if !c.govCtl then .error .nogov else .ok ())
  else if !c.has .transfer then .error .perm
  else .ok ()

/-- `msgServer.UpdateForcedTransfer` (msg_server.go:626); the requested flag differs from the
current one. -/
def updateForcedTransfer (c : Cfg) : Res :=
  if !c.gov then .error .authority
  else if c.mtype ≠ .restricted then .error .mtype
  else if !c.govCtl then .error .nogov
  else .ok ()

/-- `msgServer.SetAccountData` (msg_server.go:656). -/
def setAccountData (c : Cfg) : Res :=
  if c.gov then (if !c.govCtl then .error .nogov else .ok ())
  else validateHasAccess c .deposit

/-- `msgServer.UpdateSendDenyList` (msg_server.go:683). -/
def updateSendDenyList (c : Cfg) : Res :=
  if c.mtype ≠ .restricted then .error .mtype
  else if c.gov then (if !c.govCtl then .error .nogov else .ok ())
  else validateHasAccess c .transfer

/-- `msgServer.AddNetAssetValues` (msg_server.go:730): governance (when the marker allows it)
or any entry with at least one right. -/
def addNetAssetValues (c : Cfg) : Res :=
  if !(c.govCtl && c.gov) then (if c.acc.isEmpty then .error .perm else .ok ())
  else .ok ()

/-! ## One entry point for the simple operations -/

inductive Op where
  | mint | burn | withdraw | cancel | delete | addAccess | deleteAccess | finalize | activate
  | setDenomMetadata | grantAllowance | updateRequiredAttributes | updateForcedTransfer
  | setAccountData | updateSendDenyList | addNetAssetValues
  deriving DecidableEq, Repr

def Op.all : List Op := [.mint, .burn, .withdraw, .cancel, .delete, .addAccess, .deleteAccess,
  .finalize, .activate, .setDenomMetadata, .grantAllowance, .updateRequiredAttributes,
  .updateForcedTransfer, .setAccountData, .updateSendDenyList, .addNetAssetValues]

/-- the msg-server method name -/
def Op.name : Op → String
  | .mint => "Mint" | .burn => "Burn" | .withdraw => "Withdraw" | .cancel => "Cancel"
  | .delete => "Delete" | .addAccess => "AddAccess" | .deleteAccess => "DeleteAccess"
  | .finalize => "Finalize" | .activate => "Activate" | .setDenomMetadata => "SetDenomMetadata"
  | .grantAllowance => "GrantAllowance" | .updateRequiredAttributes => "UpdateRequiredAttributes"
  | .updateForcedTransfer => "UpdateForcedTransfer" | .setAccountData => "SetAccountData"
  | .updateSendDenyList => "UpdateSendDenyList" | .addNetAssetValues => "AddNetAssetValues"

def Op.ofString? (s : String) : Option Op := Op.all.find? (·.name = s)

/-- What else the operation's outcome depends on in the correspondence runs. -/
structure Env where
  dest : Dest := .plain    -- recipient of a withdrawal
  circ : Bool := false     -- part of the supply is held outside the marker account
  deriving DecidableEq, Repr

/-- The message handler for `op`. -/
def runOp (op : Op) (c : Cfg) (e : Env) : Res :=
  match op with
  | .mint => mintCoin c
  | .burn => burnCoin c
  | .withdraw => withdrawCoins c e.dest
  | .cancel => cancelMarker c e.circ
  | .delete => deleteMarker c e.circ
  | .addAccess => addAccess c
  | .deleteAccess => removeAccess c
  | .finalize => finalizeMarker c
  | .activate => activateMarker c
  | .setDenomMetadata => setMarkerDenomMetadata c
  | .grantAllowance => grantAllowance c
  | .updateRequiredAttributes => updateRequiredAttributes c
  | .updateForcedTransfer => updateForcedTransfer c
  | .setAccountData => setAccountData c
  | .updateSendDenyList => updateSendDenyList c
  | .addNetAssetValues => addNetAssetValues c

/-! ## The authz grant: `MarkerTransferAuthorization` -/

/-- `MarkerTransferAuthorization{TransferLimit, AllowList}`. `limit` is kept unnormalised
(`Coins.amountOf` is its meaning); `Coins.canon` is applied when printing. -/
structure Grant where
  limit : Coins
  allow : List String
  deriving DecidableEq, Repr

/-- One use of a grant: the coin of the `MsgTransferRequest` and its `ToAddress`. -/
structure Use where
  denom : Denom
  amount : Int
  to : String
  deriving DecidableEq, Repr

/-- `authz.AcceptResponse` or the error. -/
inductive AcceptRes where
  | rejectLimit                                   -- ErrInsufficientFunds "more than spend limit"
  | rejectRecipient                               -- ErrUnauthorized "cannot send to … address"
  | panicNegative                                 -- `sdk.NewCoins(amount)` panics: "invalid coin set"
  | accept (delete : Bool) (updated : Grant)      -- Accept: true
  deriving DecidableEq, Repr

/-- `Accept` with the `AllowList` of the updated grant either carried over (`keep = true`) or
dropped (`keep = false`, what `authz.go:57` does: `Updated: &MarkerTransferAuthorization{
TransferLimit: limitLeft}`). -/
def acceptWith (keep : Bool) (g : Grant) (u : Use) : AcceptRes :=
  -- limitLeft, isNegative := a.DecreaseTransferLimit(msg.Amount)   (= TransferLimit.SafeSub =
  -- `coins.safeAdd(NewCoins(amount).negative())`, types/coin.go:394: `NewCoins` drops a zero coin
  -- and PANICS on a negative one, so a negative amount can never enlarge the grant)
  if u.amount < 0 then .panicNegative else
  let limitLeft := Coins.sub g.limit [(u.denom, u.amount)]
  if !Coins.nonneg limitLeft then .rejectLimit
  else if !g.allow.isEmpty && !g.allow.contains u.to then .rejectRecipient
  else .accept (Coins.isZero limitLeft) { limit := limitLeft, allow := if keep then g.allow else [] }

/- ======================================================================================
   THE ONE SWITCH.  `false` = the code as it is (the updated grant loses its allow list).
   After the one-field fix (`AllowList: a.AllowList` in the `Updated` authorization,
   x/marker/types/authz.go:57) set this to `true`; every theorem of `PvProofs.C12` is
   stated for both values, nothing else needs to change.
   ====================================================================================== -/
def keepAllowListOnUpdate : Bool := true   -- repaired in /repo by 599e8c764

/-- `MarkerTransferAuthorization.Accept` (authz.go:31) as the code stands. -/
def accept (g : Grant) (u : Use) : AcceptRes := acceptWith keepAllowListOnUpdate g u

/-- `authzHandler` (marker.go:790) over the stored grant (`none` = no authorization):
the new stored grant, or the error. `Delete` removes the grant, otherwise `Updated` is saved. -/
def authzHandlerWith (keep : Bool) (stored : Option Grant) (u : Use) : Except Err (Option Grant) :=
  match stored with
  | none => .error .noauthz
  | some g =>
    match acceptWith keep g u with
    | .rejectLimit => .error .limit
    | .rejectRecipient => .error .recipient
    | .panicNegative => .error .badcoins
    | .accept true _ => .ok none
    | .accept false g' => .ok (some g')

def authzHandler (stored : Option Grant) (u : Use) : Except Err (Option Grant) :=
  authzHandlerWith keepAllowListOnUpdate stored u

/-- A sequence of attempted uses of one (granter, grantee) authorization: the final stored
grant and the uses that were accepted, in order. A rejected use leaves the grant as it was. -/
def useSeqWith (keep : Bool) (stored : Option Grant) : List Use → Option Grant × List Use
  | [] => (stored, [])
  | u :: rest =>
    match authzHandlerWith keep stored u with
    | .error _ => useSeqWith keep stored rest
    | .ok stored' =>
      let (fin, acc) := useSeqWith keep stored' rest
      (fin, u :: acc)

def useSeq (stored : Option Grant) (us : List Use) : Option Grant × List Use :=
  useSeqWith keepAllowListOnUpdate stored us

/-- total of the accepted uses in denom `d` -/
def moved (us : List Use) (d : Denom) : Int :=
  match us with
  | [] => 0
  | u :: rest => (if u.denom = d then u.amount else 0) + moved rest d

/-! ## `TransferCoin` -/

/-- What `canForceTransferFrom` looks at (marker.go:689). -/
structure Acct where
  isGroup : Bool       -- `groupChecker.IsGroupAddress`
  present : Bool       -- `authKeeper.GetAccount(from) != nil`
  seqNonZero : Bool    -- `acc.GetSequence() != 0`
  isMarker : Bool
  isMarket : Bool
  deriving DecidableEq, Repr

/-- `canForceTransferFrom` (marker.go:689). -/
def canForceTransferFrom (a : Acct) : Bool :=
  if a.isGroup then true
  else if !a.present then true
  else if a.seqNonZero then true
  else if a.isMarker then true
  else if a.isMarket then true
  else false

/-- Inputs of one `MsgTransferRequest` besides the marker/admin view in `Cfg`
(`Cfg.acc` = rights of the administrator). -/
structure Xfer where
  selfFrom : Bool          -- `admin.Equals(from)`
  src : Acct               -- the `from` account
  dest : Dest              -- the `to` account
  stored : Option Grant    -- authz grant from `from` to `admin`
  use : Use                -- amount and recipient
  fromBal : Int            -- spendable balance of `from` in the denom
  deriving DecidableEq, Repr

/-- `TransferCoin` (marker.go:624): the authz grant stored afterwards, or the error. (Called with a
negative amount — which `msgServer.Transfer` never does: `transferMsgWith` — the real function
panics in `sdk.NewCoins` on the own-account / forced path too; that is not modelled here.) -/
def transferCoinWith (keep : Bool) (c : Cfg) (x : Xfer) : Except Err (Option Grant) :=
  if c.status ≠ .active then .error .status
  else if c.mtype ≠ .restricted then .error .mtype
  else
    let adminCanForceTransfer := c.has .forceTransfer
    if !c.has .transfer && !adminCanForceTransfer then .error (.noaccess .transfer)
    else match validateSendToMarker x.dest with
      | .error e => .error e
      | .ok () =>
        let afterAuth : Except Err (Option Grant) :=
          if !x.selfFrom then
            if !c.forced || !adminCanForceTransfer then authzHandlerWith keep x.stored x.use
            else if !canForceTransferFrom x.src then .error .forcedFrom
            else .ok x.stored
          else .ok x.stored
        match afterAuth with
        | .error e => .error e
        | .ok stored' =>
          if x.dest = .blocked then .error .blocked
          else if x.fromBal < x.use.amount then .error .funds
          else .ok stored'

def transferCoin (c : Cfg) (x : Xfer) : Except Err (Option Grant) :=
  transferCoinWith keepAllowListOnUpdate c x

/-- `IbcTransferCoin` (marker.go:728), the part before the IBC module is called: restricted
marker, `transfer` right (`force_transfer` does not help here, and the status is not looked
at), and the sender's authz grant unless the administrator sends own coins. Driven in the app
stream through the real `msgServer.IbcTransfer` of a marker keeper over the app's stores whose
ibc transfer server is a recording stand-in (`xfer … via=ibc`), see `ibcTransferMsgWith`. -/
def ibcTransferCoinWith (keep : Bool) (c : Cfg) (selfFrom : Bool) (stored : Option Grant) (u : Use) :
    Except Err (Option Grant) :=
  if c.mtype ≠ .restricted then .error .mtype
  else if !c.has .transfer then .error (.noaccess .transfer)
  else if !selfFrom then authzHandlerWith keep stored u
  else .ok stored

/-- The transfer went through the source account's authz grant: it was neither out of the
administrator's own account nor a forced transfer. -/
def usesGrant (c : Cfg) (x : Xfer) : Bool :=
  !x.selfFrom && !(c.forced && c.has .forceTransfer)

/-- A history of `MsgTransferRequest`s by one administrator out of one source account
(the marker's configuration fixed): the authz grant stored at the end and the uses that went
through the grant, in order. Each request sees the grant the previous ones left behind;
a rejected request changes nothing. -/
def transferSeqWith (keep : Bool) (c : Cfg) (stored : Option Grant) : List Xfer → Option Grant × List Use
  | [] => (stored, [])
  | x :: rest =>
    match transferCoinWith keep c { x with stored := stored } with
    | .error _ => transferSeqWith keep c stored rest
    | .ok stored' =>
      let (fin, acc) := transferSeqWith keep c stored' rest
      (fin, if usesGrant c x then x.use :: acc else acc)

def transferSeq (c : Cfg) (stored : Option Grant) (xs : List Xfer) : Option Grant × List Use :=
  transferSeqWith keepAllowListOnUpdate c stored xs

/-! ## The authz store: one grant per (granter, grantee)

`authzHandler(ctx, admin, from, to, amount)` (marker.go:790) reads
`authzKeeper.GetAuthorization(ctx, grantee = admin, granter = from, …)` and writes the same key
back (`DeleteGrant` / `SaveGrant(ctx, admin, from, …)`): the grant consulted and debited is the
one GIVEN BY the account the coins leave TO the administrator that signs. `TransferCoin` calls it
with `(admin, from)` (marker.go:658) and `IbcTransferCoin` with `(admin, sender)` (marker.go:753).
Grants of other pairs — in particular one given by the administrator to the source account, or by
the source account to another administrator — are neither looked at nor touched. -/

/-- `(granter, grantee)` -/
abbrev Pair := String × String

/-- the `MarkerTransferAuthorization`s in the authz store, by `(granter, grantee)` -/
abbrev AuthzStore := Pair → Option Grant

def AuthzStore.empty : AuthzStore := fun _ => none

def AuthzStore.put (t : AuthzStore) (p : Pair) (g : Option Grant) : AuthzStore :=
  fun q => if q = p then g else t q

/-- `MsgTransferRequest.ValidateBasic` (types/msgs.go:258) → `msg.Amount.Validate()`
(`sdk.Coin.Validate`: "negative coin amount"); zero is a valid coin. `msgServer.Transfer` calls it
first (msg_server.go:379), as baseapp does for every message of a transaction. -/
def validateBasicTransfer (u : Use) : Bool := decide (0 ≤ u.amount)

/-- `msgServer.Transfer` (msg_server.go:375) → `ValidateBasic`, then `TransferCoin(from, to, admin)`
over the authz store. `c` is the marker as the signing administrator sees it (`c.acc` = the rights
of `admin`); `x.selfFrom` / `x.stored` are taken from the addresses and the store. -/
def transferMsgWith (keep : Bool) (c : Cfg) (t : AuthzStore) (admin from_ : String) (x : Xfer) :
    Except Err AuthzStore :=
  if !validateBasicTransfer x.use then .error .invalid
  else match transferCoinWith keep c { x with selfFrom := admin == from_, stored := t (from_, admin) } with
  | .error e => .error e
  | .ok s' => .ok (t.put (from_, admin) s')

/-- `msgServer.IbcTransfer` (msg_server.go:418) → `IbcTransferCoin` (marker.go:728) over the
authz store: `MsgIbcTransferRequest.ValidateBasic` (→ ibc `MsgTransfer.ValidateBasic`: a negative
token is "invalid coins", one that is not positive is "insufficient funds"), the guard of `IbcTransferCoin`, then the ibc
transfer module takes the token out of the sender's account (`fromBal`). The marker's status is
not looked at, `force_transfer` plays no role, the receiver is on another chain (no deposit /
blocked-address rule) but is what the grant's allow list is compared with. -/
def ibcTransferMsgWith (keep : Bool) (c : Cfg) (t : AuthzStore) (admin from_ : String) (u : Use)
    (fromBal : Int) : Except Err AuthzStore :=
  if u.amount ≤ 0 then .error (if u.amount < 0 then .invalid else .funds)
  else match ibcTransferCoinWith keep c (admin == from_) (t (from_, admin)) u with
    | .error e => .error e
    | .ok s' => if fromBal < u.amount then .error .funds else .ok (t.put (from_, admin) s')

/-- One transfer message of a history: which endpoint, who signs, whose coins, and what the
handler sees (the marker as that administrator sees it, the accounts involved). -/
structure TMsg where
  ibc : Bool
  admin : String
  from_ : String
  cfg : Cfg
  x : Xfer
  deriving DecidableEq, Repr

def TMsg.runWith (keep : Bool) (t : AuthzStore) (m : TMsg) : Except Err AuthzStore :=
  if m.ibc then ibcTransferMsgWith keep m.cfg t m.admin m.from_ m.x.use m.x.fromBal
  else transferMsgWith keep m.cfg t m.admin m.from_ m.x

/-- the message, if it succeeds, goes through the authz grant of `(from, admin)` -/
def TMsg.charges (m : TMsg) : Bool :=
  if m.ibc then !(m.admin == m.from_)
  else usesGrant m.cfg { m.x with selfFrom := m.admin == m.from_ }

/-- A history of transfer messages of both kinds, by any administrators out of any accounts:
the authz store at the end and, in order, the uses that went through a grant with the pair
they were charged to. A rejected message changes nothing. -/
def msgSeqWith (keep : Bool) (t : AuthzStore) : List TMsg → AuthzStore × List (Pair × Use)
  | [] => (t, [])
  | m :: rest =>
    match m.runWith keep t with
    | .error _ => msgSeqWith keep t rest
    | .ok t' =>
      let (fin, acc) := msgSeqWith keep t' rest
      (fin, if m.charges then ((m.from_, m.admin), m.x.use) :: acc else acc)

/-- the uses charged to the grant of pair `p` -/
def usesOf (p : Pair) (cs : List (Pair × Use)) : List Use :=
  (cs.filter (fun e => e.1 == p)).map (·.2)

/-! ## A marker through a history of messages (real message flow, every status)

`MsgAddFinalizeActivateMarker` (an active marker at once) or `MsgAddMarker` (a proposed marker under
its manager), then `MsgFinalize` / `MsgActivate` / `MsgCancel` / `MsgAddAccess` / `MsgDeleteAccess` /
`MsgMint` / `MsgBurn` / `MsgWithdraw` by named accounts. The state keeps what the handlers consult:
status and manager, the access list, the recorded supply (on an active marker updated by mint/burn
only when the supply is fixed: `IncreaseSupply` / `DecreaseSupply`, marker.go:355,385; on a pending
marker mint/burn change nothing but the record), the coins in escrow and with each account. -/

structure MState where
  live : Bool := false
  rights : List (String × List Access) := []
  record : Int := 0
  fixed : Bool := true
  mtype : MType := .coin
  escrow : Int := 0
  bals : List (String × Int) := []
  status : Status := .active
  manager : Option String := none    -- `m.GetManager()`; cleared by `SetStatus(StatusActive)`
  deriving DecidableEq, Repr

def MState.rightsOf (s : MState) (a : String) : List Access :=
  match s.rights.find? (·.1 == a) with
  | some r => r.2
  | none => []

def MState.balOf (s : MState) (a : String) : Int :=
  match s.bals.find? (·.1 == a) with
  | some r => r.2
  | none => 0

/-- coins of the denom in existence (`bankKeeper.GetSupply`) -/
def MState.circulating (s : MState) : Int := s.escrow + (s.bals.map (·.2)).foldl (· + ·) 0

def MState.setBal (s : MState) (a : String) (v : Int) : MState :=
  { s with bals := (s.bals.filter (·.1 != a)) ++ [(a, v)] }

/-- the handler's view for caller `a`: the marker's CURRENT status, whether `a` is its manager,
`a`'s entry of the access list, and what `accountControlsAllSupply` computes for `a` -/
def MState.cfgWith (viaBank : Bool) (s : MState) (a : String) : Cfg :=
  { acc := s.rightsOf a, mgr := s.manager == some a, gov := false, status := s.status, mtype := s.mtype,
    forced := false, govCtl := true,
    ctlSupply := accountControlsAllSupplyWith viaBank (s.balOf a) s.record s.circulating }

def MState.cfg (s : MState) (a : String) : Cfg := s.cfgWith supplyControlViaBank a

/-- The clauses of `MarkerAccount.Validate` (types/marker.go:202) that a message of a history can
break (every handler validates the marker before it stores it): a pending marker needs a manager
or an administrator, a finalized one a minter or a non-zero supply. -/
def MState.valid (s : MState) : Bool :=
  !((s.status == .proposed || s.status == .finalized) && s.manager.isNone
      && !s.rights.any (·.2.contains .admin))
  && !(s.status == .finalized && !s.rights.any (·.2.contains .mint) && s.record == 0)

/-- store the marker if `Validate` accepts it -/
def MState.checked (s : MState) : Except Err MState := if s.valid then .ok s else .error .invalid

/-- `MarkerAccount.GrantAccess` (types/marker.go:395): the new grant's rights first, then the
rights the address already had that the new grant does not repeat; the entry moves to the end. -/
def grantAccess (rs : List (String × List Access)) (a : String) (new : List Access) : List (String × List Access) :=
  let old := match rs.find? (·.1 == a) with
    | some r => r.2
    | none => []
  (rs.filter (·.1 != a)) ++ [(a, new ++ old.filter (fun x => !new.contains x))]

/-- `MarkerAccount.RevokeAccess`. -/
def revokeAccess (rs : List (String × List Access)) (a : String) : List (String × List Access) :=
  rs.filter (·.1 != a)

inductive SOp where
  | create (amt : Int) (fixed : Bool) (ty : MType) (acc : List Access)   -- active at once, by "A", who gets `acc`
  | propose (amt : Int) (fixed : Bool) (ty : MType) (acc : List Access)  -- `MsgAddMarker` by "A": proposed, manager "A"
  | finalize (by_ : String)
  | activate (by_ : String)
  | cancel (by_ : String)
  | add (by_ to : String) (rights : List Access)
  | del (by_ who : String)
  | mint (by_ : String) (amt : Int)
  | burn (by_ : String) (amt : Int)
  | withdraw (by_ to : String) (amt : Int)
  deriving DecidableEq, Repr

/-- one message on the marker: new state, or the rejection (state unchanged) -/
def scenStepWith (viaBank : Bool) (s : MState) : SOp → Except Err MState
  | .create amt fixed ty acc =>
    .ok { live := true, rights := [("A", acc)], record := amt, fixed := fixed, mtype := ty, escrow := amt, bals := [] }
  | .propose amt fixed ty acc =>
    -- msgServer.AddMarker (msg_server.go:60): manager = the sender, no coin is minted yet
    .ok { live := true, rights := [("A", acc)], record := amt, fixed := fixed, mtype := ty, escrow := 0, bals := [],
          status := .proposed, manager := some "A" }
  | .finalize by_ =>
    match finalizeMarker (s.cfgWith viaBank by_) with
    | .error e => .error e
    | .ok () =>
      -- "marker supply … has been defined as less than pre-existing supply" (marker.go:436)
      if s.record < s.circulating then .error .invalid
      else MState.checked { s with status := .finalized }
  | .activate by_ =>
    match activateMarker (s.cfgWith viaBank by_) with
    | .error e => .error e
    | .ok () =>
      if s.record < s.circulating then .error .invalid
      -- AdjustCirculation mints the recorded supply into the marker account; SetStatus(active)
      -- clears the manager (types/marker.go:333)
      else .ok { s with escrow := s.escrow + (s.record - s.circulating), status := .active, manager := none }
  | .cancel by_ =>
    match cancelMarker (s.cfgWith viaBank by_) (decide (0 < s.circulating - s.escrow)) with
    | .error e => .error e
    | .ok () => .ok { s with status := .cancelled }   -- on a cancelled marker: `return nil`, nothing written
  | .add by_ to rights =>
    match addAccess (s.cfgWith viaBank by_) with
    | .error e => .error e
    | .ok () => MState.checked { s with rights := grantAccess s.rights to rights }
  | .del by_ who =>
    match removeAccess (s.cfgWith viaBank by_) with
    | .error e => .error e
    | .ok () => MState.checked { s with rights := revokeAccess s.rights who }
  | .mint by_ amt =>
    match mintCoin (s.cfgWith viaBank by_) with
    | .error e => .error e
    | .ok () =>
      if s.status == .active then
        .ok { s with escrow := s.escrow + amt, record := if s.fixed then s.circulating + amt else s.record }
      -- proposed / finalized: "we allow adjusting the total_supply of the marker but we do not mint actual coin"
      else MState.checked { s with record := s.record + amt }
  | .burn by_ amt =>
    match burnCoin (s.cfgWith viaBank by_) with
    | .error e => .error e
    | .ok () =>
      if s.status == .active then
        if s.escrow < amt then .error .funds
        else .ok { s with escrow := s.escrow - amt, record := if s.fixed then s.circulating - amt else s.record }
      -- proposed / finalized: `m.GetSupply().Sub(coin)` (marker.go:271) panics below zero
      else if s.record < amt then .error .negcoin
      else MState.checked { s with record := s.record - amt }
  | .withdraw by_ to amt =>
    match withdrawCoins (s.cfgWith viaBank by_) .plain with
    | .error e => .error e
    | .ok () =>
      if s.escrow < amt then .error .funds
      else .ok ({ s with escrow := s.escrow - amt }.setBal to (s.balOf to + amt))

def scenStep (s : MState) (op : SOp) : Except Err MState := scenStepWith supplyControlViaBank s op

def scenRunWith (viaBank : Bool) (s : MState) : List SOp → MState
  | [] => s
  | op :: rest =>
    match scenStepWith viaBank s op with
    | .ok s' => scenRunWith viaBank s' rest
    | .error _ => scenRunWith viaBank s rest

end PvModel.Mkracc
