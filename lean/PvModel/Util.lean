/-
Line-protocol helpers shared by every driver (DESIGN appendix to §4).
A line is `<op> <arg> <arg> …`; lists use `|`, coins `12denom`, `-` is the empty list.
-/
namespace PvModel

def words (s : String) : List String :=
  (s.splitOn " ").filter (· ≠ "")

def splitList (s : String) (sep : String := "|") : List String :=
  if s = "-" ∨ s = "" then [] else s.splitOn sep

def parseInt? (s : String) : Option Int := s.toInt?
def parseNat? (s : String) : Option Nat := s.toNat?

/-- `key=value` lookup among words. -/
def kv (ws : List String) (k : String) : Option String :=
  ws.findSome? fun w =>
    match w.splitOn "=" with
    | k' :: rest => if k' = k ∧ rest ≠ [] then some ("=".intercalate rest) else none
    | _ => none

/-- Parse a coin `123denom` (amount may carry a leading `-`). -/
def parseCoin? (s : String) : Option (String × Int) :=
  let cs := s.toList
  let (sign, cs) := match cs with
    | '-' :: r => ((-1 : Int), r)
    | _ => (1, cs)
  let ds := cs.takeWhile Char.isDigit
  let rest := cs.dropWhile Char.isDigit
  if ds.isEmpty ∨ rest.isEmpty then none
  else match (String.ofList ds).toNat? with
    | some n => some (String.ofList rest, sign * (n : Int))
    | none => none

def parseCoins? (s : String) : Option (List (String × Int)) :=
  (splitList s ",").mapM parseCoin?

def showCoin (c : String × Int) : String := s!"{c.2}{c.1}"
def showCoins (cs : List (String × Int)) : String :=
  if cs.isEmpty then "-" else ",".intercalate (cs.map showCoin)

def boolStr (b : Bool) : String := if b then "1" else "0"

/-- A driver for one model: state, initial state, and a one-line-in/one-line-out step.
The input line is `<op line>` optionally followed by `\t<impl output>`; the output is
`<model output>\t<verdict>` where the verdict is the property checker applied to the
implementation's observed output (`ok`, `fail:<clause>`, or `-` when the line carries
no checker). -/
structure Driver where
  σ : Type
  init : σ
  step : σ → (op : String) → (impl : Option String) → σ × String × String

end PvModel
