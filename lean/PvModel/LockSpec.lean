/-
C03, declarative side: what the property says about an observed account snapshot
(balance / hold / unvested / spendable per denom), independent of the model's control flow.
These are the conclusions of the theorems in `PvProofs/C03.lean`, as executable checks that
the driver runs on the *implementation's* dumped state.
-/
import PvModel.Coins

namespace PvModel.LockSpec
open PvModel

/-- "The spendable balance reported to clients is always the balance minus the hold minus
any unvested amount" (never negative). -/
def specSpendable (bal hold unvested : Int) : Int := max 0 (bal - hold - unvested)

/-- one account of an observed state dump -/
structure Snapshot where
  name : String
  bal : Coins
  hold : Coins
  spendable : Coins
  unvested : Coins
  /-- the hold store has one truth: the per-account listing that the bank module's locked-coins
  lookup uses, the per-denom point lookup and the all-accounts listing must report the same
  amounts; the harness prints `hv=` (and this is `true`) only when they differ -/
  holdViewsDiffer : Bool := false
  deriving Repr

def Snapshot.denoms (a : Snapshot) : List Denom :=
  (Coins.denoms a.bal ++ Coins.denoms a.hold ++ Coins.denoms a.spendable ++ Coins.denoms a.unvested).eraseDups

/-- "No transaction can bring an account's balance of a denom below the amount on hold for it." -/
def Snapshot.holdLeBal (a : Snapshot) : Bool :=
  a.denoms.all fun d => decide (Coins.amountOf a.hold d ≤ Coins.amountOf a.bal d)

def Snapshot.spendableOk (a : Snapshot) : Bool :=
  a.denoms.all fun d =>
    decide (Coins.amountOf a.spendable d =
      specSpendable (Coins.amountOf a.bal d) (Coins.amountOf a.hold d) (Coins.amountOf a.unvested d))

def Snapshot.nonneg (a : Snapshot) : Bool :=
  a.denoms.all fun d => decide (0 ≤ Coins.amountOf a.bal d) && decide (0 ≤ Coins.amountOf a.hold d)

/-- the narrow clause an observed state breaks, if any -/
def checkState (st : List Snapshot) : Option String :=
  if !(st.all Snapshot.nonneg) then some "negative_amount"
  else if !(st.all Snapshot.holdLeBal) then some "hold_exceeds_balance"
  else if !(st.all Snapshot.spendableOk) then some "spendable_not_formula"
  else if st.any (·.holdViewsDiffer) then some "hold_lookup_inconsistent"
  else none

/-- A successful debit of `amt` from an account whose state before was `a` must have left the
held funds in place: per denom `amt ≤ bal − hold`. -/
def debitKeepsHold (a : Snapshot) (amt : Coins) : Bool :=
  (Coins.denoms amt).all fun d =>
    decide (Coins.amountOf amt d ≤ Coins.amountOf a.bal d - Coins.amountOf a.hold d)

/-- A successful new hold of `amt` must have been within the spendable balance reported before. -/
def holdWithinSpendable (a : Snapshot) (amt : Coins) : Bool :=
  (Coins.denoms amt).all fun d => decide (Coins.amountOf amt d ≤ Coins.amountOf a.spendable d)

/-! ### messages that release holds and move funds in several steps

What one accepted message did to the accounts, in the order of the calls: holds released, funds
taken from an account, funds given to an account, holds placed.  Judged on the observed state
before the message: every step that takes funds must leave the amount still on hold in place. -/

inductive Move where
  | release (a : String) (cs : Coins)
  | debit (a : String) (cs : Coins)
  | credit (a : String) (cs : Coins)
  | hold (a : String) (cs : Coins)
  deriving Repr

private def updSnap (st : List Snapshot) (a : String) (f : Snapshot → Snapshot) : List Snapshot :=
  st.map fun sn => if sn.name = a then f sn else sn

/-- run the moves over the observed state; `false` as soon as a debit is larger than
`balance − hold` of that moment (accounts that were not dumped are not judged). -/
def movesKeepHolds : List Snapshot → List Move → Bool
  | _, [] => true
  | st, .release a cs :: rest =>
    movesKeepHolds (updSnap st a fun sn => { sn with hold := sn.hold ++ Coins.neg cs }) rest
  | st, .hold a cs :: rest =>
    movesKeepHolds (updSnap st a fun sn => { sn with hold := sn.hold ++ cs }) rest
  | st, .credit a cs :: rest =>
    movesKeepHolds (updSnap st a fun sn => { sn with bal := sn.bal ++ cs }) rest
  | st, .debit a cs :: rest =>
    match st.find? (·.name = a) with
    | none => movesKeepHolds st rest
    | some sn =>
      if debitKeepsHold sn cs then
        movesKeepHolds (updSnap st a fun sn => { sn with bal := sn.bal ++ Coins.neg cs }) rest
      else false

end PvModel.LockSpec
