/-
C03, declarative side: what the property says about an observed account snapshot
(balance / hold / unvested / spendable per denom), independent of the model's control flow.
These are the conclusions of the theorems in `PvProofs/C03.lean`, as executable checks that
the driver runs on the *implementation's* dumped state.
-/
import PvModel.Coins

namespace PvModel.LockSpec
open PvModel

/-- "The spendable balance reported to clients is always the balance minus the hold minus
any unvested amount" (never negative). -/
def specSpendable (bal hold unvested : Int) : Int := max 0 (bal - hold - unvested)

/-- one account of an observed state dump -/
structure Snapshot where
  name : String
  bal : Coins
  hold : Coins
  spendable : Coins
  unvested : Coins
  deriving Repr

def Snapshot.denoms (a : Snapshot) : List Denom :=
  (Coins.denoms a.bal ++ Coins.denoms a.hold ++ Coins.denoms a.spendable ++ Coins.denoms a.unvested).eraseDups

/-- "No transaction can bring an account's balance of a denom below the amount on hold for it." -/
def Snapshot.holdLeBal (a : Snapshot) : Bool :=
  a.denoms.all fun d => decide (Coins.amountOf a.hold d ≤ Coins.amountOf a.bal d)

def Snapshot.spendableOk (a : Snapshot) : Bool :=
  a.denoms.all fun d =>
    decide (Coins.amountOf a.spendable d =
      specSpendable (Coins.amountOf a.bal d) (Coins.amountOf a.hold d) (Coins.amountOf a.unvested d))

def Snapshot.nonneg (a : Snapshot) : Bool :=
  a.denoms.all fun d => decide (0 ≤ Coins.amountOf a.bal d) && decide (0 ≤ Coins.amountOf a.hold d)

/-- the narrow clause an observed state breaks, if any -/
def checkState (st : List Snapshot) : Option String :=
  if !(st.all Snapshot.nonneg) then some "negative_amount"
  else if !(st.all Snapshot.holdLeBal) then some "hold_exceeds_balance"
  else if !(st.all Snapshot.spendableOk) then some "spendable_not_formula"
  else none

/-- A successful debit of `amt` from an account whose state before was `a` must have left the
held funds in place: per denom `amt ≤ bal − hold`. -/
def debitKeepsHold (a : Snapshot) (amt : Coins) : Bool :=
  (Coins.denoms amt).all fun d =>
    decide (Coins.amountOf amt d ≤ Coins.amountOf a.bal d - Coins.amountOf a.hold d)

/-- A successful new hold of `amt` must have been within the spendable balance reported before. -/
def holdWithinSpendable (a : Snapshot) (amt : Coins) : Bool :=
  (Coins.denoms amt).all fun d => decide (Coins.amountOf amt d ≤ Coins.amountOf a.spendable d)

end PvModel.LockSpec
