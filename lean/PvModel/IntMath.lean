/-
Shared integer conventions (DESIGN §3).

`sdkmath.Int` is a signed big integer that panics ("integer overflow") as soon as a
result needs more than 256 bits.  The model type is Lean's unbounded `Int`; `fits256`
is the guard, and every model function that forms a product reports `.overflow`
exactly where the Go code panics.

`QuoRemInt` (x/exchange/helpers.go:96) is `big.Int.QuoRem`, i.e. T-division:
`Int.tdiv` / `Int.tmod`.
-/
namespace PvModel

/-- `sdkmath.MaxBitLen = 256`: `|x| < 2^256`. -/
def fits256 (x : Int) : Bool := x.natAbs < 2 ^ 256

/-- x/exchange/helpers.go:106 `QuoIntRoundUp`. The caller guarantees `b ≠ 0`
(Go panics "division by zero" otherwise; the driver maps that case separately). -/
def quoIntRoundUp (a b : Int) : Int :=
  let rv := a.tdiv b
  let rem := a.tmod b
  if rem ≠ 0 then
    if rv < 0 ∨ (rv = 0 ∧ a.sign * b.sign < 0) then rv - 1 else rv + 1
  else rv

/-- Errors of the arithmetic layer, by class (DESIGN §3 "Errors"). -/
inductive AErr where
  | overflow    -- sdkmath "integer overflow" panic
  | divzero     -- explicit "division by zero" error / panic
  | denom       -- wrong denom
  | invalid     -- other explicit rejection
  deriving DecidableEq, Repr

def AErr.toString : AErr → String
  | .overflow => "panic:overflow"
  | .divzero => "err:divzero"
  | .denom => "err:denom"
  | .invalid => "err:invalid"

/-- `sdkmath.Int.Mul`: panics unless the product fits. -/
def mul256 (a b : Int) : Except AErr Int :=
  let p := a * b
  if fits256 p then .ok p else .error .overflow

/-- `sdkmath.Int.Add`. -/
def add256 (a b : Int) : Except AErr Int :=
  let p := a + b
  if fits256 p then .ok p else .error .overflow

end PvModel
