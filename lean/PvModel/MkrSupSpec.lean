/-
C05 — declarative side.

Part 1: the property's clauses as `Prop`s over a model state (used by `PvProofs.C05`).
Part 2: the same clauses as `Bool` checks over an *observation* `Obs` — what the harness dumps
from the real chain after every operation (marker records, `BankKeeper.GetSupply`, balances).
The driver evaluates part 2 on the implementation's output; it never looks at the model's
control flow.
-/
import PvModel.MkrSup

namespace PvModel.MkrSup
open PvModel

/-! ### Part 1: clauses over states -/

/-- "for every active marker with a fixed supply, the bank's total supply of its denom equals the
supply recorded on the marker" — at denom `d`. -/
def SupplyInvAt (s : State) (d : Denom) : Prop :=
  ∀ m, s.find d = some m → m.status = .active → m.fixed = true → m.supply = s.bank.supply d

def SupplyInv (s : State) : Prop := ∀ d, SupplyInvAt s d

/-- every balance is non-negative -/
def NonNeg (b : Bank) : Prop := ∀ a d, 0 ≤ b.bal a d

/-- "for every denom the bank's total supply equals the sum of all balances": the bank's STORED
supply of `d` (what `GetSupply` returns; written only by `MintCoins` / `BurnCoins`) equals the sum
of every balance entry of `d` in the account store.  (`Ledger.supply` is that sum by definition;
`PvProofs.LedgerSum.supply_eq_sumBal` rewrites it as Σ over accounts of `bal`.) -/
def Consistent (b : Bank) : Prop := ∀ d, b.supply d = b.led.supply d

/-- at most one marker record per denom (`SetMarker` keys the record by `MarkerAddress(denom)`) -/
def WF (s : State) : Prop := (s.markers.map (·.denom)).Nodup

/-- "none of its coins are held outside its own account" -/
def AllInEscrow (s : State) (d : Denom) : Prop := ∀ a, a ≠ acct d → s.bank.bal a d = 0

/-- The environment hypothesis, per operation: modules other than `marker` do not mint or burn a
denom that currently has an active fixed-supply marker. -/
def EnvOK (s : State) : Op → Prop
  | .fmint _ d _ => ∀ m, s.find d = some m → ¬ (m.status = .active ∧ m.fixed = true)
  | .govburn _ d _ => ∀ m, s.find d = some m → ¬ (m.status = .active ∧ m.fixed = true)
  | _ => True

/-- the hypothesis along a whole history -/
def EnvOKRun (s : State) : List Op → Prop
  | [] => True
  | op :: rest => EnvOK s op ∧ EnvOKRun (step s op) rest

/-! ### Part 2: observations and executable clause checks -/

structure ObsMarker where
  denom : Denom
  status : Status
  supply : Int
  fixed : Bool
  deriving Repr

structure Obs where
  result : String := ""
  maxSupply : Int := 0
  markers : List ObsMarker := []
  supply : List (Denom × Int) := []
  bals : List (Addr × Coins) := []
  deriving Repr

namespace Obs

def supplyOf (o : Obs) (d : Denom) : Int := ((o.supply.find? (·.1 = d)).map (·.2)).getD 0
def balOf (o : Obs) (a : Addr) (d : Denom) : Int :=
  match o.bals.find? (·.1 = a) with
  | some (_, cs) => Coins.amountOf cs d
  | none => 0
def marker? (o : Obs) (d : Denom) : Option ObsMarker := o.markers.find? (·.denom = d)

/-- supply equality for the active fixed-supply marker of `d` (true when there is none) -/
def supplyInvAt (o : Obs) (d : Denom) : Bool :=
  match o.marker? d with
  | some m => !(m.status = .active && m.fixed) || m.supply = o.supplyOf d
  | none => true

/-- bank supply = Σ balances over every dumped account, for every dumped denom -/
def bankSumOk (o : Obs) : Bool :=
  o.supply.all fun (d, n) => n = (o.bals.map fun (_, cs) => Coins.amountOf cs d).foldl (· + ·) 0

/-- no dumped balance is negative -/
def nonNeg (o : Obs) : Bool := o.bals.all fun (_, cs) => cs.all fun c => decide (0 ≤ c.2)

/-- every coin of `d` sits in the marker's own account -/
def allInEscrow (o : Obs) (d : Denom) : Bool :=
  o.supplyOf d = o.balOf (acct d) d &&
    o.bals.all fun (a, cs) => a = acct d || Coins.amountOf cs d = 0

/-- between two observations only `@d` changed its `d` balance, by exactly the supply change -/
def onlyEscrowDebited (prev cur : Obs) (d : Denom) : Bool :=
  (cur.bals.all fun (a, cs) => a = acct d || Coins.amountOf cs d = prev.balOf a d) &&
    prev.supplyOf d - cur.supplyOf d = prev.balOf (acct d) d - cur.balOf (acct d) d

end Obs

/-- the kind of an op line (first word) and its denom, as far as the checker needs them -/
structure OpInfo where
  kind : String
  denom : Denom := ""
  newStatus : Option Status := none

/-- The property's conclusion evaluated on two consecutive observations of the implementation
(`prev` before the op, `cur` after it). Returns the list of violated clauses. -/
def violations (info : OpInfo) (prev cur : Obs) : List String := Id.run do
  let mut out : List String := []
  let ok := cur.result = "ok"
  -- (1) bank supply = Σ balances, balances non-negative
  if !cur.bankSumOk then out := out ++ ["bank_supply_ne_sum_of_balances"]
  if !cur.nonNeg then out := out ++ ["negative_balance"]
  -- (2) supply equality is preserved by every transaction-level op
  -- (`fmint` is the harness acting as the environment, outside the marker module)
  for m in cur.markers do
    if info.kind ≠ "fmint" && prev.supplyInvAt m.denom && !cur.supplyInvAt m.denom then
      out := out ++ [s!"supply_drift_after:{info.kind}"]
  -- (2b) a successful begin-block leaves every active fixed-supply marker matching the bank
  if ok && info.kind = "beginblock" then
    for m in cur.markers do
      if !cur.supplyInvAt m.denom then out := out ++ ["beginblock_left_supply_drift"]
  -- (3) status never moves backwards; a marker only vanishes at begin-block once destroyed
  for pm in prev.markers do
    match cur.marker? pm.denom with
    | some cm => if cm.status < pm.status then out := out ++ ["status_backwards"]
    | none =>
      if !(info.kind = "beginblock" && pm.status = .destroyed) then out := out ++ ["marker_vanished"]
  -- (4) destroy / admin cancel need every coin in the marker's own account
  for pm in prev.markers do
    match cur.marker? pm.denom with
    | some cm =>
      if cm.status = .destroyed && pm.status ≠ .destroyed && !prev.allInEscrow pm.denom then
        out := out ++ ["destroyed_with_coins_outside"]
      if info.kind = "cancel" && cm.status = .cancelled
          && (pm.status = .finalized || pm.status = .active) && !prev.allInEscrow pm.denom then
        out := out ++ ["admin_cancel_with_coins_outside"]
    | none => pure ()
  -- (5) minting into an active marker stays within the maximum
  if ok && (info.kind = "mint" || info.kind = "govinc") then
    match prev.marker? info.denom with
    | some pm =>
      if pm.status = .active && cur.supplyOf info.denom > prev.maxSupply then
        out := out ++ ["mint_past_max"]
    | none => pure ()
  -- (6) burning only debits the marker's own account
  if ok && (info.kind = "burn" || info.kind = "govdec" || info.kind = "delete"
      || (info.kind = "govstatus" && info.newStatus = some .destroyed)) then
    if !Obs.onlyEscrowDebited prev cur info.denom then out := out ++ ["burn_debits_other_account"]
  return out

end PvModel.MkrSup
