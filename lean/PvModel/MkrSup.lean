/-
C05 — marker supply and lifecycle (executable model, model name `mkrsup`).

Mirrors, function by function (error branches included, in the Go order):
* `Keeper.AddMarkerAccount`, `AddAccess`, `RemoveAccess`, `WithdrawCoins`, `MintCoin`, `BurnCoin`,
  `AdjustCirculation`, `IncreaseSupply`, `DecreaseSupply`, `FinalizeMarker`, `ActivateMarker`,
  `CancelMarker`, `DeleteMarker`, `TransferCoin`, `AddFinalizeAndActivateMarker`,
  `accountControlsAllSupply`, `validateSendToMarker`            x/marker/keeper/marker.go
* `HandleSupplyIncreaseProposal`, `HandleSupplyDecreaseProposal`, `HandleSetAdministratorProposal`,
  `HandleRemoveAdministratorProposal`, `HandleChangeStatusProposal`,
  `HandleWithdrawEscrowProposal`                                  x/marker/keeper/proposal_handler.go
* `msgServer.AddMarker`, `AddFinalizeActivateMarker`, the authority guards of the `*Proposal`
  endpoints, `UpdateParams`, and each message's `ValidateBasic`  x/marker/keeper/msg_server.go, types/msgs.go
* `MarkerAccount.Validate`, `GrantAccess`, `RevokeAccess`, `SetStatus`, `NewMarkerAccount`
                                                                  x/marker/types/marker.go
* `BeginBlocker`                                                  x/marker/abci.go
* `SendRestrictionFn` / `validateSendDenom` for a plain send without transfer agents, bypass
  accounts, deny list or required attributes                      x/marker/keeper/send_restrictions.go
* the bank keeper as `Bank` = the shared `Ledger` of balances PLUS a separately stored supply
  (`Bank.sup`, the bank module's supply store).  `GetSupply` reads the supply store, never the
  balances.  `SendCoins` = funds check + `Bank.move` (balances only).  `MintCoins` to the marker
  module pool followed by `SendCoinsFromModuleToAccount` = `Bank.mintTo` (a credit of the account
  and `setSupply(supply + amt)`, forked x/bank/keeper/keeper.go:352-377);
  `SendCoinsFromAccountToModule` + `BurnCoins` = `Bank.burnFrom` (a debit and
  `setSupply(supply - amt)`, keeper.go:392-410).  That the two stores agree
  (`GetSupply d = Σ balances of d`) is a theorem over histories (`PvProofs.C05`), not a definition.

Environment operations (not marker code): `fmint` (another module mints a denom to a holder) and
`govburn` (the gov module burns a deposit: `AddDeposit` then `DeleteAndBurnDeposits`,
forked x/gov/keeper/deposit.go:38,63).

Addresses are symbolic: users `A`…`E`, the governance authority `GOV`, and `@<denom>` for the
marker's own account (`MarkerAddress(denom)`).  Amounts are unbounded `Int` (256-bit overflow of
`sdkmath.Int` is outside this model; the harness keeps amounts far below 2^255).
-/
import PvModel.Coins
import PvModel.Util

namespace PvModel.MkrSup
open PvModel

/-- `types.MarkerStatus` (marker.pb.go): the numeric order is the lifecycle order. -/
inductive Status where
  | undefined | proposed | finalized | active | cancelled | destroyed
  deriving DecidableEq, Repr

def Status.toNat : Status → Nat
  | .undefined => 0 | .proposed => 1 | .finalized => 2 | .active => 3 | .cancelled => 4 | .destroyed => 5

def Status.name : Status → String
  | .undefined => "undefined" | .proposed => "proposed" | .finalized => "finalized"
  | .active => "active" | .cancelled => "cancelled" | .destroyed => "destroyed"

def Status.all : List Status := [.undefined, .proposed, .finalized, .active, .cancelled, .destroyed]
def Status.ofString? (s : String) : Option Status := Status.all.find? (·.name = s)

instance : LE Status := ⟨fun a b => a.toNat ≤ b.toNat⟩
instance : LT Status := ⟨fun a b => a.toNat < b.toNat⟩
instance (a b : Status) : Decidable (a ≤ b) := inferInstanceAs (Decidable (a.toNat ≤ b.toNat))
instance (a b : Status) : Decidable (a < b) := inferInstanceAs (Decidable (a.toNat < b.toNat))

/-- `types.Access` (accessgrant.pb.go), without `unknown`. -/
inductive Access where
  | mint | burn | deposit | withdraw | delete | admin | transfer | force
  deriving DecidableEq, Repr

def Access.toNat : Access → Nat
  | .mint => 1 | .burn => 2 | .deposit => 3 | .withdraw => 4 | .delete => 5 | .admin => 6
  | .transfer => 7 | .force => 8

def Access.name : Access → String
  | .mint => "mint" | .burn => "burn" | .deposit => "deposit" | .withdraw => "withdraw"
  | .delete => "delete" | .admin => "admin" | .transfer => "transfer" | .force => "force"

def Access.all : List Access := [.mint, .burn, .deposit, .withdraw, .delete, .admin, .transfer, .force]
def Access.ofString? (s : String) : Option Access := Access.all.find? (·.name = s)

abbrev Grant := Addr × List Access

/-- `types.MarkerAccount` restricted to the fields the property talks about. -/
structure Marker where
  denom : Denom
  status : Status
  supply : Int
  fixed : Bool
  restricted : Bool            -- MarkerType_RestrictedCoin (else MarkerType_Coin)
  access : List Grant := []
  manager : Addr := ""         -- "" = no manager
  gov : Bool := false          -- AllowGovernanceControl
  forced : Bool := false       -- AllowForcedTransfer
  deriving Repr

/-- Error classes (never message text). `negcoin` and `halt` are panics. -/
inductive Err where
  | notfound | perm | state | funds | below0 | max | escrow | escrow2 | preexisting | exists
  | nogov | authority | invalid | type | blocked | noforce | negcoin | halt
  deriving DecidableEq, Repr

def Err.toString : Err → String
  | .notfound => "err:notfound" | .perm => "err:perm" | .state => "err:state" | .funds => "err:funds"
  | .below0 => "err:below0" | .max => "err:max" | .escrow => "err:escrow" | .escrow2 => "err:escrow2"
  | .preexisting => "err:preexisting" | .exists => "err:exists" | .nogov => "err:nogov"
  | .authority => "err:authority" | .invalid => "err:invalid" | .type => "err:type"
  | .blocked => "err:blocked" | .noforce => "err:noforce"
  | .negcoin => "panic:negcoin" | .halt => "panic:other"

abbrev GOV : Addr := "GOV"
/-- `types.MarkerAddress(denom)` — the marker's own account. -/
def acct (d : Denom) : Addr := "@" ++ d

/-- The bank module's two stores: account balances (`led`, the shared append-only `Ledger`) and the
supply store (`sup`, an append-only list of supply deltas; the stored total of `d` is
`Coins.amountOf sup d`).  The supply store is written only by `mintTo` / `burnFrom` — exactly
where the Go bank keeper calls `setSupply` (`MintCoins` keeper.go:377, `BurnCoins` keeper.go:410);
`move` (`SendCoins`) never touches it. -/
structure Bank where
  led : Ledger := []
  sup : Coins := []
  deriving Repr

namespace Bank
/-- `GetBalance` -/
def bal (b : Bank) (a : Addr) (d : Denom) : Int := b.led.bal a d
/-- `GetSupply(denom).Amount`: a read of the supply store -/
def supply (b : Bank) (d : Denom) : Int := Coins.amountOf b.sup d
/-- `GetAllBalances` -/
def balances (b : Bank) (a : Addr) : Coins := b.led.balances a
/-- `SendCoins` (after its checks): balances only -/
def move (b : Bank) (f t : Addr) (cs : Coins) : Bank := { b with led := b.led.move f t cs }
/-- `MintCoins(pool, cs)` + `SendCoinsFromModuleToAccount(pool, a, cs)`: credit `a`, raise the stored supply -/
def mintTo (b : Bank) (a : Addr) (cs : Coins) : Bank := { led := b.led.credit a cs, sup := b.sup ++ cs }
/-- `SendCoinsFromAccountToModule(a, pool, cs)` + `BurnCoins(pool, cs)`: debit `a`, lower the stored supply -/
def burnFrom (b : Bank) (a : Addr) (cs : Coins) : Bank :=
  { led := b.led.debit a cs, sup := b.sup ++ Coins.neg cs }

@[simp] theorem bal_mintTo (b : Bank) (a c : Addr) (cs : Coins) (d : Denom) :
    (b.mintTo a cs).bal c d = b.bal c d + (if a = c then Coins.amountOf cs d else 0) := by
  simp [mintTo, bal]
@[simp] theorem bal_burnFrom (b : Bank) (a c : Addr) (cs : Coins) (d : Denom) :
    (b.burnFrom a cs).bal c d = b.bal c d - (if a = c then Coins.amountOf cs d else 0) := by
  simp [burnFrom, bal]
@[simp] theorem supply_mintTo (b : Bank) (a : Addr) (cs : Coins) (d : Denom) :
    (b.mintTo a cs).supply d = b.supply d + Coins.amountOf cs d := by
  simp [mintTo, supply]
@[simp] theorem supply_burnFrom (b : Bank) (a : Addr) (cs : Coins) (d : Denom) :
    (b.burnFrom a cs).supply d = b.supply d - Coins.amountOf cs d := by
  simp [burnFrom, supply]; omega
theorem supply_move (b : Bank) (f t : Addr) (cs : Coins) (d : Denom) :
    (b.move f t cs).supply d = b.supply d := rfl
theorem bal_move (b : Bank) (f t c : Addr) (cs : Coins) (d : Denom) :
    (b.move f t cs).bal c d =
      b.bal c d - (if f = c then Coins.amountOf cs d else 0) + (if t = c then Coins.amountOf cs d else 0) := by
  simp [move, bal, Ledger.bal_move]
end Bank

structure State where
  markers : List Marker := []
  bank : Bank := {}
  /-- `Params.MaxSupply` (types/params.go:14) -/
  maxSupply : Int := 100000000000000000000
  /-- `Params.MaxTotalSupply` (deprecated uint64 field 1 of the stored params; `DefaultParams`
  leaves it 0). It is stored and reported by the params query, but nothing reads it:
  `GetMaxSupply` (keeper/params.go:38) returns `MaxSupply` alone. -/
  maxTotalSupply : Int := 0
  /-- `Params.EnableGovernance` -/
  enableGov : Bool := true
  /-- denoms `d` whose marker address `@d` currently holds a plain (non-marker) auth account:
  `SendCoins` creates one for any recipient without an account (forked x/bank/keeper/send.go:332).
  Since the fix ed45788f3 the send restriction treats it as "no marker" (sends of `d` are not
  blocked); it still matters for `canForceTransferFrom` (a sequence-0 plain account cannot be
  force-debited) and is converted when the marker is added (`AddMarkerAccount`). -/
  plain : List Denom := []

/-- `GetMarkerByDenom` / `GetMarker(MarkerAddress(denom))` -/
def State.find (s : State) (d : Denom) : Option Marker := s.markers.find? (fun m => m.denom = d)
/-- `SetMarker` -/
def State.setMarker (s : State) (m : Marker) : State :=
  { s with markers := m :: s.markers.filter (fun x => x.denom ≠ m.denom) }
/-- `GetMarker(addr)`: the marker whose own account is `a`. -/
def State.markerAt (s : State) (a : Addr) : Option Marker := s.markers.find? (fun m => acct m.denom = a)

def check (b : Bool) (e : Err) : Except Err Unit := if b then .ok () else .error e

/-- `MarkerAccount.HasAccess` (types/marker.go:136) -/
def Marker.hasAccess (m : Marker) (a : Addr) (p : Access) : Bool :=
  m.access.any fun g => g.1 = a && g.2.contains p

/-- `AddressListForPermission(role)` is non-empty -/
def Marker.anyWith (m : Marker) (p : Access) : Bool := m.access.any fun g => g.2.contains p

/-- `MarkerAccount.Validate` (types/marker.go:206). -/
def validate (m : Marker) : Except Err Unit := do
  check (m.status ≠ .undefined) .invalid
  check (0 ≤ m.supply) .invalid
  check (!(m.status < .active && m.manager = "" && !m.anyWith .admin)) .invalid
  check (!(m.status = .finalized && !m.anyWith .mint && m.supply = 0)) .invalid
  -- ValidateGrantsForMarkerType: transfer / force_transfer only on restricted markers
  check (m.restricted || !(m.anyWith .transfer || m.anyWith .force)) .invalid
  -- no grant to the marker's own account; not self managed
  check (!(m.access.any fun g => g.1 = acct m.denom && !g.2.isEmpty)) .invalid
  check (m.manager ≠ acct m.denom) .invalid
  check (!(m.forced && !m.restricted)) .invalid

/-- `MarkerAccount.RevokeAccess` (types/marker.go:418) -/
def Marker.revokeAccess (m : Marker) (a : Addr) : Marker :=
  { m with access := m.access.filter fun g => g.1 ≠ a }

/-- `MarkerAccount.GrantAccess` (types/marker.go:396): merge existing permissions of the address,
drop its old entries, append the merged grant. -/
def Marker.grantAccess (m : Marker) (a : Addr) (ps : List Access) : Marker :=
  let merged := m.access.foldl
    (fun acc g => if g.1 = a then acc ++ g.2.filter (fun p => !acc.contains p) else acc) ps
  { m with access := (m.access.filter fun g => g.1 ≠ a) ++ [(a, merged)] }

/-- `MarkerAccount.SetStatus` (types/marker.go:350): activation clears the manager. -/
def Marker.setStatus (m : Marker) (st : Status) : Marker :=
  { m with status := st, manager := if st = .active then "" else m.manager }

def getMarkerByDenom (s : State) (d : Denom) : Except Err Marker :=
  match s.find d with
  | some m => .ok m
  | none => .error .notfound

/-! ### bank -/

/-- `bankKeeper.SendCoins` after the send restriction: spendable check, then move. -/
def sendCoins (b : Bank) (fromA toA : Addr) (cs : Coins) : Except Err Bank := do
  check (Coins.nonneg cs) .invalid
  check ((Coins.denoms cs).all fun d => decide (Coins.amountOf cs d ≤ b.bal fromA d)) .funds
  pure (b.move fromA toA cs)

/-- `AdjustCirculation` (marker.go:303): mint into / burn from the marker's own account until the
bank's stored supply of the denom (`GetSupply`, marker.go:306) equals `desired`. -/
def adjustCirculation (b : Bank) (d : Denom) (desired : Int) : Except Err Bank :=
  let cur := b.supply d
  if cur < desired then .ok (b.mintTo (acct d) [(d, desired - cur)])
  else if desired < cur then
    if b.bal (acct d) d < cur - desired then .error .funds
    else .ok (b.burnFrom (acct d) [(d, cur - desired)])
  else .ok b

/-- `IncreaseSupply` (marker.go:343) -/
def increaseSupply (s : State) (m : Marker) (n : Int) : Except Err State := do
  let total := s.bank.supply m.denom + n
  -- `sdk.NewCoin(denom, GetMaxSupply)` (marker.go:348) panics for a negative configured maximum
  -- (`Params.Validate` does not look at `max_supply`, so governance can store one)
  check (0 ≤ s.maxSupply) .negcoin
  check (total ≤ s.maxSupply) .max
  let s1 ← (if m.fixed then do
      let m' := { m with supply := total }
      validate m'
      pure (s.setMarker m')
    else pure s)
  let b ← adjustCirculation s1.bank m.denom total
  pure { s1 with bank := b }

/-- `DecreaseSupply` (marker.go:369) -/
def decreaseSupply (s : State) (m : Marker) (n : Int) : Except Err State := do
  let cur := s.bank.supply m.denom
  check (!(cur < n)) .below0
  check (!(s.bank.bal (acct m.denom) m.denom < n)) .funds
  let s1 ← (if m.fixed then do
      let m' := { m with supply := cur - n }
      validate m'
      pure (s.setMarker m')
    else pure s)
  match adjustCirculation s1.bank m.denom (cur - n) with
  | .ok b => pure { s1 with bank := b }
  | .error _ => .error .halt

/-- `validateSendToMarker` (marker.go:878) -/
def validateSendToMarker (s : State) (toA admin : Addr) : Except Err Unit :=
  match s.markerAt toA with
  | some tm => if tm.restricted then check (tm.hasAccess admin .deposit) .perm else pure ()
  | none => pure ()

/-- `SendRestrictionFn` + `validateSendDenom` for one coin of denom `d`, no transfer agents. -/
def sendRestriction (s : State) (fromA toA : Addr) (d : Denom) : Except Err Unit := do
  check ((s.markerAt fromA).isNone) .perm          -- cannot withdraw from a marker account
  validateSendToMarker s toA fromA
  match s.find d with
  | some m =>
    check (m.status = .active) .state
    if m.restricted then check (m.hasAccess fromA .transfer) .perm else pure ()
  | none => pure ()   -- also when a plain account sits at `@d`: `GetMarker`'s error is ignored (fix ed45788f3)

/-! ### marker keeper -/

/-- `AddMarkerAccount` (marker.go:37) -/
def addMarkerAccount (s : State) (m : Marker) : Except Err State := do
  validate m
  check ((s.find m.denom).isNone) .exists
  validate m
  pure (s.setMarker m)

structure AddReq where
  sender : Addr
  denom : Denom
  amt : Int
  status : Status
  restricted : Bool
  fixed : Bool
  gov : Bool
  forced : Bool
  manager : Addr
  access : List Grant

/-- `NewMarkerAccount` (types/marker.go:80): the manager is cleared for status ≥ active. -/
def newMarkerAccount (r : AddReq) (manager : Addr) (st : Status) (allowGov : Bool) : Marker :=
  { denom := r.denom, status := st, supply := r.amt, fixed := r.fixed, restricted := r.restricted,
    access := r.access, manager := if Status.active ≤ st then "" else manager, gov := allowGov,
    forced := r.forced }

/-- `msgServer.AddMarker` (msg_server.go:61) after `MsgAddMarkerRequest.ValidateBasic` (msgs.go:213). -/
def addMarker (s : State) (r : AddReq) : Except Err State := do
  check (!(r.manager = "" && r.status = .proposed)) .invalid
  check (0 ≤ r.amt) .invalid
  check (!(r.forced && !r.restricted)) .invalid
  let isGov := r.sender = GOV
  check (isGov || r.status = .finalized || r.status = .proposed) .invalid
  let manager := if r.manager ≠ "" then r.manager else if r.status ≠ .active then r.sender else ""
  let allowGov := r.gov || (!isGov && s.enableGov)
  let ma := newMarkerAccount r manager r.status allowGov
  let s1 ← addMarkerAccount s ma
  if ma.status = .active then do
    let b ← adjustCirculation s1.bank r.denom r.amt
    pure { s1 with bank := b }
  else pure s1

/-- `FinalizeMarker` (marker.go:406) -/
def finalizeMarker (s : State) (caller : Addr) (d : Denom) : Except Err State := do
  let m ← getMarkerByDenom s d
  check (m.manager = caller) .perm
  check (m.status = .proposed) .state
  validate m
  check (!(m.supply < s.bank.supply d)) .preexisting
  let m' := m.setStatus .finalized
  validate m'
  pure (s.setMarker m')

/-- `ActivateMarker` (marker.go:467) -/
def activateMarker (s : State) (caller : Addr) (d : Denom) : Except Err State := do
  let m ← getMarkerByDenom s d
  check (m.manager = caller) .perm
  check (m.status = .finalized) .state
  check (!(m.supply < s.bank.supply d)) .preexisting
  let b ← adjustCirculation s.bank d m.supply
  let m' := m.setStatus .active
  validate m'
  pure { (s.setMarker m') with bank := b }

/-- `msgServer.AddFinalizeActivateMarker` (msg_server.go:487) after its `ValidateBasic`. -/
def addFinalizeActivate (s : State) (r : AddReq) : Except Err State := do
  check (0 ≤ r.amt) .invalid
  check (r.manager ≠ "") .invalid
  check (!r.access.isEmpty) .invalid
  check (!(r.forced && !r.restricted)) .invalid
  let ma := newMarkerAccount r r.manager .proposed (r.gov || s.enableGov)
  let s1 ← addMarkerAccount s ma
  let s2 ← finalizeMarker s1 r.manager r.denom
  activateMarker s2 r.manager r.denom

/-- `MintCoin` (marker.go:214) after `MsgMintRequest.ValidateBasic`. -/
def mintCoin (s : State) (caller : Addr) (d : Denom) (n : Int) : Except Err State := do
  check (0 ≤ n) .invalid
  let m ← getMarkerByDenom s d
  check (m.hasAccess caller .mint) .perm
  if m.status = .proposed ∨ m.status = .finalized then do
    let m' := { m with supply := m.supply + n }
    validate m'
    pure (s.setMarker m')
  else if m.status ≠ .active then .error .state
  else increaseSupply s m n

/-- `BurnCoin` (marker.go:254); `Coin.Sub` panics on a negative result. -/
def burnCoin (s : State) (caller : Addr) (d : Denom) (n : Int) : Except Err State := do
  check (0 ≤ n) .invalid
  let m ← getMarkerByDenom s d
  check (m.hasAccess caller .burn) .perm
  if m.status = .proposed ∨ m.status = .finalized then do
    check (!(m.supply < n)) .negcoin
    let m' := { m with supply := m.supply - n }
    validate m'
    pure (s.setMarker m')
  else if m.status ≠ .active then .error .state
  else decreaseSupply s m n

/-- positive amounts (`sdk.Coins.Validate`) -/
def coinsPositive (cs : Coins) : Bool := cs.all fun c => decide (0 < c.2)

/-- `WithdrawCoins` (marker.go:169) after `MsgWithdrawRequest.ValidateBasic`. -/
def withdrawCoins (s : State) (caller toA : Addr) (d : Denom) (cs : Coins) : Except Err State := do
  check (coinsPositive cs) .invalid
  let m ← getMarkerByDenom s d
  check (m.hasAccess caller .withdraw) .perm
  validateSendToMarker s toA caller
  check (m.status = .active) .state
  check (toA ≠ GOV) .blocked
  let b ← sendCoins s.bank (acct d) toA cs
  pure { s with bank := b }

/-- `TransferCoin` (marker.go:624); no authz grants exist in this model, module accounts cannot
be force-debited (`canForceTransferFrom`). -/
def transferCoin (s : State) (admin fromA toA : Addr) (d : Denom) (n : Int) : Except Err State := do
  check (0 ≤ n) .invalid
  let m ← getMarkerByDenom s d
  check (m.status = .active) .state
  check m.restricted .type
  let canForce := m.hasAccess admin .force
  check (m.hasAccess admin .transfer || canForce) .perm
  validateSendToMarker s toA admin
  -- `if !admin.Equals(from)`: forced transfer (authz grants do not exist in this model) …
  check (admin = fromA || (m.forced && canForce)) .perm
  -- … and `canForceTransferFrom`: not from module accounts nor from sequence-0 plain accounts
  check (admin = fromA || (fromA ≠ GOV && !(s.plain.any fun x => acct x = fromA))) .noforce
  check (toA ≠ GOV) .blocked
  let b ← sendCoins s.bank fromA toA [(d, n)]
  pure { s with bank := b }

/-- `CancelMarker` (marker.go:518) -/
def cancelMarker (s : State) (caller : Addr) (d : Denom) : Except Err State := do
  let m ← getMarkerByDenom s d
  match m.status with
  | .finalized | .active =>
    check (m.hasAccess caller .delete) .perm
    check (!(0 < s.bank.supply d - s.bank.bal (acct d) d)) .escrow
    let m' := m.setStatus .cancelled
    validate m'
    pure (s.setMarker m')
  | .proposed =>
    check (m.hasAccess caller .delete || m.manager = caller) .perm
    let m' := m.setStatus .cancelled
    validate m'
    pure (s.setMarker m')
  | .cancelled => pure s
  | _ => .error .state

/-- `DeleteMarker` (marker.go:566) -/
def deleteMarker (s : State) (caller : Addr) (d : Denom) : Except Err State := do
  let m ← getMarkerByDenom s d
  check (m.hasAccess caller .delete || m.manager = caller) .perm
  check (m.status = .cancelled) .state
  let total := s.bank.supply d
  check (!(0 < total - s.bank.bal (acct d) d)) .escrow
  let s1 ← decreaseSupply s m total
  check ((s1.bank.balances (acct d)).isEmpty) .escrow2
  let m2 ← getMarkerByDenom s1 d
  let m3 := m2.setStatus .destroyed
  validate m3
  pure (s1.setMarker m3)

/-- `accountControlsAllSupply` (marker.go:868, after the fix a784a9d34): the caller holds the whole
bank supply of the denom and that supply is positive. -/
def controlsAllSupply (s : State) (caller : Addr) (m : Marker) : Bool :=
  0 < s.bank.supply m.denom && s.bank.supply m.denom = s.bank.bal caller m.denom

/-- the rule before a784a9d34: the caller's balance equals the *recorded* supply (which a
floating-supply marker never updates). Kept only for the `…_before_fix` witness. -/
def controlsAllSupplyPreFix (s : State) (caller : Addr) (m : Marker) : Bool :=
  s.bank.bal caller m.denom = m.supply

/-- the authorisation prefix shared by `AddAccess` / `RemoveAccess` (marker.go:92-107,134-149) -/
def accessChangeAllowed (s : State) (caller : Addr) (m : Marker) : Except Err Unit :=
  match m.status with
  | .finalized | .active =>
    check ((caller = m.manager && m.status = .finalized) || m.hasAccess caller .admin
      || controlsAllSupply s caller m) .perm
  | .proposed => check (m.manager = caller) .perm
  | _ => .error .state

/-- `AddAccess` (marker.go:82), one grant -/
def addAccess (s : State) (caller : Addr) (d : Denom) (a : Addr) (ps : List Access) : Except Err State := do
  let m ← getMarkerByDenom s d
  accessChangeAllowed s caller m
  let m' := m.grantAccess a ps
  validate m'
  pure (s.setMarker m')

/-- `RemoveAccess` (marker.go:126) -/
def removeAccess (s : State) (caller : Addr) (d : Denom) (a : Addr) : Except Err State := do
  let m ← getMarkerByDenom s d
  accessChangeAllowed s caller m
  let m' := m.revokeAccess a
  validate m'
  pure (s.setMarker m')

/-! ### governance handlers (proposal_handler.go) -/

/-- the lookup + governance flag prefix of every handler -/
def govMarker (s : State) (d : Denom) : Except Err Marker := do
  let m ← getMarkerByDenom s d
  check m.gov .nogov
  pure m

/-- `HandleSupplyIncreaseProposal` (proposal_handler.go:13) behind the authority guard. -/
def govSupplyIncrease (s : State) (auth : Addr) (d : Denom) (n : Int) (target : Addr) : Except Err State := do
  check (0 ≤ n) .invalid            -- `ValidateBasic` runs before the handler
  check (auth = GOV) .authority
  let m ← govMarker s d
  if m.status = .proposed ∨ m.status = .finalized then do
    let m' := { m with supply := m.supply + n }
    validate m'
    pure (s.setMarker m')
  else if m.status ≠ .active then .error .state
  else do
    let s1 ← increaseSupply s m n
    if target ≠ "" then do
      let b ← sendCoins s1.bank (acct d) target [(d, n)]
      pure { s1 with bank := b }
    else pure s1

/-- `HandleSupplyDecreaseProposal` (proposal_handler.go:67): no status check. -/
def govSupplyDecrease (s : State) (auth : Addr) (d : Denom) (n : Int) : Except Err State := do
  check (0 ≤ n) .invalid
  check (auth = GOV) .authority
  let m ← govMarker s d
  decreaseSupply s m n

/-- `HandleChangeStatusProposal` (proposal_handler.go:164) -/
def govChangeStatus (s : State) (auth : Addr) (d : Denom) (st : Status) : Except Err State := do
  check (auth = GOV) .authority
  let m ← govMarker s d
  check (st ≠ .undefined) .invalid
  check (!(st < m.status)) .state
  let b1 ← (if st = .active then adjustCirculation s.bank d m.supply else pure s.bank)
  let b2 ← (if st = .destroyed then do
      check (m.status = .cancelled) .state
      adjustCirculation b1 d 0
    else pure b1)
  let m' := m.setStatus st
  validate m'
  pure { (s.setMarker m') with bank := b2 }

/-- `HandleWithdrawEscrowProposal` (proposal_handler.go:222) -/
def govWithdrawEscrow (s : State) (auth : Addr) (d : Denom) (toA : Addr) (cs : Coins) : Except Err State := do
  check (coinsPositive cs) .invalid
  check (auth = GOV) .authority
  let _ ← govMarker s d
  let b ← sendCoins s.bank (acct d) toA cs
  pure { s with bank := b }

/-- `HandleSetAdministratorProposal` (proposal_handler.go:93), one grant -/
def govSetAdministrator (s : State) (auth : Addr) (d : Denom) (a : Addr) (ps : List Access) : Except Err State := do
  check (auth = GOV) .authority
  let m ← govMarker s d
  let m' := m.grantAccess a ps
  validate m'
  pure (s.setMarker m')

/-- `HandleRemoveAdministratorProposal` (proposal_handler.go:125), one address -/
def govRemoveAdministrator (s : State) (auth : Addr) (d : Denom) (a : Addr) : Except Err State := do
  check (auth = GOV) .authority
  let m ← govMarker s d
  let m' := m.revokeAccess a
  validate m'
  pure (s.setMarker m')

/-- `msgServer.UpdateParams` (msg_server.go:836) -/
def updateParams (s : State) (auth : Addr) (maxS mts : Int) (eg : Bool) : Except Err State := do
  check (auth = GOV) .authority
  pure { s with maxSupply := maxS, maxTotalSupply := mts, enableGov := eg }

/-! ### bank send, begin block, environment -/

/-- bank `MsgSend` of one coin: positive amount, blocked recipient, then `SendCoins` of the forked
SDK (x/bank/keeper/send.go:311): spendable funds first, send restriction second. -/
def bankSend (s : State) (fromA toA : Addr) (d : Denom) (n : Int) : Except Err State := do
  check (0 < n) .invalid
  check (toA ≠ GOV) .blocked
  let b ← sendCoins s.bank fromA toA [(d, n)]
  sendRestriction s fromA toA d
  pure { s with bank := b }

/-- the supply correction of `BeginBlocker` (abci.go:19-32) over the marker list -/
def beginBlockAdjust (b : Bank) : List Marker → Except Err Bank
  | [] => .ok b
  | m :: rest =>
    if m.status = .active ∧ m.fixed = true ∧ m.supply ≠ b.supply m.denom then
      match adjustCirculation b m.denom m.supply with
      | .ok b' => beginBlockAdjust b' rest
      | .error _ => .error .halt
    else beginBlockAdjust b rest

/-- `BeginBlocker` (abci.go:15): correct fixed supplies (panics when it cannot), then remove
destroyed markers. -/
def beginBlock (s : State) : Except Err State := do
  let b ← beginBlockAdjust s.bank s.markers
  pure { s with bank := b, markers := s.markers.filter fun m => m.status ≠ .destroyed }

/-- environment: some other module mints `n` of `d` to `toA`. -/
def foreignMint (s : State) (toA : Addr) (d : Denom) (n : Int) : Except Err State := do
  check (0 ≤ n) .invalid
  pure { s with bank := s.bank.mintTo toA [(d, n)] }

/-- environment: `fromA` deposits `n` of `d` on a governance proposal (`AddDeposit`: a restricted
send to the gov module account) and the deposit is burned (`DeleteAndBurnDeposits`). -/
def govDepositBurn (s : State) (fromA : Addr) (d : Denom) (n : Int) : Except Err State := do
  check (0 < n) .invalid
  check (!(s.bank.bal fromA d < n)) .funds
  sendRestriction s fromA GOV d
  pure { s with bank := s.bank.burnFrom fromA [(d, n)] }

/-! ### operations -/

inductive Op where
  | add (r : AddReq)
  | addfa (r : AddReq)
  | finalize (caller : Addr) (d : Denom)
  | activate (caller : Addr) (d : Denom)
  | mint (caller : Addr) (d : Denom) (n : Int)
  | burn (caller : Addr) (d : Denom) (n : Int)
  | withdraw (caller toA : Addr) (d : Denom) (cs : Coins)
  | transfer (admin fromA toA : Addr) (d : Denom) (n : Int)
  | cancel (caller : Addr) (d : Denom)
  | delete (caller : Addr) (d : Denom)
  | addaccess (caller : Addr) (d : Denom) (a : Addr) (ps : List Access)
  | delaccess (caller : Addr) (d : Denom) (a : Addr)
  | govinc (auth : Addr) (d : Denom) (n : Int) (target : Addr)
  | govdec (auth : Addr) (d : Denom) (n : Int)
  | govstatus (auth : Addr) (d : Denom) (st : Status)
  | govwithdraw (auth : Addr) (d : Denom) (toA : Addr) (cs : Coins)
  | govsetadmin (auth : Addr) (d : Denom) (a : Addr) (ps : List Access)
  | govrmadmin (auth : Addr) (d : Denom) (a : Addr)
  | params (auth : Addr) (maxS mts : Int) (eg : Bool)
  | send (fromA toA : Addr) (d : Denom) (n : Int)
  | beginblock
  | fmint (toA : Addr) (d : Denom) (n : Int)
  | govburn (fromA : Addr) (d : Denom) (n : Int)

/-- one transaction-level operation; `Except.error` = the transaction is rejected (or panics)
and, by transaction atomicity, leaves the state unchanged (`step`). -/
def exec (s : State) : Op → Except Err State
  | .add r => addMarker s r
  | .addfa r => addFinalizeActivate s r
  | .finalize c d => finalizeMarker s c d
  | .activate c d => activateMarker s c d
  | .mint c d n => mintCoin s c d n
  | .burn c d n => burnCoin s c d n
  | .withdraw c t d cs => withdrawCoins s c t d cs
  | .transfer a f t d n => transferCoin s a f t d n
  | .cancel c d => cancelMarker s c d
  | .delete c d => deleteMarker s c d
  | .addaccess c d a ps => addAccess s c d a ps
  | .delaccess c d a => removeAccess s c d a
  | .govinc au d n t => govSupplyIncrease s au d n t
  | .govdec au d n => govSupplyDecrease s au d n
  | .govstatus au d st => govChangeStatus s au d st
  | .govwithdraw au d t cs => govWithdrawEscrow s au d t cs
  | .govsetadmin au d a ps => govSetAdministrator s au d a ps
  | .govrmadmin au d a => govRemoveAdministrator s au d a
  | .params au mx mts eg => updateParams s au mx mts eg
  | .send f t d n => bankSend s f t d n
  | .beginblock => beginBlock s
  | .fmint t d n => foreignMint s t d n
  | .govburn f d n => govDepositBurn s f d n

/-- the denom whose marker address `a` is (`@d` ↦ `d`) -/
def acctDenom? (a : Addr) : Option Denom := if a.startsWith "@" then some (a.drop 1).toString else none

/-- the explicit recipient of an operation: `SendCoins` creates a plain account for a recipient
that has none (even when the coin list is empty) -/
def creditedAddr (s : State) : Op → Option Addr
  | .withdraw _ t _ _ => some t
  | .transfer _ _ t _ _ => some t
  | .govwithdraw _ _ t _ => some t
  | .govinc _ d _ t =>     -- the target is only paid when the marker is active
    if t ≠ "" ∧ (s.find d).map (·.status) = some .active then some t else none
  | .send _ t _ _ => some t
  | .fmint t _ n => if 0 < n then some t else none
  | _ => none

/-- auth-account bookkeeping after a successful operation (`s` before, `s'` after): a marker
address that was the recipient of a send while no marker record exists now holds a plain account;
creating the marker converts it, removing the marker (`RemoveMarker`) deletes it. -/
def refreshPlain (op : Op) (s s' : State) : State :=
  let touched := ((creditedAddr s op).bind acctDenom?).toList
  { s' with plain := ((s.plain ++ touched).filter fun d => (s'.find d).isNone).eraseDups }

def step (s : State) (op : Op) : State :=
  match exec s op with
  | .ok s' => refreshPlain op s s'
  | .error _ => s

def run (s : State) (ops : List Op) : State := ops.foldl step s

end PvModel.MkrSup
