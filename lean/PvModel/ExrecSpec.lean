/-
C13 — declarative side.

What the module documentation (keys.go:60-82, x/exchange/spec/02_state.md) says the store
contains, independent of the handlers' control flow:

* an order record `0x02 | id` has exactly the index entries `orderIndexEntries`
  (market, owner, asset; external id iff it has one) and every index entry belongs to a
  live order (`IndexInv`);
* a payment record is keyed by (source, external id) and has a target-index entry iff it has
  a target;
* the lookups answer from the records: `specOrders` / `specPayments` (filter the records,
  order by id / key) is what a listing must return, whatever the page size.

`checkInv` is the executable form of `IndexInv` that the driver runs on the raw store the
IMPLEMENTATION dumped.
-/
import PvModel.Exrec

namespace PvModel.Exrec

/-! ### Records present in a store -/

/-- every order record, with the id taken from its key -/
def orderRecords (s : Store) : List Order :=
  s.filterMap fun e =>
    match e.1, e.2 with
    | 2 :: r, .order o => (u64FromBz r).map fun id => { o with id := id }
    | _, _ => none

def paymentRecords (s : Store) : List Payment :=
  s.filterMap fun e => match e.1, e.2 with | 112 :: _, .payment p => some p | _, _ => none

/-- (market, account, amount) of every commitment record -/
def commitmentRecords (s : Store) : List (UInt32 × Bytes × Nat) :=
  s.filterMap fun e =>
    match e.1, e.2 with
    | 99 :: a :: b :: c :: d :: r, .coins n =>
      (match parseLengthPrefixedAddr r with
       | some (addr, []) => some (UInt32.ofNat (a * 16777216 + b * 65536 + c * 256 + d), addr, n)
       | _ => none)
    | _, _ => none

/-! ### The documented index entries of a record -/

def orderIndexEntries (o : Order) : List Entry :=
  [(idxMarketToOrder o.market o.id, .tbyte o.tb),
   (idxAddressToOrder o.owner o.id, .tbyte o.tb),
   (idxAssetToOrder o.assetDenom o.id, .tbyte o.tb)] ++
  (if o.ext = [] then [] else [(idxMarketExternalIDToOrder o.market o.ext, .u64 o.id)])

def paymentIndexEntries (p : Payment) : List Entry :=
  if p.target = [] then [] else [(idxTargetToPayment p.target p.source p.ext, .empty)]

def isOrderIndexKey : Bytes → Bool
  | b :: _ => b = 3 || b = 4 || b = 5 || b = 9
  | [] => false

/-- the store as a lookup function -/
abbrev KV := Bytes → Option Val

/-- Order present ⇔ exactly its index entries; no dangling entries; same for payments.
Stated on the lookup function so that it does not depend on how the store is represented. -/
structure IndexInvF (g : KV) : Prop where
  /-- every `0x02…` key is an order key holding an order record carrying that id -/
  order_key : ∀ r v, g (2 :: r) = some v → ∃ id o, r = u64Bz id ∧ v = .order o ∧ o.id = id
  /-- an order record has all of its index entries -/
  indexed : ∀ id o, g (keyOrder id) = some (.order o) → ∀ e ∈ orderIndexEntries o, g e.1 = some e.2
  /-- every entry of the four order indexes is an index entry of a live order -/
  no_dangling : ∀ k v, isOrderIndexKey k = true → g k = some v →
    ∃ id o, g (keyOrder id) = some (.order o) ∧ (k, v) ∈ orderIndexEntries o
  /-- every `0x70…` key is the key of the payment it holds -/
  pay_key : ∀ r v, g (112 :: r) = some v → ∃ p, v = .payment p ∧ 112 :: r = keyPayment p.source p.ext
  /-- a payment with a target is listed under that target -/
  pay_indexed : ∀ p, g (keyPayment p.source p.ext) = some (.payment p) →
    ∀ e ∈ paymentIndexEntries p, g e.1 = some e.2
  /-- every target-index entry belongs to a stored payment with that (current) target -/
  pay_no_dangling : ∀ r v, g (16 :: r) = some v →
    ∃ p, g (keyPayment p.source p.ext) = some (.payment p) ∧ (16 :: r, v) ∈ paymentIndexEntries p

def IndexInv (s : Store) : Prop := IndexInvF s.get

/-- no key occurs twice (so a prefix scan returns each entry once) -/
def KeysNodup (s : Store) : Prop := (s.map Prod.fst).Nodup

/-- every order id in the store is between 1 and the last-order-id counter -/
def CounterInv (s : Store) : Prop :=
  ∀ id v, s.get (keyOrder id) = some v → 1 ≤ id.toNat ∧ id.toNat ≤ (getLastOrderID s).toNat

/-- the order ids handed out along a history, in order -/
def createdOrderIds (st : State) : List Op → List UInt64
  | [] => []
  | op :: ops =>
    match apply st op with
    | some (st', .orderId id) => id :: createdOrderIds st' ops
    | some (st', _) => createdOrderIds st' ops
    | none => createdOrderIds st ops

/-- the market ids of the markets created along a history, in order -/
def createdMarketIds (st : State) : List Op → List UInt32
  | [] => []
  | op :: ops =>
    match apply st op with
    | some (st', .marketId m) => m :: createdMarketIds st' ops
    | some (st', _) => createdMarketIds st' ops
    | none => createdMarketIds st ops

/-- a market id identifies at most one market: the known-market entries and the market accounts
are the same ids, each once -/
structure MarketInv (st : State) : Prop where
  known_iff : ∀ m, isMarketKnown st.kv m = true ↔ m ∈ st.accts.map Prod.fst
  accts_nodup : (st.accts.map Prod.fst).Nodup

/-! ### What a listing must return -/

inductive OrderLookup
  | market (m : UInt32) | owner (a : Bytes) | asset (d : Bytes) | all
deriving Repr, DecidableEq

def OrderLookup.matches (l : OrderLookup) (o : Order) : Bool :=
  match l with
  | .market m => o.market = m
  | .owner a => o.owner = a
  | .asset d => o.assetDenom = d
  | .all => true

def insertById (o : Order) : List Order → List Order
  | [] => [o]
  | x :: r => if o.id ≤ x.id then o :: x :: r else x :: insertById o r

def sortById (os : List Order) : List Order := os.foldr insertById []

/-- The orders a lookup must list: the matching open orders (optionally of one type, optionally
with id greater than `after`; `after = 0` means no bound), by ascending id, or descending. -/
def specOrders (s : Store) (l : OrderLookup) (ty : Option Nat) (after : UInt64) (reverse : Bool) :
    List Order :=
  let os := (orderRecords s).filter fun o =>
    l.matches o && (match ty with | none => true | some b => o.tb = b) && (after = 0 || after < o.id)
  let os := sortById os
  if reverse then os.reverse else os

inductive PaymentLookup
  | source (a : Bytes) | target (a : Bytes) | all
deriving Repr, DecidableEq

def PaymentLookup.matches (l : PaymentLookup) (p : Payment) : Bool :=
  match l with
  | .source a => p.source = a
  | .target a => a ≠ [] && p.target = a
  | .all => true

/-- payments are listed by (source, external id) key order -/
def paymentSortKey (p : Payment) : Bytes := lengthPrefix p.source ++ p.ext

def insertPayment (p : Payment) : List Payment → List Payment
  | [] => [p]
  | x :: r => if bytesLe (paymentSortKey p) (paymentSortKey x) then p :: x :: r else x :: insertPayment p r

def specPayments (s : Store) (l : PaymentLookup) (reverse : Bool) : List Payment :=
  let ps := ((paymentRecords s).filter l.matches).foldr insertPayment []
  if reverse then ps.reverse else ps

/-! ### What a client does to read a whole listing -/

/-- Follow `next_key` through `filteredPaginateAfterOrder` (first request without a key) and
concatenate the pages; `fuel` bounds the number of requests. -/
def collectByKey (ps : List Entry) (limit : Nat) (rev : Bool) (after : UInt64) (hit : Entry → Bool) :
    Nat → Option Bytes → Except PErr (List Entry)
  | 0, _ => .error .invalid
  | fuel + 1, key =>
    match filteredPaginateAfterOrder ps { key := key, limit := limit, reverse := rev } after hit with
    | .error e => .error e
    | .ok (acc, resp) =>
      match resp.nextKey with
      | some (b :: r) =>
        (match collectByKey ps limit rev after hit fuel (some (b :: r)) with
         | .error e => .error e
         | .ok rest => .ok (acc ++ rest))
      | _ => .ok acc

/-- Advance `offset` by `limit` while the response carries a `next_key`. -/
def collectByOffset (ps : List Entry) (limit : Nat) (rev : Bool) (after : UInt64) (hit : Entry → Bool) :
    Nat → Nat → Except PErr (List Entry)
  | 0, _ => .error .invalid
  | fuel + 1, offset =>
    match filteredPaginateAfterOrder ps { offset := offset, limit := limit, reverse := rev } after hit with
    | .error e => .error e
    | .ok (acc, resp) =>
      match resp.nextKey with
      | some (_ :: _) =>
        (match collectByOffset ps limit rev after hit fuel (offset + limit) with
         | .error e => .error e
         | .ok rest => .ok (acc ++ rest))
      | _ => .ok acc

/-! ### What a client does to read a whole listing at the gRPC level (any item type) -/

/-- the page size a request with `limit` gets (`limit = 0`: the default, 100 — orders.go:317,
types/query/pagination.go:62) -/
def effLimit (limit : Nat) : Nat := if limit = 0 then defaultLimit else limit

/-- the index prefix a lookup scans (`GetMarketOrders` / `GetOwnerOrders` / `GetAssetOrders`,
grpc_query.go:115-183); `GetAllOrders` scans the order records themselves -/
def OrderLookup.prefixOf : OrderLookup → Bytes
  | .market m => prefixMarketToOrder m
  | .owner a => prefixAddressToOrder a
  | .asset d => prefixAssetToOrder d
  | .all => prefixOrder

/-- Follow `next_key` through ANY paged query `page` (first request without a key) and concatenate the
pages; `limit = 0` asks for the default page size; `fuel` bounds the number of requests. -/
def followKeys {α : Type} (page : PageReq → Except PErr (List α × PageResp)) (limit : Nat) (rev : Bool) :
    Nat → Option Bytes → Except PErr (List α)
  | 0, _ => .error .invalid
  | fuel + 1, key =>
    match page { key := key, limit := limit, reverse := rev } with
    | .error e => .error e
    | .ok (items, resp) =>
      match resp.nextKey with
      | some (b :: r) =>
        (match followKeys page limit rev fuel (some (b :: r)) with
         | .error e => .error e
         | .ok rest => .ok (items ++ rest))
      | _ => .ok items

/-- Advance `offset` by the page size (`effLimit limit`) while the response carries a `next_key`. -/
def followOffsets {α : Type} (page : PageReq → Except PErr (List α × PageResp)) (limit : Nat) (rev : Bool) :
    Nat → Nat → Except PErr (List α)
  | 0, _ => .error .invalid
  | fuel + 1, offset =>
    match page { offset := offset, limit := limit, reverse := rev } with
    | .error e => .error e
    | .ok (items, resp) =>
      match resp.nextKey with
      | some (_ :: _) =>
        (match followOffsets page limit rev fuel (offset + effLimit limit) with
         | .error e => .error e
         | .ok rest => .ok (items ++ rest))
      | _ => .ok items

/-! ### What `parseRaw` guarantees of a dump of a real KV store -/

/-- A well-formed dump: each key once (it is the iteration of a KV store), and each order record carries
the id read from its key (`parseRaw` re-reads it; the id is not part of the stored value). -/
structure DumpWF (s : Store) : Prop where
  nodup : KeysNodup s
  ids : ∀ r o, (2 :: r, Val.order o) ∈ s → o.id = (u64FromBz r).getD 0

/-! ### What the records reserve (observed through the hold module) -/

def usdDenom : Bytes := [117, 115, 100]

/-- what the exchange module has reserved for account `a` according to its records (markets without
fees): an ask reserves its assets, a bid its price, a payment its source amount, a commitment its
amount (x/exchange/spec/01_concepts.md, "Holds") -/
def reservedOf (s : Store) (a : Bytes) : List (Bytes × Nat) :=
  (orderRecords s).filterMap (fun o =>
    if o.owner = a then some (if o.isBid then (o.priceDenom, o.priceAmt) else (o.assetDenom, o.assetAmt))
    else none) ++
  (paymentRecords s).filterMap (fun p => if p.source = a then some (usdDenom, p.srcAmt) else none) ++
  (commitmentRecords s).filterMap (fun c => if c.2.1 = a then some (usdDenom, c.2.2) else none)

def addCoin (d : Bytes) (n : Nat) : List (Bytes × Nat) → List (Bytes × Nat)
  | [] => [(d, n)]
  | (d', m) :: r =>
    if d = d' then (d', m + n) :: r
    else if bytesLt d d' then (d, n) :: (d', m) :: r
    else (d', m) :: addCoin d n r

/-- the reserved amounts per denom, sorted by denom, zero amounts dropped -/
def specHolds (s : Store) (a : Bytes) : List (Bytes × Nat) :=
  ((reservedOf s a).foldl (fun acc c => addCoin c.1 c.2 acc) []).filter (fun c => c.2 ≠ 0)

/-! ### What an accepted creation may touch -/

/-- the order and payment records of a store, as entries -/
def recordEntries (s : Store) : List Entry :=
  s.filter fun e => match e.1, e.2 with | 2 :: _, .order _ => true | 112 :: _, .payment _ => true | _, _ => false

/-- `none` = `new` is `old` plus exactly one order / payment record (every old record is still there,
unchanged); otherwise the clause that is broken. -/
def checkCreated (old new : Store) : Option String :=
  if (recordEntries old).any (fun e => new.get e.1 ≠ some e.2) then some "create_overwrote_record"
  else if (recordEntries new).length ≠ (recordEntries old).length + 1 then some "create_not_one_record"
  else none

/-! ### What an accepted user settlement (`FillBids` / `FillAsks`) leaves behind -/

/-- Every listed order is filled in full: `none` = in `new` none of `ids` has an order record any more,
every other order record and every payment record of `old` is still there unchanged, and no record
appeared; otherwise the clause that is broken. -/
def checkFilled (old new : Store) (ids : List UInt64) : Option String :=
  if ids.any (fun id => (new.get (keyOrder id)).isSome) then some "filled_order_still_stored"
  else if (recordEntries old).any (fun e =>
      ¬ ids.any (fun id => e.1 = keyOrder id) ∧ new.get e.1 ≠ some e.2) then some "fill_touched_other_record"
  else if (recordEntries new).any (fun e => old.get e.1 = none) then some "fill_added_record"
  else none

/-! ### What a governance closure leaves behind -/

/-- The documented effect of `MsgGovCloseMarket` (market.go:1598, x/exchange/spec/03_messages.md
"GovCloseMarket"): order and commitment creation are disabled, ALL the market's orders are cancelled
and ALL its commitments released — whatever the flags were before.  `none` = the store shows that
effect for market `m`; otherwise the clause that is broken. -/
def checkClosed (s : Store) (m : UInt32) : Option String :=
  if (orderRecords s).any (fun o => o.market = m) then some "closed_market_has_orders"
  else if (commitmentRecords s).any (fun c => c.1 = m ∧ c.2.2 ≠ 0) then some "closed_market_has_commitments"
  else if isMarketAcceptingOrders s m then some "closed_market_accepting_orders"
  else if isMarketAcceptingCommitments s m then some "closed_market_accepting_commitments"
  else none

/-! ### Executable invariant check (run on the implementation's raw dump) -/

def familyName : Nat → String
  | 3 => "market" | 4 => "owner" | 5 => "asset" | 9 => "ext" | _ => "?"

def firstSome {α} (xs : List α) (f : α → Option String) : Option String := xs.findSome? f

/-- `none` = the store satisfies the invariant; `some clause` names what is broken. -/
def checkInv (s : Store) : Option String :=
  let last := getLastOrderID s
  (firstSome s fun e =>
    match e.1, e.2 with
    | 2 :: r, v =>
      (match u64FromBz r, v with
       | some id, .order o =>
         if r ≠ u64Bz id then some "order_key_malformed"
         else if id = 0 ∨ last < id then some "order_id_above_counter"
         else
           (orderIndexEntries { o with id := id }).findSome? fun ie =>
             if s.get ie.1 = some ie.2 then none
             else some s!"order_missing_index:{familyName (ie.1.headD 0)}"
       | _, _ => some "order_key_malformed")
    | 3 :: _, v | 4 :: _, v | 5 :: _, v =>
      (match (parseIndexKeySuffixOrderID e.1).bind (getOrderFromStore s) with
       | some o => if (e.1, v) ∈ orderIndexEntries o then none
                   else some s!"dangling_index:{familyName (e.1.headD 0)}"
       | none => some s!"dangling_index:{familyName (e.1.headD 0)}")
    | 9 :: _, .u64 id =>
      (match getOrderFromStore s id with
       | some o => if (e.1, Val.u64 id) ∈ orderIndexEntries o then none else some "dangling_index:ext"
       | none => some "dangling_index:ext")
    | 9 :: _, _ => some "dangling_index:ext"
    | 112 :: _, .payment p =>
      if e.1 ≠ keyPayment p.source p.ext then some "payment_key_mismatch"
      else (paymentIndexEntries p).findSome? fun ie =>
        if s.get ie.1 = some ie.2 then none else some "payment_missing_target_index"
    | 112 :: _, _ => some "payment_key_mismatch"
    | 16 :: r, v =>
      -- 0x10 | len t | t | len s | s | ext
      (match parseLengthPrefixedAddr r with
       | some (_t, rest) =>
         (match parseLengthPrefixedAddr rest with
          | some (src, ext) =>
            (match getPaymentFromStore s src ext with
             | some p => if (e.1, v) ∈ paymentIndexEntries p then none else some "dangling_target_index"
             | none => some "dangling_target_index")
          | none => some "dangling_target_index")
       | none => some "dangling_target_index")
    | _, _ => none)

end PvModel.Exrec
