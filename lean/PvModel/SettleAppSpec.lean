/-
C01 — declarative side at the keeper level: what a successful (or rejected) `MsgMarketSettle` /
`MsgFillBids` / `MsgFillAsks` may do to bank balances and order records.  Evaluated by the `settleapp`
driver on the *implementation's* dumps (balances of every involved account, the market account and
the fee collector; the open orders; what the hold module has on hold per account) before and after
the message.  Independent of the model's control
flow: it only uses the order records and the statement of the property.
-/
import PvModel.SettleSpec
import PvModel.SettleKeeper

namespace PvModel.Settle
open PvModel PvModel.Coins

/-- invariant of the order store: stored orders are positive, ids are distinct and below `nextId` -/
structure StoreInv (s : KState) : Prop where
  pos : ∀ o ∈ s.orders, OrderPos o
  nodup : (s.orders.map (·.id)).Nodup
  below : ∀ o ∈ s.orders, o.id < s.nextId


/-- per-order net effect of a user fill on the order's owner if it were a buyer: `+ assets − price` -/
def fillOwnerDelta (o : Order) (d : Denom) : Int :=
  (if o.assetsDenom = d then o.assets else 0) - (if o.priceDenom = d then o.price else 0)

structure Dump where
  bals : List (Addr × Coins)
  orders : List Order
  /-- what the hold module reports as on hold per account -/
  holds : List (Addr × Coins) := []
  deriving Repr, DecidableEq

def Dump.bal (d : Dump) (x : Addr) (den : Denom) : Int :=
  match d.bals.find? (·.1 = x) with
  | some p => amountOf p.2 den
  | none => 0

def Dump.hold (d : Dump) (x : Addr) (den : Denom) : Int :=
  match d.holds.find? (·.1 = x) with
  | some p => amountOf p.2 den
  | none => 0

def marketName : Addr := "MKT"
def collectorName : Addr := "FEE"

/-- what was filled of order `ob` given what is left of it (`none` = nothing left) -/
def filledPart (ob : Order) (oa : Option Order) : Order :=
  match oa with
  | none => ob
  | some l => { ob with assets := ob.assets - l.assets, price := ob.price - l.price,
                        fees := Coins.canon (ob.fees ++ Coins.neg l.fees) }

/-- `⌈p·fee/price⌉` of the seller ratio (0 without a ratio) -/
def ratioCeil (ratio : Option Ratio) (p : Int) : Int :=
  match ratio with
  | none => 0
  | some r => Fees.ceilDiv (p * r.feeAmt) r.priceAmt

/-- The first clause of C01 broken by the observed change `before → after` of a message that the
implementation accepted.  `ids` = the orders named in the message, `virt` = the message sender as an
order for `FillBids`/`FillAsks` (it sells / buys the totals), `exactSellerFee` = the seller's ratio
fee is on exactly the listed price (fills), not on a possibly larger received price (settle).
An order takes part in a settlement once, however often the request names it: the expected amounts
are those of the *distinct* named orders. -/
def acceptedViolation (ratio : Option Ratio) (splitOf : Denom → Nat) (ids : List Nat) (virt : Option Order)
    (before after : Dump) : Option String :=
  let ids := ids.eraseDups
  let accts := before.bals.map (·.1)
  let users := accts.filter (fun x => x ≠ marketName ∧ x ≠ collectorName)
  let denomsAll := (before.bals ++ after.bals).flatMap (fun p => denoms p.2) |>.eraseDups
  let delta := fun (x : Addr) (d : Denom) => after.bal x d - before.bal x d
  let touched := ids.filterMap fun id => (before.orders.find? (·.id = id)).map fun ob => (ob, after.orders.find? (·.id = id))
  let parts := (touched.map fun p => filledPart p.1 p.2) ++ virt.toList
  -- every named order existed
  if touched.length ≠ ids.length then some "app_unknown_order"
  -- other orders are untouched, nothing new appears
  else if before.orders.any (fun o => !ids.contains o.id && !after.orders.contains o) then some "app_other_order_changed"
  else if after.orders.any (fun o => !before.orders.any (·.id = o.id)) then some "app_new_order"
  -- at most one order is left partially filled, and its remainder keeps the proportions
  else if (touched.filter (·.2.isSome)).length > 1 then some "app_two_partials"
  else match (touched.findSome? fun p => match p.2 with
      | some l => (splitViolation p.1 (p.1.assets - l.assets)
          { filledPart p.1 (some l) with fees := dropZero (filledPart p.1 (some l)).fees } l).map ("app_partial_" ++ ·)
      | none => none) with
  | some c => some c
  | none =>
  -- no coins created or destroyed
  if denomsAll.any (fun d => decide ((accts.map fun x => delta x d).sum ≠ 0)) then some "app_supply"
  -- assets: every seller gives exactly, every buyer receives exactly what was filled
  else if parts.any (fun p =>
      let ad := p.assetsDenom
      -- (only when the asset denom is not also somebody's price or fee denom)
      decide (parts.all fun q => q.priceDenom ≠ ad ∧ (denoms q.fees).all (· ≠ ad)) &&
      users.any fun x => decide (delta x ad ≠
        ((parts.filter fun q => q.owner = x ∧ q.assetsDenom = ad).map fun q =>
          if q.isAsk then - q.assets else q.assets).sum)) then
    some "app_assets_exact"
  -- an account that only buys pays exactly price + fees
  else if users.any (fun x =>
      let mine := parts.filter (·.owner = x)
      !mine.isEmpty && mine.all (fun q => !q.isAsk) &&
      denomsAll.any fun d => decide (mine.all (fun q => q.assetsDenom ≠ d)) &&
        decide (delta x d ≠ - (mine.map fun q => (if q.priceDenom = d then q.price else 0) + amountOf q.fees d).sum)) then
    some "app_buyer_pays_exact"
  -- an account that only sells gets at least its price, net of the fees it committed to
  else if users.any (fun x =>
      let mine := parts.filter (·.owner = x)
      !mine.isEmpty && mine.all (fun q => q.isAsk) &&
      denomsAll.any fun d => decide (mine.all (fun q => q.assetsDenom ≠ d)) &&
        decide (delta x d < (mine.map fun q =>
          (if q.priceDenom = d then q.price - ratioCeil ratio q.price else 0) - amountOf q.fees d).sum)) then
    some "app_seller_gets_at_least"
  -- only the market and the fee collector receive beyond the parties
  else if users.any (fun x => parts.all (·.owner ≠ x) && denomsAll.any fun d => decide (delta x d ≠ 0)) then
    some "app_bystander_changed"
  -- the fee collector gets the exchange's rounded-up share of the collected fees, the market the rest
  else if denomsAll.any (fun d =>
      let e := delta collectorName d
      let f := delta marketName d + e
      decide (f < 0) ||
      decide (e ≠ (if f = 0 ∨ splitOf d = 0 then 0 else Fees.ceilDiv (f * splitOf d) 10000))) then
    some "app_collector_share"
  -- what stays on hold is exactly what the remaining open orders need (a settled order's hold is
  -- released once, nobody else's hold is touched)
  else if users.any (fun x => denomsAll.any fun d =>
      decide (after.hold x d ≠ (((after.orders.filter (·.owner = x)).map fun o => amountOf o.holdAmount d).sum))) then
    some "app_holds"
  else none

/-- "At most one order — **the last of its list**, and only if it allows it — is partially filled", for
"every ordering of the ids in the request": `lists` = the id lists of the accepted message *as the
request gave them* (asks and bids of a market settlement, the one list of a user fill).  An order that
the message names and that is still open afterwards (it was filled in part — `app_partial_*` judges
its remainder) must be the last id of one of the lists.  Independent of how the implementation
orders, loads or matches the orders: it only reads the request and the two dumps. -/
def partialLastViolation (lists : List (List Nat)) (before after : Dump) : Option String :=
  if lists.any (fun l => l.any fun id =>
      before.orders.any (·.id = id) && after.orders.any (·.id = id) &&
      !(lists.any fun l' => decide (l'.getLast? = some id))) then some "app_partial_not_last"
  else none

/-- a rejected message moves nothing -/
def rejectedViolation (before after : Dump) : Option String :=
  if before ≠ after then some "app_rejected_moves" else none

end PvModel.Settle
