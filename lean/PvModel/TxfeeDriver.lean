/-
Line-protocol driver + implementation-output checker for the C08 model (`txfee`).

One op line = one signed transaction (see harness/txfee_test.go for the grammar):
`tx floor=<coin> conv=<denom>:<rate> sched=<type:coin:rcp:bips|…> payfee=<coin|-> fee=<coins>
 gas=<n> balP= balG= balX= fg=<0|1> allow=<-|unl|coins> auth=<0|1> sig=<ok|bad> force=<0|1>
 body=<tok;tok;…> [gov=<proposals> gv=<r|v>] [re=1 [floor2=<coin> conv2=<denom>:<rate> sched2=<…>]
 [gov2=<proposals>]] obs=<c><d>[<r>]`

`floor`/`conv`/`sched` is the configuration the chain was set up with (genesis / upgrade: written
straight into the store).  `gov=`: governance proposals (`/`-separated, oldest first; the messages
of one proposal `+`-separated: `rate:<n>`, `denom:<d>`, `add:<type>:<coin>:<rcp|->:<bips|->`,
`upd:…`, `rm:<type>`) that pass and are executed through the REAL msgfees message handlers before
the transaction arrives (`gv=r`: the way gov's EndBlocker runs them; `gv=v`: a whole proposal life
— signed MsgSubmitProposal + MsgVote, voting period, EndBlocker).

`re=1`: the transaction's life spans a fee-schedule change — admitted by `CheckTx(New)` under
the first configuration, then a block that does not contain it is committed and changes it
(`floor2`/`conv2`/`sched2` when present: a straight rewrite, the only way the floor price can
change; then the proposals `gov2=`), then `CheckTx(Recheck)`, then execution (when still in the
mempool, or forced) under the second configuration.

Output: `gov=<ok|fail/…> cfg=<floor;convdenom:rate;schedule>` (each proposal's fate and the
params + schedule READ BACK from the keeper when the transaction arrives), the same after the
second change (`gov2= cfg2=`), then the results and balance deltas.
-/
import PvModel.TxfeeSpec
import PvModel.Util
-- (registered through PvModel/TxfeeSeqDriver.lean, which adds the `seq` / `mempool` ops)

namespace PvModel.Txfee
open PvModel

structure Op where
  cfg0 : Cfg                     -- what the chain was set up with
  gov : List (List GovMsg)       -- proposals executed before the tx arrives
  re : Bool        -- a committed block changes the configuration and the tx is rechecked
  direct2 : Option Cfg           -- … by a straight rewrite of params + schedule (the only way the floor changes)
  gov2 : List (List GovMsg)      -- … and/or by proposals
  tx : Tx
  st : St
  fg : Bool
  force : Bool
  sends : List (Addr × Addr × Coins)
  body : Forest                  -- the parsed message tree: `tx.steps = body.flatten`, `tx.top = body.roots`

def roles : List Addr := ["P", "G", "X", "Q", "R1", "R2", "C"]

private def sendEffect (f t : Addr) (cs : Coins) : Ledger → Except Err Ledger := fun l =>
  match sendCoins l f t cs with
  | some l' => .ok l'
  | none => .error .funds

/-- exchange `CreatePayment`: a second payment of the same source with the same external id is
refused (payments are keyed by (source, external id)). -/
private def payEffect (src id : String) : Ledger → Except Err Ledger := fun l =>
  if Ledger.bal l ("pay:" ++ src ++ ":" ++ id) "id" > 0 then .error .invalid
  else .ok (l.credit ("pay:" ++ src ++ ":" ++ id) [("id", 1)])

/-- authz `DispatchActions`: a message of another signer needs a grant. -/
private def authGuard (auth : Bool) : Ledger → Except Err Ledger := fun l =>
  if auth then .ok l else .error .auth

private def dash (s : String) : String := if s = "-" then "" else s

/-- Parse the body tokens into the message TREE (`Forest`): `exec(` … `)` is an authz `MsgExec`
whose children are the messages in between; `stack` holds, innermost first, the sibling forests
collected so far at the enclosing levels.  What the router and the handlers do (`Tx.steps`) and
what the ante handler sees (`Tx.top`) are then the model's `Forest.flatten` / `Forest.roots` —
the functions the nested-message theorems of `PvProofs.C08` are about.  `payer` is the signer of
the transaction (the grantee of its `MsgExec`s, the source of its payments); the only authz grant
the harness ever sets up is X → P (`auth`). -/
def bodyForest (auth : Bool) (payfee : Option Coin) (payer : Addr) :
    List String → List Forest → Forest → List (Addr × Addr × Coins) → Option (Forest × List (Addr × Addr × Coins))
  | [], stack, cur, sends => if stack.isEmpty then some (cur, sends) else none
  | tk :: rest, stack, cur, sends =>
    if tk = "" ∨ tk = "-" then bodyForest auth payfee payer rest stack cur sends
    else if tk = "exec(" then bodyForest auth payfee payer rest (cur :: stack) .nil sends
    else if tk = ")" then
      match stack with
      | [] => none
      | outer :: st =>
        bodyForest auth payfee payer rest st (outer.append (.node [] { typ := "exec" } [] cur .nil)) sends
    else
      match tk.splitOn ":" with
      | ["send", f, t, cs] =>
        match parseCoins? cs with
        | none => none
        | some coins =>
          -- authz `DispatchActions` checks the grant of an inner message of another signer
          -- BEFORE routing it
          let guard : List Step :=
            if stack.length > 0 ∧ f ≠ payer then [.effect (authGuard (auth && f == "X" && payer == "P"))] else []
          bodyForest auth payfee payer rest stack
            (cur.append (.node guard { typ := "send" } [.effect (sendEffect f t coins)] .nil .nil))
            (sends ++ [(f, t, coins)])
      | ["assess", c, rcp, bips] =>
        match parseCoin? c with
        | none => none
        | some coin =>
          let b : Option Nat := if bips = "-" then none else bips.toNat?
          let m : RMsg := { typ := "assess", assess := some { amount := coin, recipient := dash rcp, bips := b } }
          bodyForest auth payfee payer rest stack (cur.append (.node [] m [] .nil .nil)) sends
      | ["pay", id] =>
        let fee : List Step := match payfee with
          | some c => [.consume "pay" [c]]
          | none => []
        bodyForest auth payfee payer rest stack
          (cur.append (.node [] { typ := "pay" } ([.effect (payEffect payer id)] ++ fee) .nil .nil)) sends
      | _ => none

def parseSched (s : String) : Option (List (String × MsgFee)) :=
  (splitList s).mapM fun ent =>
    match ent.splitOn ":" with
    | [t, c, r, b] => do
      let coin ← parseCoin? c
      let bips ← b.toNat?
      pure (t, { fee := coin, recipient := dash r, bips := bips })
    | _ => none

def parseGovMsg (s : String) : Option GovMsg :=
  let bips? (b : String) : Option (Option Nat) := if b = "-" then some none else b.toNat?.map some
  match s.splitOn ":" with
  | ["rate", n] => n.toNat?.map .rate
  | ["denom", d] => some (.denom d)
  | ["add", t, c, r, b] => do pure (.add t (← parseCoin? c) (dash r) (← bips? b))
  | ["upd", t, c, r, b] => do pure (.upd t (← parseCoin? c) (dash r) (← bips? b))
  | ["rm", t] => some (.rm t)
  | _ => none

def parseGov (s : String) : Option (List (List GovMsg)) :=
  if s = "-" ∨ s = "" then some []
  else (s.splitOn "/").mapM fun p => (p.splitOn "+").mapM parseGovMsg

/-- The model's configuration when the tx arrives / after the committed change. -/
def Op.cfg (op : Op) : Cfg := (applyGov op.cfg0 op.gov).1
def Op.cfg2 (op : Op) : Cfg := if op.re then (applyGov (op.direct2.getD op.cfg) op.gov2).1 else op.cfg

def parseOp (ws : List String) : Option Op := do
  guard (ws.head? = some "tx")
  let floor ← (kv ws "floor") >>= parseCoin?
  let (convD, convR) ← match ((kv ws "conv").getD "").splitOn ":" with
    | [d, r] => r.toNat?.map fun r => (d, r)
    | _ => none
  let sched ← parseSched ((kv ws "sched").getD "-")
  let payfee : Option Coin := (kv ws "payfee") >>= fun s => if s = "-" then none else parseCoin? s
  let fee ← parseCoins? ((kv ws "fee").getD "-")
  let gas ← (kv ws "gas") >>= String.toNat?
  let balP ← parseCoins? ((kv ws "balP").getD "-")
  let balG ← parseCoins? ((kv ws "balG").getD "-")
  let balX ← parseCoins? ((kv ws "balX").getD "-")
  let fg := kv ws "fg" = some "1"
  let allow ← match (kv ws "allow").getD "-" with
    | "-" => some Allow.none
    | "unl" => some Allow.unl
    | s => (parseCoins? s).map Allow.lim
  let auth := kv ws "auth" = some "1"
  let sig := kv ws "sig" = some "ok"
  let force := kv ws "force" = some "1"
  let body := ((kv ws "body").getD "").splitOn ";"
  let (forest, sends) ← bodyForest auth payfee "P" body [] .nil []
  let obs := ((kv ws "obs").getD "--").toList
  let oc := obs.head? = some 'g'
  let od := obs.drop 1 |>.head?
  let orc : Bool := (obs.drop 2).head? = some 'g'
  let re := kv ws "re" = some "1"
  let cfg1 : Cfg := { floor := floor, convDenom := convD, nhashPerUsdMil := convR, sched := sched }
  let gov ← parseGov ((kv ws "gov").getD "-")
  let gov2 ← if re then parseGov ((kv ws "gov2").getD "-") else pure []
  let direct2 : Option Cfg ← if re ∧ (kv ws "floor2").isSome then do
      let floor2 ← (kv ws "floor2") >>= parseCoin?
      let (convD2, convR2) ← match ((kv ws "conv2").getD "").splitOn ":" with
        | [d, r] => r.toNat?.map fun r => (d, r)
        | _ => none
      let sched2 ← parseSched ((kv ws "sched2").getD "-")
      pure (some ({ floor := floor2, convDenom := convD2, nhashPerUsdMil := convR2, sched := sched2 } : Cfg))
    else pure none
  let l0 : Ledger := (Ledger.entries "P" balP) ++ (Ledger.entries "G" balG) ++ (Ledger.entries "X" balX)
  pure {
    cfg0 := cfg1, gov := gov, re := re, direct2 := direct2, gov2 := gov2,
    tx := { fee := fee, gas := gas, payer := "P", granter := if fg then some "G" else none,
            top := forest.roots, steps := forest.flatten, sigOk := sig,
            oogCheck := oc, oogAnte := od = some 'a', oogMsgs := od = some 'm', oogRecheck := orc },
    st := { ledger := l0, allow := allow },
    fg := fg, force := force, sends := sends, body := forest }

/-- balance change of `a` between two ledgers, canonical -/
def delta (l0 l1 : Ledger) (a : Addr) : Coins :=
  Coins.canon (Coins.sub ((l1.filter (·.addr = a)).map fun e => (e.denom, e.amt))
                         ((l0.filter (·.addr = a)).map fun e => (e.denom, e.amt)))

def showAllow : Allow → String
  | .none => "-"
  | .unl => "unl"
  | .lim c => showCoins (Coins.canon c)

def insertByTyp (e : String × MsgFee) : List (String × MsgFee) → List (String × MsgFee)
  | [] => [e]
  | x :: rest => if e.1 < x.1 then e :: x :: rest else x :: insertByTyp e rest

/-- Canonical rendering of params + schedule (the harness prints what it reads back from the keeper). -/
def showCfg (c : Cfg) : String :=
  let ents := (c.sched.foldr insertByTyp []).map fun (t, f) =>
    s!"{t}:{showCoin f.fee}:{if f.recipient = "" then "-" else f.recipient}:{f.bips}"
  let sch := if ents.isEmpty then "-" else "|".intercalate ents
  s!"{showCoin c.floor};{c.convDenom}:{c.nhashPerUsdMil};{sch}"

def showFates (bs : List Bool) : String :=
  if bs.isEmpty then "-" else "/".intercalate (bs.map fun b => if b then "ok" else "fail")

/-- The model's output line. -/
def render (op : Op) : String :=
  let lf := life op.cfg op.cfg2 op.re op.force op.tx op.st op.st op.st
  let gov1 := s!"gov={showFates (applyGov op.cfg0 op.gov).2} cfg={showCfg op.cfg} "
  let gov2 := match lf.recheck with
    | none => " gov2=- cfg2=-"
    | some _ => s!" gov2={showFates (applyGov (op.direct2.getD op.cfg) op.gov2).2} cfg2={showCfg op.cfg2}"
  let chg (s1 : St) : String :=
    s!"{showCoins (delta op.st.ledger s1.ledger "P")}/{showCoins (delta op.st.ledger s1.ledger "G")}"
  let check := match lf.check with | none => "ok" | some e => e.toString
  let recheck := match lf.recheck with
    | none => "skip"
    | some none => "ok"
    | some (some e) => e.toString
  let head := s!"{gov1}check={check} cchg={chg lf.checkSt} recheck={recheck} rchg={chg lf.recheckSt}{gov2}"
  match lf.run with
  | none =>
    s!"{head} deliver=skip seq=0 allow={showAllow op.st.allow}" ++
      String.join (roles.map fun r => s!" {r}=-")
  | some r =>
    let d := match r.outcome with
      | .ok => "ok"
      | .rejected e => s!"ante:{e.toString}"
      | .failed e => s!"fail:{e.toString}"
    s!"{head} deliver={d} seq={r.final.seq} allow={showAllow r.final.allow}" ++
      String.join (roles.map fun a => s!" {a}={showCoins (delta op.st.ledger r.final.ledger a)}")

/-! ### Checker: the property's conclusion on the implementation's observed output -/

structure Observed where
  gov : List Bool
  cfg : String
  gov2 : List Bool
  cfg2 : String
  check : String
  cchg : String
  recheck : String
  rchg : String
  deliver : String
  seq : String
  allow : String
  deltas : List (Addr × Coins)

def parseObserved (s : String) : Option Observed := do
  let ws := words s
  let ds ← roles.mapM fun r => do
    let v ← kv ws r
    let cs ← parseCoins? v
    pure (r, Coins.canon cs)
  let fates (s : String) : List Bool := if s = "-" then [] else (s.splitOn "/").map (· == "ok")
  pure { gov := fates ((kv ws "gov").getD "-"), cfg := (kv ws "cfg").getD "-",
         gov2 := fates ((kv ws "gov2").getD "-"), cfg2 := (kv ws "cfg2").getD "-",
         check := ← kv ws "check", cchg := ← kv ws "cchg",
         recheck := (kv ws "recheck").getD "skip", rchg := (kv ws "rchg").getD "-/-",
         deliver := ← kv ws "deliver",
         seq := ← kv ws "seq", allow := ← kv ws "allow", deltas := ds }

/-- balance changes caused by the message handlers when every message succeeded -/
def sendsDelta (sends : List (Addr × Addr × Coins)) (a : Addr) : Coins :=
  sends.foldl (fun acc (f, t, cs) =>
    acc ++ (if f = a then Coins.neg cs else []) ++ (if t = a then cs else [])) []

/-- The REFERENCE configuration (TxfeeSpec "The configuration in force"): what the chain was set up
with, changed only in what the passed proposals' messages name; each proposal's fate as OBSERVED. -/
def refCfgA (op : Op) (o : Observed) : Cfg := refGov op.cfg0 op.gov o.gov
def refCfgB (op : Op) (o : Observed) : Cfg := refGov (op.direct2.getD (refCfgA op o)) op.gov2 o.gov2

def allDenoms (op : Op) (o : Observed) : List Denom :=
  let cA := refCfgA op o
  let cB := refCfgB op o
  (Coins.denoms op.tx.fee ++ [cA.floor.1, cB.floor.1] ++
    (stepsIncurred cA op.tx.steps).map (·.denom) ++ (stepsIncurred cB op.tx.steps).map (·.denom) ++
    (op.sends.flatMap fun s => Coins.denoms s.2.2) ++ (o.deltas.flatMap fun d => Coins.denoms d.2)).eraseDups

/-- The floor-price field of a `cfg=` rendering. -/
def dumpFloor (s : String) : String := (s.splitOn ";").headD ""

/-- `ok`, `fail:<clause>`, or `-` (nothing to check).  Everything is judged on the
implementation's OBSERVED results (`check=`, `recheck=`, `deliver=`, balance deltas) against the
REFERENCE configuration; neither the model's opinion of what CheckTx should have said nor the
params the implementation has in its store by then are consulted for what the tx owes. -/
def verdictTx (op : Op) (o : Observed) : String :=
  let src := op.tx.from
  -- was the committed schedule change + recheck part of this transaction's life?
  let rechecked : Bool := op.re && o.check == "ok"
  let cfgA := refCfgA op o
  let cfgB := refCfgB op o
  -- the configuration in force when the transaction is executed
  let cfgX := if rechecked then cfgB else cfgA
  let base := baseFee cfgX.floor op.tx.gas
  let is := stepsIncurred cfgX op.tx.steps
  let ds := allDenoms op o
  let obs (a : Addr) : Coins := (o.deltas.find? (·.1 = a)).map (·.2) |>.getD []
  -- "those the mempool check rejects must be rejected": what arrival / recheck had to demand
  let underNew : Bool := !(admissible cfgA op.tx.fee op.tx.gas op.tx.top ds)
  let underRe : Bool := rechecked && !(admissible cfgB op.tx.fee op.tx.gas op.tx.top ds)
  if o.check ≠ "ok" then
    -- rejected by the mempool check ⇒ never charged
    if o.cchg ≠ "-/-" then "fail:mempool_reject_charged"
    else if o.deliver = "skip" then "ok" else "-"
  else if rechecked ∧ o.recheck ≠ "ok" then
    -- evicted by the recheck ⇒ never charged (and it should not have got in under-declared either)
    if o.rchg ≠ "-/-" then "fail:recheck_reject_charged"
    else if underNew then "fail:mempool_admitted_insufficient_fee"
    else if o.deliver = "skip" then "ok" else "-"
  else
    -- in the mempool when the block was proposed
    let succeeded := o.deliver = "ok"
    let executed := succeeded ∨ o.deliver.startsWith "fail:"
    -- what the paying account lost to fees: its balance change without what its own messages
    -- sent/received (success only; nothing a handler did survives a failure)
    let paid : Coins := ds.map fun d =>
      (d, - Coins.amountOf (obs src) d + (if succeeded then Coins.amountOf (sendsDelta op.sends src) d else 0))
    -- (a paying account that is also owed a recipient share has both mixed in one balance change:
    -- left to the exact success clauses below)
    let srcOwed : Bool := succeeded && ds.any fun d => owedTo src d is != 0
    if executed ∧ ¬ srcOwed ∧ ¬ withinDeclared op.tx.fee paid ds then "fail:charged_more_than_declared"
    else if underNew then "fail:mempool_admitted_insufficient_fee"
    else if underRe then "fail:recheck_admitted_insufficient_fee"
    else if o.deliver = "skip" then "-"
    else if o.deliver.startsWith "ante:" then "fail:admitted_tx_not_charged"
    else if o.deliver.startsWith "fail:" then
      -- failed ⇒ exactly the base fee, nothing else
      let exp (a : Addr) : Coins := Coins.canon (ds.map fun d => (d, feeDeltaOnFailure "C" src base a d))
      if obs src ≠ exp src then "fail:failed_tx_debit_not_base_fee"
      else if obs "C" ≠ exp "C" then "fail:failed_tx_collector_not_base_fee"
      else if roles.any (fun a => a ≠ src ∧ a ≠ "C" ∧ obs a ≠ []) then "fail:failed_tx_changed_other_balances"
      else if o.seq ≠ "1" then "fail:failed_tx_sequence"
      else if op.fg && (match useGrantedFees op.st.allow base with
                        | .ok a => showAllow a != o.allow
                        | .error _ => true) then "fail:failed_tx_allowance_not_base_fee"
      else "ok"
    else if succeeded then
      let exp (a : Addr) : Coins := Coins.canon
        (sendsDelta op.sends a ++ ds.map fun d => (d, feeDeltaOnSuccess "C" src op.tx.fee is a d))
      if ¬ covered op.tx.fee base is ds then "fail:fee_not_covered_but_success"
      else if obs src ≠ exp src then "fail:success_debit_not_declared_fee"
      else match (roles.filter fun a => a ≠ src ∧ a ≠ "C").find? (fun a => obs a ≠ exp a) with
        | some a => s!"fail:recipient_credit_wrong:{a}"
        | none =>
          if obs "C" ≠ exp "C" then "fail:collector_credit_wrong"
          else if Coins.canon (roles.flatMap obs) ≠ [] then "fail:not_conserved"
          else if o.seq ≠ "1" then "fail:success_sequence"
          else "ok"
    else "-"

/-- The transaction clauses first; when they have nothing to object to, the configuration the
implementation READS BACK must be the reference one: the floor price the chain was set up with
(no governance message names it), and params / schedule changed exactly as voted. -/
def verdict (op : Op) (o : Observed) : String :=
  let v := verdictTx op o
  if v.startsWith "fail:" then v
  else
    let cfgA := refCfgA op o
    let cfgB := refCfgB op o
    if dumpFloor o.cfg ≠ dumpFloor (showCfg cfgA) then "fail:floor_price_not_the_configured_one"
    else if o.cfg ≠ showCfg cfgA then "fail:fee_config_not_as_voted"
    else if o.cfg2 ≠ "-" ∧ dumpFloor o.cfg2 ≠ dumpFloor (showCfg cfgB) then "fail:floor_price_not_the_configured_one"
    else if o.cfg2 ≠ "-" ∧ o.cfg2 ≠ showCfg cfgB then "fail:fee_config_not_as_voted"
    else v

def stepOp (ws : List String) (impl : Option String) : String × String :=
  match parseOp ws with
  | none => ("bad-op", "-")
  | some op =>
    let out := render op
    let v := match impl with
      | none => "-"
      | some i => match parseObserved i with
        | some o => verdict op o
        | none => "-"
    (out, v)

def driver : Driver where
  σ := Unit
  init := ()
  step := fun s op impl => let (o, v) := stepOp (words op) impl; (s, o, v)

end PvModel.Txfee
