/-
Line-protocol driver + implementation-output checker for the C10 model (`signers`).

Address names are a fixed convention shared with harness/signers_test.go:
`A B C D` ordinary accounts (sequence > 0), `W V` smart-contract accounts (base account,
sequence 0, no public key), `N` a valid address without account, `X` a string that is not
bech32, `E` the empty string.

Ops (all stateless; every line carries its own grants):
  wp mt=<T> req=<parties> avail=<parties> roles=<roles> signers=<addrs> grants=<grants>
  wo mt=<T> required=<addrs> signers=… grants=…
  wscope existing=<scope|none> proposed=<scope> roles=<roles|none> [newroles=…] [vo=<addr|-> pvo=<addr|->] signers=… grants=…
  dscope scope=<scope> roles=<roles|none> [vo=<addr|->] signers=… grants=…
  upd mt=<T> scope=<scope> roles=… signers=… grants=…
  owners mt=<T> scope=<scope> proposed=<parties> roles=… signers=… grants=…
  wsession scope=<scope> existing=<parties|none> proposed=<parties> roles=… signers=… grants=…
  wrecord scope=<scope> session=<parties> old=<parties|none> roles=… signers=… grants=…
  drecord scope=<scope|none> roles=<roles|none> signers=… grants=…
  mowners mt=AddScopeOwner scope=<scope|none> add=<parties> roles=… signers=… grants=…
  mowners mt=DeleteScopeOwner scope=<scope|none> remove=<addrs> roles=… signers=… grants=…
The endpoint ops may end in `via=msg`: the harness then sends the message END TO END through
the real message server on the stored state (same decision), and after an accepted message
reads the stored entry back: the answer is `ok stored=<entry>`.  `mowners` always does: the
message server computes the proposed owners from the stored scope.
The message-server forms of `wscope` / `wsession` / `wrecord` may carry `ids=opt|mix|both`: the
harness then names the entry (and its specification) through the message's OPTIONAL id fields
(`scope_uuid`, `session_id_components` by scope uuid or scope address, `spec_uuid`,
`contract_spec_uuid`) instead of / in addition to the ids inside the entry.  The request is the
same one — the endpoints convert those fields before they look the stored entry up
(`msg_server_converts_optional_ids_first`) — so the model does not read the key: existing
versus new entry, required parties and the stored result are judged exactly as without it.
`vo` = the stored scope's value owner (held in the bank module), `pvo` = the message's
`value_owner_address`; with them the read-back is `<scope>@<value owner>`.
`via=hist` (stream `signershist`): as `via=msg`, but the stored state the line describes was
not put there by the harness: it is what the previous messages of the history left behind
(read back from the keeper before every op), so the scope may have changed its rollup flag,
owners or value owner since its sessions and records were written.
parties `A:5:o|B:2:r` (address:role:o(ptional)/r(equired)), scope `<rollup 0/1>/<other>/<parties>`,
grants `granter>grantee:T|…` (`T#k` count authorization, `T!` expired), `-` = empty list.
-/
import PvModel.SignersSpec
-- registry: signers PvModel.Signers.driver
-- registry: signershist PvModel.Signers.driver

namespace PvModel.Signers
open PvModel

def parseAddr (s : String) : Addr := if s = "E" then "" else s
def showAddr (a : Addr) : String := if a = "" then "E" else a

def parseParty? (s : String) : Option Party :=
  match s.splitOn ":" with
  | [a, r, o] => do
    let role ← parseNat? r
    if o = "o" then some ⟨parseAddr a, role, true⟩
    else if o = "r" then some ⟨parseAddr a, role, false⟩ else none
  | _ => none

def parseParties? (s : String) : Option (List Party) := (splitList s).mapM parseParty?
def parseRoles? (s : String) : Option (List Role) := (splitList s).mapM parseNat?
def parseAddrs (s : String) : List Addr := (splitList s).map parseAddr

def parseScope? (s : String) : Option Scope :=
  match s.splitOn "/" with
  | [r, o, ps] => do
    let other ← parseNat? o
    let owners ← parseParties? ps
    some { owners := owners, rollup := r = "1", other := other }
  | _ => none

/-- `none` = the keyword `none`; `some none` is never produced: outer option is parse failure -/
def parseOpt? {α} (p : String → Option α) (s : String) : Option (Option α) :=
  if s = "none" then some none else (p s).map some

/-- `g>e:T` (generic), `g>e:T#k` (count authorization with k ≥ 1 uses left: accepts like a
generic one within one call), `g>e:T!` (expired: no grant). -/
def parseGrants? (s : String) : Option (List (Addr × Addr × MsgType)) :=
  (splitList s).filterMapM fun g =>
    match g.splitOn ":" with
    | [pair, t] =>
      match pair.splitOn ">" with
      | [granter, grantee] =>
        if t.endsWith "!" then some none
        else some (some (parseAddr granter, parseAddr grantee, (t.splitOn "#").headD t))
      | _ => none
    | _ => none

def mkEnv (grants : List (Addr × Addr × MsgType)) : Env where
  valid a := a != "" && a != "X"
  wasm a := a == "W" || a == "V"
  grant g e t := grants.contains (g, e, t)

def showPairs (xs : List (Addr × Role)) : String :=
  if xs.isEmpty then "-" else ",".intercalate (xs.map fun x => s!"{showAddr x.1}:{x.2}")

def showShort (xs : List (Role × Nat × Nat)) : String :=
  if xs.isEmpty then "-" else ",".intercalate (xs.map fun x => s!"{x.1}:{x.2.1}:{x.2.2}")

def Err.cls : Err → String
  | .missingSig _ => "missing_sig"
  | .missingRoleSigners _ => "missing_role_signers"
  | .wasmNotProv => "wasm_not_prov"
  | .provNotWasm => "prov_not_wasm"
  | .invalidSigner => "invalid_signer"
  | .wasmOrder => "wasm_order"
  | .wasmLast => "wasm_last"
  | .wasmUnauth => "wasm_unauth"
  | .rolesAbsent _ => "roles_absent"
  | .partiesAbsent _ => "parties_absent"
  | .optionalNotAllowed => "optional_not_allowed"
  | .valueOwner => "value_owner"

def Err.show (e : Err) : String :=
  match e with
  | .missingSig who => s!"err:{e.cls} {showPairs who}"
  | .missingRoleSigners short => s!"err:{e.cls} {showShort short}"
  | .rolesAbsent short => s!"err:{e.cls} {showShort short}"
  | .partiesAbsent who => s!"err:{e.cls} {showPairs who}"
  | _ => s!"err:{e.cls}"

def showDetails (ps : List PartyDetails) : String :=
  if ps.isEmpty then "-" else "|".intercalate (ps.map fun p =>
    let signer := if p.signer = "" then "-" else showAddr p.signer
    let addr := showAddr p.address
    s!"{addr}:{p.role}:{if p.optional then "o" else "r"}:{signer}:{if p.canBeUsedBySpec then "c" else "n"}:{if p.usedBySpec then "u" else "n"}")

def showParties (ps : List Party) : String :=
  if ps.isEmpty then "-" else "|".intercalate (ps.map fun p =>
    s!"{showAddr p.address}:{p.role}:{if p.optional then "o" else "r"}")

def showScope (s : Scope) : String :=
  s!"{if s.rollup then "1" else "0"}/{s.other}/{showParties s.owners}"

def MsgErr.show : MsgErr → String
  | .basic => "err:basic"
  | .notFound => "err:notfound"
  | .ownerExists => "err:owner_exists"
  | .ownerAbsent => "err:owner_absent"
  | .noOwners => "err:no_owners"
  | .invalid e => e.show

def showRes (r : Except Err (List PartyDetails)) : String :=
  match r with
  | .ok ps => s!"ok {showDetails ps}"
  | .error e => e.show

def showUnit (r : Except Err Unit) : String :=
  match r with
  | .ok _ => "ok"
  | .error e => e.show

/-! ### the checker: the theorems' conclusions evaluated on the implementation's answer -/

/-- What the documentation requires of one call, in named clauses. -/
structure Clauses where
  /-- the message is well-formed for the stored state (message server: `ValidateBasic`, the
  scope exists, an added owner is new, a removed address is an owner's, an owner stays) -/
  precond : Bool := true
  /-- `ValidateOptionalParties` -/
  optionalOk : Bool := true
  /-- "all session parties must also be listed in the scope owners" -/
  partiesPresent : Bool := true
  /-- "all roles required by the spec must have a party" (no signature) -/
  rolesPresent : Bool := true
  /-- PROVENANCE role ⇔ smart contract, on the lists that must satisfy it when accepted -/
  provMust : Bool := true
  /-- same, on every list the code may look at (a rejection for this reason is justified iff false) -/
  provMay : Bool := true
  /-- all required parties / addresses covered -/
  requiredCovered : Bool := true
  /-- each required role has its own covered party -/
  rolesCovered : Bool := true
  /-- smart-contract signer positions and authorizations -/
  smartContract : Bool := true
  /-- a value owner that is replaced (scope write) or whose scope is deleted has signed -/
  valueOwner : Bool := true

/-- `extra`: the signer that signs for the value owner (scope write / deletion) -/
def Clauses.ofReq (env : Env) (mt : MsgType) (signers : List Addr) (extra : List Addr) (req : Spec.Req) :
    Clauses :=
  let sc := req.contractsOk env mt signers extra
  match req with
  | .parties r a roles =>
    { requiredCovered := Spec.requiredCovered env mt signers r
      rolesCovered := Spec.rolesCovered env mt signers a roles
      smartContract := sc }
  | .addrs required =>
    { requiredCovered := Spec.withoutPartiesOk env mt required signers
      smartContract := sc }

/-- `tag` names the endpoint; `impl` is the first word of the implementation's output. -/
def verdict (tag : String) (c : Clauses) (impl : String) : String :=
  if impl = "ok" then
    if !c.precond then s!"fail:{tag}:accepted_malformed_message"
    else if !c.optionalOk then s!"fail:{tag}:accepted_optional_party_without_rollup"
    else if !c.partiesPresent then s!"fail:{tag}:accepted_party_not_in_scope"
    else if !c.rolesPresent then s!"fail:{tag}:accepted_role_absent"
    else if !c.provMust then s!"fail:{tag}:accepted_provenance_role_mismatch"
    else if !c.requiredCovered then s!"fail:{tag}:accepted_uncovered_required_party"
    else if !c.rolesCovered then s!"fail:{tag}:accepted_role_without_signing_party"
    else if !c.valueOwner then s!"fail:{tag}:accepted_without_value_owner_signature"
    else if !c.smartContract then s!"fail:{tag}:accepted_smart_contract_signer"
    else "ok"
  else
    let all := c.precond && c.optionalOk && c.partiesPresent && c.rolesPresent && c.provMay && c.requiredCovered
      && c.rolesCovered && c.smartContract && c.valueOwner
    -- a rejection is wrong only when every documented requirement is met
    if all then s!"fail:{tag}:rejected_valid:{if impl.startsWith "err:" then (impl.drop 4).toString else impl}" else "ok"

def parseVO (ws : List String) (k : String) : Addr :=
  match kv ws k with
  | some s => if s = "-" then "" else parseAddr s
  | none => ""

def showVO (a : Addr) : String := if a = "" then "-" else a

structure Parsed where
  out : String
  tag : String
  clauses : Clauses
  /-- message-server ops: the stored entry an ACCEPTED message must leave behind -/
  stored : Option String := none

/-- `via=msg`: the model's answer carries the stored entry when it accepts. -/
def Parsed.withStored (p : Parsed) (via : Bool) (stored : String) : Parsed :=
  if via then
    { p with out := if p.out = "ok" then s!"ok stored={stored}" else p.out, stored := some stored }
  else p

def stepWords (ws : List String) : Option Parsed := do
  let signers := parseAddrs ((kv ws "signers").getD "-")
  let grants ← parseGrants? ((kv ws "grants").getD "-")
  let env := mkEnv grants
  let via ← match kv ws "via" with
    | none => some false
    | some v => if v = "msg" ∨ v = "hist" then some true else none
  match ws.head? with
  | some "wp" =>
    let mt ← kv ws "mt"
    let req ← (kv ws "req") >>= parseParties?
    let avail ← (kv ws "avail") >>= parseParties?
    let roles ← (kv ws "roles") >>= parseRoles?
    let r := validateSignersWithParties env mt req avail roles signers
    let c := Clauses.ofReq env mt signers [] (.parties req avail roles)
    let pv := Spec.provenanceRoleOk env avail
    some ⟨showRes r, "wp", { c with provMust := pv, provMay := pv }, none⟩
  | some "wo" =>
    let mt ← kv ws "mt"
    let required := parseAddrs ((kv ws "required").getD "-")
    let r := validateSignersWithoutParties env mt required signers
    some ⟨showRes r, "wo", Clauses.ofReq env mt signers [] (.addrs required), none⟩
  | some "wscope" =>
    let existing ← (kv ws "existing") >>= parseOpt? parseScope?
    let proposed ← (kv ws "proposed") >>= parseScope?
    -- `roles`: required by the specification of the stored scope (`none`: that specification
    -- no longer exists); `newroles` (optional): by the specification the proposed scope names,
    -- when it names another one
    let roles ← (kv ws "roles") >>= parseOpt? parseRoles?
    let specChange := (kv ws "newroles").isSome
    let newRoles ← match kv ws "newroles" with
      | some s => parseRoles? s
      | none => roles
    -- the specification id is one of the "other" fields `Scope.Equals` compares
    let proposed := if specChange then { proposed with other := proposed.other + 1000 } else proposed
    let mt := "WriteScope"
    let existingSpecRoles := if specChange then roles else none
    let governing := existingSpecRoles.getD newRoles
    -- value owners (optional): the stored one and the one the message names
    let hasVO := (kv ws "vo").isSome || (kv ws "pvo").isSome
    let vo := parseVO ws "vo"
    let pvo := parseVO ws "pvo"
    let only := Spec.onlyValueOwnerChanges existing vo proposed pvo
    let r := validateWriteScopeVO env existing vo proposed pvo newRoles existingSpecRoles signers
    -- the message server: what is stored after an accepted write (model) / what the message asks for (spec)
    let rm := msgWriteScope env existing vo proposed pvo newRoles existingSpecRoles signers
    -- the documented requirement: the roles of the stored scope's specification sign
    let c := Clauses.ofReq env mt signers (Spec.writeScopeValueOwnerUsed env existing vo pvo signers)
      (Spec.writeScopeReqVO existing vo proposed pvo governing)
    let pv := only || Spec.provenanceRoleOk env proposed.owners
    let c := { c with rolesPresent := only || Spec.rolesPresent proposed.owners newRoles, provMust := pv, provMay := pv
                      valueOwner := Spec.writeScopeValueOwnerOk env existing vo pvo signers }
    -- (the `+1000` that encodes "names another specification" is not part of the stored entry)
    let showStored := fun (sc : Scope) (o : Addr) =>
      let st := showScope ({ sc with other := sc.other % 1000 })
      if hasVO then s!"{st}@{showVO o}" else st
    let out := if via then
        match rm with
        | .ok (sc, o) => s!"ok stored={showStored sc o}"
        | .error e => e.show
      else showUnit r
    some ⟨out, if specChange then "wscope_spec_change" else "wscope", c,
      if via then some (showStored proposed (Spec.valueOwnerAfterWrite vo pvo)) else none⟩
  | some "dscope" =>
    let scope ← (kv ws "scope") >>= parseScope?
    let roles ← (kv ws "roles") >>= parseOpt? parseRoles?
    let mt := "DeleteScope"
    let vo := parseVO ws "vo"
    let r := validateDeleteScopeVO env scope vo roles signers
    let c := Clauses.ofReq env mt signers (Spec.deleteScopeValueOwnerUsed env vo signers) (Spec.deleteScopeReq scope roles)
    let showStored := fun (o : Option Scope) => match o with
      | none => "none"
      | some sc => showScope sc
    let out := if via then
        match msgDeleteScope env scope vo roles signers with
        | .ok o => s!"ok stored={showStored o}"
        | .error e => e.show
      else showUnit r
    some ⟨out, "dscope", { c with valueOwner := Spec.deleteScopeValueOwnerOk env vo signers },
      if via then some (showStored none) else none⟩
  | some "upd" =>
    let mt ← kv ws "mt"
    let scope ← (kv ws "scope") >>= parseScope?
    let roles ← (kv ws "roles") >>= parseRoles?
    let r := validateScopeUpdateSigners env mt scope roles signers
    let c := Clauses.ofReq env mt signers [] (Spec.scopeUpdateReq scope roles)
    let pv := !scope.rollup || Spec.provenanceRoleOk env scope.owners
    let out := if via then
        match msgScopeDataAccess env mt scope roles signers with
        | .ok sc => s!"ok stored={showScope sc}"
        | .error e => e.show
      else showUnit r
    some ⟨out, "upd", { c with provMay := pv },
      if via then some (showScope (Spec.scopeAfterDataAccess mt scope)) else none⟩
  | some "owners" =>
    let mt ← kv ws "mt"
    let scope ← (kv ws "scope") >>= parseScope?
    let proposed ← (kv ws "proposed") >>= parseParties?
    let roles ← (kv ws "roles") >>= parseRoles?
    let r := validateUpdateScopeOwners env mt scope proposed roles signers
    let c := Clauses.ofReq env mt signers [] (Spec.scopeUpdateReq scope roles)
    let pv := Spec.provenanceRoleOk env proposed
    some ⟨showUnit r, "owners",
      { c with optionalOk := scope.rollup || !proposed.any (·.optional)
               rolesPresent := Spec.rolesPresent proposed roles
               provMust := pv
               provMay := pv }, none⟩
  | some "wsession" =>
    let scope ← (kv ws "scope") >>= parseScope?
    let existing ← (kv ws "existing") >>= parseOpt? parseParties?
    let proposed ← (kv ws "proposed") >>= parseParties?
    let roles ← (kv ws "roles") >>= parseRoles?
    let mt := "WriteSession"
    let r := validateWriteSession env scope existing proposed roles signers
    let c := Clauses.ofReq env mt signers [] (Spec.writeSessionReq scope existing proposed roles)
    let pv := Spec.provenanceRoleOk env proposed
    let pvEx := match existing with
      | some ex => !scope.rollup || Spec.provenanceRoleOk env ex
      | none => true
    some ((⟨showUnit r, "wsession",
      { c with optionalOk := scope.rollup || !proposed.any (·.optional)
               partiesPresent := !scope.rollup ||
                 proposed.all fun p => scope.owners.any fun o => o.address == p.address && o.role == p.role
               rolesPresent := Spec.rolesPresent proposed roles
               provMust := pv
               provMay := pv && pvEx }, none⟩ : Parsed).withStored via (showParties proposed))
  | some "wrecord" =>
    let scope ← (kv ws "scope") >>= parseScope?
    let session ← (kv ws "session") >>= parseParties?
    -- `same`: the record stays in its session; `gone`: its previous session no longer exists
    let old ← (kv ws "old") >>= fun s =>
      if s = "same" ∨ s = "gone" then some none else parseOpt? parseParties? s
    let roles ← (kv ws "roles") >>= parseRoles?
    let mt := "WriteRecord"
    let r := validateWriteRecord env scope session old roles signers
    let c := Clauses.ofReq env mt signers [] (Spec.writeRecordReq scope session old roles)
    some ((⟨showUnit r, "wrecord",
      { c with rolesPresent := scope.rollup || Spec.rolesPresent session roles
               provMay := !scope.rollup || Spec.provenanceRoleOk env session }, none⟩ : Parsed).withStored via "sess")
  | some "drecord" =>
    let scope ← (kv ws "scope") >>= parseOpt? parseScope?
    let roles ← (kv ws "roles") >>= parseOpt? parseRoles?
    let mt := "DeleteRecord"
    let r := validateDeleteRecord env scope roles signers
    let c := Clauses.ofReq env mt signers [] (Spec.deleteRecordReq scope roles)
    let c := match scope with
      | none => { c with smartContract := true }
      | some sc =>
        { c with provMay := !sc.rollup || roles.isNone || Spec.provenanceRoleOk env sc.owners }
    some ((⟨showUnit r, "drecord", c, none⟩ : Parsed).withStored via "none")
  | some "mowners" =>
    let mt ← kv ws "mt"
    let stored ← (kv ws "scope") >>= parseOpt? parseScope?
    let roles ← (kv ws "roles") >>= parseRoles?
    -- the model of the message server; the owner list the message asks for (spec side)
    let (r, wellFormed, asked) ←
      if mt = "AddScopeOwner" then do
        let add ← (kv ws "add") >>= parseParties?
        some (msgAddScopeOwner env stored add roles signers,
          Spec.addOwnersWellFormed env stored add signers,
          fun (ex : Scope) => Spec.ownersAfterAdd ex.owners add)
      else if mt = "DeleteScopeOwner" then
        let remove := parseAddrs ((kv ws "remove").getD "-")
        some (msgDeleteScopeOwner env stored remove roles signers,
          Spec.removeOwnersWellFormed env stored remove signers,
          fun (ex : Scope) => Spec.ownersAfterRemove ex.owners remove)
      else none
    let out := match r with
      | .ok sc => s!"ok stored={showScope sc}"
      | .error e => e.show
    match stored, wellFormed with
    | some scope, true =>
      -- exactly the clauses of `owners`, on the STORED scope and the owner list asked for
      let proposed := asked scope
      let c := Clauses.ofReq env mt signers [] (Spec.scopeUpdateReq scope roles)
      let pv := Spec.provenanceRoleOk env proposed
      some ⟨out, "mowners",
        { c with optionalOk := scope.rollup || !proposed.any (·.optional)
                 rolesPresent := Spec.rolesPresent proposed roles
                 provMust := pv
                 provMay := pv },
        some (showScope { scope with owners := proposed })⟩
    | _, _ => some ⟨out, "mowners", { precond := false }, none⟩
  | _ => none

def stepOp (ws : List String) (impl : Option String) : String × String :=
  match stepWords ws with
  | none => ("bad-op", "-")
  | some p =>
    let v := match impl with
      | none => "-"
      | some i =>
        let first := (i.splitOn " ").headD ""
        -- `state-differs` (history replays): the stored state is no longer what the line says —
        -- an earlier message of the history was decided differently; nothing to judge here
        -- (the answer still disagrees with the model's)
        let v := if first = "state-differs" ∨ first = "bad-op" then "-" else verdict p.tag p.clauses first
        -- an accepted message leaves the entry it asked for (message-server ops only)
        match p.stored with
        | some st =>
          if v = "ok" ∧ first = "ok" ∧ i ≠ s!"ok stored={st}" then s!"fail:{p.tag}:stored_entry_differs" else v
        | none => v
    (p.out, v)

def driver : Driver where
  σ := Unit
  init := ()
  step := fun _ op impl =>
    let r := stepOp (words op) impl
    ((), r.1, r.2)

end PvModel.Signers
