/-
Line-protocol driver + implementation-output checker for the metadata store model (`mdstore`).

ops (symbolic ids; lists `a|b`, `-` = empty):
  wsspec <p> owners=<A|B> cspecs=<c|c>     dsspec <p>
  wcspec <c> owners=<A|B>                  dcspec <c>
  addcs <c> <p>                            rmcs <c> <p>
  wrspec <c> <name>                        drspec <c> <name>
  wscope <s> spec=<p> owners=<..> da=<..> vo=<A|-> mills=<n>
  dscope <s>     addda <s> <..>   rmda <s> <..>   addown <s> <..>   rmown <s> <..>
  setvo <s|s> <A>      migvo <A> <B>
  wsess <s> <x> spec=<c> parties=<..> name=<n|->
  wrec <s> <x> <name> spec=<c/name|->      drec <s> <name>
  addnav <s>           krmsess <s> <x>
  wrecs <s> <x> <prefix> <from> <count> spec=<c/name|->          MANY messages on one line:
  wsesss <s> <prefix> <from> <count> spec=<c> parties=<..> name=<n|->
  wrspecs <c> <prefix> <from> <count>
    `wrspecs` is the message sequence `wrspec <c> <prefix><i>`,
    `wrecs` is the message sequence `wrec <s> <x> <prefix><i> spec=…`, `wsesss` the sequence
    `wsess <s> <prefix><i> spec=… parties=… name=…`, for i = from … from+count-1, each message
    executed (and rolled back on failure) on its own: `runWith` on that op list.  Result `ok` when
    every message was accepted, `some:<k>` when only k were.  (A scope with more sessions / records
    than any batch or page size; the model needs no new operation for it.)
output of every op: `<ok|err:class> <canonical dump of the whole store and all lookups>`.

Address symbols: `A` is the lower-case bech32 text of account A (what `AccAddress.String()`
prints), `A^` the all-upper-case bech32 text of the SAME account.  Stored lists are dumped as
texts (`sc=s1:p1:A^+B:-`); lookups and value owners are dumped by account (`ia=A:s1`).
-/
import PvModel.MdStoreSpec
import PvModel.MdAddr
-- registry: mdstore PvModel.MdStore.driver

namespace PvModel.MdStore
open PvModel

/-- the driver's instance of the abstract name hash: the normalised name itself (sha256 is
collision free on the handful of names the harness uses; the harness checks that) -/
def hashName (n : String) : NameKey := MdAddr.normalizeName n

/-- the driver's instance of `B`: the account a text denotes (`A^` and `A` are account `A`) -/
def acctOf (a : Addr) : Addr :=
  match a.toList.reverse with
  | '^' :: r => String.ofList r.reverse
  | _ => a

private def insertSorted (x : String) : List String → List String
  | [] => [x]
  | y :: ys => if x < y then x :: y :: ys else y :: insertSorted x ys

def sortStrings (xs : List String) : List String := xs.foldl (fun acc x => insertSorted x acc) []

def joinOr (xs : List String) (sep : String) : String := if xs.isEmpty then "-" else sep.intercalate xs

def showList (xs : List String) : String := joinOr xs "+"
def section_ (xs : List String) : String := joinOr (sortStrings xs) ","

def showSid (i : SessionId) : String := s!"{i.scope}/{i.sess}"
def showRid (i : RecordId) : String := s!"{i.scope}/{i.key}"
def showRsid (i : RecSpecId) : String := s!"{i.cspec}/{i.key}"
def showPair (p : String × String) : String := s!"{p.1}:{p.2}"

/-- canonical rendering of the whole store and every lookup -/
def dump (s : State) : String :=
  let sc := s.scopes.map fun x => s!"{x.id}:{x.spec}:{showList x.owners}:{showList x.dataAccess}"
  let se := s.sessions.map fun x => s!"{showSid x.id}:{x.spec}:{showList x.parties}:{if x.name = "" then "-" else x.name}"
  let re := s.records.map fun x => s!"{showRid x.id}:{x.name}:{showSid x.session}:{showRsid x.spec}"
  let sp := s.scopeSpecs.map fun x => s!"{x.id}:{showList x.owners}:{showList x.cspecs}"
  let cs := s.contractSpecs.map fun x => s!"{x.id}:{showList x.owners}"
  let rs := s.recordSpecs.map fun x => s!"{showRsid x.id}:{x.name}"
  s!"sc={section_ sc} se={section_ se} re={section_ re} sp={section_ sp} cs={section_ cs} rs={section_ rs} " ++
  s!"ia={section_ (s.idxAddrScope.map showPair)} is={section_ (s.idxSpecScope.map showPair)} " ++
  s!"ip={section_ (s.idxAddrScopeSpec.map showPair)} ic={section_ (s.idxCSpecScopeSpec.map showPair)} " ++
  s!"io={section_ (s.idxAddrCSpec.map showPair)} vo={section_ (s.valueOwners.map showPair)} " ++
  s!"nav={section_ (s.navs.map showPair)}"

/-! parsing a dump back (the implementation's) -/

def plist (s : String) : List String := splitList s "+"

def parseSid? (s : String) : Option SessionId :=
  match s.splitOn "/" with | [a, b] => some ⟨a, b⟩ | _ => none
def parseRid? (s : String) : Option RecordId :=
  match s.splitOn "/" with | [a, b] => some ⟨a, b⟩ | _ => none
def parseRsid? (s : String) : Option RecSpecId :=
  match s.splitOn "/" with | [a, b] => some ⟨a, b⟩ | _ => none
def parsePair? (s : String) : Option (String × String) :=
  match s.splitOn ":" with | [a, b] => some (a, b) | _ => none

def parseDump? (ws : List String) : Option State := do
  let sec (k : String) : List String := splitList ((kv ws k).getD "-") ","
  let scopes ← (sec "sc").mapM fun e => match e.splitOn ":" with
    | [i, sp, o, d] => some ({ id := i, spec := sp, owners := plist o, dataAccess := plist d } : Scope)
    | _ => none
  let sessions ← (sec "se").mapM fun e => match e.splitOn ":" with
    | [i, sp, p, n] => (parseSid? i).map fun i => ({ id := i, spec := sp, parties := plist p, name := if n = "-" then "" else n } : Session)
    | _ => none
  let records ← (sec "re").mapM fun e => match e.splitOn ":" with
    | [i, n, se, sp] => do
      pure ({ id := ← parseRid? i, name := n, session := ← parseSid? se, spec := ← parseRsid? sp } : Record)
    | _ => none
  let scopeSpecs ← (sec "sp").mapM fun e => match e.splitOn ":" with
    | [i, o, c] => some ({ id := i, owners := plist o, cspecs := plist c } : ScopeSpec)
    | _ => none
  let contractSpecs ← (sec "cs").mapM fun e => match e.splitOn ":" with
    | [i, o] => some ({ id := i, owners := plist o } : ContractSpec)
    | _ => none
  let recordSpecs ← (sec "rs").mapM fun e => match e.splitOn ":" with
    | [i, n] => (parseRsid? i).map fun i => ({ id := i, name := n } : RecordSpec)
    | _ => none
  pure { scopes, sessions, records, scopeSpecs, contractSpecs, recordSpecs,
         idxAddrScope := ← (sec "ia").mapM parsePair?, idxSpecScope := ← (sec "is").mapM parsePair?,
         idxAddrScopeSpec := ← (sec "ip").mapM parsePair?, idxCSpecScopeSpec := ← (sec "ic").mapM parsePair?,
         idxAddrCSpec := ← (sec "io").mapM parsePair?, valueOwners := ← (sec "vo").mapM parsePair?,
         navs := ← (sec "nav").mapM parsePair? }

def parseOp (ws : List String) : Option Op :=
  let L (k : String) (rest : List String) : List String := splitList ((kv rest k).getD "-")
  match ws with
  | "wsspec" :: p :: rest => some (.writeScopeSpec { id := p, owners := L "owners" rest, cspecs := L "cspecs" rest })
  | ["dsspec", p] => some (.deleteScopeSpec p)
  | "wcspec" :: c :: rest => some (.writeContractSpec { id := c, owners := L "owners" rest })
  | ["dcspec", c] => some (.deleteContractSpec c)
  | ["addcs", c, p] => some (.addCSpecToScopeSpec c p)
  | ["rmcs", c, p] => some (.delCSpecFromScopeSpec c p)
  | ["wrspec", c, n] => some (.writeRecordSpec c n)
  | ["drspec", c, n] => some (.deleteRecordSpec c n)
  | "wscope" :: s :: rest => do
    let spec ← kv rest "spec"
    let vo := (kv rest "vo").getD "-"
    let mills ← ((kv rest "mills").getD "0").toNat?
    pure (.writeScope { id := s, spec := spec, owners := L "owners" rest, dataAccess := L "da" rest }
      (if vo = "-" then "" else vo) mills)
  | ["dscope", s] => some (.deleteScope s)
  | ["addda", s, l] => some (.addDataAccess s (splitList l))
  | ["rmda", s, l] => some (.delDataAccess s (splitList l))
  | ["addown", s, l] => some (.addOwners s (splitList l))
  | ["rmown", s, l] => some (.delOwners s (splitList l))
  | ["setvo", l, a] => some (.updateValueOwners (splitList l) a)
  | ["migvo", a, b] => some (.migrateValueOwner a b)
  | "wsess" :: s :: x :: rest => do
    let spec ← kv rest "spec"
    let n := (kv rest "name").getD "-"
    pure (.writeSession { id := ⟨s, x⟩, spec := spec, parties := L "parties" rest, name := if n = "-" then "" else n })
  | "wrec" :: s :: x :: n :: rest =>
    let g := (kv rest "spec").getD "-"
    let given : Option (Option RecSpecId) :=
      if g = "-" then some none
      else match g.splitOn "/" with
        | [c, nm] => some (some ⟨c, hashName nm⟩)
        | _ => none
    given.map fun g => .writeRecord ⟨s, x⟩ n g
  | ["drec", s, n] => some (.deleteRecord s n)
  | ["addnav", s] => some (.addNav s)
  | ["krmsess", s, x] => some (.keeperRemoveSession ⟨s, x⟩)
  | _ => none

/-- a line that abbreviates a sequence of messages (each executed on its own) -/
def parseBulk (ws : List String) : Option (List Op) :=
  match ws with
  | "wrecs" :: s :: x :: pfx :: frm :: cnt :: rest => do
    let f ← frm.toNat?
    let c ← cnt.toNat?
    (List.range c).mapM fun i => parseOp ("wrec" :: s :: x :: (pfx ++ toString (f + i)) :: rest)
  | "wsesss" :: s :: pfx :: frm :: cnt :: rest => do
    let f ← frm.toNat?
    let c ← cnt.toNat?
    (List.range c).mapM fun i => parseOp ("wsess" :: s :: (pfx ++ toString (f + i)) :: rest)
  | ["wrspecs", c, pfx, frm, cnt] => do
    let f ← frm.toNat?
    let n ← cnt.toNat?
    (List.range n).mapM fun i => parseOp ["wrspec", c, pfx ++ toString (f + i)]
  | _ => none

/-- The property's conclusions on the implementation's dumped state `post` after a sequence of
messages that started in `pre`: the invariant, and no session of a missing scope appears. -/
def verdictBulk (pre post : State) : String :=
  match violations acctOf post with
  | c :: _ => s!"fail:{c}"
  | [] =>
    let newOrphans := (orphanSessions post).filter (fun i => i ∉ orphanSessions pre)
    if newOrphans.isEmpty then "ok" else "fail:session_without_scope"

/-- The property's conclusions evaluated on the implementation's result `r` and dumped state
`post`, given the state `pre` before the op (the implementation's previous dump; the model's
state at the start of a history). -/
def verdict (pre : State) (op : Op) (r : String) (post : State) (postDump : String) : String :=
  if r ≠ "ok" then
    -- a rejected message changes nothing
    if postDump ≠ dump pre then "fail:rejected_op_changed_state" else "ok"
  else
  -- 1. integrity and lookup exactness (by ACCOUNT: a stored text names the account it decodes to) of the dumped state
  match violations acctOf post with
  | c :: _ => s!"fail:{c}"
  | [] =>
  -- 2. what the op itself promises
  let opClause : Option String :=
    match op with
    | .deleteScope id =>
      if decide (ScopeGoneExceptSessions post id) then none else some "scope_delete_leaves_data"
    | .deleteRecord sc n =>
      match kget (·.id) pre.records ⟨sc, hashName n⟩ with
      | some rec =>
        if post.records.all (fun r' => r'.session ≠ rec.session) ∧ khas (·.id) post.sessions rec.session
        then some "session_survives_last_record" else none
      | none => none
    | .writeRecord sid n _ =>
      match kget (·.id) pre.records ⟨sid.scope, hashName n⟩ with
      | some rec =>
        if rec.session ≠ sid ∧ post.records.all (fun r' => r'.session ≠ rec.session)
            ∧ khas (·.id) post.sessions rec.session
        then some "session_survives_last_record" else none
      | none => none
    | .deleteScopeSpec id =>
      -- a scope specification named by a stored scope is not removed
      if pre.scopes.any (fun sc => sc.spec = id) then some "scopespec_in_use_removed" else none
    | .deleteContractSpec id =>
      -- a contract specification listed by a stored scope specification is not removed
      if pre.scopeSpecs.any (fun sp => id ∈ sp.cspecs) then some "contractspec_in_use_removed" else none
    | _ => none
  match opClause with
  | some c => s!"fail:{c}"
  | none =>
  -- 3. sessions of a scope that does not exist, newly introduced by this op
  let newOrphans := (orphanSessions post).filter (fun i => i ∉ orphanSessions pre)
  if newOrphans.isEmpty then "ok"
  else match op with
    | .deleteScope id =>
      if newOrphans.all (fun i => i.scope = id ∧ pre.records.all (fun r' => r'.session ≠ i))
      then "fail:recordless_session_survives_scope_delete"
      else "fail:session_without_scope"
    | _ => "fail:session_without_scope"

/-- driver state: the model state and the implementation's previous dump (if any) -/
structure DState where
  st : State := {}
  lastImpl : Option String := none

def stepOp (rm : State → UUID → State) (d : DState) (ws : List String) (impl : Option String) :
    DState × String × String :=
  let s := d.st
  match parseBulk ws with
  | some ops =>
    let (s', k) := ops.foldl (fun (acc : State × Nat) op =>
      match applyOpWith acctOf rm hashName acc.1 op with
      | .ok t => (t, acc.2 + 1)
      | .error _ => acc) (s, 0)
    let out := s!"{if k = ops.length then "ok" else s!"some:{k}"} {dump s'}"
    match impl with
    | none => ({ st := s', lastImpl := none }, out, "-")
    | some i =>
      let iw := words i
      let idump := " ".intercalate iw.tail
      let v :=
        match parseDump? iw.tail with
        | none => "fail:unparsable_dump"
        | some post =>
          let pre := match d.lastImpl with
            | some l => (parseDump? (words l)).getD s
            | none => s
          verdictBulk pre post
      ({ st := s', lastImpl := some idump }, out, v)
  | none =>
  match parseOp ws with
  | none => (d, "bad-op", "-")
  | some op =>
    let (s', res) := match applyOpWith acctOf rm hashName s op with
      | .ok s' => (s', "ok")
      | .error e => (s, e.toString)
    let out := s!"{res} {dump s'}"
    match impl with
    | none => ({ st := s', lastImpl := none }, out, "-")
    | some i =>
      let iw := words i
      let idump := " ".intercalate iw.tail
      let r := iw.headD ""
      let v :=
        match parseDump? iw.tail with
        | none => "fail:unparsable_dump"
        | some post =>
          -- a rejected message changes nothing: compare with the implementation's own previous dump
          if r ≠ "ok" then
            (if idump ≠ d.lastImpl.getD (dump s) then "fail:rejected_op_changed_state" else "ok")
          else
            -- the state before the op, as the implementation reported it (equal to the model's
            -- unless an earlier line already disagreed)
            let pre := match d.lastImpl with
              | some l => (parseDump? (words l)).getD s
              | none => s
            verdict pre op r post idump
      ({ st := s', lastImpl := some idump }, out, v)

/-- the code as it is -/
def driver : Driver where
  σ := DState
  init := {}
  step := fun s op impl => stepOp (removeScope acctOf) s (words op) impl

end PvModel.MdStore
