/-
C10 — what the documentation says (x/metadata/spec/01_concepts.md "Signing Requirements",
04_authz.md "Special allowances"), as decidable `Bool` predicates that do not follow the
control flow of the Go code: no party-details list, no greedy loop, no marking.

* a party is *covered* when its address is a signer of the message, or when it has granted
  one of the signers an authorization that applies to the message type;
* with party rollup: every `optional = false` party of the required list is covered, and
  for every role `r` the specification requires `k` times there are at least `k` distinct
  available parties `(address, r)` that are covered (a party fills one role entry);
* without party rollup: every listed address is covered;
* smart contracts: a party has the PROVENANCE role iff its address is a smart contract; a
  smart-contract signer has only smart-contract signers before it, and either signs for a
  party or holds authorizations from all signers after it, of which there is at least one.
-/
import PvModel.Signers

namespace PvModel.Signers.Spec
open PvModel.Signers

/-- 04_authz.md "Special allowances": the parent message type whose authorization also works
for `msgType` (one way). -/
def parentType (msgType : MsgType) : Option MsgType :=
  if msgType = "AddScopeDataAccess" then some "WriteScope"
  else if msgType = "DeleteScopeDataAccess" then some "WriteScope"
  else if msgType = "AddScopeOwner" then some "WriteScope"
  else if msgType = "DeleteScopeOwner" then some "WriteScope"
  else if msgType = "WriteRecord" then some "WriteSession"
  else if msgType = "AddContractSpecToScopeSpec" then some "WriteScopeSpecification"
  else if msgType = "DeleteContractSpecFromScopeSpec" then some "WriteScopeSpecification"
  else if msgType = "WriteRecordSpecification" then some "WriteContractSpecification"
  else if msgType = "DeleteRecordSpecification" then some "DeleteContractSpecification"
  else none

/-- `granter` has authorized `grantee` for this message type (directly or through the parent
type); both are real addresses. -/
def authorizes (env : Env) (msgType : MsgType) (granter grantee : Addr) : Bool :=
  env.valid granter && env.valid grantee && msgType != "" &&
    (env.grant granter grantee msgType ||
      match parentType msgType with
      | some parent => env.grant granter grantee parent
      | none => false)

/-- the address is one of the message's signers -/
def signsDirectly (signers : List Addr) (a : Addr) : Bool := a != "" && signers.contains a

/-- the address has authorized one of the message's signers -/
def signsViaAuthz (env : Env) (msgType : MsgType) (signers : List Addr) (a : Addr) : Bool :=
  signers.any fun s => authorizes env msgType a s

/-- "must be a signer" in the documentation, authz included. -/
def covered (env : Env) (msgType : MsgType) (signers : List Addr) (a : Addr) : Bool :=
  signsDirectly signers a || signsViaAuthz env msgType signers a

/-- all `optional = false` parties are covered -/
def requiredCovered (env : Env) (msgType : MsgType) (signers : List Addr) (req : List Party) : Bool :=
  req.all fun p => p.optional || covered env msgType signers p.address

/-- a list without its repetitions -/
def distinct : List (Addr × Role) → List (Addr × Role)
  | [] => []
  | k :: ks => if ks.contains k then distinct ks else k :: distinct ks

/-- the distinct `(address, role)` pairs of a party list -/
def distinctParties (parties : List Party) : List (Addr × Role) :=
  distinct (parties.map fun p => (p.address, p.role))

/-- the number of distinct available parties with role `r` that are covered -/
def coveredWithRole (env : Env) (msgType : MsgType) (signers : List Addr) (avail : List Party)
    (r : Role) : Nat :=
  ((distinctParties avail).filter fun k => k.2 == r && covered env msgType signers k.1).length

/-- every required role entry can be given its own covered available party -/
def rolesCovered (env : Env) (msgType : MsgType) (signers : List Addr) (avail : List Party)
    (roles : List Role) : Bool :=
  roles.all fun r => decide (roles.count r ≤ coveredWithRole env msgType signers avail r)

/-- the number of distinct parties with role `r` (no signature needed) -/
def withRole (parties : List Party) (r : Role) : Nat :=
  ((distinctParties parties).filter fun k => k.2 == r).length

/-- "all roles required by the spec must have a party in the owners/parties" -/
def rolesPresent (parties : List Party) (roles : List Role) : Bool :=
  roles.all fun r => decide (roles.count r ≤ withRole parties r)

/-- PROVENANCE role ⇔ smart-contract address, for every party with a real address -/
def provenanceRoleOk (env : Env) (parties : List Party) : Bool :=
  parties.all fun p => !env.valid p.address || (env.wasm p.address == (p.role == rolePROVENANCE))

/-- "a smart contract signer MUST be first or have only smart-contract signers before it" -/
def smartContractsFirst (env : Env) (signers : List Addr) : Bool :=
  (signers.dropWhile env.wasm).all fun s => !env.wasm s

/-- "it must either be a party/owner" (`signsFor`: it is recorded as the signer of a party)
"or have authorizations from all signers after it … cannot be the last signer" -/
def smartContractsAuthorized (env : Env) (msgType : MsgType) (signsFor : List Addr) :
    List Addr → Bool
  | [] => true
  | s :: rest =>
    (!env.wasm s || signsFor.contains s ||
      (!rest.isEmpty && rest.all fun later => authorizes env msgType later s))
    && smartContractsAuthorized env msgType signsFor rest

def smartContractOk (env : Env) (msgType : MsgType) (signsFor signers : List Addr) : Bool :=
  signers.all env.valid && smartContractsFirst env signers
    && smartContractsAuthorized env msgType signsFor signers

/-- the signature requirements of `ValidateSignersWithParties` (without the smart-contract
signer rule, which needs to know for whom each signer signs) -/
def withPartiesOk (env : Env) (msgType : MsgType) (req avail : List Party) (roles : List Role)
    (signers : List Addr) : Bool :=
  requiredCovered env msgType signers req && rolesCovered env msgType signers avail roles
    && provenanceRoleOk env avail

/-- the signature requirement of `ValidateSignersWithoutParties` -/
def withoutPartiesOk (env : Env) (msgType : MsgType) (required : List Addr) (signers : List Addr) : Bool :=
  required.all fun a => covered env msgType signers a

/-! ### the documented requirement of each endpoint (01_concepts.md:112-173)

`Req` says which parties must sign and which roles need a signing party; `none` = the
endpoint asks for no signature beyond the smart-contract rule. -/

inductive Req where
  /-- rollup: non-optional `req` parties, and `roles` filled from `avail` -/
  | parties (req avail : List Party) (roles : List Role)
  /-- no rollup: all these addresses -/
  | addrs (required : List Addr)
  deriving Repr

def addresses (parties : List Party) : List Addr := parties.map (·.address)

/-- signature requirements only (no smart-contract signer rule) -/
def Req.ok (env : Env) (msgType : MsgType) (signers : List Addr) : Req → Bool
  | .parties req avail roles =>
    requiredCovered env msgType signers req && rolesCovered env msgType signers avail roles
  | .addrs required => withoutPartiesOk env msgType required signers

/-! #### for whom the signers sign ("it must either be a party/owner")

The smart-contract rule asks of a smart-contract signer that it signs FOR one of the parties the
requirement names: as that party itself, or as the holder of an applicable authorization of
that party (characterised by `PvProofs.C10.used_signers_sound` / `direct_party_is_used`).  These
are the signers the signature check records on the parties. -/

/-- the signers recorded on the parties of an accepted signature check (none when it rejects) -/
def usedOf (r : Except Err (List PartyDetails)) : List Addr :=
  match r with
  | .ok ps => getUsedSigners ps
  | .error _ => []

/-- the signer recorded for the value owner -/
def usedVO (r : Except Err (List Addr)) : List Addr :=
  match r with
  | .ok u => u
  | .error _ => []

/-- the signers that sign for a party / address of the requirement -/
def Req.used (env : Env) (msgType : MsgType) (signers : List Addr) : Req → List Addr
  | .parties req avail roles => usedOf (validateAllRequiredPartiesSigned env msgType req avail roles signers)
  | .addrs required => usedOf (validateAllRequiredSigned env msgType required signers)

/-- the smart-contract signer rule of an endpoint whose signature requirement is `req`;
`extra`: signers that sign for somebody outside `req` (the value owner) -/
def Req.contractsOk (env : Env) (msgType : MsgType) (signers : List Addr) (extra : List Addr)
    (req : Req) : Bool :=
  Spec.smartContractOk env msgType (extra ++ req.used env msgType signers) signers

/-- "every required party signs directly": all `optional = false` parties are signers and each
required role has enough distinct available parties that are signers / all addresses are signers -/
def Req.allSignDirectly (signers : List Addr) : Req → Bool
  | .parties req avail roles =>
    (req.all fun p => p.optional || signsDirectly signers p.address)
      && roles.all fun r => decide (roles.count r ≤
          ((distinctParties avail).filter fun k => k.2 == r && signsDirectly signers k.1).length)
  | .addrs required => required.all fun a => signsDirectly signers a

/-- "Writing or Deleting a Scope" (write; scopes without value owner).  Without rollup a write
that changes nothing (`Scope.Equals`: same owners up to order, same other fields) asks for no
signature. -/
def writeScopeReq (existing : Option Scope) (proposed : Scope) (specRoles : List Role) : Req :=
  -- `specRoles`: the roles required by the governing specification: that of the EXISTING
  -- (stored) scope — or, if it no longer exists, the one the proposed scope names
  match existing with
  | none => .addrs []
  | some ex =>
    if ex.rollup then .parties ex.owners ex.owners specRoles
    else if ex.equals proposed then .addrs [] else .addrs (addresses ex.owners)

/-! #### scopes with a value owner ("Scope Value Owner Address Requirements", 01_concepts.md:85-97)

`storedVO`: the scope's current value owner (`""`: none); `proposedVO`: the message's
`value_owner_address` (`""`: no desired change).  Not markers (C09). -/

/-- the write changes the value owner from one address to another -/
def valueOwnerChanging (existing : Option Scope) (storedVO proposedVO : Addr) : Bool :=
  existing.isSome && storedVO != "" && proposedVO != "" && storedVO != proposedVO

/-- "If it's a smart contract doing this, it'll be the first signer provided, and we ignore all
other signers" (signers.go:439): the signers that can stand for the value owner. -/
def valueOwnerSigners (env : Env) : List Addr → List Addr
  | [] => []
  | s0 :: rest => if env.wasm s0 then [s0] else s0 :: rest

/-- "When a value owner address is a non-marker address, and is being changed, that existing
address must be one of the signers" (authz included). -/
def valueOwnerCovered (env : Env) (msgType : MsgType) (signers : List Addr) (vo : Addr) : Bool :=
  covered env msgType (valueOwnerSigners env signers) vo

/-- the value-owner requirement of a scope write -/
def writeScopeValueOwnerOk (env : Env) (existing : Option Scope) (storedVO proposedVO : Addr)
    (signers : List Addr) : Bool :=
  !valueOwnerChanging existing storedVO proposedVO || valueOwnerCovered env "WriteScope" signers storedVO

/-- "the ONLY change is to that value owner address": every other field of the stored scope —
owners, specification, data access, `require_party_rollup` — is what the message says. -/
def onlyValueOwnerChanges (existing : Option Scope) (storedVO : Addr) (proposed : Scope)
    (proposedVO : Addr) : Bool :=
  match existing with
  | some ex => valueOwnerChanging existing storedVO proposedVO && ex.equals proposed
  | none => false

/-- "Writing or Deleting a Scope" (write) in full.  If ONLY the value owner changes "all other
signer requirements are ignored"; otherwise the requirements of `writeScopeReq`, where a write
that sets the first value owner is a change ("When a value owner address is empty, and is being
changed, standard scope signer requirements are also applied"). -/
def writeScopeReqVO (existing : Option Scope) (storedVO : Addr) (proposed : Scope) (proposedVO : Addr)
    (specRoles : List Role) : Req :=
  match existing with
  | none => .addrs []
  | some ex =>
    if onlyValueOwnerChanges existing storedVO proposed proposedVO then .addrs []
    else if ex.rollup then .parties ex.owners ex.owners specRoles
    else if ex.equals proposed && (proposedVO == "" || storedVO == proposedVO) then .addrs []
    else .addrs (addresses ex.owners)

/-- the signer that signs for the value owner of a scope write (the stored value owner is looked
up only when the scope exists and the message names one) -/
def writeScopeValueOwnerUsed (env : Env) (existing : Option Scope) (storedVO proposedVO : Addr)
    (signers : List Addr) : List Addr :=
  usedVO (validateScopeValueOwnersSigners env "WriteScope" (lookedUpVO existing storedVO proposedVO)
    proposedVO signers)

/-- the signer that signs for the value owner of a scope that is deleted -/
def deleteScopeValueOwnerUsed (env : Env) (storedVO : Addr) (signers : List Addr) : List Addr :=
  usedVO (validateScopeValueOwnersSigners env "DeleteScope" storedVO "" signers)

/-- the value owner after an accepted scope write: the one the message names, if it names one -/
def valueOwnerAfterWrite (storedVO proposedVO : Addr) : Addr :=
  if proposedVO != "" then proposedVO else storedVO

/-- the scope after `AddScopeDataAccess` / `DeleteScopeDataAccess` of ONE address (`other` counts
the data-access entries; the owners and the rollup flag stay) -/
def scopeAfterDataAccess (msgType : MsgType) (scope : Scope) : Scope :=
  if msgType = "AddScopeDataAccess" then { scope with other := scope.other + 1 }
  else { scope with other := scope.other - 1 }

/-- deleting a scope that has a value owner: that value owner signs -/
def deleteScopeValueOwnerOk (env : Env) (storedVO : Addr) (signers : List Addr) : Bool :=
  storedVO == "" || valueOwnerCovered env "DeleteScope" signers storedVO

def deleteScopeReq (scope : Scope) (specRoles : Option (List Role)) : Req :=
  if scope.rollup then
    match specRoles with
    | some roles => .parties scope.owners scope.owners roles
    | none => .addrs (addresses (scope.owners.filter fun p => !p.optional))
  else .addrs (addresses scope.owners)

def scopeUpdateReq (existing : Scope) (specRoles : List Role) : Req :=
  if existing.rollup then .parties existing.owners existing.owners specRoles
  else .addrs (addresses existing.owners)

/-- "Writing a Session" -/
def writeSessionReq (scope : Scope) (existing : Option (List Party)) (proposed : List Party)
    (specRoles : List Role) : Req :=
  if scope.rollup then
    match existing with
    | none => .parties scope.owners proposed specRoles
    | some ex => .parties (ex ++ scope.owners) ex specRoles
  else .addrs (addresses scope.owners)

/-- "Writing a Record" -/
def writeRecordReq (scope : Scope) (session : List Party) (oldSession : Option (List Party))
    (specRoles : List Role) : Req :=
  let old := oldSession.getD []
  if scope.rollup then .parties (scope.owners ++ session ++ old) session specRoles
  else .addrs (addresses session ++ addresses old)

/-- "Deleting a Record" -/
def deleteRecordReq (scope : Option Scope) (specRoles : Option (List Role)) : Req :=
  match scope with
  | none => .addrs []
  | some scope =>
    if scope.rollup then
      match specRoles with
      | some roles => .parties scope.owners scope.owners roles
      | none => .addrs (addresses (scope.owners.filter fun p => !p.optional))
    else .addrs (addresses scope.owners)

/-! ### adding / removing scope owners through the message server

The owner list the message ASKS for, and when the message is well-formed; the signature
requirement is `scopeUpdateReq` of the STORED scope: every stored owner — the ones being
removed included — counts. -/

/-- the owners after `AddScopeOwner` -/
def ownersAfterAdd (owners new : List Party) : List Party := owners ++ new

/-- the owners after `DeleteScopeOwner`: every entry whose address is named is dropped -/
def ownersAfterRemove (owners : List Party) (addrs : List Addr) : List Party :=
  owners.filter fun o => !addrs.contains o.address

/-- no two parties of the list have the same address and role -/
def noRepeats (ps : List Party) : Bool :=
  decide (ps.Pairwise fun p q => ¬(p.address = q.address ∧ p.role = q.role))

/-- `MsgAddScopeOwnerRequest` is well-formed for the stored scope: new owners with real
addresses and roles, not repeating each other or a stored owner; at least one signer. -/
def addOwnersWellFormed (env : Env) (stored : Option Scope) (new : List Party) (signers : List Addr) : Bool :=
  !new.isEmpty && new.all (fun p => env.valid p.address && p.role != roleUNSPECIFIED) && noRepeats new
    && !signers.isEmpty
    && match stored with
      | none => false
      | some ex => new.all fun n => !ex.owners.any fun o => o.address == n.address && o.role == n.role

/-- `MsgDeleteScopeOwnerRequest` is well-formed for the stored scope: real addresses, each of
them an owner's, at least one owner stays; at least one signer. -/
def removeOwnersWellFormed (env : Env) (stored : Option Scope) (addrs : List Addr) (signers : List Addr) : Bool :=
  !addrs.isEmpty && addrs.all env.valid && !signers.isEmpty
    && match stored with
      | none => false
      | some ex => addrs.all (fun a => (addresses ex.owners).contains a)
          && !(ownersAfterRemove ex.owners addrs).isEmpty

end PvModel.Signers.Spec
