/-
C08 — fee accounting of one transaction (executable model).

Mirrors, function for function (paths relative to the provenance repository; the forked SDK is
`github.com/provenance-io/cosmos-sdk@v0.50.10-pio-1`):

* `SplitCoinByBips`, `MsgFeesDistribution.Increase`      x/msgfees/types/fee.go:15,53   (split reused from `PvModel.Fees`)
* `Keeper.ConvertDenomToHash`                            x/msgfees/keeper/keeper.go:181
* `Keeper.CalculateAdditionalFeesToBePaid`               x/msgfees/keeper/keeper.go:198
* `Keeper.DeductFeesDistributions`                       x/msgfees/keeper/keeper.go:141
* `Keeper.SetMsgFee / RemoveMsgFee / AddMsgFee / UpdateMsgFee`, `DetermineBips`
                                                         x/msgfees/keeper/keeper.go:78,103,250,278,306
* `Keeper.UpdateConversionFeeDenomParam / UpdateNhashPerUsdMilParam`
                                                         x/msgfees/keeper/params.go:55,62
* msgfees `msgServer` governance methods                 x/msgfees/keeper/msg_server.go:49-113
* gov `EndBlocker`: a passed proposal's messages in one cache context   x/gov/abci.go (forked SDK)
* `EnsureSufficientFloorAndMsgFees`                      internal/antewrapper/msg_fees_decorator.go:90
* `MsgFeesDecorator.AnteHandle`                          internal/antewrapper/msg_fees_decorator.go:50
* `TxGasLimitDecorator.AnteHandle`                       internal/antewrapper/tx_gas_limit_decorator.go:39
* `CalculateBaseFee`, `GetFeePayerUsingFeeGrant`, `ProvenanceDeductFeeDecorator.checkDeductBaseFee`, `DeductFees`
                                                         internal/antewrapper/provenance_fee.go:78,158,187,222
* `FeeGasMeter.ConsumeFee / FeeConsumed / FeeConsumedDistributions / ConsumeBaseFee`, `ConsumeMsgFee`
                                                         internal/antewrapper/fee_gas_meter.go:120,137,146,170,187
* `PioMsgServiceRouter.consumeMsgFees`                   internal/handlers/msg_service_router.go:239
* `MsgFeeInvoker.Invoke`                                 internal/handlers/msg_fee_invoker.go:37
* `BaseApp.runTx` cache discipline + `FeeInvoke`         baseapp/baseapp.go:839,1042 (forked SDK), wired in app/app.go:1005 (`SetFeeHandler`)
* `BasicAllowance.Accept`, `Keeper.UseGrantedFees`       cosmossdk.io/x/feegrant basic_fee.go, keeper/keeper.go:247
* bank `SendCoins` reduced to "spendable covers the amount, then move"

What is NOT modelled but taken as an observed input (property labelled partial): gas metering
(`oog*` flags), signature verification (`sigOk`), and what a message handler does to balances
(`Step.effect`, an arbitrary function in the theorems; concrete sends / authz checks / payment
creation in the driver).
Core-only, executable.
-/
import PvModel.Coins
import PvModel.Fees

namespace PvModel.Txfee
open PvModel

abbrev Coin := Denom × Int

/-- Error classes (DESIGN §3 "Errors"): what the harness maps ABCI (codespace, code) to. -/
inductive Err where
  | fee        -- sdk 13 ErrInsufficientFee
  | funds      -- sdk 5 ErrInsufficientFunds
  | invalid    -- sdk 18 ErrInvalidRequest
  | type       -- sdk 29 ErrInvalidType (denom not supported for conversion)
  | bips       -- msgfees ErrInvalidBipsValue
  | grant      -- fee-grant not found / fee limit exceeded
  | gaslimit   -- sdk 21 ErrTxTooLarge
  | oog        -- sdk 11 ErrOutOfGas (observed)
  | sig        -- sdk 4 / 32 (observed signature outcome)
  | auth       -- authz: no authorization
  | panic      -- recovered panic (sdk.NewCoins on a negative amount)
  deriving DecidableEq, Repr

def Err.toString : Err → String
  | .fee => "fee" | .funds => "funds" | .invalid => "invalid" | .type => "type" | .bips => "bips"
  | .grant => "grant" | .gaslimit => "gaslimit" | .oog => "oog" | .sig => "sig" | .auth => "auth"
  | .panic => "panic"

/-! ### Configuration: msgfees params + schedule -/

/-- One `MsgFee` record of the schedule (x/msgfees/types/msgfees.pb.go). `recipient = ""` = none. -/
structure MsgFee where
  fee : Coin
  recipient : Addr
  bips : Nat
  deriving Repr

structure Cfg where
  floor : Coin                     -- Params.FloorGasPrice
  convDenom : Denom                -- Params.ConversionFeeDenom
  nhashPerUsdMil : Nat             -- Params.NhashPerUsdMil
  sched : List (String × MsgFee)   -- msg type ↦ MsgFee (store lookup `GetMsgFee`)
  collector : Addr := "C"          -- fee collector module account

/-- `MsgAssessCustomMsgFeeRequest` fields the fee code reads. `bips = none` is the empty string
(`GetBips` then returns `AssessCustomMsgFeeBips = 10000`). -/
structure Assess where
  amount : Coin
  recipient : Addr
  bips : Option Nat
  deriving Repr

/-- A message as the fee code sees it: its type URL and, for the custom-fee message, its body. -/
structure RMsg where
  typ : String
  assess : Option Assess := none
  deriving Repr

/-! ### MsgFeesDistribution (x/msgfees/types/fee.go) -/

/-- Insert into a key-sorted association list, merging equal keys (Go: a map read back through
`sortedKeys`). -/
def insertDist (k : Addr) (cs : Coins) : List (Addr × Coins) → List (Addr × Coins)
  | [] => [(k, cs)]
  | (k', cs') :: rest =>
    if k = k' then (k', cs' ++ cs) :: rest
    else if k < k' then (k, cs) :: (k', cs') :: rest
    else (k', cs') :: insertDist k cs rest

structure Dist where
  total : Coins := []                      -- TotalAdditionalFees
  moduleFees : Coins := []                 -- AdditionalModuleFees ([] = nil)
  recips : List (Addr × Coins) := []       -- RecipientDistributions, key-sorted

/-- `MsgFeesDistribution.Increase` (fee.go:53). -/
def Dist.increase (d : Dist) (coin : Coin) (bips : Nat) (recipient : Addr) : Except Err Dist :=
  if ¬ (0 < coin.2) then .ok d
  else
    let d1 := { d with total := d.total ++ [coin] }
    if recipient = "" then .ok { d1 with moduleFees := d1.moduleFees ++ [coin] }
    else
      match Fees.splitCoinByBips coin.2 bips with
      | .error _ => .error .bips
      | .ok (r, m) =>
        let d2 := { d1 with recips := insertDist recipient [(coin.1, r)] d1.recips }
        .ok (if m ≠ 0 then { d2 with moduleFees := d2.moduleFees ++ [(coin.1, m)] } else d2)

/-- `Keeper.ConvertDenomToHash` (keeper.go:181). -/
def convertDenomToHash (cfg : Cfg) (c : Coin) : Except Err Coin :=
  if c.1 = "usd" then .ok (cfg.convDenom, c.2 * cfg.nhashPerUsdMil)
  else if c.1 = cfg.convDenom then .ok c
  else .error .type

def lookupFee (cfg : Cfg) (typ : String) : Option MsgFee :=
  (cfg.sched.find? (·.1 = typ)).map (·.2)

/-! ### Governance: how the configuration changes while the chain runs

The floor gas price is written at genesis (or by an upgrade handler); NO message changes it.
Everything else is changed by the five governance messages of x/msgfees, executed by the gov
module's EndBlocker when a proposal passes (forked SDK x/gov/abci.go: all messages of a proposal
run in ONE cache context that is written only when every message succeeded). -/

/-- One governance message of x/msgfees (x/msgfees/keeper/msg_server.go).  The `Authority` field is
always the gov module account here (gov refuses to submit a proposal whose messages it cannot
sign).  `bips = none` is the empty `RecipientBasisPoints` string. -/
inductive GovMsg where
  | rate (n : Nat)                                                       -- MsgUpdateNhashPerUsdMilProposalRequest
  | denom (d : Denom)                                                    -- MsgUpdateConversionFeeDenomProposalRequest
  | add (typ : String) (fee : Coin) (recipient : Addr) (bips : Option Nat)   -- MsgAddMsgFeeProposalRequest
  | upd (typ : String) (fee : Coin) (recipient : Addr) (bips : Option Nat)   -- MsgUpdateMsgFeeProposalRequest
  | rm (typ : String)                                                    -- MsgRemoveMsgFeeProposalRequest
  deriving Repr

inductive GovErr where
  | emptyType   -- ErrEmptyMsgType
  | exists_     -- ErrMsgFeeAlreadyExists
  | notfound    -- ErrMsgFeeDoesNotExist
  | bips        -- ErrInvalidBipsValue
  deriving DecidableEq, Repr

/-- `DetermineBips` (keeper.go:306): basis points only mean something with a recipient; a recipient
without basis points gets `DefaultMsgFeeBips = 5000`. -/
def determineBips (recipient : Addr) (bips : Option Nat) : Except GovErr Nat :=
  if recipient = "" then .ok 0
  else match bips with
    | some b => if b > 10000 then .error .bips else .ok b
    | none => .ok 5000

/-- `Keeper.SetMsgFee` (keeper.go:78): one record per message type, overwritten in place. -/
def setMsgFee (sched : List (String × MsgFee)) (typ : String) (f : MsgFee) : List (String × MsgFee) :=
  if sched.any (·.1 = typ) then sched.map fun e => if e.1 = typ then (typ, f) else e
  else sched ++ [(typ, f)]

/-- `Keeper.AddMsgFee` (keeper.go:250). -/
def addMsgFee (cfg : Cfg) (typ : String) (fee : Coin) (recipient : Addr) (bips : Option Nat) : Except GovErr Cfg :=
  if typ = "" then .error .emptyType
  else match lookupFee cfg typ with
    | some _ => .error .exists_
    | none =>
      match determineBips recipient bips with
      | .error e => .error e
      | .ok b => .ok { cfg with sched := setMsgFee cfg.sched typ ⟨fee, recipient, b⟩ }

/-- `Keeper.UpdateMsgFee` (keeper.go:278). -/
def updateMsgFee (cfg : Cfg) (typ : String) (fee : Coin) (recipient : Addr) (bips : Option Nat) : Except GovErr Cfg :=
  if typ = "" then .error .emptyType
  else match lookupFee cfg typ with
    | none => .error .notfound
    | some _ =>
      match determineBips recipient bips with
      | .error e => .error e
      | .ok b => .ok { cfg with sched := setMsgFee cfg.sched typ ⟨fee, recipient, b⟩ }

/-- `Keeper.RemoveMsgFee` (keeper.go:103). -/
def removeMsgFee (cfg : Cfg) (typ : String) : Except GovErr Cfg :=
  match lookupFee cfg typ with
  | none => .error .notfound
  | some _ => .ok { cfg with sched := cfg.sched.filter (·.1 ≠ typ) }

/-- `Keeper.UpdateNhashPerUsdMilParam` (params.go:62): read the stored params, set ONE field, write. -/
def updateNhashPerUsdMilParam (cfg : Cfg) (n : Nat) : Cfg := { cfg with nhashPerUsdMil := n }

/-- `Keeper.UpdateConversionFeeDenomParam` (params.go:55): read the stored params, set ONE field, write. -/
def updateConversionFeeDenomParam (cfg : Cfg) (d : Denom) : Cfg := { cfg with convDenom := d }

/-- The msgfees `msgServer` methods (msg_server.go:49-113), authority check passed. -/
def govHandle (cfg : Cfg) : GovMsg → Except GovErr Cfg
  | .rate n => .ok (updateNhashPerUsdMilParam cfg n)
  | .denom d => .ok (updateConversionFeeDenomParam cfg d)
  | .add t f r b => addMsgFee cfg t f r b
  | .upd t f r b => updateMsgFee cfg t f r b
  | .rm t => removeMsgFee cfg t

/-- The messages of one proposal, in order, in the proposal's cache context. -/
def execProposal (cfg : Cfg) : List GovMsg → Except GovErr Cfg
  | [] => .ok cfg
  | m :: ms =>
    match govHandle cfg m with
    | .error e => .error e
    | .ok c => execProposal c ms

/-- gov `EndBlocker` for a proposal that won the vote: the cache context is written only when every
message succeeded (`true` = PASSED, `false` = FAILED, nothing changed). -/
def passProposal (cfg : Cfg) (p : List GovMsg) : Cfg × Bool :=
  match execProposal cfg p with
  | .ok c => (c, true)
  | .error _ => (cfg, false)

/-- A sequence of proposals, oldest first: the resulting configuration and each proposal's fate. -/
def applyGov (cfg : Cfg) : List (List GovMsg) → Cfg × List Bool
  | [] => (cfg, [])
  | p :: ps =>
    let (c, ok) := passProposal cfg p
    let (c', oks) := applyGov c ps
    (c', ok :: oks)

/-- The schedule half of one loop iteration of `CalculateAdditionalFeesToBePaid` (keeper.go:204-215). -/
def schedPart (cfg : Cfg) (d : Dist) (m : RMsg) : Except Err Dist :=
  match lookupFee cfg m.typ with
  | some f => d.increase f.fee f.bips f.recipient
  | none => .ok d

/-- The `MsgAssessCustomMsgFeeRequest` half (keeper.go:217-235): convert, `GetBips`, `Increase`. -/
def assessPart (cfg : Cfg) (d : Dist) (a : Assess) : Except Err Dist :=
  match convertDenomToHash cfg a.amount with
  | .error e => .error e
  | .ok c =>
    match a.bips with
    | none => d.increase c 10000 a.recipient
    | some b => if b > 10000 then .error .bips else d.increase c b a.recipient

/-- One iteration of the loop of `CalculateAdditionalFeesToBePaid` (keeper.go:204-236). -/
def calcOne (cfg : Cfg) (d : Dist) (m : RMsg) : Except Err Dist :=
  match schedPart cfg d m with
  | .error e => .error e
  | .ok d1 =>
    match m.assess with
    | none => .ok d1
    | some a => assessPart cfg d1 a

/-- `Keeper.CalculateAdditionalFeesToBePaid` (keeper.go:198). -/
def calculateAdditionalFeesToBePaid (cfg : Cfg) : Dist → List RMsg → Except Err Dist
  | d, [] => .ok d
  | d, m :: ms =>
    match calcOne cfg d m with
    | .error e => .error e
    | .ok d1 => calculateAdditionalFeesToBePaid cfg d1 ms

/-! ### Floor / base fee -/

/-- `CalculateBaseFee` (provenance_fee.go:187): `NewCoins(floor·gas)`, empty when zero. -/
def baseFee (floor : Coin) (gas : Nat) : Coins :=
  if floor.2 * gas = 0 then [] else [(floor.1, floor.2 * gas)]

/-- `EnsureSufficientFloorAndMsgFees` (msg_fees_decorator.go:90); `true` = no error. -/
def ensureSufficientFloorAndMsgFees (feeCoins : Coins) (floor : Coin) (gas : Nat) (additional : Coins) : Bool :=
  let reqTotal := baseFee floor gas ++ additional
  reqTotal.isZero || feeCoins.covers reqTotal

/-! ### Fee gas meter (fee_gas_meter.go) -/

structure Meter where
  used : List (String × Addr × Coins) := []   -- ConsumeFee calls in order: (msg type, recipient, coins)
  base : Coins := []                          -- baseFeeCharged

def sumUsed : List (String × Addr × Coins) → Coins
  | [] => []
  | (_, _, cs) :: rest => cs ++ sumUsed rest

/-- `FeeConsumed` (fee_gas_meter.go:137). -/
def Meter.feeConsumed (m : Meter) : Coins := sumUsed m.used

/-- `ConsumeFee` (fee_gas_meter.go:120). -/
def Meter.consumeFee (m : Meter) (typ : String) (recipient : Addr) (cs : Coins) : Meter :=
  { m with used := m.used ++ [(typ, recipient, cs)] }

def distOf : List (String × Addr × Coins) → List (Addr × Coins)
  | [] => []
  | (_, r, cs) :: rest => insertDist r cs (distOf rest)

/-- `FeeConsumedDistributions` (fee_gas_meter.go:146), keys sorted as `DeductFeesDistributions` reads them. -/
def Meter.distributions (m : Meter) : List (Addr × Coins) := distOf m.used

/-! ### Bank and fee grant -/

/-- bank `SendCoins` for plain accounts: the sender's balance must cover every denom. -/
def sendCoins (l : Ledger) (src dst : Addr) (cs : Coins) : Option Ledger :=
  if (Coins.denoms cs).all (fun d => decide (Coins.amountOf cs d ≤ l.bal src d)) then some (l.move src dst cs)
  else none

/-- The fee allowance granter → payer: none, unlimited `BasicAllowance`, or one with a spend limit. -/
inductive Allow where
  | none
  | unl
  | lim (c : Coins)

/-- `Keeper.UseGrantedFees` + `BasicAllowance.Accept`: a used-up allowance is removed. -/
def useGrantedFees (a : Allow) (fee : Coins) : Except Err Allow :=
  match a with
  | .none => .error .grant
  | .unl => .ok .unl
  | .lim l =>
    -- `SpendLimit.SafeSub(fee...)` builds `sdk.NewCoins(fee...)`, which panics on a negative amount
    if ¬ fee.nonneg then .error .panic else
    let left := Coins.sub l fee
    if ¬ left.nonneg then .error .grant
    else if left.isZero then .ok .none else .ok (.lim left)

/-! ### Transaction and state -/

/-- What happens, in order, once the messages run (nested authz dispatch flattened the way the
router sees it: every routed message first has its fees consumed, then its handler works). -/
inductive Step where
  | route (m : RMsg)                           -- PioMsgServiceRouter handler wrapper: consumeMsgFees
  | effect (f : Ledger → Except Err Ledger)    -- a handler's own work (fails ⇒ the tx fails)
  | consume (typ : String) (fee : Coins)       -- handler calling antewrapper.ConsumeMsgFee (no check)

structure Tx where
  fee : Coins                 -- declared fee
  gas : Nat                   -- gas limit
  payer : Addr                -- FeePayer (first signer)
  granter : Option Addr       -- FeeGranter when set and ≠ payer
  top : List RMsg             -- tx.GetMsgs(): what the ante handler sees
  steps : List Step           -- what the router and handlers do
  sigOk : Bool := true        -- observed: signature / sequence verification passes
  oogCheck : Bool := false    -- observed: CheckTx ran out of gas
  oogAnte : Bool := false     -- observed: the ante handler ran out of gas in the block
  oogMsgs : Bool := false     -- observed: message execution ran out of gas
  oogRecheck : Bool := false  -- observed: the mempool RECHECK (after a commit) ran out of gas

structure St where
  ledger : Ledger
  allow : Allow
  seq : Nat := 0

/-- The account the fees are taken from. -/
def Tx.from (tx : Tx) : Addr := tx.granter.getD tx.payer

def gasTxLimit : Nat := 4000000

/-! ### Ante handler (internal/antewrapper/handler.go: decorator order) -/

/-- `GetFeePayerUsingFeeGrant` (provenance_fee.go:158). -/
def getFeePayerUsingFeeGrant (tx : Tx) (a : Allow) (fee : Coins) : Except Err (Addr × Allow) :=
  match tx.granter with
  | none => .ok (tx.payer, a)
  | some g =>
    match useGrantedFees a fee with
    | .error e => .error e
    | .ok a' => .ok (g, a')

/-- `checkDeductBaseFee` (provenance_fee.go:78). -/
def checkDeductBaseFee (cfg : Cfg) (tx : Tx) (s : St) : Except Err (St × Meter) :=
  let base := baseFee cfg.floor tx.gas
  match calculateAdditionalFeesToBePaid cfg {} tx.top with
  | .error _ => .error .invalid
  | .ok feeDist =>
    match getFeePayerUsingFeeGrant tx s.allow base with
    | .error e => .error e
    | .ok (src, allow') =>
      let required := feeDist.total
      if ¬ required.isZero ∧ ¬ (Coins.denoms required).all (fun d => decide (Coins.amountOf required d ≤ s.ledger.bal src d)) then
        .error .funds
      else if ¬ base.isZero then
        match sendCoins s.ledger src cfg.collector base with
        | none => .error .funds
        | some l => .ok ({ s with ledger := l, allow := allow' }, { base := base })
      else .ok ({ s with allow := allow' }, {})

/-- `MsgFeesDecorator.AnteHandle` (CheckTx only): `true` = passes. -/
def msgFeesDecorator (cfg : Cfg) (tx : Tx) : Bool :=
  match calculateAdditionalFeesToBePaid cfg {} tx.top with
  | .error _ => false
  | .ok d => ensureSufficientFloorAndMsgFees tx.fee cfg.floor tx.gas d.total

/-- The ante chain, `check = true` in CheckTx. -/
def anteHandle (cfg : Cfg) (tx : Tx) (check : Bool) (s : St) : Except Err (St × Meter) :=
  if (if check then tx.oogCheck else tx.oogAnte) then .error .oog
  -- TxGasLimitDecorator
  else if tx.gas > gasTxLimit then .error .gaslimit
  -- MsgFeesDecorator (CheckTx only)
  else if check ∧ ¬ msgFeesDecorator cfg tx then .error .fee
  else
    -- ProvenanceDeductFeeDecorator
    match checkDeductBaseFee cfg tx s with
    | .error e => .error e
    | .ok (s1, m) =>
      -- SigVerificationDecorator, IncrementSequenceDecorator
      if ¬ tx.sigOk then .error .sig
      else .ok ({ s1 with seq := s1.seq + 1 }, m)

/-! ### Message execution -/

/-- `PioMsgServiceRouter.consumeMsgFees` (msg_service_router.go:239). -/
def consumeMsgFees (cfg : Cfg) (tx : Tx) (m : Meter) (msg : RMsg) : Except Err Meter :=
  match calculateAdditionalFeesToBePaid cfg {} [msg] with
  | .error e => .error e
  | .ok d =>
    if d.total.isZero then .ok m
    else if ¬ ensureSufficientFloorAndMsgFees tx.fee cfg.floor tx.gas (m.feeConsumed ++ d.total) then .error .fee
    else
      let m1 := if d.moduleFees ≠ [] then m.consumeFee msg.typ "" d.moduleFees else m
      .ok (d.recips.foldl (fun acc rc => acc.consumeFee msg.typ rc.1 rc.2) m1)

/-- `antewrapper.ConsumeMsgFee` (fee_gas_meter.go:187): zero fees are skipped, nothing is checked. -/
def consumeMsgFee (m : Meter) (typ : String) (fee : Coins) : Meter :=
  if fee.isZero then m else m.consumeFee typ "" fee

def runSteps (cfg : Cfg) (tx : Tx) : List Step → Ledger × Meter → Except Err (Ledger × Meter)
  | [], lm => .ok lm
  | .route msg :: rest, (l, m) =>
    match consumeMsgFees cfg tx m msg with
    | .error e => .error e
    | .ok m' => runSteps cfg tx rest (l, m')
  | .effect f :: rest, (l, m) =>
    match f l with
    | .error e => .error e
    | .ok l' => runSteps cfg tx rest (l', m)
  | .consume typ fee :: rest, (l, m) => runSteps cfg tx rest (l, consumeMsgFee m typ fee)

/-! ### End-of-transaction sweep -/

/-- The loop of `DeductFeesDistributions` (keeper.go:143-163): returns the ledger and `sentCoins`. -/
def payOut (collector src : Addr) : List (Addr × Coins) → Ledger → Coins → Option (Ledger × Coins)
  | [], l, sent => some (l, sent)
  | (k, cs) :: rest, l, sent =>
    match sendCoins l src (if k = "" then collector else k) cs with
    | none => none
    | some l' => payOut collector src rest l' (sent ++ cs)

/-- `Keeper.DeductFeesDistributions` (keeper.go:141). -/
def deductFeesDistributions (collector : Addr) (l : Ledger) (src : Addr) (remaining : Coins)
    (fees : List (Addr × Coins)) : Except Err Ledger :=
  match payOut collector src fees l [] with
  | none => .error .funds
  | some (l', sent) =>
    let unsent := Coins.sub remaining sent
    if ¬ unsent.nonneg then .error .funds
    else if unsent.isZero then .ok l'
    else match sendCoins l' src collector unsent with
      | none => .error .funds
      | some l'' => .ok l''

/-- `MsgFeeInvoker.Invoke` (msg_fee_invoker.go:37). -/
def invoke (cfg : Cfg) (tx : Tx) (m : Meter) (s : St) : Except Err St :=
  let consumed := m.feeConsumed
  let uncharged := Coins.sub tx.fee m.base
  match getFeePayerUsingFeeGrant tx s.allow uncharged with
  | .error e => .error e
  | .ok (src, allow') =>
    if ¬ uncharged.isZero ∨ ¬ consumed.isZero then
      match deductFeesDistributions cfg.collector s.ledger src uncharged m.distributions with
      | .error e => .error e
      | .ok l => .ok { s with ledger := l, allow := allow' }
    else .ok { s with allow := allow' }

/-! ### runTx (forked baseapp.go:839) -/

inductive Outcome where
  | rejected (e : Err)   -- ante failed: nothing written
  | failed (e : Err)     -- messages or the fee sweep failed: only the ante branch is written
  | ok
  deriving DecidableEq

def Outcome.isOk : Outcome → Bool
  | .ok => true
  | _ => false

def Outcome.isFailed : Outcome → Bool
  | .failed _ => true
  | _ => false

/-- The stages of a delivered transaction, kept for the theorems. -/
structure Run where
  outcome : Outcome
  afterAnte : St        -- = initial state when rejected
  afterMsgs : Ledger    -- ledger the sweep started from (= afterAnte.ledger unless the msgs succeeded)
  meter : Meter
  final : St

/-- `runTx` in `execModeFinalize`. -/
def deliverTx (cfg : Cfg) (tx : Tx) (s : St) : Run :=
  match anteHandle cfg tx false s with
  | .error e => ⟨.rejected e, s, s.ledger, {}, s⟩
  | .ok (s1, m) =>
    if tx.oogMsgs then ⟨.failed .oog, s1, s1.ledger, m, s1⟩ else
    match runSteps cfg tx tx.steps (s1.ledger, m) with
    | .error e => ⟨.failed e, s1, s1.ledger, m, s1⟩
    | .ok (l2, m2) =>
      match invoke cfg tx m2 { s1 with ledger := l2 } with
      | .error e => ⟨.failed e, s1, s1.ledger, m2, s1⟩
      | .ok s3 => ⟨.ok, s1, l2, m2, s3⟩

/-- `runTx` in `execModeCheck`: the ante branch is written to the mempool state only on success;
messages are not run. -/
def checkTx (cfg : Cfg) (tx : Tx) (s : St) : St × Option Err :=
  match anteHandle cfg tx true s with
  | .error e => (s, some e)
  | .ok (s1, _) => (s1, none)

/-- `runTx` in `execModeReCheck` (forked baseapp.go:682: `ctx.WithIsReCheckTx(true)` ON TOP of
`IsCheckTx`): what CometBFT does with every transaction still in its mempool after each commit,
on the freshly committed state.  No decorator of `NewAnteHandler` reads `IsReCheckTx` except the
SDK's `ValidateBasicDecorator` and the signature crypto check (the sequence comparison stays);
in particular `MsgFeesDecorator` tests `ctx.IsCheckTx()` only, so the fee sufficiency check is
REPEATED against the parameters and schedule now in force.  Hence: the CheckTx chain, with its
own gas observation. -/
def recheckTx (cfg : Cfg) (tx : Tx) (s : St) : St × Option Err :=
  checkTx cfg { tx with oogCheck := tx.oogRecheck } s

/-! ### One transaction's life in the mempool across a change of the fee schedule

`CheckTx(New)` under the configuration `cfg` in force when it arrives, on the mempool state `s0`
of that moment; then (optionally) a block that does not contain it is committed and changes
msgfees params / schedule to `cfg'` (a passed governance proposal); CometBFT rechecks it on the
state `s1` committed by then (what `CheckTx` wrote went to the mempool state only, which a commit
resets); if it is still in the mempool it is executed in a later block, under `cfg'`, on the
state `s` the transactions before it in that block left.  The three states are INDEPENDENT: other
transactions (of the same payer or not) run between admission, recheck and execution.  `force` =
a proposer includes it although the mempool check refused it (outside the property's
quantifier, kept for the correspondence).  The correspondence harness runs the three stages on
one committed state (`s0 = s1 = s`); the theorems are for all three. -/
structure Life where
  check : Option Err                 -- `none` = admitted
  checkSt : St                       -- mempool state after CheckTx(New)
  recheck : Option (Option Err)      -- `none` = not rechecked (no commit in between / not in the mempool)
  recheckSt : St                     -- mempool state after the recheck (= `s1` when not rechecked)
  inMempool : Bool                   -- still admitted when the block is proposed
  run : Option Run                   -- executed (in the mempool, or forced)

def life (cfg cfg' : Cfg) (re force : Bool) (tx : Tx) (s0 s1 s : St) : Life :=
  let (cs, cerr) := checkTx cfg tx s0
  match cerr with
  | some e =>
    -- never entered the mempool: nothing is rechecked, the schedule change is irrelevant to it
    ⟨some e, cs, none, s1, false, if force then some (deliverTx cfg tx s) else none⟩
  | none =>
    if re then
      let (rs, rerr) := recheckTx cfg' tx s1
      ⟨none, cs, some rerr, rs, rerr.isNone,
        if rerr.isNone ∨ force then some (deliverTx cfg' tx s) else none⟩
    else ⟨none, cs, none, s1, true, some (deliverTx cfg tx s)⟩

/-! ### A sequence of transactions

`FinalizeBlock` runs `runTx` for each transaction of the block, in order, each on the state the
previous one left (forked baseapp.go `internalFinalizeBlock`: one `finalizeBlockState`, a branch
per transaction written back as `runTx` prescribes); successive blocks continue from the
committed state.  `St` is the part of the chain state ONE transaction reads and writes: all
balances, the allowance granter → payer it uses, the payer's sequence.  `Chain` is the whole of
it: the allowance of every (granter, grantee) pair, the sequence of every account.  An element of
the sequence carries the configuration in force in its block (it may differ between blocks). -/
structure Chain where
  ledger : Ledger
  allows : Addr → Addr → Allow     -- granter → grantee ↦ fee allowance
  seqs : Addr → Nat                -- account ↦ sequence

/-- What transaction `tx` sees of the chain state. -/
def Chain.view (c : Chain) (tx : Tx) : St :=
  { ledger := c.ledger,
    allow := match tx.granter with
      | some g => c.allows g tx.payer
      | none => .none,
    seq := c.seqs tx.payer }

/-- Writing back what `tx` left: the ledger, ITS allowance and ITS payer's sequence. -/
def Chain.put (c : Chain) (tx : Tx) (s : St) : Chain :=
  { ledger := s.ledger,
    allows := fun g p => if tx.granter = some g ∧ p = tx.payer then s.allow else c.allows g p,
    seqs := fun a => if a = tx.payer then s.seq else c.seqs a }

/-- One transaction of a block on the chain state. -/
def deliverIn (cfg : Cfg) (c : Chain) (tx : Tx) : Chain × Run :=
  let r := deliverTx cfg tx (c.view tx)
  (c.put tx r.final, r)

/-- The chain state after a sequence of executed transactions (each with the configuration in
force in its block). -/
def runTxs : Chain → List (Cfg × Tx) → Chain
  | c, [] => c
  | c, (cfg, tx) :: rest => runTxs (deliverIn cfg c tx).1 rest

/-- … and what happened to each. -/
def runsOf : Chain → List (Cfg × Tx) → List Run
  | _, [] => []
  | c, (cfg, tx) :: rest => (deliverIn cfg c tx).2 :: runsOf (deliverIn cfg c tx).1 rest

/-- `CheckTx` of one transaction on the MEMPOOL copy of the chain state (`checkState`: reset to
the committed state at every commit, then written by each admitted transaction's ante branch). -/
def checkIn (cfg : Cfg) (c : Chain) (tx : Tx) : Chain × Option Err :=
  let r := checkTx cfg tx (c.view tx)
  (c.put tx r.1, r.2)

/-- The mempool state after a sequence of arriving transactions. -/
def checkTxs : Chain → List (Cfg × Tx) → Chain
  | c, [] => c
  | c, (cfg, tx) :: rest => checkTxs (checkIn cfg c tx).1 rest

/-! ### Nested messages as a tree

A transaction body is a forest: each message is routed (`PioMsgServiceRouter`'s handler wrapper
consumes its fees FIRST — `Generated.FeeWiring.routerCalls`), then its handler works; the handler
of authz `MsgExec` (x/authz/keeper `DispatchActions`) checks the grant of each inner message
(`pre`, before that message is routed) and routes it through the SAME router, so inner messages
— at any depth — are charged like top-level ones.  `Forest` is first-child / next-sibling: a
forest is empty, or a first message with the forest it dispatches (`children`) followed by its
sibling forest. -/
inductive Forest where
  | nil
  | node (pre : List Step) (m : RMsg) (handler : List Step) (children siblings : Forest)

/-- The order in which the router and the handlers act: pre-order. -/
def Forest.flatten : Forest → List Step
  | .nil => []
  | .node pre m h ch sib => pre ++ Step.route m :: (h ++ (ch.flatten ++ sib.flatten))

/-- `tx.GetMsgs()`: the roots — all the ante handler and the mempool check can see. -/
def Forest.roots : Forest → List RMsg
  | .nil => []
  | .node _ m _ _ sib => m :: sib.roots

/-- Every message of the forest, nested ones included, in routing order. -/
def Forest.allMsgs : Forest → List RMsg
  | .nil => []
  | .node _ m _ ch sib => m :: (ch.allMsgs ++ sib.allMsgs)

/-- The messages dispatched from inside another message (depth ≥ 1). -/
def Forest.nested : Forest → List RMsg
  | .nil => []
  | .node _ _ _ ch sib => ch.allMsgs ++ sib.nested

/-- Sibling concatenation. -/
def Forest.append : Forest → Forest → Forest
  | .nil, g => g
  | .node pre m h ch sib, g => .node pre m h ch (sib.append g)

end PvModel.Txfee
