/-
Line-protocol driver + implementation-output checker for the C03 model (`lock`).

Each route of the harness is lowered to the bank / hold primitive the Go code reaches:

  send F T c        bank msg_server.go:29 `Send` (positive amount, blocked recipient) → `SendCoins`
  msend F outs      bank msg_server.go:85 `MultiSend` → `InputOutputCoins`
  ioprov ins T      `InputOutputCoinsProv` (n inputs → 1 output; what the exchange uses)
  delegate D c      staking `Delegate` → `DelegateCoinsFromAccountToModule(bonded pool)` → `DelegateCoins`
  undelegate D c    `UndelegateCoinsFromModuleToAccount(bonded pool)` → `UndelegateCoins`
  burn POOL c       `BurnCoins(bonded pool)` → `moduleBurnOps`
  deposit D c       gov `Deposit` → `SendCoinsFromAccountToModule(gov)` → `SendCoins` → `govDepositOps`
  mwithdraw T c     marker.go:169 `WithdrawCoins` → `SendCoins(WithBypass(ctx), markerAddr, T, c)` → `markerWithdrawOps`
  mtransfer F T c   marker.go:624 `TransferCoin` (forced) → `SendCoins(WithBypass(ctx), F, T, c)` → `markerTransferOps`
  mktwithdraw T c   exchange market.go:1543 `WithdrawMarketFunds` → `SendCoins(xferCtx, marketAddr, T, c)` → `marketWithdrawOps`
  qaccept T F       quarantine keeper.go:284 → `SendCoins(quarantine.WithBypass(ctx), fundsHolder, T, record)` → `quarantineAcceptOps`
                    (the route lowerings are lists of primitives in `PvModel/Lock.lean`, run with `applyAll`)
  hold / release    hold keeper `AddHold` / `ReleaseHold`
  ginit X:c|X^:c|Y:c   hold keeper genesis.go:13 `InitGenesis` of a genesis state with these entries
                    (`X^` = the address of X spelled in upper-case bech32) → `initGenesisOps`
  commit / pay      exchange `CommitFunds` / `CreatePayment` → `AddHold` (a further hold)
  pay S c id tgt= tamt=   exchange `CreatePayment` (payment record + `AddHold(source amount)`)
  payaccept T S id  exchange payments.go:230 `AcceptPayment` → `acceptPaymentOps`
  payreject T S id / paycancel S id   payments.go:298 / :364 → `ReleaseHold(source amount)`
  ask / bid O assets price   orders.go:654 / :701 `CreateAskOrder` / `CreateBidOrder` → `AddHold`
  ordcancel S id    orders.go:718 `CancelOrder` → `ReleaseHold`
  fillbids S total ids / fillasks B total ids / settle ask bid
                    fulfillment.go:43 / :141 / :229 → `closeSettlement` → `closeSettlementOps`
  crelease A c      commitments.go:152 `ReleaseCommitment` → `ReleaseHold`
  csettle ins outs  commitments.go:375 `SettleCommitments` → `settleCommitmentsOps`
  spendable X       bank gRPC `SpendableBalances` (+ `SpendableBalanceByDenom` per denom)
  kspend X vb hb    `SpendableCoins` / `LockedCoins` under the two context bypass flags
  inv               `HoldAccountBalancesInvariant`
  floor c           msgfees parameter `FloorGasPrice` (base fee of a transaction = floor × gas)
  grant X P         feegrant `GrantAllowance(X, P, unlimited BasicAllowance)`
  tx P gas= fee= [granter=X] to=T amt= [mode=full]
                    one transaction as `baseapp.runTx` runs it: ante handler (the app's complete
                    one for `mode=full`, else its fee decorators) → `feeTx`: base fee from the payer
                    (P, or X through the fee grant), then the bank `MsgSend` P → T through the
                    message router, then the fee handler's sweep of the rest of the fee

The send-restriction outcome of each transfer is: the quarantine redirect (recipient opted in →
funds holder, recorded) followed by the history's directive `r=` (ok / deny / other recipient),
which the harness injects into the real keeper through an appended restriction.

The verdict is the property's conclusion evaluated on the implementation's output only:
`hold ≤ balance` and `spendable = max 0 (bal − hold − unvested)` on every dumped state, a
successful debit must have been within `bal − hold` of the previous dumped state, a successful
new hold within the previously reported spendable, a rejected op must leave the dump unchanged.
An accepted exchange message (several releases / transfers / holds in one transaction) is judged
step by step on the previously dumped state: every transfer it makes must fit into
`bal − hold` of that moment (`LockSpec.movesKeepHolds`).  The market of the harness charges no
fees; `settle` is driven with one ask and one bid of equal assets, `csettle` with one input or one
output account (the shapes whose transfers do not depend on the settlement arithmetic, which is
C05's subject) — other shapes are answered `err:rejected` and are not generated.
-/
import PvModel.Lock
import PvModel.LockSpec
-- registry: lock PvModel.Lock.driver

namespace PvModel.Lock
open PvModel PvModel.LockSpec

/-- a stored payment (x/exchange payments.go); `tgt = ""` = no target -/
structure PayRec where
  src : Addr
  id : String
  srcAmt : Coins
  tgt : Addr
  tgtAmt : Coins

/-- a stored order of market 1 (no fees: an ask holds its assets, a bid its price) -/
structure OrderRec where
  id : Nat
  isAsk : Bool
  owner : Addr
  assets : Denom × Int
  price : Denom × Int

def OrderRec.holdAmt (o : OrderRec) : Coins := if o.isAsk then [o.assets] else [o.price]

structure DState where
  s : State := {}
  payments : List PayRec := []
  orders : List OrderRec := []
  nextOrder : Nat := 1
  /-- funds committed to market 1, per account (canonical coins) -/
  commits : List (Addr × Coins) := []
  accts : List Addr := []
  /-- msgfees `FloorGasPrice` -/
  floor : Denom × Int := ("", 0)
  /-- fee grants `(granter, grantee)`, all of them unlimited basic allowances -/
  grants : List (Addr × Addr) := []
  quarantined : List Addr := []
  /-- quarantine records `(to, from, coins)` -/
  qrecs : List (Addr × Addr × Coins) := []
  /-- last state dumped by the implementation -/
  lastDump : Option String := none
  /-- since that dump: did the implementation reject a state-changing op / accept one -/
  rejectedSince : Bool := false
  acceptedSince : Bool := false

private def posCoins (cs : Coins) : Coins := (Coins.canon cs).filter fun c => decide (0 < c.2)

private def showC (cs : Coins) : String := showCoins (Coins.canon cs)

def acctDenoms (s : State) (a : Addr) : List Denom :=
  let ov : Coins := match (s.kindOf a).vesting? with
    | some (.delayed ov _) => ov
    | some (.continuous ov _ _) => ov
    | none => []
  (Coins.denoms (Ledger.balances s.ledger a) ++ Coins.denoms (Ledger.balances s.holds a) ++ Coins.denoms ov).eraseDups

/-- `spendableCoinsOver` for every denom of `ds` at once: the "is any entry negative" scan of
`SafeSub` is made once instead of once per denom (an account may carry hundreds of denoms) -/
def spendableAllOver (s : State) (c : Ctx) (a : Addr) (ds : List Denom) : Coins :=
  let unl := ds.map fun d => (d, s.bal a d - lockedCoins s c a d)
  let hasNeg := unl.any fun p => decide (p.2 < 0)
  unl.map fun p => (p.1, if !hasNeg then p.2 else if 0 < p.2 then p.2 else 0)

/-- it is `spendableCoinsOver`, denom by denom -/
theorem spendableAllOver_eq (s : State) (c : Ctx) (a : Addr) (ds : List Denom) :
    spendableAllOver s c a ds = ds.map fun d => (d, spendableCoinsOver s c a ds d) := by
  simp [spendableAllOver, spendableCoinsOver, List.any_map, Function.comp_def]

/-- the denoms the harness asks `SpendableBalanceByDenom` for: all of the balance's, or — of an
account with more than 24 — the first and last eight in denom order and the eight around the
hundredth -/
def byDenomSel (ds : List Denom) : List Denom :=
  let n := ds.length
  (ds.zipIdx.filter fun p => n ≤ 24 || p.2 < 8 || n ≤ p.2 + 8 || (96 ≤ p.2 && p.2 < 104)).map (·.1)

def spendableStr (s : State) (c : Ctx) (a : Addr) : String :=
  showC (posCoins (spendableAllOver s c a (acctDenoms s a)))

def lockedStr (s : State) (c : Ctx) (a : Addr) : String :=
  showC (posCoins ((acctDenoms s a).map fun d => (d, lockedCoins s c a d)))

def dumpAcct (s : State) (a : Addr) : String :=
  let base := s!"{a}:b={showC (Ledger.balances s.ledger a)};h={showC (Ledger.balances s.holds a)};s={spendableStr s {} a}"
  match (s.kindOf a).vesting? with
  | some _ =>
    let u := posCoins ((acctDenoms s a).map fun d => (d, unvested s a d))
    s!"{base};u={showC u};dv={showC (Ledger.balances s.dv a)};df={showC (Ledger.balances s.df a)}"
  | none => base

def dump (ds : DState) : String :=
  if ds.accts.isEmpty then "-" else "|".intercalate (ds.accts.map (dumpAcct ds.s))

/-! ### parsing -/

private def coinsArg (s : String) : Coins := (parseCoins? s).getD []

/-- `A:5x,3y|B:7x` -/
private def parseParts (s : String) : List (Addr × Coins) :=
  (splitList s).map fun ent =>
    match ent.splitOn ":" with
    | [a, c] => (a, coinsArg c)
    | a :: _ => (a, [])
    | [] => ("", [])

private def parseSnapshot (ent : String) : Snapshot :=
  match ent.splitOn ":" with
  | name :: rest =>
    let fields := (":".intercalate rest).splitOn ";"
    let get (k : String) : Coins := (kv fields k).map coinsArg |>.getD []
    { name := name, bal := get "b", hold := get "h", spendable := get "s", unvested := get "u",
      holdViewsDiffer := (kv fields "hv").isSome }
  | [] => { name := "", bal := [], hold := [], spendable := [], unvested := [] }

def parseDump (s : String) : List Snapshot :=
  if s = "-" then [] else (s.splitOn "|").map parseSnapshot

private def snapOf (ds : DState) (a : Addr) : Option Snapshot :=
  ds.lastDump.bind fun d => (parseDump d).find? (·.name = a)

/-! ### lowering -/

def isBlocked (s : State) (a : Addr) : Bool :=
  match s.kindOf a with
  | .module => true
  | _ => false

/-- outcome of the restriction chain for one transfer `src → dst`: quarantine redirect (unless
bypassed), then the directive. Returns the outcome and whether a quarantine record is written. -/
def resolve (ds : DState) (qBypass : Bool) (src dst : Addr) (directive : Option String) : Option Addr × Bool :=
  let quarantinedNow := !qBypass && ds.quarantined.contains dst && src ≠ dst && src ≠ "QH"
  let dst₁ := if quarantinedNow then "QH" else dst
  match directive with
  | none | some "ok" | some "" => (some dst₁, quarantinedNow)
  | some "deny" => (none, false)
  | some other => (some other, quarantinedNow)

private def directives (ws : List String) : List String :=
  match kv ws "r" with
  | some r => r.splitOn ","
  | none => []

private def addRecord (recs : List (Addr × Addr × Coins)) (dst src : Addr) (cs : Coins) : List (Addr × Addr × Coins) :=
  if recs.any (fun r => r.1 = dst ∧ r.2.1 = src) then
    recs.map fun r => if r.1 = dst ∧ r.2.1 = src then (r.1, r.2.1, r.2.2 ++ cs) else r
  else recs ++ [(dst, src, cs)]

/-- result of running a primitive: new driver state and output word -/
private def finish (ds : DState) (r : Except Err State) (recs : List (Addr × Addr × Coins) := ds.qrecs) : DState × String :=
  match r with
  | .ok s' => ({ ds with s := s', qrecs := recs }, "ok")
  | .error e => (ds, e.toString)

private def parseKind (ws : List String) (k : String) : Option Kind :=
  match k with
  | "base" => some .base
  | "module" => some .module
  | "marker" => some .marker
  | "market" => some .market
  | "delayed" => do
    let ov ← (kv ws "ov") >>= parseCoins?
    let e ← (kv ws "end") >>= parseInt?
    pure (.vesting (.delayed ov e))
  | "cont" => do
    let ov ← (kv ws "ov") >>= parseCoins?
    let st ← (kv ws "start") >>= parseInt?
    let e ← (kv ws "end") >>= parseInt?
    pure (.vesting (.continuous ov st e))
  | _ => none

/-- the account an entry of a `ginit` line names: `X^` is X's address in upper-case bech32 -/
def genesisAcct (n : String) : Addr := if n.endsWith "^" then (n.splitOn "^").headD n else n

def genesisEntries (es : List (Addr × Coins)) : List (Addr × Coins) := es.map fun e => (genesisAcct e.1, e.2)

/-- x/hold/genesis.go:12 `GenesisState.Validate`: every entry's amount is a valid `sdk.Coins`
(hold.go:9), and no address string occurs twice (:24) — the same account in another spelling does -/
def genesisValid (es : List (Addr × Coins)) : Bool :=
  es.all (fun e => isValid e.2) && decide ((es.map (·.1)).Nodup)

/-- one transfer through `SendCoins` with the given context, including the quarantine record -/
private def doSend (ds : DState) (c : Ctx) (src dst : Addr) (amt : Coins) (directive : Option String) : DState × String :=
  let (r, rec) := resolve ds c.quarantineBypass src dst directive
  let recs := if rec then addRecord ds.qrecs dst src amt else ds.qrecs
  finish ds (sendCoins ds.s c src dst amt r) recs

/-- one single-transfer route of another module: its lowering (`PvModel.Lock`, a list of
primitives) run atomically, including the quarantine record of the transfer -/
private def doRoute (ds : DState) (qBypass : Bool) (src dst : Addr) (amt : Coins)
    (lower : Option Addr → List Op) : DState × String :=
  let (r, rec) := resolve ds qBypass src dst none
  let recs := if rec then addRecord ds.qrecs dst src amt else ds.qrecs
  finish ds (applyAll ds.s (lower r)) recs

/-! ### exchange messages -/

/-- outcome of one restriction call of an exchange transfer (quarantine is bypassed there, so only
the history's directive matters) -/
private def dirOutcome (dst : Addr) : Option String → Option Addr
  | none | some "ok" | some "" => some dst
  | some "deny" => none
  | some other => some other

/-- destinations of the successive restriction calls of the transfers -/
private def callDsts (transfers : List (List (Addr × Coins) × List (Addr × Coins))) : List Addr :=
  transfers.flatMap fun (ins, outs) =>
    match ins, outs with
    | [_], [(t, _)] => [t]
    | _, _ => (transfersOf ins outs).map (·.1)

private def outcomes (dsts : List Addr) (dirs : List String) : List (Option Addr) :=
  dsts.zipIdx.map fun (d, i) => dirOutcome d dirs[i]?

private def commitOf (ds : DState) (a : Addr) : Coins := Coins.canon ((ds.commits.lookup a).getD [])

private def setCommit (cm : List (Addr × Coins)) (a : Addr) (cs : Coins) : List (Addr × Coins) :=
  (cm.filter (·.1 ≠ a)) ++ [(a, Coins.canon cs)]

private def addCommits (ds : DState) (xs : List (Addr × Coins)) : DState :=
  { ds with commits := xs.foldl (fun cm (a, cs) => setCommit cm a (((cm.lookup a).getD []) ++ cs)) ds.commits }

private def subCommits (ds : DState) (xs : List (Addr × Coins)) : DState :=
  { ds with commits := xs.foldl (fun cm (a, cs) => setCommit cm a (((cm.lookup a).getD []) ++ Coins.neg cs)) ds.commits }

/-- commitments.go:152 `ReleaseCommitment`: what gets released (`none` = error) -/
private def toReleaseOf (ds : DState) (a : Addr) (amt : Coins) : Option Coins :=
  let cur := commitOf ds a
  if isAnyNegative amt then none
  else if cur.isEmpty then none
  else if isZero amt then some cur
  else if (Coins.denoms amt).any (fun d => decide (Coins.amountOf cur d < Coins.amountOf amt d)) then none
  else some amt

private def findOrders (ds : DState) (ids : List Nat) (wantAsk : Bool) (notOwner : Addr) : Option (List OrderRec) :=
  ids.mapM fun i =>
    match ds.orders.find? (·.id = i) with
    | some o => if o.isAsk = wantAsk ∧ o.owner ≠ notOwner then some o else none
    | none => none

private def parseIds (s : String) : Option (List Nat) :=
  let ids := (splitList s).mapM parseNat?
  match ids with
  | some l => if l.isEmpty ∨ !l.Nodup ∨ l.contains 0 then none else some l
  | none => none

private def dropOrders (ds : DState) (ids : List Nat) : DState :=
  { ds with orders := ds.orders.filter fun o => !ids.contains o.id }

private def anyBlocked (ds : DState) (outs : List (Addr × Coins)) : Bool := outs.any fun o => isBlocked ds.s o.1

/-- keeper.go:201 `DoTransfer`'s own checks: a 1→1 transfer needs equal coins (:208), no output
may be a blocked address (:219, :228) -/
private def transferOk (ds : DState) (t : List (Addr × Coins) × List (Addr × Coins)) : Bool :=
  !anyBlocked ds t.2 &&
    match t.1, t.2 with
    | [(_, a)], [(_, b)] => Coins.canon a == Coins.canon b
    | _, _ => true

/-- An exchange message as the primitives it runs (Go order) and the bookkeeping done when it
succeeds; `none` = rejected by the exchange before any primitive runs. -/
def lowerMsg (ds : DState) (ws : List String) : Option (List Op × (DState → DState)) :=
  match ws with
  | "payaccept" :: t :: src :: id :: rest =>
    match ds.payments.find? (fun p => p.src = src ∧ p.id = id) with
    | none => none
    | some p =>
      if p.tgt ≠ t then none
      else
        let dsts := (if isZero p.srcAmt then [] else [t]) ++ (if isZero p.tgtAmt then [] else [src])
        some (acceptPaymentOps src t p.srcAmt p.tgtAmt (outcomes dsts (directives rest)),
          fun d => { d with payments := d.payments.filter fun q => !(q.src = src ∧ q.id = id) })
  | ["payreject", t, src, id] =>
    match ds.payments.find? (fun p => p.src = src ∧ p.id = id) with
    | none => none
    | some p =>
      if p.tgt = "" ∨ p.tgt ≠ t then none
      else some ([.releaseHold src p.srcAmt],
        fun d => { d with payments := d.payments.filter fun q => !(q.src = src ∧ q.id = id) })
  | ["paycancel", src, id] =>
    match ds.payments.find? (fun p => p.src = src ∧ p.id = id) with
    | none => none
    | some p => some ([.releaseHold src p.srcAmt],
        fun d => { d with payments := d.payments.filter fun q => !(q.src = src ∧ q.id = id) })
  | ["ordcancel", signer, id] =>
    match (parseNat? id).bind fun i => ds.orders.find? (·.id = i) with
    | none => none
    | some o =>
      if signer ≠ o.owner ∧ signer ≠ "ADM" then none
      else some ([.releaseHold o.owner o.holdAmt], fun d => dropOrders d [o.id])
  | "fillbids" :: seller :: total :: ids :: rest =>
    match parseIds ids with
    | none => none
    | some ids =>
    match findOrders ds ids false seller with
    | none => none
    | some os =>
      let total := coinsArg total
      let prices := os.map fun o => (o.owner, [o.price])
      let t₁ := ([(seller, total)], normGroups (os.map fun o => (o.owner, [o.assets])))
      let t₂ := (normGroups prices, [(seller, Coins.canon (os.map (·.price)))])
      if !isValid total || total.isEmpty || Coins.canon (os.map (·.assets)) ≠ total then none
      else if !(transferOk ds t₁ && transferOk ds t₂) then none
      else some (closeSettlementOps prices [t₁, t₂] (outcomes (callDsts [t₁, t₂]) (directives rest)),
        fun d => dropOrders d ids)
  | "fillasks" :: buyer :: total :: ids :: rest =>
    match parseIds ids with
    | none => none
    | some ids =>
    match findOrders ds ids true buyer with
    | none => none
    | some os =>
      let total := coinsArg total
      let assets := os.map fun o => (o.owner, [o.assets])
      let t₁ := (normGroups assets, [(buyer, Coins.canon (os.map (·.assets)))])
      let t₂ := ([(buyer, total)], normGroups (os.map fun o => (o.owner, [o.price])))
      if total.length ≠ 1 || !isValid total || Coins.canon (os.map (·.price)) ≠ total then none
      else if !(transferOk ds t₁ && transferOk ds t₂) then none
      else some (closeSettlementOps assets [t₁, t₂] (outcomes (callDsts [t₁, t₂]) (directives rest)),
        fun d => dropOrders d ids)
  | "settle" :: a :: b :: rest =>
    match (parseNat? a).bind (fun i => ds.orders.find? (·.id = i)), (parseNat? b).bind (fun i => ds.orders.find? (·.id = i)) with
    | some ao, some bo =>
      if !ao.isAsk || bo.isAsk then none
      else if ao.assets ≠ bo.assets || ao.price.1 ≠ bo.price.1 || bo.price.2 < ao.price.2 then none
      else
        let t₁ := ([(ao.owner, [ao.assets])], [(bo.owner, [ao.assets])])
        let t₂ := ([(bo.owner, [bo.price])], [(ao.owner, [bo.price])])
        if !(transferOk ds t₁ && transferOk ds t₂) then none
        else some (closeSettlementOps [(ao.owner, ao.holdAmt), (bo.owner, bo.holdAmt)] [t₁, t₂]
            (outcomes (callDsts [t₁, t₂]) (directives rest)),
          fun d => dropOrders d [ao.id, bo.id])
    | _, _ => none
  | ["crelease", a, cs] =>
    match toReleaseOf ds a (coinsArg cs) with
    | none => none
    | some rel => some ([.releaseHold a rel], fun d => subCommits d [(a, rel)])
  | "csettle" :: ins :: outs :: rest =>
    let ins := normGroups (parseParts ins)
    let outs := normGroups (parseParts outs)
    let good := fun (xs : List (Addr × Coins)) => xs.all fun p => isValid p.2 && !p.2.isEmpty
    if ins.isEmpty || outs.isEmpty || !(ins.length = 1 || outs.length = 1) then none
    else if !(good (parseParts (ws.getD 1 "")) && good (parseParts (ws.getD 2 ""))) then none
    else if Coins.canon (ins.flatMap (·.2)) ≠ Coins.canon (outs.flatMap (·.2)) then none
    else if !transferOk ds (ins, outs) then none
    else match ins.mapM fun p => (toReleaseOf ds p.1 p.2).map fun r => (p.1, r) with
    | none => none
    | some rels =>
      some (settleCommitmentsOps rels outs (outcomes (callDsts [(ins, outs)]) (directives rest)),
        fun d => addCommits (subCommits d rels) outs)
  | _ => none

/-! ### transactions: the fee-payment route -/

/-- the pieces of a `tx` line -/
structure TxLine where
  p : Addr
  gas : Nat
  fee : Coins
  granter : Option Addr
  to : Addr
  amt : Coins
  full : Bool

def parseTx (ws : List String) : Option TxLine :=
  match ws with
  | "tx" :: p :: rest =>
    match (kv rest "gas").bind parseNat?, (kv rest "fee").bind parseCoins?, kv rest "to",
        (kv rest "amt").bind parseCoins? with
    | some gas, some fee, some to, some amt =>
      let full := kv rest "mode" = some "full"
      if !isValid fee || (full && p ≠ "S") then none
      else some { p := p, gas := gas, fee := fee, granter := kv rest "granter", to := to, amt := amt, full := full }
    | _, _, _, _ => none
  | _ => none

/-- provenance_fee.go:161 `GetFeePayerUsingFeeGrant`: the granter pays when one is named and is not
the signer itself -/
def TxLine.payer (t : TxLine) : Addr :=
  match t.granter with
  | some g => if g ≠ t.p then g else t.p
  | none => t.p

/-- provenance_fee.go:189 `CalculateBaseFee`: floor gas price × gas wanted (`sdk.NewCoins` drops a zero) -/
def baseFeeOf (floor : Denom × Int) (t : TxLine) : Coins :=
  let x := floor.2 * (t.gas : Int)
  if x = 0 then [] else [(floor.1, x)]

/-- msg_fee_invoker.go:71 `feeTx.GetFee().SafeSub(baseFeeConsumed)`: zeros dropped, a stated fee
below the base fee leaves a negative entry -/
def restFeeOf (fee base : Coins) : Coins := Coins.canon (fee ++ Coins.neg base)

/-- the message of the transaction, bank `MsgSend` P → T (msg_server.go:29): refused before the
keeper is reached (`err:…`), or the `SendCoins` it makes and whether quarantine records it -/
def txBody (ds : DState) (t : TxLine) : Except String (List Op × Bool) :=
  if !isValid t.amt || !isAllPositive t.amt then .error "err:invalid"
  else if isBlocked ds.s t.to then .error "err:blocked"
  else
    let (r, rec) := resolve ds false t.p t.to none
    .ok ([.send {} t.p t.to t.amt r], rec)

def execTx (ds : DState) (t : TxLine) : DState × String :=
  let noGrant := match t.granter with
    | some g => g ≠ t.p && !ds.grants.contains (g, t.p)
    | none => false
  if t.gas = 0 then (ds, "err:gas")                       -- provenance_fee.go:65 / out of gas at once
  else if t.full && t.gas > 4000000 then (ds, "err:gas")  -- tx_gas_limit_decorator.go:53
  else if noGrant then (ds, "err:nogrant")                -- feegrant `UseGrantedFees`
  else
    let base := baseFeeOf ds.floor t
    let rest := restFeeOf t.fee base
    let ante := deductFeeOps t.payer "FEE" base
    match applyAll ds.s ante with
    | .error _ => (ds, "err:funds")   -- `DeductFees` wraps every error of the send as insufficient funds
    | .ok s₁ =>
      match txBody ds t with
      | .error e => ({ ds with s := s₁ }, s!"ok msgfail {e}")
      | .ok (body, rec) =>
        match applyAll s₁ body with
        | .error e => ({ ds with s := s₁ }, s!"ok msgfail {e.toString}")
        | .ok _ =>
          -- x/msgfees keeper.go:164: a negative rest is refused; :172 every error is insufficient funds
          if isAnyNegative rest then ({ ds with s := s₁ }, "ok sweepfail err:funds")
          else
            match feeTx ds.s t.payer "FEE" base rest body with
            | .done s₃ =>
              ({ ds with s := s₃, qrecs := if rec then addRecord ds.qrecs t.to t.p t.amt else ds.qrecs }, "ok done")
            | o => ({ ds with s := o.state ds.s }, "ok sweepfail err:funds")

/-- what an accepted transaction did, for `LockSpec.movesKeepHolds`: the base fee always, the
message's send and the sweep when the implementation says all of it went through -/
def txOps (ds : DState) (t : TxLine) (impl : String) : List Op :=
  let base := baseFeeOf ds.floor t
  let ante := deductFeeOps t.payer "FEE" base
  if impl = "ok done" then
    ante ++ (match txBody ds t with | .ok (b, _) => b | .error _ => []) ++
      deductFeeOps t.payer "FEE" (posCoins (restFeeOf t.fee base))
  else ante

def isMsgOp (op : String) : Bool :=
  ["payaccept", "payreject", "paycancel", "ordcancel", "fillbids", "fillasks", "settle", "crelease", "csettle"].contains op

/-- a new order: orders.go:654 / :701 (the ask's assets and price must be positive coins of
different denoms; the hold is placed last, so a refused hold rejects the whole message) -/
private def createOrder (ds : DState) (isAsk : Bool) (owner : Addr) (assets price : String) : DState × String :=
  match parseCoin? assets, parseCoin? price with
  | some a, some p =>
    if a.2 ≤ 0 || p.2 ≤ 0 || a.1 = p.1 then (ds, "err:rejected")
    else
      let o : OrderRec := { id := ds.nextOrder, isAsk := isAsk, owner := owner, assets := a, price := p }
      match addHold ds.s {} owner o.holdAmt with
      | .ok s' => ({ ds with s := s', orders := ds.orders ++ [o], nextOrder := ds.nextOrder + 1 }, s!"ok {o.id}")
      | .error _ => (ds, "err:rejected")
  | _, _ => (ds, "err:rejected")

def execOp (ds : DState) (ws : List String) : DState × String :=
  match ws with
  | ["dump"] => (ds, dump ds)
  | ["time", t] =>
    match parseInt? t with
    | some t => ({ ds with s := { ds.s with time := t } }, "ok")
    | none => (ds, "bad-op")
  | "acct" :: n :: k :: rest =>
    match parseKind rest k with
    | some kind =>
      ({ ds with s := { ds.s with kinds := ds.s.kinds ++ [(n, kind)] }, accts := ds.accts ++ [n],
                 quarantined := if kv rest "quarantine" = some "1" then n :: ds.quarantined else ds.quarantined }, "ok")
    | none => (ds, "bad-op")
  | ["have", n, cs] | ["fund", n, cs] => finish ds (mintCoins ds.s n (Coins.canon (coinsArg cs)))
  | "send" :: f :: t :: cs :: rest =>
    let amt := coinsArg cs
    if !isValid amt || !isAllPositive amt then (ds, "err:invalid")
    else if isBlocked ds.s t then (ds, "err:blocked")
    else doSend ds {} f t amt ((directives rest).head?)
  | "msend" :: f :: outs :: rest =>
    let outs := parseParts outs
    let total := Coins.canon (outs.flatMap (·.2))
    let inp := match kv rest "in" with
      | some v => coinsArg v
      | none => total
    let ins := [(f, inp)]
    if outs.isEmpty then (ds, "err:nooutputs")
    else match validateInputsOutputs ins outs with
    | .error e => (ds, e.toString)
    | .ok () =>
      if outs.any (fun o => isBlocked ds.s o.1) then (ds, "err:blocked")
      else
        let dirs := directives rest
        let resolved := outs.zipIdx.map fun (o, i) => (resolve ds false f o.1 dirs[i]?, o)
        let rs := resolved.map (·.1.1)
        -- records are written by the quarantine restriction for every output it handles before
        -- a later restriction fails; a failed message is rolled back, so only the success case matters
        let recs := resolved.foldl (fun acc (r, o) => if r.2 then addRecord acc o.1 f o.2 else acc) ds.qrecs
        finish ds (inputOutputCoins ds.s {} ins outs rs) recs
  | "ioprov" :: ins :: t :: rest =>
    let ins := parseParts ins
    let total := Coins.canon (ins.flatMap (·.2))
    let outs := [(t, total)]
    let dirs := directives rest
    let transfers := transfersOf ins outs
    let srcs : List Addr := if 1 < ins.length then ins.map (·.1) else transfers.map fun _ => (ins.headD ("", [])).1
    let resolved := (transfers.zip srcs).zipIdx.map fun ((tr, src), i) => (resolve ds false src tr.1 dirs[i]?, src, tr)
    let rs := resolved.map (·.1.1)
    let recs := resolved.foldl (fun acc (r, src, tr) => if r.2 then addRecord acc tr.1 src tr.2 else acc) ds.qrecs
    finish ds (inputOutputCoins ds.s {} ins outs rs) recs
  | "delegate" :: d :: cs :: rest =>
    let r : Option Addr := match (directives rest).head? with
      | some "deny" => none
      | _ => some "POOL"
    finish ds (delegateCoins ds.s {} d "POOL" (coinsArg cs) r)
  | ["undelegate", d, cs] => finish ds (undelegateCoins ds.s {} "POOL" d (coinsArg cs))
  | ["burn", m, cs] => finish ds (applyAll ds.s (moduleBurnOps m (coinsArg cs)))
  | ["deposit", d, cs] => doRoute ds false d "GOV" (coinsArg cs) (govDepositOps d "GOV" (coinsArg cs))
  | ["mwithdraw", t, cs] =>
    if isBlocked ds.s t then (ds, "err:blocked")
    else doRoute ds false "MK" t (coinsArg cs) (markerWithdrawOps "MK" t (coinsArg cs))
  | ["mtransfer", f, t, cs] =>
    if isBlocked ds.s t then (ds, "err:blocked")
    else doRoute ds false f t (coinsArg cs) (markerTransferOps f t (coinsArg cs))
  | ["mktwithdraw", t, cs] =>
    if isBlocked ds.s t then (ds, "err:blocked")
    else doRoute ds (decide (t = "ADM")) "MKT" t (coinsArg cs)
      (marketWithdrawOps "MKT" t (coinsArg cs) (decide (t = "ADM")))
  | ["floor", c] =>
    match parseCoin? c with
    | some f => if f.2 < 0 then (ds, "bad-op") else ({ ds with floor := f }, "ok")
    | none => (ds, "bad-op")
  | ["grant", x, p] =>
    if ds.grants.contains (x, p) then (ds, "err:other")   -- "fee allowance already exists"
    else ({ ds with grants := ds.grants ++ [(x, p)] }, "ok")
  | "tx" :: _ =>
    match parseTx ws with
    | some t => execTx ds t
    | none => (ds, "bad-op")
  | ["hold", a, cs] => finish ds (addHold ds.s {} a (coinsArg cs))
  -- a genesis import of the hold module: `GenesisState.Validate` (x/hold/genesis.go:12: every amount
  -- a valid `sdk.Coins`, no address STRING twice), then `InitGenesis`; a refused entry panics
  | ["ginit", ents] =>
    let es := parseParts ents
    if !genesisValid es then (ds, "err:genvalidate")
    else match applyAll ds.s (initGenesisOps (genesisEntries es)) with
      | .ok s' => ({ ds with s := s' }, "ok")
      | .error _ => (ds, "panic:other")
  -- exchange commitments.go:100 `addCommitment` / payments.go:205 `CreatePayment` → `AddHold`
  | ["commit", a, cs] =>
    match addHold ds.s {} a (coinsArg cs) with
    | .ok s' => (addCommits { ds with s := s' } [(a, coinsArg cs)], "ok")
    | .error e => (ds, e.toString)
  -- payments.go:205 `CreatePayment`: `Payment.Validate`, the (source, external id) key must be new
  -- (:131), then `AddHold(source, SourceAmount)`
  | "pay" :: a :: cs :: id :: rest =>
    let srcAmt := coinsArg cs
    let tgt := (kv rest "tgt").getD ""
    let tgtAmt := ((kv rest "tamt").map coinsArg).getD []
    if !isValid srcAmt || !isValid tgtAmt || (srcAmt.isEmpty && tgtAmt.isEmpty) then (ds, "err:other")
    else if ds.payments.any (fun p => p.src = a ∧ p.id = id) then (ds, "err:other")
    else match addHold ds.s {} a srcAmt with
      | .ok s' => ({ ds with s := s', payments := ds.payments ++ [{ src := a, id := id, srcAmt := srcAmt, tgt := tgt, tgtAmt := tgtAmt }] }, "ok")
      | .error e => (ds, e.toString)
  | ["ask", o, assets, price] => createOrder ds true o assets price
  | ["bid", o, assets, price] => createOrder ds false o assets price
  | ["release", a, cs] => finish ds (releaseHold ds.s a (coinsArg cs))
  | ["qaccept", t, f] =>
    match ds.qrecs.find? (fun r => r.1 = t ∧ r.2.1 = f) with
    | none => (ds, "ok -")
    | some rec =>
      let cs := Coins.canon rec.2.2
      match applyAll ds.s (quarantineAcceptOps "QH" t [cs] []) with
      | .ok s' => ({ ds with s := s', qrecs := ds.qrecs.filter fun r => !(r.1 = t ∧ r.2.1 = f) }, s!"ok {showCoins cs}")
      | .error e => (ds, e.toString)
  | ["spendable", a] =>
    let ds' := acctDenoms ds.s a
    let bal := Ledger.balances ds.s.ledger a
    let over := posCoins ((spendableAllOver ds.s {} a ds').filter fun p => (Coins.denoms bal).contains p.1)
    let by' := posCoins ((byDenomSel (Coins.denoms bal)).map fun d => (d, spendableCoin ds.s {} a d))
    (ds, s!"ok {showC over} {showC by'}")
  | "kspend" :: a :: rest =>
    let c : Ctx := { vestBypass := kv rest "vb" = some "1", holdBypass := kv rest "hb" = some "1" }
    (ds, s!"ok {spendableStr ds.s c a} {lockedStr ds.s c a}")
  | ["inv"] =>
    let bad := ds.s.holds.any fun e => !holdInvariantAt ds.s e.addr e.denom
    (ds, if bad then "broken" else "ok")
  | op :: _ =>
    if isMsgOp op then
      match lowerMsg ds ws with
      | none => (ds, "err:rejected")
      | some (ops, onOk) =>
        match applyAll ds.s ops with
        | .ok s' => (onOk { ds with s := s' }, "ok")
        | .error _ => (ds, "err:rejected")
    else (ds, "bad-op")
  | _ => (ds, "bad-op")

/-! ### the property checker, on the implementation's output -/

/-- accounts debited by a route and the amounts (from the op line; `qaccept` from the impl output) -/
def debits (ws : List String) (impl : String) : List (Addr × Coins) :=
  match ws with
  | "send" :: f :: _ :: cs :: _ => [(f, coinsArg cs)]
  | "msend" :: f :: outs :: rest =>
    let total := (parseParts outs).flatMap (·.2)
    [(f, match kv rest "in" with | some v => coinsArg v | none => total)]
  | "ioprov" :: ins :: _ => parseParts ins
  | "delegate" :: d :: cs :: _ => [(d, coinsArg cs)]
  | ["undelegate", _, cs] => [("POOL", coinsArg cs)]
  | ["burn", m, cs] => [(m, coinsArg cs)]
  | ["deposit", d, cs] => [(d, coinsArg cs)]
  | ["mwithdraw", _, cs] => [("MK", coinsArg cs)]
  | ["mtransfer", f, _, cs] => [(f, coinsArg cs)]
  | ["mktwithdraw", _, cs] => [("MKT", coinsArg cs)]
  | ["qaccept", _, _] =>
    match impl.splitOn " " with
    | ["ok", cs] => [("QH", coinsArg cs)]
    | _ => []
  | _ => []

/-- what an accepted message did, step by step (for `LockSpec.movesKeepHolds`) -/
def movesOf (ops : List Op) : List Move :=
  ops.flatMap fun op =>
    match op with
    | .releaseHold a cs => [Move.release a cs]
    | .addHold _ a cs => [Move.hold a cs]
    | .send _ src dst amt r => [Move.debit src amt, Move.credit (r.getD dst) amt]
    | .inputOutput _ ins outs rs =>
      (normGroups ins).map (fun p => Move.debit p.1 p.2) ++
        (match applyRestrictions (transfersOf ins outs) rs with
         | .ok resolved => resolved.map fun p => Move.credit p.1 p.2
         | .error _ => [])
    | _ => []

private def groupDebits (xs : List (Addr × Coins)) : List (Addr × Coins) :=
  (groupByAddr xs).map fun p => (p.1, Coins.canon p.2)

def verdict (ds : DState) (ws : List String) (impl : String) : String :=
  let r := (impl.splitOn " ").headD ""
  match ws with
  | ["dump"] =>
    match checkState (parseDump impl) with
    | some c => s!"fail:{c}"
    | none =>
      if ds.rejectedSince && !ds.acceptedSince && ds.lastDump.isSome && ds.lastDump ≠ some impl then
        "fail:reject_changed_state" else "ok"
  | ["inv"] => if r = "ok" then "ok" else "fail:hold_invariant_broken"
  | ["spendable", a] =>
    match snapOf ds a with
    | none => "-"
    | some sn =>
      let wantOf := fun (dsel : List Denom) => showC (posCoins (dsel.map fun d =>
        (d, specSpendable (Coins.amountOf sn.bal d) (Coins.amountOf sn.hold d) (Coins.amountOf sn.unvested d))))
      let balDs := Coins.denoms (Coins.canon sn.bal)
      if impl = s!"ok {wantOf balDs} {wantOf (byDenomSel balDs)}" then "ok" else "fail:spendable_query_not_formula"
  | "ask" :: a :: cs :: _ | "bid" :: a :: _ :: cs :: _ =>
    if r ≠ "ok" then "ok" else
    match snapOf ds a with
    | none => "-"
    | some sn =>
      if holdWithinSpendable sn (Coins.canon (coinsArg cs)) then "ok" else "fail:hold_exceeds_spendable"
  | "hold" :: a :: cs :: _ | "commit" :: a :: cs :: _ | "pay" :: a :: cs :: _ =>
    -- `AddHold` is only ever called with a valid `sdk.Coins` (sorted, distinct denoms, positive):
    -- anything else cannot come from a transaction and is out of the property's scope
    if !isValid (coinsArg cs) then "-"
    else if r ≠ "ok" then "ok" else
    match snapOf ds a with
    | none => "-"
    | some sn =>
      if holdWithinSpendable sn (Coins.canon (coinsArg cs)) then "ok" else "fail:hold_exceeds_spendable"
  | ["ginit", ents] =>
    -- an accepted import: what it placed on hold for an account, ALL its entries together, must have
    -- been within the spendable balance reported before (genesis states that the module's own
    -- validation refuses are not judged)
    let es := parseParts ents
    if !genesisValid es then "-"
    else if r ≠ "ok" then "ok"
    else if ds.lastDump.isNone then "-"
    else if (groupDebits (genesisEntries es)).all (fun (a, amt) => match snapOf ds a with
        | some sn => holdWithinSpendable sn amt
        | none => true) then "ok"
    else "fail:hold_exceeds_spendable"
  | "tx" :: _ =>
    -- an accepted transaction: the base fee (and, when all of it went through, the message's send
    -- and the rest of the fee) must each fit into `bal − hold` of the paying account at that moment
    if r ≠ "ok" then "ok"
    else match ds.lastDump, parseTx ws with
      | some d, some t =>
        if movesKeepHolds (parseDump d) (movesOf (txOps ds t impl)) then "ok" else "fail:held_funds_left:tx"
      | _, _ => "-"
  | op :: _ =>
    if isMsgOp op then
      if r ≠ "ok" then "ok"
      else match ds.lastDump, lowerMsg ds ws with
        | some d, some (ops, _) =>
          if movesKeepHolds (parseDump d) (movesOf ops) then "ok" else s!"fail:held_funds_left:{op}"
        | _, _ => "-"
    else
    let dbs := groupDebits (debits ws impl)
    if dbs.isEmpty then "-"
    else if r ≠ "ok" then "ok"
    else if ds.lastDump.isNone then "-"
    else if dbs.all (fun (a, amt) => match snapOf ds a with
        | some sn => debitKeepsHold sn amt
        | none => true) then "ok"
    else s!"fail:held_funds_left:{op}"
  | [] => "-"

def stepLine (ds : DState) (ws : List String) (impl : Option String) : DState × String × String :=
  let (ds', out) := execOp ds ws
  match impl with
  | none => (ds', out, "-")
  | some i =>
    let v := verdict ds ws i
    let r := (i.splitOn " ").headD ""
    let isQuery := match ws with
      | "spendable" :: _ | "kspend" :: _ | "inv" :: _ => true
      | _ => false
    let rejected := r.startsWith "err" || r.startsWith "panic"
    let ds'' :=
      if ws = ["dump"] then { ds' with lastDump := some i, rejectedSince := false, acceptedSince := false }
      else if isQuery then ds'
      else { ds' with rejectedSince := ds'.rejectedSince || rejected, acceptedSince := ds'.acceptedSince || !rejected }
    (ds'', out, v)

def driver : Driver where
  σ := DState
  init := {}
  step := fun s op impl => stepLine s (words op) impl

end PvModel.Lock
