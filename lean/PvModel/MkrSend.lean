/-
C04 — executable model of the marker module's bank send restriction.

Mirrors, function by function (Go names kept):
  x/marker/keeper/send_restrictions.go   SendRestrictionFn (18-93), validateSendDenom (97-185),
                                         findMissingAttributes (189-201), MatchAttribute (228-237)
                                         (line numbers at ed45788f3)
  x/marker/types/marker.go               HasAccess (135-142), AtLeastOneAddrHasAccess (164-171),
                                         ValidateAtLeastOneAddrHasAccess (174-186)
  x/marker/types/accessgrant.go          AccessGrant.HasAccess (117-122)
  x/marker/keeper/keeper.go              GetMarker (144-154), IsSendDeny (221-224), IsReqAttrBypassAddr (427)
  x/marker/types/send_restrictions.go    HasBypass / GetTransferAgents (context values → `Cfg.bypass`, `Cfg.agents`)
  sdk types/coin.go                      Coins.Find (binary search)

Everything the Go function reads is a field of `Cfg`: the two context flags, the two addresses,
the transfer agents carried by the context, the auth account store seen through `GetMarker`
(`acct`), the denom → marker address derivation, the attribute store (names only), the three
keeper-fixed addresses and the required-attribute bypass set handed to the keeper by app/app.go.
Core-only.
-/
import PvModel.Coins

namespace PvModel.MkrSend
open PvModel

/-- Attribute names are compared by prefix/suffix only; a list of characters keeps the
wildcard theorem free of `String` internals. -/
abbrev Name := List Char

inductive MType | coin | restricted
  deriving DecidableEq, Repr

inductive MStatus | proposed | finalized | active | cancelled | destroyed
  deriving DecidableEq, Repr

inductive Access | mint | burn | deposit | withdraw | delete | admin | transfer | forceTransfer
  deriving DecidableEq, Repr

/-- `types.AccessGrant` -/
structure Grant where
  addr : Addr
  perms : List Access
  deriving Repr

/-- The fields of `types.MarkerAccount` the restriction reads, plus the marker's slice of the
send-deny store (`DenySendKey(markerAddr, sender)`, only ever read for this marker). -/
structure Marker where
  denom : Denom
  mtype : MType
  status : MStatus
  access : List Grant
  reqAttrs : List Name
  deny : List Addr
  deriving Repr

/-- What `authKeeper.GetAccount(addr)` holds, as far as `GetMarker` distinguishes. -/
inductive Acct
  | none                 -- no account
  | other                -- an account that is not a marker account (base, module, …)
  | marker (m : Marker)
  deriving Repr

def Acct.isOther : Acct → Bool
  | .other => true
  | _ => false

structure Cfg where
  bypass : Bool                    -- types.HasBypass(ctx)
  feeGrant : Bool                  -- internalsdk.HasFeeGrantInUse(ctx)
  fromAddr : Addr
  toAddr : Addr
  agents : List Addr               -- types.GetTransferAgents(ctx)
  acct : Addr → Acct               -- auth account store
  markerAddr : Denom → Addr        -- types.MustGetMarkerAddress
  attrs : Addr → List Name         -- names of attrKeeper.GetAllAttributesAddr(addr)
  markerModuleAddr : Addr
  ibcTransferModuleAddr : Addr
  feeCollectorAddr : Addr
  reqAttrBypass : List Addr        -- k.reqAttrBypassAddrs (app/app.go:564-571)

/-- Which check refused (one constructor per `return …err` of the Go code). -/
inductive Reason
  | fcBypass          -- :30  restricted denom to the fee collector on the bypass path
  | notMarker         -- (only before ed45788f3) GetMarker error: the denom's marker address holds a non-marker account
  | withdrawNoAgent   -- :49
  | withdraw          -- :55
  | fromStatus        -- :64
  | depositAgent      -- :76
  | depositSender     -- :80
  | status            -- :104
  | fc                -- :114
  | denyList          -- :127
  | transferToMarker  -- :141 / :149
  | transfer          -- :161
  | attrs             -- :181
  deriving DecidableEq, Repr

/-- `(toAddr, nil)` is `allow`; `(nil, err)` is `deny`. -/
abbrev Decision := Except Reason Unit

@[match_pattern] def allow : Decision := .ok ()
@[match_pattern] def deny (r : Reason) : Decision := .error r

def Decision.isAllow : Decision → Bool
  | .ok _ => true
  | .error _ => false

/-! ### x/marker/types -/

/-- `AccessGrant.HasAccess` (accessgrant.go:117): an empty address never has access. -/
def Grant.hasAccess (g : Grant) (role : Access) : Bool :=
  if g.addr = "" then false else g.perms.contains role

/-- `MarkerAccount.HasAccess` (marker.go:135). -/
def Marker.hasAccess (m : Marker) (addr : Addr) (role : Access) : Bool :=
  m.access.any fun g => g.addr == addr && g.hasAccess role

/-- `AtLeastOneAddrHasAccess` (marker.go:164). -/
def atLeastOneAddrHasAccess (m : Marker) (addrs : List Addr) (role : Access) : Bool :=
  addrs.any fun a => m.hasAccess a role

/-- `ValidateAtLeastOneAddrHasAccess` (marker.go:174): `true` = no error.  The one-address
branch differs only in the error text. -/
def validateAtLeastOneAddrHasAccess (m : Marker) (addrs : List Addr) (role : Access) : Bool :=
  match addrs with
  | [a] => m.hasAccess a role
  | _ => atLeastOneAddrHasAccess m addrs role

/-! ### keeper -/

/-- `Keeper.GetMarker` (keeper.go:144): `(nil,nil)` without account, an error for a non-marker
account. -/
def getMarker (cfg : Cfg) (a : Addr) : Except Unit (Option Marker) :=
  match cfg.acct a with
  | .none => .ok none
  | .other => .error ()
  | .marker m => .ok (some m)

/-- `fromMarker, _ := k.GetMarker(...)` — the error is dropped. -/
def getMarkerIgnoreErr (cfg : Cfg) (a : Addr) : Option Marker :=
  match getMarker cfg a with
  | .ok m => m
  | .error _ => none

/-- `Keeper.IsSendDeny(ctx, markerAddr, sender)` for the marker found at `markerAddr`. -/
def isSendDeny (m : Marker) (sender : Addr) : Bool := m.deny.contains sender

def isReqAttrBypassAddr (cfg : Cfg) (a : Addr) : Bool := cfg.reqAttrBypass.contains a

/-- `MatchAttribute` (send_restrictions.go:232). -/
def matchAttribute (reqAttr attr : Name) : Bool :=
  if reqAttr.length < 1 then false
  else if ['*', '.'].isPrefixOf reqAttr then
    -- [1:] : drop only the '*'; the '.' takes part in the comparison
    (reqAttr.drop 1).isSuffixOf attr
  else reqAttr == attr

/-- `findMissingAttributes` (send_restrictions.go:193). -/
def findMissingAttributes (required attributes : List Name) : List Name :=
  required.filter fun req => !(attributes.any fun a => matchAttribute req a)

/-! ### sdk.Coins.Find — binary search exactly as written (types/coin.go) -/

def find (cs : Coins) (d : Denom) : Option Int :=
  match cs with
  | [] => none                                                  -- case 0
  | [(d', a)] => if d' = d then some a else none                -- case 1
  | c0 :: c1 :: rest =>                                         -- default
    let mid := (c0 :: c1 :: rest).length / 2
    match (c0 :: c1 :: rest)[mid]? with
    | none => none
    | some (d', a) =>
      if d < d' then find ((c0 :: c1 :: rest).take mid) d
      else if d = d' then some a
      else find ((c0 :: c1 :: rest).drop (mid + 1)) d
termination_by cs.length
decreasing_by
  all_goals simp only [List.length_take, List.length_drop, List.length_cons]
  all_goals omega

/-! ### the send restriction -/

/-- Run `f` on every coin's denom in order, stopping at the first error (`for _, coin := range amt`). -/
def forCoins (f : Denom → Decision) : Coins → Decision
  | [] => allow
  | (d, _) :: rest =>
    match f d with
    | .ok _ => forCoins f rest
    | .error e => .error e

/-- The loop body at send_restrictions.go:25-33 (bypass path, receiver is the fee collector).
`marker, _ := k.GetMarker(...)`: since ed45788f3 a non-marker account at the denom's marker address
counts as "no marker". -/
def bypassFeeCollectorDenom (cfg : Cfg) (denom : Denom) : Decision :=
  match getMarkerIgnoreErr cfg (cfg.markerAddr denom) with
  | some m => if m.mtype = .restricted then deny .fcBypass else allow
  | none => allow

/-- `validateSendDenom` from "If there's a marker, it must be active" on (send_restrictions.go:103-185),
for the marker found for the denom. -/
def validateSendDenomMarker (cfg : Cfg) (toMarker : Option Marker) (marker : Marker) : Decision :=
  if marker.status ≠ .active then deny .status                 -- :103-104
  else if marker.mtype ≠ .restricted then allow                -- :108
  else if cfg.toAddr = cfg.feeCollectorAddr then deny .fc      -- :113-114
  else if cfg.agents.length > 0 && atLeastOneAddrHasAccess marker cfg.agents .transfer then allow  -- :118
  else if isSendDeny marker cfg.fromAddr then deny .denyList   -- :126-127
  else if marker.hasAccess cfg.fromAddr .transfer then allow   -- :131
  else if toMarker.isSome then deny .transferToMarker          -- :139-150
  else if marker.reqAttrs.length = 0 then                      -- :157
    if isReqAttrBypassAddr cfg cfg.fromAddr then allow else deny .transfer
  else if isReqAttrBypassAddr cfg cfg.toAddr then allow        -- :167
  else if (findMissingAttributes marker.reqAttrs (cfg.attrs cfg.toAddr)).length ≠ 0 then deny .attrs
  else allow

/-- `validateSendDenom` (send_restrictions.go:97-185).  `marker, _ := k.GetMarker(...)`: since
ed45788f3 a non-marker account at the denom's marker address counts as "no marker". -/
def validateSendDenom (cfg : Cfg) (toMarker : Option Marker) (denom : Denom) : Decision :=
  match getMarkerIgnoreErr cfg (cfg.markerAddr denom) with
  | none => allow                                              -- :108 no marker
  | some marker => validateSendDenomMarker cfg toMarker marker

/-- send_restrictions.go:47-57: without a fee grant in use some transfer agent needs withdraw access. -/
def checkWithdraw (cfg : Cfg) (fromMarker : Marker) : Decision :=
  if !cfg.feeGrant then
    if cfg.agents.length = 0 then deny .withdrawNoAgent
    else if validateAtLeastOneAddrHasAccess fromMarker cfg.agents .withdraw then allow
    else deny .withdraw
  else allow

/-- send_restrictions.go:61-67: a marker that is not active keeps the coins of its own denom. -/
def checkOwnDenom (fromMarker : Marker) (amt : Coins) : Decision :=
  if fromMarker.status ≠ .active then
    match find amt fromMarker.denom with
    | some fromAmt => if fromAmt ≠ 0 then deny .fromStatus else allow
    | none => allow
  else allow

/-- send_restrictions.go:39-68: the sender-is-a-marker block. -/
def checkFromMarker (cfg : Cfg) (amt : Coins) : Decision :=
  match getMarkerIgnoreErr cfg cfg.fromAddr with
  | none => allow
  | some fromMarker =>
    match checkWithdraw cfg fromMarker with
    | .error e => .error e
    | .ok _ => checkOwnDenom fromMarker amt

/-- send_restrictions.go:72-83: the receiver-is-a-restricted-marker block. -/
def checkToMarker (cfg : Cfg) (toMarker : Option Marker) : Decision :=
  match toMarker with
  | some tm =>
    if tm.mtype = .restricted then
      if cfg.agents.length > 0 then
        if validateAtLeastOneAddrHasAccess tm cfg.agents .deposit then allow else deny .depositAgent
      else
        if tm.hasAccess cfg.fromAddr .deposit then allow else deny .depositSender
    else allow
  | none => allow

/-- The first `if` of `SendRestrictionFn` (:22). -/
def onBypassPath (cfg : Cfg) : Bool :=
  cfg.bypass || cfg.fromAddr == cfg.markerModuleAddr || cfg.fromAddr == cfg.ibcTransferModuleAddr

/-- `Keeper.SendRestrictionFn` (send_restrictions.go:18-93). -/
def sendRestrictionFn (cfg : Cfg) (amt : Coins) : Decision :=
  if onBypassPath cfg then
    if cfg.toAddr = cfg.feeCollectorAddr then forCoins (bypassFeeCollectorDenom cfg) amt
    else allow
  else
    match checkFromMarker cfg amt with
    | .error e => .error e
    | .ok _ =>
      let toMarker := getMarkerIgnoreErr cfg cfg.toAddr
      match checkToMarker cfg toMarker with
      | .error e => .error e
      | .ok _ => forCoins (validateSendDenom cfg toMarker) amt

/-- The decision procedure of the design (`decide : Cfg → Coins → Decision`). -/
def decide (cfg : Cfg) (amt : Coins) : Decision := sendRestrictionFn cfg amt

/-! ### The code before ed45788f3 (kept only for the historical witness)

Both denom lookups returned `GetMarker`'s error ("account at … is not a marker account") instead
of treating a non-marker account at the denom's marker address as "no marker". -/

def bypassFeeCollectorDenomPreFix (cfg : Cfg) (denom : Denom) : Decision :=
  match getMarker cfg (cfg.markerAddr denom) with
  | .error _ => deny .notMarker
  | .ok marker =>
    match marker with
    | some m => if m.mtype = .restricted then deny .fcBypass else allow
    | none => allow

def validateSendDenomPreFix (cfg : Cfg) (toMarker : Option Marker) (denom : Denom) : Decision :=
  match getMarker cfg (cfg.markerAddr denom) with
  | .error _ => deny .notMarker
  | .ok none => allow
  | .ok (some marker) => validateSendDenomMarker cfg toMarker marker

def sendRestrictionFnPreFix (cfg : Cfg) (amt : Coins) : Decision :=
  if onBypassPath cfg then
    if cfg.toAddr = cfg.feeCollectorAddr then forCoins (bypassFeeCollectorDenomPreFix cfg) amt
    else allow
  else
    match checkFromMarker cfg amt with
    | .error e => .error e
    | .ok _ =>
      let toMarker := getMarkerIgnoreErr cfg cfg.toAddr
      match checkToMarker cfg toMarker with
      | .error e => .error e
      | .ok _ => forCoins (validateSendDenomPreFix cfg toMarker) amt

def decidePreFix (cfg : Cfg) (amt : Coins) : Decision := sendRestrictionFnPreFix cfg amt

end PvModel.MkrSend
