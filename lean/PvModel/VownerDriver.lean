/-
Line-protocol driver + implementation-output checker for the C09 model (`vowner`).

Ops (one per line):
  write id=s1 owners=A|B vo=C signers=A|B        (vo=- : no value-owner field)
  write id=s1 owners=A|B? roll=1 vo=C signers=A  (roll=1 : require_party_rollup; `B?` : optional party)
  delete id=s1 signers=A
  updvo ids=s1|s2 vo=C signers=A
  migrate from=A to=B signers=A
  send from=A to=B ids=s1|s2                      (bank MsgSend signed by `from`)
  mwithdraw marker=MR admin=A to=B ids=s1         (marker MsgWithdraw signed by `admin`)
  grant granter=A grantee=B mt=write count=0      (count 0 = generic authorization)
  revoke granter=A grantee=B mt=write
  access marker=MR addr=A perms=withdraw|deposit  (perms=- : none)
  mstatus marker=MR status=cancelled              (proposed|finalized|active|cancelled|destroyed)
  msend from=A outs=B:s1|s2,C:s3                  (bank MsgMultiSend, one input, signed by `from`)
  mtransfer admin=A from=B to=C id=s1             (marker MsgTransfer of a scope token)
  mkadd signer=A id=s1 supply=1 type=restricted forced=1 msg=afa   (marker MsgAddFinalizeActivateMarker (afa) / MsgAddMarker (add) for a marker on the scope token's denom; signer gets every permission)
  ask seller=A asset=s1 price=5                   (exchange MsgCreateAsk: 1 unit of the scope token for 5 `$c`, signed by `seller`)
  fill buyer=B order=1 price=5                    (exchange MsgFillAsks of one ask order, signed by `buyer`)
  cancel signer=A order=1                         (exchange MsgCancelOrder)
  fund addr=A denom=$c amount=3                   (ordinary coins; `$c`, `$d`, `$nhash` are the non-scope denoms)
  bal addr=A denom=$c                             (bank balance, any denom; pure)
  denom s1                                        (scope denom round trip; pure)
  dump
The verdict of a `dump` line is the property's step checker (`stepClause`) applied to the
previous and the current dump OF THE IMPLEMENTATION and the operation in between.
-/
import PvModel.VownerSpec
-- registry: vowner PvModel.Vowner.driver

namespace PvModel.Vowner
open PvModel

def scopeUniverse : List ScopeId := ["s1", "s2", "s3", "s4"]

private def insertSorted (x : String) : List String → List String
  | [] => [x]
  | y :: ys => if x < y then x :: y :: ys else y :: insertSorted x ys

private def sortStrs (xs : List String) : List String := xs.foldl (fun acc x => insertSorted x acc) []

private def joinOr (xs : List String) (sep : String) : String := if xs.isEmpty then "-" else sep.intercalate xs

def showScopeObs (o : ScopeObs) : String :=
  let hs := sortStrs (o.holders.map fun (a, n) => s!"{a}*{n}")
  s!"{o.id}={boolStr o.exists_};{joinOr (sortStrs o.owners) "|"};{if o.vo = "" then "-" else o.vo};{joinOr hs "|"};{o.supply};{if o.qvo = "" then "-" else o.qvo};{joinOr (sortStrs o.listed) "|"};{boolStr o.rollup}"

def showObs (o : Obs) : String :=
  let gs := sortStrs (o.grants.map fun g => s!"{g.granter}>{g.grantee}:{g.mt.toString}:{g.count}")
  let ms := sortStrs (o.markers.map fun m =>
    s!"{m.addr}:{boolStr m.restricted}:{m.status.toString}:{joinOr (sortStrs (m.access.map fun (a, p) => s!"{a}.{p.toString}")) "+"}")
  let os := o.orders.map fun r => s!"{r.id}:{r.seller}:{r.asset}:{r.price}"
  let hs := o.holds.map fun (a, d) => s!"{a}.{d}"
  s!"{" ".intercalate (o.scopes.map showScopeObs)} grants={joinOr gs ","} markers={joinOr ms ","} orders={joinOr os ","} holds={joinOr hs ","}"

/-! ### parsing the implementation's dump back into an `Obs` -/

private def parseHolder (s : String) : Option (Addr × Int) :=
  match s.splitOn "*" with
  | [a, n] => (parseInt? n).map fun n => (a, n)
  | _ => none

private def parseScopeObs (w : String) : Option ScopeObs :=
  match w.splitOn "=" with
  | [id, rest] =>
    match rest.splitOn ";" with
    | [ex, owners, vo, holders, supply, qvo, listed, roll] => do
      let hs ← (splitList holders).mapM parseHolder
      let sup ← parseInt? supply
      pure { id, exists_ := ex = "1", owners := splitList owners, vo := if vo = "-" then "" else vo, holders := hs, supply := sup,
             qvo := if qvo = "-" then "" else qvo, listed := splitList listed, rollup := roll = "1" }
    | _ => none
  | _ => none

private def parseGrant (s : String) : Option Grant :=
  match s.splitOn ":" with
  | [gg, mt, c] =>
    match gg.splitOn ">" with
    | [granter, grantee] => do
      let mt ← MsgType.ofString? mt
      let c ← parseNat? c
      pure ⟨granter, grantee, mt, c⟩
    | _ => none
  | _ => none

private def parseAccessEnt (s : String) : Option (Addr × Access) :=
  match s.splitOn "." with
  | [a, p] => (Access.ofString? p).map fun p => (a, p)
  | _ => none

private def parseMarker (s : String) : Option Marker :=
  match s.splitOn ":" with
  | [a, r, st, acc] => do
    let acc ← (splitList acc "+").mapM parseAccessEnt
    let st ← MStatus.ofString? st
    pure ⟨a, r = "1", acc, st⟩
  | _ => none

private def parseOrder (s : String) : Option Order :=
  match s.splitOn ":" with
  | [i, seller, asset, p] => do pure ⟨← parseNat? i, seller, asset, ← parseNat? p⟩
  | _ => none

private def parseHold (s : String) : Option (Addr × Denom) :=
  match s.splitOn "." with
  | [a, d] => some (a, d)
  | _ => none

def parseObs (line : String) : Option Obs := do
  let ws := words line
  let scs ← (ws.filter fun w => !(w.startsWith "grants=" || w.startsWith "markers=" || w.startsWith "orders=" || w.startsWith "holds=")).mapM parseScopeObs
  let os ← (splitList ((kv ws "orders").getD "-") ",").mapM parseOrder
  let hs ← (splitList ((kv ws "holds").getD "-") ",").mapM parseHold
  let gs ← (splitList ((kv ws "grants").getD "-") ",").mapM parseGrant
  let ms ← (splitList ((kv ws "markers").getD "-") ",").mapM parseMarker
  pure { scopes := scs, grants := gs, markers := ms, orders := os, holds := hs }

/-! ### ops -/

private def addrArg (ws : List String) (k : String) : Option Addr :=
  (kv ws k).map fun v => if v = "-" then "" else v

/-- `B?` is the optional party `B` -/
def parseParty (w : String) : Party :=
  if w.endsWith "?" then ⟨(w.dropEnd 1).toString, true⟩ else ⟨w, false⟩

def parseOp (ws : List String) : Option Op :=
  match ws with
  | "write" :: rest => do
    pure (.write (← kv rest "id") ((splitList (← kv rest "owners")).map parseParty) ((kv rest "roll").getD "0" = "1")
      (← addrArg rest "vo") (splitList (← kv rest "signers")))
  | "delete" :: rest => do pure (.delete (← kv rest "id") (splitList (← kv rest "signers")))
  | "updvo" :: rest => do
    pure (.updvo (splitList (← kv rest "ids")) (← addrArg rest "vo") (splitList (← kv rest "signers")))
  | "migrate" :: rest => do
    pure (.migrate (← addrArg rest "from") (← addrArg rest "to") (splitList (← kv rest "signers")))
  | "send" :: rest => do pure (.send (← kv rest "from") (← kv rest "to") (splitList (← kv rest "ids")))
  | "mwithdraw" :: rest => do
    pure (.mwithdraw (← kv rest "marker") (← kv rest "admin") (← kv rest "to") (splitList (← kv rest "ids")))
  | "grant" :: rest => do
    pure (.grant (← kv rest "granter") (← kv rest "grantee") (← (kv rest "mt") >>= MsgType.ofString?)
      (← (kv rest "count") >>= parseNat?))
  | "revoke" :: rest => do
    pure (.revoke (← kv rest "granter") (← kv rest "grantee") (← (kv rest "mt") >>= MsgType.ofString?))
  | "access" :: rest => do
    pure (.access (← kv rest "marker") (← kv rest "addr") (← (splitList (← kv rest "perms")).mapM Access.ofString?))
  | "mstatus" :: rest => do
    pure (.mstatus (← kv rest "marker") (← (kv rest "status") >>= MStatus.ofString?))
  | "msend" :: rest => do
    let outs ← (splitList (← kv rest "outs") ",").mapM fun w =>
      match w.splitOn ":" with
      | [to, ids] => some (to, splitList ids)
      | _ => none
    pure (.msend (← kv rest "from") outs)
  | "mtransfer" :: rest => do
    pure (.mtransfer (← kv rest "admin") (← kv rest "from") (← kv rest "to") (← kv rest "id"))
  | "mkadd" :: rest => do
    pure (.mkadd (← kv rest "signer") (← kv rest "id") (← (kv rest "supply") >>= parseNat?)
      ((kv rest "type").getD "coin" = "restricted") ((kv rest "forced").getD "0" = "1"))
  | "ask" :: rest => do
    pure (.ask (← kv rest "seller") (← kv rest "asset") (← (kv rest "price") >>= parseNat?))
  | "fill" :: rest => do
    pure (.fill (← kv rest "buyer") (← (kv rest "order") >>= parseNat?) (← (kv rest "price") >>= parseNat?))
  | "cancel" :: rest => do
    pure (.cancel (← kv rest "signer") (← (kv rest "order") >>= parseNat?))
  | "fund" :: rest => do
    pure (.fund (← kv rest "addr") (← kv rest "denom") (← (kv rest "amount") >>= parseNat?))
  | _ => none

def kindName : StepKind → String
  | .msg mt => mt.toString
  | .send => "send"
  | .mwithdraw => "mwithdraw"
  | .env => "env"
  | .fill _ => "fill"

structure DState where
  model : State := {}
  /-- the implementation's previous dump -/
  prevImpl : Option Obs := none
  /-- the operation since then, with the implementation's verdict on it -/
  last : Option StepInfo := none

def stepLine (d : DState) (ws : List String) (impl : Option String) : DState × String × String :=
  match ws with
  | ["dump"] =>
    let out := showObs (observe d.model scopeUniverse)
    match impl with
    | none => (d, out, "-")
    | some i =>
      match parseObs i with
      | none => ({ d with last := none }, out, "fail:unparsable_dump")
      | some post =>
        let st : StepInfo := d.last.getD { kind := .env, signers := [], accepted := false }
        let v := match d.prevImpl with
          | none => (post.scopes.findSome? tokenClause)
          | some pre => stepClause pre st post
        let verdict := match v with
          | none => "ok"
          | some c => s!"fail:{c}:{kindName st.kind}"
        ({ d with prevImpl := some post, last := none }, out, verdict)
  | ["denom", _] => (d, "ok", "-")
  | ["bal", a, dn] =>
    match kv [a, dn] "addr", kv [a, dn] "denom" with
    | some a, some dn => (d, s!"ok {Ledger.bal d.model.ledger a dn}", "-")
    | _, _ => (d, "bad-op", "-")
  | _ =>
    match parseOp ws with
    | none => (d, "bad-op", "-")
    | some op =>
      let (s', out) := applyOp d.model op
      let last := impl.map fun i => stepInfo op ((words i).headD "" = "ok")
      ({ d with model := s', last := last }, out, "-")

def driver : Driver where
  σ := DState
  init := {}
  step := fun d op impl => stepLine d (words op) impl

end PvModel.Vowner
