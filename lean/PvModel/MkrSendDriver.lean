/-
Line-protocol driver + implementation-output checker for the C04 model (`mkrsend`).

ops (addresses are symbolic; `mk:<denom>` is the marker address of `<denom>`):
  send bypass=0|1 fg=0|1 from=<addr> to=<addr> agents=<a|b|-> coins=<5dna,2dnb> markers=<m|m|-> rattrs=<n|n|->
       marker  m = <denom>;x                                   a non-marker account sits at the denom's address
                 | <denom>;c|r;p|f|a|c|d;<grants>;<reqattrs>;<deny>
       grants    = <addr>+<rights>,…   rights ⊆ m b d w e a t f   (mint burn deposit withdraw delete admin transfer force)
       → allow | deny:<class>
  bank <same fields> via=send|inout|delegate [fund=<coins>]
       the same movement through the real bank keeper (model: `PvModel.MkrSend.Bank.sendCoins` /
       `inputOutputCoinsProv` with one input and one output / `delegateCoins` on a ledger where the sender
       holds `fund`, default = the coins; nothing locked, no later restriction interferes)
       → allow moved | deny:<class> unmoved | err:bank unmoved (invalid coins, insufficient funds, …)
  bankx <same fields> via=send|inout|multi|delegate [outs=<coins>@<addr>/<coins>@<addr>…] [ins=…] [rto=<a|a>]
        [fund=<coins>] [hold=<coins>] [sanc=<a|a>] [quar=<a|a>] [qacc=<a|a>]
       the bank op with everything the app composes around the marker restriction: one input and several
       outputs (`outs`, `coins` = the input's coins) or several inputs and one output (`ins`, `coins` = the
       output's coins) through InputOutputCoinsProv, part of the sender's balance on hold (`hold`: the hold
       module's locked coins), sanctioned addresses (`sanc`), receivers that opted into quarantine (`quar`;
       `qacc`: of those, the ones auto-accepting the payers), `rto`: further addresses holding `rattrs`.
       The sender holds `fund` (default: its inputs), other payers exactly their inputs.
       → allow | deny:<class> | err:invalid|funds|mismatch|noinputs|nooutputs|manytomany|nomodacc|later
         followed by `<addr>=<coins>` — the balance AFTER the call of the sender, `to`, every payer, every
         receiver and the quarantine funds holder, in the denoms of fund/coins/ins/outs (first appearance)
       (model: `Bank.sendCoins` / `inputOutputCoinsProv` / `delegateCoins` with `later = Bank.appLater`;
        verdict: `Bank.Spec.outcome` / `expectedBal` against the implementation's class and balances)
  match <required> <attribute>           keeper.MatchAttribute            → 1 | 0      (`~` = empty string)
  bypasslist                             the app's required-attribute bypass set → sorted symbolic names
The verdict is the documented flowchart's answer (`Spec.sendRestrictionFn`) against the
implementation's allow/deny.
-/
import PvModel.MkrSendSpec
import PvModel.MkrBank
import PvModel.MkrBankSpec
import PvModel.Util
-- registry: mkrsend PvModel.MkrSend.driver

namespace PvModel.MkrSend
open PvModel

def parseAccess (c : Char) : Option Access :=
  match c with
  | 'm' => some .mint | 'b' => some .burn | 'd' => some .deposit | 'w' => some .withdraw
  | 'e' => some .delete | 'a' => some .admin | 't' => some .transfer | 'f' => some .forceTransfer
  | _ => none

def parseGrant (s : String) : Option Grant :=
  match s.splitOn "+" with
  | [a, r] => do
    let ps ← r.toList.mapM parseAccess
    pure { addr := a, perms := ps }
  | _ => none

def parseStatus (s : String) : Option MStatus :=
  match s with
  | "p" => some .proposed | "f" => some .finalized | "a" => some .active
  | "c" => some .cancelled | "d" => some .destroyed | _ => none

/-- `(denom, account at the denom's marker address)` -/
def parseMarker (s : String) : Option (Denom × Acct) :=
  match s.splitOn ";" with
  | [d, "x"] => some (d, .other)
  | [d, ty, st, gs, ras, dn] => do
    let mtype ← match ty with | "c" => some MType.coin | "r" => some MType.restricted | _ => none
    let status ← parseStatus st
    let access ← (splitList gs ",").mapM parseGrant
    pure (d, .marker { denom := d, mtype, status, access,
                       reqAttrs := (splitList ras ",").map String.toList, deny := splitList dn "," })
  | _ => none

structure Case where
  cfg : Cfg
  amt : Coins

def markerAddrOf (d : Denom) : Addr := "mk:" ++ d

def parseCase (ws : List String) : Option Case := do
  let b ← kv ws "bypass"
  let fg ← kv ws "fg"
  let from_ ← kv ws "from"
  let to ← kv ws "to"
  let agents := splitList ((kv ws "agents").getD "-")
  let amt ← parseCoins? ((kv ws "coins").getD "-")
  let ms ← (splitList ((kv ws "markers").getD "-")).mapM parseMarker
  let rattrs := (splitList ((kv ws "rattrs").getD "-")).map String.toList
  let tbl : List (Addr × Acct) := ms.map fun (d, a) => (markerAddrOf d, a)
  pure {
    cfg := {
      bypass := b = "1", feeGrant := fg = "1", fromAddr := from_, toAddr := to, agents,
      acct := fun a => (tbl.lookup a).getD .none,
      markerAddr := markerAddrOf,
      attrs := fun a => if a = to then rattrs else [],
      markerModuleAddr := "mod:marker", ibcTransferModuleAddr := "mod:transfer", feeCollectorAddr := "fc",
      reqAttrBypass := Spec.bypassAccounts },
    amt }

/-- The class the Go harness derives from the error text. -/
def Reason.cls : Reason → String
  | .fcBypass => "fc_bypass"
  | .notMarker => "notmarker"
  | .withdrawNoAgent => "withdraw_noagent"
  | .withdraw => "withdraw"
  | .fromStatus => "from_status"
  | .depositAgent => "deposit"
  | .depositSender => "deposit"
  | .status => "status"
  | .fc => "fc"
  | .denyList => "denylist"
  | .transferToMarker => "transfer_to_marker"
  | .transfer => "transfer"
  | .attrs => "attrs"

def showDecision : Decision → String
  | .ok _ => "allow"
  | .error r => "deny:" ++ r.cls

def unTilde (s : String) : String := if s = "~" then "" else s

/-! ### the `bank` op: the movement through the bank wiring model -/

/-- The harness' world: nothing locked, sanction/quarantine not involved, module accounts exist. -/
def bankWorld (c : Case) : Bank.World :=
  { env := c.cfg, locked := fun _ _ => 0, later := Bank.noLater, hasAccount := fun _ => true }

/-- "moved" / "unmoved" / "partial" from the balances of sender and receiver before and after, coin by
coin, as `execBank` computes it. -/
def movedStr (l l' : Ledger) (f t : Addr) (amt : Coins) : String :=
  let moved := amt.all fun c =>
    Decidable.decide (l.bal f c.1 - l'.bal f c.1 = c.2) && Decidable.decide (l'.bal t c.1 - l.bal t c.1 = c.2)
  let unmoved := amt.all fun c =>
    Decidable.decide (l'.bal f c.1 = l.bal f c.1) && Decidable.decide (l'.bal t c.1 = l.bal t c.1)
  if moved then "moved" else if unmoved then "unmoved" else "partial"

def bankRun (c : Case) (via : String) (fund : Option Coins) : String :=
  let w := bankWorld c
  let f := c.cfg.fromAddr
  let t := c.cfg.toAddr
  let l : Ledger := Ledger.credit [] f (fund.getD c.amt)
  let res :=
    if via = "inout" then Bank.inputOutputCoinsProv w l [⟨f, c.amt⟩] [⟨t, c.amt⟩]
    else if via = "delegate" then Bank.delegateCoins w l f t c.amt
    else Bank.sendCoins w l f t c.amt
  let mv := movedStr l (Bank.commit l res) f t c.amt
  match res with
  | .ok _ => "allow " ++ mv
  | .error (.denied r) => "deny:" ++ r.cls ++ " " ++ mv
  | .error _ => "err:bank " ++ mv

/-! ### the `bankx` op -/

structure CaseX where
  c : Case
  via : String
  ins : List Bank.IO      -- as written (empty = the one input `from`/`coins`)
  outs : List Bank.IO     -- as written (empty = the one output `to`/`coins`)
  fund : Option Coins
  hold : Coins
  sanc : List Addr
  quar : List Addr
  qacc : List Addr
  rto : List Addr

def parseIOs (s : String) : Option (List Bank.IO) :=
  (splitList s "/").mapM fun p =>
    match p.splitOn "@" with
    | [cs, a] => (parseCoins? cs).map fun c => ⟨a, c⟩
    | _ => none

def parseCaseX (ws : List String) : Option CaseX := do
  let c ← parseCase ws
  let ins ← parseIOs ((kv ws "ins").getD "-")
  let outs ← parseIOs ((kv ws "outs").getD "-")
  let hold ← parseCoins? ((kv ws "hold").getD "-")
  pure { c, via := (kv ws "via").getD "send", ins, outs, fund := (kv ws "fund").bind parseCoins?, hold,
         sanc := splitList ((kv ws "sanc").getD "-"), quar := splitList ((kv ws "quar").getD "-"),
         qacc := splitList ((kv ws "qacc").getD "-"), rto := splitList ((kv ws "rto").getD "-") }

def quarantineHolder : Addr := "bp:quarantine"

namespace CaseX

def from_ (x : CaseX) : Addr := x.c.cfg.fromAddr
def to (x : CaseX) : Addr := x.c.cfg.toAddr
def insE (x : CaseX) : List Bank.IO := if x.ins.isEmpty then [⟨x.from_, x.c.amt⟩] else x.ins
def outsE (x : CaseX) : List Bank.IO := if x.outs.isEmpty then [⟨x.to, x.c.amt⟩] else x.outs
/-- a plain send / a delegation names one payer and one receiver whatever `ins`/`outs` say -/
def single (x : CaseX) : Bool := x.via = "send" || x.via = "delegate"
def insU (x : CaseX) : List Bank.IO := if x.single then [⟨x.from_, x.c.amt⟩] else x.insE
def outsU (x : CaseX) : List Bank.IO := if x.single then [⟨x.to, x.c.amt⟩] else x.outsE

def laterCfg (x : CaseX) : Bank.LaterCfg :=
  { sanctioned := x.sanc.contains, quarantined := x.quar.contains,
    autoAccept := fun t _ => x.qacc.contains t, fundsHolder := quarantineHolder }

def locked (x : CaseX) : Addr → Denom → Int :=
  fun a d => if a = x.from_ then Coins.amountOf x.hold d else 0

/-- the stores: `rattrs` sit on `to` and on the `rto` addresses -/
def env (x : CaseX) : Cfg :=
  { x.c.cfg with attrs := fun a => if a = x.to || x.rto.contains a then x.c.cfg.attrs x.to else [] }

def world (x : CaseX) : Bank.World :=
  { env := x.env, locked := x.locked, later := Bank.appLater x.laterCfg, hasAccount := fun _ => true }

/-- balances before the call: the sender holds `fund` (default: its inputs), every other payer its inputs -/
def ledger0 (x : CaseX) : Ledger :=
  let own := Bank.sumCoins (x.insE.filter fun i => i.addr = x.from_)
  (x.insE.filter fun i => ¬ i.addr = x.from_).foldl (fun l i => l.credit i.addr i.coins)
    (Ledger.credit [] x.from_ (x.fund.getD own))

def dumpDenoms (x : CaseX) : List Denom :=
  (Coins.denoms (x.fund.getD []) ++ Coins.denoms x.c.amt ++ Bank.Spec.allDenoms x.ins ++ Bank.Spec.allDenoms x.outs).eraseDups

def dumpAccts (x : CaseX) : List Addr :=
  ([x.from_, x.to] ++ x.ins.map (·.addr) ++ x.outs.map (·.addr) ++ [quarantineHolder]).eraseDups

def dump (x : CaseX) (bal : Addr → Denom → Int) : String :=
  " ".intercalate (x.dumpAccts.map fun a =>
    a ++ "=" ++ showCoins ((x.dumpDenoms.map fun d => (d, bal a d)).filter fun c => c.2 ≠ 0))

def call (x : CaseX) : Except Bank.Err Ledger :=
  if x.via = "delegate" then Bank.delegateCoins x.world x.ledger0 x.from_ x.to x.c.amt
  else if x.via = "send" then Bank.sendCoins x.world x.ledger0 x.from_ x.to x.c.amt
  else Bank.inputOutputCoinsProv x.world x.ledger0 x.insE x.outsE

end CaseX

def resultStr : Except Bank.Err Ledger → String
  | .ok _ => "allow"
  | .error (.denied r) => "deny:" ++ r.cls
  | .error .invalid => "err:invalid"
  | .error .funds => "err:funds"
  | .error .noInputs => "err:noinputs"
  | .error .noOutputs => "err:nooutputs"
  | .error .manyToMany => "err:manytomany"
  | .error .mismatch => "err:mismatch"
  | .error .noModuleAcc => "err:nomodacc"
  | .error .later => "err:later"

def bankxRun (x : CaseX) : String :=
  let res := x.call
  resultStr res ++ " " ++ x.dump (Bank.commit x.ledger0 res).bal

/-- The property's conclusion on a `bankx` line: the class and the balances the implementation reports
against `Bank.Spec.outcome` / `expectedBal`. -/
def checkX (x : CaseX) (iw : List String) : String :=
  match iw with
  | [] => "fail:bankx_unparsed"
  | cls :: bals =>
    let oc := Bank.Spec.outcome x.env x.laterCfg x.locked x.ledger0 x.insU x.outsU
    let want := x.dump (Bank.Spec.expectedBal x.env x.laterCfg (x.via = "delegate") x.locked x.ledger0 x.insU x.outsU)
    let same := " ".intercalate bals = want
    let isBankErr := cls.startsWith "err:" && cls ≠ "err:later"
    match oc with
    | .rejected =>
      if isBankErr && same then "ok" else "fail:bankx_malformed_or_unfunded_not_rejected"
    | .performed =>
      if cls = "allow" then (if same then "ok" else "fail:bankx_allowed_wrong_balances")
      else if cls.startsWith "deny:" then "fail:bankx_denied_but_rules_allow:" ++ (cls.drop 5).toString
      else "fail:bankx_refused_but_nothing_forbids:" ++ cls
    | .refused rules sanction =>
      if cls = "allow" then
        (if rules then "fail:bankx_moved_but_rules_deny" else "fail:bankx_sanctioned_payer_moved")
      else if !same then "fail:bankx_refused_yet_balances_changed"
      else if !rules && cls ≠ "err:later" then "fail:bankx_denied_but_rules_allow:" ++ cls
      else if !sanction && !cls.startsWith "deny:" then "fail:bankx_wrong_refusal:" ++ cls
      else if cls.startsWith "deny:" || cls = "err:later" then "ok"
      else "fail:bankx_wrong_refusal:" ++ cls

def run (ws : List String) : String :=
  match ws with
  | "send" :: rest =>
    match parseCase rest with
    | some c => showDecision (decide c.cfg c.amt)
    | none => "bad-op"
  | "bank" :: rest =>
    match parseCase rest with
    | some c => bankRun c ((kv rest "via").getD "send") ((kv rest "fund").bind parseCoins?)
    | none => "bad-op"
  | "bankx" :: rest =>
    match parseCaseX rest with
    | some x => bankxRun x
    | none => "bad-op"
  | ["match", r, a] => boolStr (matchAttribute (unTilde r).toList (unTilde a).toList)
  | ["bypasslist"] => "|".intercalate Spec.bypassAccounts
  | _ => "bad-op"

def isSortedCoins (amt : Coins) : Bool := Decidable.decide (Spec.DenomsAscending amt)

/-- The property's conclusion on the implementation's answer: permitted exactly when the
documented rules permit. -/
def check (ws : List String) (impl : String) : String :=
  let iw := words impl
  match ws with
  | "send" :: rest =>
    match parseCase rest with
    | some c =>
      if !isSortedCoins c.amt then "-" else
      let flow := Spec.sendRestrictionFn c.cfg c.amt
      match iw with
      | [d] =>
        if d = "allow" then
          match flow with
          | .ok => "ok"
          | .denied n => "fail:allowed_but_rules_deny:" ++ n.name
        else if d.startsWith "deny:" then
          match flow with
          | .ok => "fail:denied_but_rules_allow:" ++ (d.drop 5).toString
          | .denied _ => "ok"
        else "fail:unparsed"
      | _ => "fail:unparsed"
    | none => "-"
  | "bank" :: rest =>
    match parseCase rest with
    | some c =>
      -- the bank's own preconditions (sdk.Coins validity, spendable funds) come before the restriction:
      -- such a movement must fail without touching a balance, whatever the rules say
      let l : Ledger := Ledger.credit [] c.cfg.fromAddr (((kv rest "fund").bind parseCoins?).getD c.amt)
      if !Bank.isValid c.amt || !Bank.fundsSuffice (bankWorld c) l c.cfg.fromAddr c.amt then
        (if iw = ["err:bank", "unmoved"] then "ok" else "fail:bank_invalid_or_unfunded_not_rejected")
      else
      match Spec.sendRestrictionFn c.cfg c.amt, iw with
      | .ok, ["allow", "moved"] => "ok"
      | .ok, [d, "unmoved"] =>
        if d.startsWith "deny:" then "fail:bank_denied_but_rules_allow:" ++ (d.drop 5).toString else "fail:bank_allowed_nothing_moved"
      | .denied n, ["allow", "moved"] => "fail:bank_moved_but_rules_deny:" ++ n.name
      | .denied _, [d, "unmoved"] => if d.startsWith "deny:" then "ok" else "fail:bank_allowed_nothing_moved"
      | _, [_, "moved"] => "fail:bank_denied_yet_moved"
      | _, _ => "fail:bank_unexpected"
    | none => "-"
  | "bankx" :: rest =>
    match parseCaseX rest with
    | some x => checkX x iw
    | none => "-"
  | ["match", r, a] =>
    if boolStr (Spec.satisfies (unTilde r).toList (unTilde a).toList) = impl then "ok" else "fail:match_attribute"
  | ["bypasslist"] => if impl = "|".intercalate Spec.bypassAccounts then "ok" else "fail:bypass_set"
  | _ => "-"

def driver : Driver where
  σ := Unit
  init := ()
  step := fun _ op impl =>
    let ws := words op
    ((), run ws, match impl with | some i => check ws i | none => "-")

end PvModel.MkrSend
