/-
Line-protocol driver + implementation-output checker for the C04 model (`mkrsend`).

ops (addresses are symbolic; `mk:<denom>` is the marker address of `<denom>`):
  send bypass=0|1 fg=0|1 from=<addr> to=<addr> agents=<a|b|-> coins=<5dna,2dnb> markers=<m|m|-> rattrs=<n|n|->
       marker  m = <denom>;x                                   a non-marker account sits at the denom's address
                 | <denom>;c|r;p|f|a|c|d;<grants>;<reqattrs>;<deny>
       grants    = <addr>+<rights>,…   rights ⊆ m b d w e a t f   (mint burn deposit withdraw delete admin transfer force)
       → allow | deny:<class>
  bank <same fields> via=send|inout|delegate [fund=<coins>]
       the same movement through the real bank keeper (model: `PvModel.MkrSend.Bank.sendCoins` /
       `inputOutputCoinsProv` with one input and one output / `delegateCoins` on a ledger where the sender
       holds `fund`, default = the coins; nothing locked, no later restriction interferes)
       → allow moved | deny:<class> unmoved | err:bank unmoved (invalid coins, insufficient funds, …)
  match <required> <attribute>           keeper.MatchAttribute            → 1 | 0      (`~` = empty string)
  bypasslist                             the app's required-attribute bypass set → sorted symbolic names
The verdict is the documented flowchart's answer (`Spec.sendRestrictionFn`) against the
implementation's allow/deny.
-/
import PvModel.MkrSendSpec
import PvModel.MkrBank
import PvModel.Util
-- registry: mkrsend PvModel.MkrSend.driver

namespace PvModel.MkrSend
open PvModel

def parseAccess (c : Char) : Option Access :=
  match c with
  | 'm' => some .mint | 'b' => some .burn | 'd' => some .deposit | 'w' => some .withdraw
  | 'e' => some .delete | 'a' => some .admin | 't' => some .transfer | 'f' => some .forceTransfer
  | _ => none

def parseGrant (s : String) : Option Grant :=
  match s.splitOn "+" with
  | [a, r] => do
    let ps ← r.toList.mapM parseAccess
    pure { addr := a, perms := ps }
  | _ => none

def parseStatus (s : String) : Option MStatus :=
  match s with
  | "p" => some .proposed | "f" => some .finalized | "a" => some .active
  | "c" => some .cancelled | "d" => some .destroyed | _ => none

/-- `(denom, account at the denom's marker address)` -/
def parseMarker (s : String) : Option (Denom × Acct) :=
  match s.splitOn ";" with
  | [d, "x"] => some (d, .other)
  | [d, ty, st, gs, ras, dn] => do
    let mtype ← match ty with | "c" => some MType.coin | "r" => some MType.restricted | _ => none
    let status ← parseStatus st
    let access ← (splitList gs ",").mapM parseGrant
    pure (d, .marker { denom := d, mtype, status, access,
                       reqAttrs := (splitList ras ",").map String.toList, deny := splitList dn "," })
  | _ => none

structure Case where
  cfg : Cfg
  amt : Coins

def markerAddrOf (d : Denom) : Addr := "mk:" ++ d

def parseCase (ws : List String) : Option Case := do
  let b ← kv ws "bypass"
  let fg ← kv ws "fg"
  let from_ ← kv ws "from"
  let to ← kv ws "to"
  let agents := splitList ((kv ws "agents").getD "-")
  let amt ← parseCoins? ((kv ws "coins").getD "-")
  let ms ← (splitList ((kv ws "markers").getD "-")).mapM parseMarker
  let rattrs := (splitList ((kv ws "rattrs").getD "-")).map String.toList
  let tbl : List (Addr × Acct) := ms.map fun (d, a) => (markerAddrOf d, a)
  pure {
    cfg := {
      bypass := b = "1", feeGrant := fg = "1", fromAddr := from_, toAddr := to, agents,
      acct := fun a => (tbl.lookup a).getD .none,
      markerAddr := markerAddrOf,
      attrs := fun a => if a = to then rattrs else [],
      markerModuleAddr := "mod:marker", ibcTransferModuleAddr := "mod:transfer", feeCollectorAddr := "fc",
      reqAttrBypass := Spec.bypassAccounts },
    amt }

/-- The class the Go harness derives from the error text. -/
def Reason.cls : Reason → String
  | .fcBypass => "fc_bypass"
  | .notMarker => "notmarker"
  | .withdrawNoAgent => "withdraw_noagent"
  | .withdraw => "withdraw"
  | .fromStatus => "from_status"
  | .depositAgent => "deposit"
  | .depositSender => "deposit"
  | .status => "status"
  | .fc => "fc"
  | .denyList => "denylist"
  | .transferToMarker => "transfer_to_marker"
  | .transfer => "transfer"
  | .attrs => "attrs"

def showDecision : Decision → String
  | .ok _ => "allow"
  | .error r => "deny:" ++ r.cls

def unTilde (s : String) : String := if s = "~" then "" else s

/-! ### the `bank` op: the movement through the bank wiring model -/

/-- The harness' world: nothing locked, sanction/quarantine not involved, module accounts exist. -/
def bankWorld (c : Case) : Bank.World :=
  { env := c.cfg, locked := fun _ _ => 0, later := Bank.noLater, hasAccount := fun _ => true }

/-- "moved" / "unmoved" / "partial" from the balances of sender and receiver before and after, coin by
coin, as `execBank` computes it. -/
def movedStr (l l' : Ledger) (f t : Addr) (amt : Coins) : String :=
  let moved := amt.all fun c =>
    Decidable.decide (l.bal f c.1 - l'.bal f c.1 = c.2) && Decidable.decide (l'.bal t c.1 - l.bal t c.1 = c.2)
  let unmoved := amt.all fun c =>
    Decidable.decide (l'.bal f c.1 = l.bal f c.1) && Decidable.decide (l'.bal t c.1 = l.bal t c.1)
  if moved then "moved" else if unmoved then "unmoved" else "partial"

def bankRun (c : Case) (via : String) (fund : Option Coins) : String :=
  let w := bankWorld c
  let f := c.cfg.fromAddr
  let t := c.cfg.toAddr
  let l : Ledger := Ledger.credit [] f (fund.getD c.amt)
  let res :=
    if via = "inout" then Bank.inputOutputCoinsProv w l [⟨f, c.amt⟩] [⟨t, c.amt⟩]
    else if via = "delegate" then Bank.delegateCoins w l f t c.amt
    else Bank.sendCoins w l f t c.amt
  let mv := movedStr l (Bank.commit l res) f t c.amt
  match res with
  | .ok _ => "allow " ++ mv
  | .error (.denied r) => "deny:" ++ r.cls ++ " " ++ mv
  | .error _ => "err:bank " ++ mv

def run (ws : List String) : String :=
  match ws with
  | "send" :: rest =>
    match parseCase rest with
    | some c => showDecision (decide c.cfg c.amt)
    | none => "bad-op"
  | "bank" :: rest =>
    match parseCase rest with
    | some c => bankRun c ((kv rest "via").getD "send") ((kv rest "fund").bind parseCoins?)
    | none => "bad-op"
  | ["match", r, a] => boolStr (matchAttribute (unTilde r).toList (unTilde a).toList)
  | ["bypasslist"] => "|".intercalate Spec.bypassAccounts
  | _ => "bad-op"

def isSortedCoins (amt : Coins) : Bool := Decidable.decide (Spec.DenomsAscending amt)

/-- The property's conclusion on the implementation's answer: permitted exactly when the
documented rules permit. -/
def check (ws : List String) (impl : String) : String :=
  let iw := words impl
  match ws with
  | "send" :: rest =>
    match parseCase rest with
    | some c =>
      if !isSortedCoins c.amt then "-" else
      let flow := Spec.sendRestrictionFn c.cfg c.amt
      match iw with
      | [d] =>
        if d = "allow" then
          match flow with
          | .ok => "ok"
          | .denied n => "fail:allowed_but_rules_deny:" ++ n.name
        else if d.startsWith "deny:" then
          match flow with
          | .ok => "fail:denied_but_rules_allow:" ++ (d.drop 5).toString
          | .denied _ => "ok"
        else "fail:unparsed"
      | _ => "fail:unparsed"
    | none => "-"
  | "bank" :: rest =>
    match parseCase rest with
    | some c =>
      -- the bank's own preconditions (sdk.Coins validity, spendable funds) come before the restriction:
      -- such a movement must fail without touching a balance, whatever the rules say
      let l : Ledger := Ledger.credit [] c.cfg.fromAddr (((kv rest "fund").bind parseCoins?).getD c.amt)
      if !Bank.isValid c.amt || !Bank.fundsSuffice (bankWorld c) l c.cfg.fromAddr c.amt then
        (if iw = ["err:bank", "unmoved"] then "ok" else "fail:bank_invalid_or_unfunded_not_rejected")
      else
      match Spec.sendRestrictionFn c.cfg c.amt, iw with
      | .ok, ["allow", "moved"] => "ok"
      | .ok, [d, "unmoved"] =>
        if d.startsWith "deny:" then "fail:bank_denied_but_rules_allow:" ++ (d.drop 5).toString else "fail:bank_allowed_nothing_moved"
      | .denied n, ["allow", "moved"] => "fail:bank_moved_but_rules_deny:" ++ n.name
      | .denied _, [d, "unmoved"] => if d.startsWith "deny:" then "ok" else "fail:bank_allowed_nothing_moved"
      | _, [_, "moved"] => "fail:bank_denied_yet_moved"
      | _, _ => "fail:bank_unexpected"
    | none => "-"
  | ["match", r, a] =>
    if boolStr (Spec.satisfies (unTilde r).toList (unTilde a).toList) = impl then "ok" else "fail:match_attribute"
  | ["bypasslist"] => if impl = "|".intercalate Spec.bypassAccounts then "ok" else "fail:bypass_set"
  | _ => "-"

def driver : Driver where
  σ := Unit
  init := ()
  step := fun _ op impl =>
    let ws := words op
    ((), run ws, match impl with | some i => check ws i | none => "-")

end PvModel.MkrSend
