/-
C04 — the documented rules: the four flowcharts of `x/marker/spec/12_transfers.md`
("Send Restrictions / Flowcharts"), transcribed node by node.  Every question node of a
chart is one `def` with the chart's node id and its text; every chart is one function that
follows the chart's edges and says at which node the send was denied.

Nothing here is taken from the Go control flow or from `PvModel.MkrSend`'s functions: only
the data types (`Cfg`, `Marker`, …) are shared.  The questions are answered declaratively
(`hasAccess` is "some grant for that address lists the right", "Amount has denom" is
`amountOf ≠ 0`, …).

The fixed set of bypass accounts (the property's "fee collector, quarantine, gov,
distribution, bonded and not-bonded pools") is `bypassAccounts`; the driver checks the
set the real app hands to the marker keeper against it.
-/
import PvModel.MkrSend

namespace PvModel.MkrSend.Spec
open PvModel

/-- Question nodes that have a "Send denied" edge, by their id in the flowcharts
(`isdm` has none; it is listed so that the refusal of the code before ed45788f3 has a node to point at). -/
inductive Node
  | qrc        -- top level: "Is there a restricted coin in the Amount?"           (yes → denied)
  | istaw      -- checkSenderMarker: "Does a Transfer Agent have withdraw access?"  (no → denied)
  | issma      -- checkSenderMarker: "Is Sender marker active?"                     (no → denied)
  | isrd       -- checkReceiverMarker: "Does Sender have deposit access?"           (no → denied)
  | istad      -- checkReceiverMarker: "Does a Transfer Agent have deposit access?" (no → denied)
  | isdm       -- validateSendDenom: "Is there a marker for Denom?"                 (no deny edge)
  | isma       -- validateSendDenom: "Is the marker active?"                        (no → denied)
  | qistofc    -- validateSendDenom: "Is Receiver the fee collector?"               (yes → denied)
  | qisdeny    -- validateSendDenom: "Is Sender on marker's deny list?"             (yes → denied)
  | qisdep     -- validateSendDenom: "Is Receiver a marker account?"                (yes → denied)
  | qissbp     -- validateSendDenom: "Is Sender a bypass account?"                  (no → denied)
  | qrhasattr  -- validateSendDenom: "Does Receiver have the required attributes?"  (no → denied)
  deriving DecidableEq, Repr

def Node.name : Node → String
  | .qrc => "qrc" | .istaw => "istaw" | .issma => "issma" | .isrd => "isrd" | .istad => "istad"
  | .isdm => "isdm" | .isma => "isma" | .qistofc => "qistofc" | .qisdeny => "qisdeny"
  | .qisdep => "qisdep" | .qissbp => "qissbp" | .qrhasattr => "qrhasattr"

/-- Outcome of a chart: the green terminal, or the red one together with the question that led to it. -/
inductive Flow
  | ok
  | denied (node : Node)
  deriving DecidableEq, Repr

def Flow.isOk : Flow → Bool
  | .ok => true
  | .denied _ => false

/-! ### Vocabulary of the document -/

/-- "`a` has `role` on marker `m`": a grant for `a` lists the role (Definitions / Transfer Permission). -/
def hasAccess (m : Marker) (a : Addr) (role : Access) : Bool :=
  a ≠ "" && m.access.any fun g => g.addr = a ∧ role ∈ g.perms

/-- "Is `a` a marker?" — the account at `a` is a marker account. -/
def markerAt (cfg : Cfg) (a : Addr) : Option Marker :=
  match cfg.acct a with
  | .marker m => some m
  | _ => none

/-- "the marker for Denom". -/
def markerOf (cfg : Cfg) (d : Denom) : Option Marker := markerAt cfg (cfg.markerAddr d)

def isRestrictedCoin (cfg : Cfg) (d : Denom) : Bool :=
  match markerOf cfg d with
  | some m => m.mtype = .restricted
  | none => false

/-- Required Attributes: a required name is satisfied by an attribute of that exact name, or,
for a wildcard `*.suffix`, by an attribute name ending in `.suffix`. -/
def satisfies (req attr : Name) : Bool :=
  match req with
  | [] => false
  | '*' :: '.' :: rest => ('.' :: rest).isSuffixOf attr
  | _ => req = attr

def hasRequiredAttributes (cfg : Cfg) (m : Marker) (a : Addr) : Bool :=
  m.reqAttrs.all fun req => (cfg.attrs a).any fun attr => satisfies req attr

/-- "Bypass Accounts" (the set fixed by the property statement; symbolic names as the driver uses them). -/
def bypassAccounts : List String :=
  ["bp:bonded", "bp:distribution", "bp:gov", "bp:notbonded", "bp:quarantine", "fc"]

/-! ### Flowchart: checkSenderMarker(Sender, Transfer Agents) -/
section checkSenderMarker
variable (cfg : Cfg) (amt : Coins)

/-- issm: "Is Sender a marker?" -/
def csm_issm : Option Marker := markerAt cfg cfg.fromAddr
/-- isfg: "Is a fee grant in use?" -/
def csm_isfg : Bool := cfg.feeGrant
/-- istaw: "Does a Transfer Agent have withdraw access?" -/
def csm_istaw (sm : Marker) : Bool := cfg.agents.any fun a => hasAccess sm a .withdraw
/-- isasm: "Does the Amount have the Sender marker's denom?" -/
def csm_isasm (sm : Marker) : Bool := Coins.amountOf amt sm.denom ≠ 0
/-- issma: "Is Sender marker active?" -/
def csm_issma (sm : Marker) : Bool := sm.status = .active

def checkSenderMarker : Flow :=
  match csm_issm cfg with
  | none => .ok                                             -- issm -.->|no| ok
  | some sm =>
    let fromIsasm : Flow :=
      if csm_isasm amt sm then                              -- isasm -->|yes| issma
        if csm_issma sm then .ok else .denied .issma        -- issma yes → ok / no → denied
      else .ok                                              -- isasm -.->|no| ok
    if csm_isfg cfg then fromIsasm                          -- isfg -->|yes| isasm
    else if csm_istaw cfg sm then fromIsasm                 -- istaw -->|yes| isasm
    else .denied .istaw                                     -- istaw -.->|no| denied

end checkSenderMarker

/-! ### Flowchart: checkReceiverMarker(Receiver, Sender, Transfer Agents) -/
section checkReceiverMarker
variable (cfg : Cfg)

/-- issm: "Is Receiver a restricted marker?" -/
def crm_issm : Option Marker :=
  match markerAt cfg cfg.toAddr with
  | some rm => if rm.mtype = .restricted then some rm else none
  | none => none
/-- haveta: "Are there a Transfer Agents?" -/
def crm_haveta : Bool := cfg.agents ≠ []
/-- isrd: "Does Sender have deposit access?" -/
def crm_isrd (rm : Marker) : Bool := hasAccess rm cfg.fromAddr .deposit
/-- istad: "Does a Transfer Agent have deposit access?" -/
def crm_istad (rm : Marker) : Bool := cfg.agents.any fun a => hasAccess rm a .deposit

def checkReceiverMarker : Flow :=
  match crm_issm cfg with
  | none => .ok                                             -- issm -.->|no| ok
  | some rm =>
    if crm_haveta cfg then
      if crm_istad cfg rm then .ok else .denied .istad
    else
      if crm_isrd cfg rm then .ok else .denied .isrd

end checkReceiverMarker

/-! ### Flowchart: validateSendDenom(Sender, Receiver, Denom, Transfer Agents) -/
section validateSendDenom
variable (cfg : Cfg) (denom : Denom)

/-- isdm: "Is there a marker for Denom?" -/
def vsd_isdm : Option Marker := markerOf cfg denom
/-- isma: "Is the marker active?" -/
def vsd_isma (m : Marker) : Bool := m.status = .active
/-- qisrc: "Is Denom a restricted coin?" -/
def vsd_qisrc (m : Marker) : Bool := m.mtype = .restricted
/-- qistofc: "Is Receiver the fee collector?" -/
def vsd_qistofc : Bool := cfg.toAddr = cfg.feeCollectorAddr
/-- ista: "Is there a Transfer Agent with transfer access?" -/
def vsd_ista (m : Marker) : Bool := cfg.agents.any fun a => hasAccess m a .transfer
/-- qisdeny: "Is Sender on marker's deny list?" -/
def vsd_qisdeny (m : Marker) : Bool := cfg.fromAddr ∈ m.deny
/-- qhastrans: "Does Sender have transfer for Denom?" -/
def vsd_qhastrans (m : Marker) : Bool := hasAccess m cfg.fromAddr .transfer
/-- qisdep: "Is Receiver a marker account?" -/
def vsd_qisdep : Bool := (markerAt cfg cfg.toAddr).isSome
/-- qmhasattr: "Does Denom have required attributes?" -/
def vsd_qmhasattr (m : Marker) : Bool := m.reqAttrs ≠ []
/-- qissbp: "Is Sender a bypass account?" -/
def vsd_qissbp : Bool := cfg.fromAddr ∈ cfg.reqAttrBypass
/-- qisrbp: "Is Receiver a bypass account?" -/
def vsd_qisrbp : Bool := cfg.toAddr ∈ cfg.reqAttrBypass
/-- qrhasattr: "Does Receiver have the required attributes?" -/
def vsd_qrhasattr (m : Marker) : Bool := hasRequiredAttributes cfg m cfg.toAddr

def validateSendDenom : Flow :=
  match vsd_isdm cfg denom with
  | none => .ok                                              -- isdm -.->|no| ok
  | some m =>
    if !vsd_isma m then .denied .isma                        -- isma -.->|no| denied
    else if !vsd_qisrc m then .ok                            -- qisrc -.->|no| ok
    else if vsd_qistofc cfg then .denied .qistofc            -- qistofc -->|yes| denied
    else if vsd_ista cfg m then .ok                          -- ista -->|yes| ok
    else if vsd_qisdeny cfg m then .denied .qisdeny          -- qisdeny -->|yes| denied
    else if vsd_qhastrans cfg m then .ok                     -- qhastrans -->|yes| ok
    else if vsd_qisdep cfg then .denied .qisdep              -- qisdep -->|yes| denied
    else if vsd_qmhasattr m then                             -- qmhasattr -->|yes| qisrbp
      if vsd_qisrbp cfg then .ok                             -- qisrbp -->|yes| ok
      else if vsd_qrhasattr cfg m then .ok else .denied .qrhasattr
    else                                                     -- qmhasattr -.->|no| qissbp
      if vsd_qissbp cfg then .ok else .denied .qissbp

end validateSendDenom

/-! ### Flowchart: SendRestrictionFn(Sender, Receiver, Amount) -/
section top
variable (cfg : Cfg) (amt : Coins)

/-- qhasbp: "Does context have bypass, or is the Sender either the marker module or ibc transfer account?" -/
def qhasbp : Bool :=
  cfg.bypass ∨ cfg.fromAddr = cfg.markerModuleAddr ∨ cfg.fromAddr = cfg.ibcTransferModuleAddr
/-- qfc: "Is the Receiver the fee collector?" -/
def qfc : Bool := cfg.toAddr = cfg.feeCollectorAddr
/-- qrc: "Is there a restricted coin in the Amount?" -/
def qrc : Bool := amt.any fun c => isRestrictedCoin cfg c.1

/-- The "Denom Loop": next Denom → validateSendDenom → allowed? → another Denom? -/
def denomLoop : Coins → Flow
  | [] => .ok                                                -- mored -.->|no| ok
  | (d, _) :: rest =>
    match validateSendDenom cfg d with
    | .ok => denomLoop rest                                  -- isdok -->|yes| mored
    | .denied n => .denied n                                 -- isdok -.->|no| denied

def sendRestrictionFn : Flow :=
  if qhasbp cfg then
    if qfc cfg then
      if qrc cfg amt then .denied .qrc else .ok
    else .ok
  else
    match checkSenderMarker cfg amt with                     -- csm → "Proceed?"
    | .denied n => .denied n
    | .ok =>
      match checkReceiverMarker cfg with                     -- crm → "Proceed?"
      | .denied n => .denied n
      | .ok => denomLoop cfg amt

end top

/-- The rules permit the movement. -/
def permitted (cfg : Cfg) (amt : Coins) : Bool := (sendRestrictionFn cfg amt).isOk

/-! ### Link between the code's refusal reasons and the chart nodes -/

/-- The chart question a refusal of the code corresponds to. -/
def reasonNode : Reason → Node
  | .fcBypass => .qrc
  | .notMarker => .isdm
  | .withdrawNoAgent => .istaw
  | .withdraw => .istaw
  | .fromStatus => .issma
  | .depositAgent => .istad
  | .depositSender => .isrd
  | .status => .isma
  | .fc => .qistofc
  | .denyList => .qisdeny
  | .transferToMarker => .qisdep
  | .transfer => .qissbp
  | .attrs => .qrhasattr

def decisionFlow : Decision → Flow
  | .ok _ => .ok
  | .error r => .denied (reasonNode r)

/-- `sdk.Coins` validity as far as the restriction depends on it: denoms strictly ascending. -/
def DenomsAscending (amt : Coins) : Prop := amt.Pairwise fun a b => a.1 < b.1

instance (amt : Coins) : Decidable (DenomsAscending amt) := by
  unfold DenomsAscending; infer_instance

/-- No coin's marker address is occupied by a non-marker account (only used to relate the code before
ed45788f3 to the current code; finding C04-denom-address-squat). -/
def NoForeignAccountAtDenomAddr (cfg : Cfg) (amt : Coins) : Prop :=
  ∀ c ∈ amt, (cfg.acct (cfg.markerAddr c.1)).isOther = false

end PvModel.MkrSend.Spec
