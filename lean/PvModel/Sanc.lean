/-
C06 — executable model of the sanction module (x/sanction/keeper) driven by a small model of
the forked x/gov keeper that emits exactly the hook calls the real one emits, over the shared
`Ledger`.  Function names follow the Go code; `file:line` references are to the pinned repo
and to `github.com/provenance-io/cosmos-sdk@v0.50.10-pio-1` ("sdk:").

State of the sanction store (x/sanction/keeper/keys.go:14-24):
* `perm`  — `0x01<len><addr>`                      permanent sanctions (a set)
* `temp`  — `0x02<len><addr><prop id, 8 bytes BE>` temporary entries, value 0x01 (sanction) / 0x00
* `idx`   — `0x03<prop id><len><addr>`             index of `temp` by proposal
* params  — the two immediate min deposits (coins of any number of denoms)
The gov side keeps deposits as coins: `MinDeposit` may list several denoms, a proposal's
`TotalDeposit` has an amount per denom, and the hook compares it with the immediate min deposit
denom by denom (`reachesMin`).
`temp`/`idx` are association lists keyed by `(addr, id)`; "the last key under the address
prefix" (`getLatestTempEntry`, keeper.go:155) is the entry with the greatest id (`latestOf`);
that the byte order of the keys is the numeric order of ids is `PvModel.SancKeys`.
Core-only (links into `pvmodel`).
-/
import PvModel.Coins
import PvModel.Util

namespace PvModel.Sanc
open PvModel

inductive Err where
  | sanctioned | funds | notfound | inactive | denom | mindep | proposer | ended
  | signer | unsanctionable | invalid | panic
  | perm | nogrant | noforce | blocked | nomarker
  deriving Repr, DecidableEq, Inhabited

def Err.toString : Err → String
  | .sanctioned => "err:sanctioned"
  | .funds => "err:funds"
  | .notfound => "err:notfound"
  | .inactive => "err:inactive"
  | .denom => "err:denom"
  | .mindep => "err:mindep"
  | .proposer => "err:proposer"
  | .ended => "err:ended"
  | .signer => "err:signer"
  | .unsanctionable => "err:unsanctionable"
  | .invalid => "err:invalid"
  | .panic => "panic:other"
  | .perm => "err:perm"
  | .nogrant => "err:nogrant"
  | .noforce => "err:noforce"
  | .blocked => "err:blocked"
  | .nomarker => "err:nomarker"

abbrev R := Except Err

/-! ### sanction store -/

/-- one temporary entry: key `(addr, id)`, `val = true` is `SanctionB` (0x01), `false` is
`UnsanctionB` (0x00) (keys.go:127-132). -/
structure TempEntry where
  addr : Addr
  id : Nat
  val : Bool
  deriving Repr, DecidableEq

def sameKey (a : Addr) (p : Nat) (e : TempEntry) : Bool := decide (e.addr = a ∧ e.id = p)

/-- `store.Set(CreateTemporaryKey(a,p), v)` -/
def tempSet (t : List TempEntry) (a : Addr) (p : Nat) (v : Bool) : List TempEntry :=
  ⟨a, p, v⟩ :: t.filter (fun e => !sameKey a p e)

def hasKey (keys : List TempEntry) (e : TempEntry) : Bool := keys.any (fun k => sameKey k.addr k.id e)

/-- `for _, key := range toRemove { store.Delete(key) }` -/
def delKeys (keys t : List TempEntry) : List TempEntry := t.filter (fun e => !hasKey keys e)

/-- the entry with the greatest proposal id among those of `a` (the first element of the
reverse iterator over the address prefix). -/
def latestOf (a : Addr) : List TempEntry → Option TempEntry
  | [] => none
  | e :: r =>
    if e.addr = a then
      match latestOf a r with
      | some b => if e.id < b.id then some b else some e
      | none => some e
    else latestOf a r

/-- keeper.go:155 `getLatestTempEntry` -/
def getLatestTempEntry (t : List TempEntry) (a : Addr) : Option Bool := (latestOf a t).map (·.val)

structure Store where
  perm : List Addr := []
  temp : List TempEntry := []
  idx : List TempEntry := []
  sancMin : Coins := []
  unsancMin : Coins := []
  deriving Repr

/-- a restricted-coin marker (x/marker): its account and the addresses holding each access the
fund-moving endpoints look at (`Access_Transfer`, `Access_ForceTransfer`, `Access_Withdraw`,
`Access_Deposit`); `allowForce` = `AllowForcedTransfer`.  All markers of the model are active. -/
structure Marker where
  denom : Denom
  addr : Addr
  allowForce : Bool
  xfer : List Addr
  force : List Addr
  withdraw : List Addr
  deposit : List Addr
  deriving Repr, DecidableEq

/-- an authz grant of a `MarkerTransferAuthorization` (x/marker/types/authz.go): `grantee` may
transfer restricted coins out of `granter`'s account up to `limit` -/
structure Grant where
  grantee : Addr
  granter : Addr
  limit : Coins
  deriving Repr

/-- configuration: the unsanctionable list wired in app/app.go:676-683 and the gov params the
harness installs. -/
structure Cfg where
  unsanctionable : List Addr := []
  bond : Denom := "stake"
  govAcct : Addr := "GOV"
  bondPool : Addr := "BOND"
  feeColl : Addr := "FEE"
  /-- gov `MinDeposit` / `ExpeditedMinDeposit`: one amount per accepted deposit denom -/
  minDeposit : Coins := [("stake", 1000)]
  expMinDeposit : Coins := [("stake", 2000)]
  /-- floor of the initial deposit, per denom: the min deposit times `MinInitialDepositRatio`
  (`validateInitialDeposit`, sdk:x/gov/keeper/deposit.go:283; every denom must be covered) -/
  initMin : Coins := [("stake", 100)]
  initMinExp : Coins := [("stake", 200)]
  /-- floor of every deposit, per denom: the min deposit times `MinDepositRatio`
  (deposit.go:96-124; one denom reaching its floor is enough) -/
  depMin : Coins := [("stake", 10)]
  depMinExp : Coins := [("stake", 20)]
  depositPeriod : Nat := 100
  votingPeriod : Nat := 100
  expVotingPeriod : Nat := 50
  /-- `ProposalCancelRatio` = `cancelNum / cancelDen`, destination "" (burn) -/
  cancelNum : Nat := 1
  cancelDen : Nat := 2
  burnQuorum : Bool := false
  burnVeto : Bool := true
  burnPrevote : Bool := false
  /-- addresses the driver reports on (no meaning for the model) -/
  names : List Addr := []
  /-- the restricted markers of the history -/
  markers : List Marker := []
  /-- `bankKeeper.BlockedAddr`: module accounts that may not receive funds through the marker /
  exchange endpoints -/
  blocked : List Addr := []
  /-- accounts forced transfers may not take from (`canForceTransferFrom`, marker.go:689: an
  existing account with sequence 0 that is neither a marker, a market nor a group account) -/
  noForce : List Addr := []
  /-- the account of the exchange market the history settles in -/
  market : Addr := "MKT"
  /-- the addresses with withdraw permission on that market -/
  marketAdmins : List Addr := []
  deriving Repr

/-- keeper.go:270 `IsAddrThatCannotBeSanctioned` -/
def cannot (c : Cfg) (a : Addr) : Bool := decide (a ∈ c.unsanctionable)

/-- keeper.go:64 `IsSanctionedAddr` -/
def isSanctionedAddr (c : Cfg) (st : Store) (a : Addr) : Bool :=
  if a = "" ∨ a ∈ c.unsanctionable then false
  else match getLatestTempEntry st.temp a with
    | some true => true
    | some false => false
    | none => decide (a ∈ st.perm)

/-- keeper.go:188 `DeleteAddrTempEntries`: collect the keys of every temp entry of each
non-empty address (`IterateTemporaryEntries`), then delete temp key and index key. -/
def deleteAddrTempEntries (st : Store) (addrs : List Addr) : Store :=
  let keys := st.temp.filter (fun e => decide (e.addr ≠ "" ∧ e.addr ∈ addrs))
  { st with temp := delKeys keys st.temp, idx := delKeys keys st.idx }

/-- keeper.go:169 `DeleteGovPropTempEntries`: collect the keys found in the *index* under the
proposal id, then delete temp key and index key. -/
def deleteGovPropTempEntries (st : Store) (id : Nat) : Store :=
  let keys := st.idx.filter (fun e => decide (e.id = id))
  { st with temp := delKeys keys st.temp, idx := delKeys keys st.idx }

def permAdd (perm : List Addr) (a : Addr) : List Addr := if a ∈ perm then perm else a :: perm

/-- the loop of `SanctionAddresses` (keeper.go:85-95): error on the first unsanctionable address -/
def sanctionLoop (c : Cfg) : List Addr → List Addr → R (List Addr)
  | perm, [] => .ok perm
  | perm, a :: rest =>
    if a ∈ c.unsanctionable then .error .unsanctionable else sanctionLoop c (permAdd perm a) rest

/-- keeper.go:82 `SanctionAddresses` -/
def sanctionAddresses (c : Cfg) (st : Store) (addrs : List Addr) : R Store :=
  match sanctionLoop c st.perm addrs with
  | .error e => .error e
  | .ok perm => .ok (deleteAddrTempEntries { st with perm := perm } addrs)

/-- keeper.go:101 `UnsanctionAddresses` (never fails) -/
def unsanctionAddresses (st : Store) (addrs : List Addr) : Store :=
  deleteAddrTempEntries { st with perm := st.perm.filter (fun a => decide (a ∉ addrs)) } addrs

/-- keeper.go:127 `addTempEntries`: for each address, refuse a *sanction* of an unsanctionable
address, else set the temp key and the index key. -/
def addTempEntries (c : Cfg) (v : Bool) (id : Nat) : Store → List Addr → R Store
  | st, [] => .ok st
  | st, a :: rest =>
    if v = true ∧ a ∈ c.unsanctionable then .error .unsanctionable
    else addTempEntries c v id { st with temp := tempSet st.temp a id v, idx := tempSet st.idx a id v } rest

/-! ### proposals (the part of sdk:x/gov the sanction hooks see) -/

inductive PStatus where
  | deposit | voting | passed | rejected | failed
  deriving Repr, DecidableEq

/-- a proposal message: `MsgSanction` / `MsgUnsanction`; `authOk` = its authority is the gov account -/
structure PMsg where
  isSanction : Bool
  authOk : Bool
  addrs : List Addr
  deriving Repr, DecidableEq

inductive Vote where
  | yes | no | veto | abstain
  deriving Repr, DecidableEq

structure Proposal where
  id : Nat
  msgs : List PMsg
  status : PStatus
  /-- `TotalDeposit`, one entry per deposit (meaning: `Coins.amountOf`) -/
  total : Coins
  proposer : Addr
  /-- the `Deposit` records: per depositor the merged coins (`sdk.Coins.Add`) -/
  deposits : List (Addr × Coins)
  depositEnd : Nat
  votingStart : Nat
  votingEnd : Option Nat
  expedited : Bool
  vote : Option Vote
  deriving Repr

def Proposal.active (p : Proposal) : Bool :=
  match p.status with
  | .deposit | .voting => true
  | _ => false

def Proposal.allAddrs (p : Proposal) : List Addr := p.msgs.flatMap (·.addrs)

def getProp (ps : List Proposal) (id : Nat) : Option Proposal := ps.find? (fun p => decide (p.id = id))
def setProp (ps : List Proposal) (p : Proposal) : List Proposal :=
  ps.map fun q => if q.id = p.id then p else q
def delProp (ps : List Proposal) (id : Nat) : List Proposal := ps.filter (fun p => decide (p.id ≠ id))

structure State where
  cfg : Cfg := {}
  st : Store := {}
  props : List Proposal := []
  nextId : Nat := 1
  now : Nat := 0
  ledger : Ledger := []
  /-- ghost: ids of proposals removed by `CancelProposal` (not stored by the code) -/
  cancelled : List Nat := []
  /-- authz grants of `MarkerTransferAuthorization` -/
  grants : List Grant := []
  deriving Repr

/-! ### gov hooks of the sanction keeper (x/sanction/keeper/gov_hooks.go) -/

/-- gov_hooks.go:84 `getImmediateMinDeposit`: the parameter for the kind of message -/
def immediateMin (st : Store) (isSanction : Bool) : Coins := if isSanction then st.sancMin else st.unsancMin

/-- gov_hooks.go:69-76: `!minDeposit.IsZero()` and `deposit.SafeSub(minDeposit...)` has no negative
coin, i.e. EVERY denom of the minimum is reached by the total deposit. -/
def reachesMin (total minDep : Coins) : Bool := !Coins.isZero minDep && Coins.covers total minDep

/-- gov_hooks.go:64-90, one message of the proposal: if the total deposit covers the non-zero
immediate minimum, add temporary entries; an error of `addTempEntries` is `panic(err)`. -/
def hookMsg (c : Cfg) (total : Coins) (id : Nat) (st : Store) (m : PMsg) : R Store :=
  if reachesMin total (immediateMin st m.isSanction) then
    match addTempEntries c m.isSanction id st m.addrs with
    | .ok st' => .ok st'
    | .error _ => .error .panic
  else .ok st

def hookMsgs (c : Cfg) (total : Coins) (id : Nat) : Store → List PMsg → R Store
  | st, [] => .ok st
  | st, m :: rest =>
    match hookMsg c total id st m with
    | .ok st' => hookMsgs c total id st' rest
    | .error e => .error e

/-- gov_hooks.go:53 `proposalGovHook`; `prop` is what `govKeeper.GetProposal` returns. -/
def proposalGovHook (c : Cfg) (st : Store) (prop : Option Proposal) (id : Nat) : R Store :=
  match prop with
  | none => .ok (deleteGovPropTempEntries st id)
  | some p =>
    match p.status with
    | .deposit | .voting => hookMsgs c p.total id st p.msgs
    | .rejected | .failed => .ok (deleteGovPropTempEntries st id)
    | .passed => .ok st

/-! ### bank primitives with the sanction send restriction (send_restriction.go:15) -/

def allPos (amt : Coins) : Bool := amt.all (fun c => decide (0 < c.2))
/-- `Coins.IsValid() && IsAllPositive()` as far as the model needs it -/
def validAmt (amt : Coins) : Bool := !amt.isEmpty && allPos amt

def strictSorted : List Denom → Bool
  | [] => true
  | [_] => true
  | a :: b :: rest => decide (a < b) && strictSorted (b :: rest)

/-- `sdk.Coins.Validate` as far as the model needs it: positive amounts, strictly sorted denoms -/
def coinsValid (cs : Coins) : Bool := allPos cs && strictSorted (Coins.denoms cs)

def hasFunds (l : Ledger) (a : Addr) (amt : Coins) : Bool :=
  (Coins.denoms amt).all fun d => decide (Coins.amountOf amt d ≤ l.bal a d)

/-- sdk:x/bank/keeper/send.go:311 `SendCoins`: `subUnlockedCoins` first (:313), then the
restriction (:318), then `addCoins` -/
def sendCoins (s : State) (frm to : Addr) (amt : Coins) : R State :=
  if !hasFunds s.ledger frm amt then .error .funds
  else if isSanctionedAddr s.cfg s.st frm then .error .sanctioned
  else .ok { s with ledger := s.ledger.move frm to amt }

/-- sdk:x/bank/keeper/keeper.go:125 `DelegateCoins`: balance check first (:139), restriction (:156) -/
def delegateCoins (s : State) (frm to : Addr) (amt : Coins) : R State :=
  if !hasFunds s.ledger frm amt then .error .funds
  else if isSanctionedAddr s.cfg s.st frm then .error .sanctioned
  else .ok { s with ledger := s.ledger.move frm to amt }

/-- sdk:x/bank/keeper/send.go:152 `InputOutputCoinsProv`, one input, `amt` to each output:
`subUnlockedCoins` of the total first (:190), then the restriction per output (:218). -/
def inputOutputCoins (s : State) (frm : Addr) (tos : List Addr) (amt : Coins) : R State :=
  if tos.isEmpty then .error .invalid
  else if !hasFunds s.ledger frm (Coins.scale tos.length amt) then .error .funds
  else if isSanctionedAddr s.cfg s.st frm then .error .sanctioned
  else .ok { s with ledger := tos.foldl (fun l to => l.move frm to amt) s.ledger }

/-! ### routes that move funds on an account's behalf (x/marker, x/exchange, x/authz)

Every one of them ends in the bank primitives above, so the sanction send restriction sees the
account whose balance decreases — whoever signs the message. -/

def getMarkerByDenom (c : Cfg) (d : Denom) : Option Marker := c.markers.find? (fun m => decide (m.denom = d))
def markerAt (c : Cfg) (a : Addr) : Option Marker := c.markers.find? (fun m => decide (m.addr = a))

/-- marker.go:880 `validateSendToMarker`: funds going to a restricted marker's account need an
admin with deposit access on that marker -/
def validateSendToMarker (c : Cfg) (to admin : Addr) : Bool :=
  match markerAt c to with
  | none => true
  | some m => decide (admin ∈ m.deposit)

def sameGrant (grantee granter : Addr) (g : Grant) : Bool := decide (g.grantee = grantee ∧ g.granter = granter)
def findGrant (gs : List Grant) (grantee granter : Addr) : Option Grant := gs.find? (sameGrant grantee granter)
def delGrant (gs : List Grant) (grantee granter : Addr) : List Grant := gs.filter (fun g => !sameGrant grantee granter g)
def setGrant (gs : List Grant) (g : Grant) : List Grant := g :: delGrant gs g.grantee g.granter

/-- authz `MsgGrant` of a `MarkerTransferAuthorization` (sdk:x/authz/keeper/msg_server.go:17;
`ValidateBasic`, authz.go:64: the limit is valid coins and not zero) -/
def grantTransfer (s : State) (granter grantee : Addr) (limit : Coins) : R State :=
  if granter = "" ∨ grantee = "" ∨ granter = grantee then .error .invalid
  else if !(coinsValid limit && !limit.isEmpty) then .error .invalid
  else .ok { s with grants := setGrant s.grants ⟨grantee, granter, limit⟩ }

/-- marker.go:790 `authzHandler` with `MarkerTransferAuthorization.Accept` (authz.go:30, no allow
list): no grant → refused; amount above the limit of its denom → `ErrInsufficientFunds`; the
grant is deleted when nothing of the limit is left, else saved with the rest. -/
def authzHandler (s : State) (admin frm : Addr) (d : Denom) (x : Int) : R State :=
  match findGrant s.grants admin frm with
  | none => .error .nogrant
  | some g =>
    if Coins.amountOf g.limit d < x then .error .funds
    else if Coins.isZero (g.limit ++ [(d, -x)]) then .ok { s with grants := delGrant s.grants admin frm }
    else .ok { s with grants := setGrant s.grants ⟨admin, frm, g.limit ++ [(d, -x)]⟩ }

/-- `sdk.NewCoins(amount)`: a zero coin is dropped -/
def oneCoin (d : Denom) (x : Int) : Coins := if x = 0 then [] else [(d, x)]

/-- marker.go:650-665: what lets `admin` move coins of `frm` -/
def transferAuth (s : State) (m : Marker) (admin frm : Addr) (d : Denom) (x : Int) : R State :=
  if admin = frm then .ok s
  else if m.allowForce = false ∨ admin ∉ m.force then authzHandler s admin frm d x
  else if frm ∈ s.cfg.noForce then .error .noforce
  else .ok s

/-- marker.go:624 `TransferCoin` (behind `MsgTransferRequest`, msg_server.go:375): the marker
must exist; the admin needs transfer or force-transfer access (:640), and deposit access when the
destination is a restricted marker (:646); when the admin is not the owner of the funds (:650)
either the marker allows forced transfers and the admin may force them — then only
`canForceTransferFrom` is asked — or an authz grant of the owner is needed and used up; the
destination may not be a blocked address (:667); then `bankKeeper.SendCoins` (:673) under the
marker module's bypass — which the sanction restriction does not look at. -/
def transferCoin (s : State) (admin frm to : Addr) (d : Denom) (x : Int) : R State :=
  match getMarkerByDenom s.cfg d with
  | none => .error .nomarker
  | some m =>
    if admin ∉ m.xfer ∧ admin ∉ m.force then .error .perm
    else if !validateSendToMarker s.cfg to admin then .error .perm
    else
      match transferAuth s m admin frm d x with
      | .error e => .error e
      | .ok s1 => if to ∈ s.cfg.blocked then .error .blocked else sendCoins s1 frm to (oneCoin d x)

/-- marker.go:169 `WithdrawCoins` (behind `MsgWithdrawRequest`): out of the marker's own account -/
def withdrawCoins (s : State) (caller recipient : Addr) (d : Denom) (amt : Coins) : R State :=
  match getMarkerByDenom s.cfg d with
  | none => .error .nomarker
  | some m =>
    if caller ∉ m.withdraw then .error .perm
    else if !validateSendToMarker s.cfg recipient caller then .error .perm
    else if recipient ∈ s.cfg.blocked then .error .blocked
    else sendCoins s m.addr recipient amt

/-- x/exchange/keeper/market.go:1541 `WithdrawMarketFunds` behind `MsgMarketWithdrawRequest`
(msg_server.go:156: the signer needs withdraw permission on the market): out of the market's
account, to anybody — the signer itself included -/
def withdrawMarketFunds (s : State) (admin to : Addr) (amt : Coins) : R State :=
  if admin ∉ s.cfg.marketAdmins then .error .perm
  else if to ∈ s.cfg.blocked then .error .blocked else sendCoins s s.cfg.market to amt

/-- payments.go:276,283: `if !amount.IsZero() { SendCoins }` -/
def sendIfAny (s : State) (frm to : Addr) (amt : Coins) : R State :=
  if amt.isEmpty then .ok s else sendCoins s frm to amt

/-- x/exchange payments (payments.go:205 `CreatePayment`: hold on the source amount; :230
`AcceptPayment`: source → target, then target → source, both through `SendCoins`), created by the
source and accepted by the target in one transaction -/
def acceptPayment (s : State) (src tgt : Addr) (sAmt tAmt : Coins) : R State :=
  if !hasFunds s.ledger src sAmt then .error .funds
  else
    match sendIfAny s src tgt sAmt with
    | .error e => .error e
    | .ok s1 => sendIfAny s1 tgt src tAmt

/-- x/exchange order settlement: an ask of `seller` (hold on the assets) and a bid of `buyer` (hold
on the price) settled by the market (`MsgMarketSettleRequest` → fulfillment.go:267
`closeSettlement`: holds released, then BOTH transfers attempted through `DoTransfer`,
keeper.go:201, and their errors joined), in one transaction -/
def settleOrders (s : State) (seller buyer : Addr) (assets price : Coins) : R State :=
  if !hasFunds s.ledger seller assets then .error .funds
  else if !hasFunds s.ledger buyer price then .error .funds
  else if isSanctionedAddr s.cfg s.st seller || isSanctionedAddr s.cfg s.st buyer then .error .sanctioned
  else if seller ∈ s.cfg.blocked ∨ buyer ∈ s.cfg.blocked then .error .blocked
  else .ok { s with ledger := (s.ledger.move seller buyer assets).move buyer seller price }

/-! ### gov keeper -/

def minDepositFor (c : Cfg) (exp : Bool) : Coins := if exp then c.expMinDeposit else c.minDeposit
def initMinFor (c : Cfg) (exp : Bool) : Coins := if exp then c.initMinExp else c.initMin
def depMinFor (c : Cfg) (exp : Bool) : Coins := if exp then c.depMinExp else c.depMin
def onlyBond (c : Cfg) (amt : Coins) : Bool := amt.all (fun x => decide (x.1 = c.bond))

/-- deposit.go:317 `validateDepositDenom`: every denom of the deposit is a denom of `MinDeposit`
(of the regular one, also for expedited proposals) -/
def acceptedDenoms (c : Cfg) (amt : Coins) : Bool :=
  amt.all (fun x => decide (x.1 ∈ Coins.denoms c.minDeposit))

/-- deposit.go:96-124: some denom of the minimum is present in the deposit with at least its floor -/
def ratioMet (floors amt : Coins) : Bool :=
  floors.any (fun f => decide (0 < Coins.amountOf amt f.1) && decide (f.2 ≤ Coins.amountOf amt f.1))

/-- `sdk.Coins.Add` of one coin into merged coins -/
def addCoin (d : Denom) (x : Int) : Coins → Coins
  | [] => [(d, x)]
  | (d', y) :: rest => if d' = d then (d', y + x) :: rest else (d', y) :: addCoin d x rest

/-- `sdk.Coins.Add`: one entry per denom -/
def mergeCoins (a : Coins) : Coins → Coins
  | [] => a
  | (d, x) :: rest => mergeCoins (addCoin d x a) rest

def addDep (ds : List (Addr × Coins)) (who : Addr) (a : Coins) : List (Addr × Coins) :=
  match ds with
  | [] => [(who, mergeCoins [] a)]
  | (w, x) :: rest => if w = who then (w, mergeCoins x a) :: rest else (w, x) :: addDep rest who a

/-- sdk:x/gov/keeper/proposal.go:237 `ActivateVotingPeriod` -/
def activate (c : Cfg) (now : Nat) (p : Proposal) : Proposal :=
  { p with status := .voting, votingStart := now,
           votingEnd := some (now + (if p.expedited then c.expVotingPeriod else c.votingPeriod)) }

/-- the proposal record after a deposit of `a` by `who` (deposit.go:134-160): total and
deposit updated, voting period activated when the total reaches the minimum deposit. -/
def depositedProp (c : Cfg) (now : Nat) (p : Proposal) (who : Addr) (a : Coins) : Proposal :=
  let p1 := { p with total := p.total ++ a, deposits := addDep p.deposits who a }
  if p.status = .deposit ∧ Coins.covers p1.total (minDepositFor c p.expedited) = true then activate c now p1 else p1

/-- sdk:x/gov/keeper/deposit.go:66 `AddDeposit` (calls `AfterProposalDeposit`, :162) -/
def addDeposit (s : State) (id : Nat) (who : Addr) (amt : Coins) : R State :=
  match getProp s.props id with
  | none => .error .notfound
  | some p =>
    if !p.active then .error .inactive
    else if !acceptedDenoms s.cfg amt then .error .denom
    else if !ratioMet (depMinFor s.cfg p.expedited) amt then .error .mindep
    else
      match sendCoins s who s.cfg.govAcct amt with
      | .error e => .error e
      | .ok s1 =>
        match proposalGovHook s1.cfg s1.st (some (depositedProp s.cfg s.now p who amt)) id with
        | .error e => .error e
        | .ok st =>
          .ok { s1 with props := setProp s1.props (depositedProp s.cfg s.now p who amt), st := st }

/-- the per-message checks of `Keeper.SubmitProposal` (proposal.go:43-62): `ValidateBasic`
(an empty address string is not bech32), then "the gov account is the only signer". -/
def validateMsgs : List PMsg → R Unit
  | [] => .ok ()
  | m :: rest =>
    if m.addrs.any (fun a => decide (a = "")) then .error .invalid
    else if !m.authOk then .error .signer
    else validateMsgs rest

/-- `v1.NewProposal` (proposal.go:99): next id, deposit period, no deposit yet -/
def newProposal (s : State) (who : Addr) (msgs : List PMsg) (exp : Bool) : Proposal :=
  { id := s.nextId, msgs := msgs, status := .deposit, total := [], proposer := who, deposits := [],
    depositEnd := s.now + s.cfg.depositPeriod, votingStart := 0, votingEnd := none, expedited := exp,
    vote := none }

/-- sdk:x/gov/keeper/msg_server.go:33 `SubmitProposal`: initial-deposit floor and denom, then
`Keeper.SubmitProposal` (proposal.go:19; hook `AfterProposalSubmission` at :117 sees a zero
total deposit), then `AddDeposit` of the initial deposit. -/
def submitProposal (s : State) (who : Addr) (msgs : List PMsg) (initial : Coins) (exp : Bool) : R State :=
  if !coinsValid initial then .error .invalid
  else if !Coins.covers initial (initMinFor s.cfg exp) then .error .mindep
  else if !acceptedDenoms s.cfg initial then .error .denom
  else match validateMsgs msgs with
    | .error e => .error e
    | .ok () =>
      match proposalGovHook s.cfg s.st (some (newProposal s who msgs exp)) s.nextId with
      | .error e => .error e
      | .ok st =>
        addDeposit { s with props := s.props ++ [newProposal s who msgs exp], nextId := s.nextId + 1, st := st }
          s.nextId who initial

/-- sdk:x/gov/keeper/vote.go:16 `AddVote` (only the vote of the account holding all bonded
stake is recorded; `AfterProposalVote` does nothing, gov_hooks.go:31) -/
def addVote (s : State) (id : Nat) (v : Vote) : R State :=
  match getProp s.props id with
  | none => .error .inactive
  | some p =>
    if p.status = .voting then .ok { s with props := setProp s.props { p with vote := some v } }
    else .error .inactive

/-- `RefundAndDeleteDeposits` (deposit.go:262): module → depositor through `SendCoins` -/
def refundAll (s : State) : List (Addr × Coins) → R State
  | [] => .ok s
  | (d, a) :: rest =>
    match sendCoins s s.cfg.govAcct d a with
    | .ok s1 => refundAll s1 rest
    | .error e => .error e

def sumDeposits : List (Addr × Coins) → Coins
  | [] => []
  | x :: rest => x.2 ++ sumDeposits rest

/-- `BurnCoins(gov, …)`: no send restriction -/
def burnFromGov (s : State) (a : Coins) : State :=
  { s with ledger := s.ledger.debit s.cfg.govAcct a }

/-- per coin `⌊amount·rate⌋` (deposit.go:205) -/
def burnPart (c : Cfg) (a : Coins) : Coins := a.map fun x => (x.1, x.2 * (c.cancelNum : Int) / (c.cancelDen : Int))
/-- per coin `amount − ⌊amount·rate⌋` (deposit.go:207-212) -/
def remainingPart (c : Cfg) (a : Coins) : Coins :=
  a.map fun x => (x.1, x.2 - x.2 * (c.cancelNum : Int) / (c.cancelDen : Int))

/-- `ChargeDeposit` (deposit.go:189): each depositor gets, per coin, `amount − ⌊amount·rate⌋`
back, the rest is burned (destination ""). Returns the state and the accumulated charges. -/
def chargeDeposits (s : State) (charges : Coins) : List (Addr × Coins) → R (State × Coins)
  | [] => .ok (s, charges)
  | (d, a) :: rest =>
    if Coins.isZero (remainingPart s.cfg a) then chargeDeposits s (charges ++ burnPart s.cfg a) rest
    else match sendCoins s s.cfg.govAcct d (remainingPart s.cfg a) with
      | .ok s1 => chargeDeposits s1 (charges ++ burnPart s.cfg a) rest
      | .error e => .error e

/-- sdk:x/gov/keeper/proposal.go:135 `CancelProposal`.  **No gov hook is called.** -/
def cancelProposal (s : State) (who : Addr) (id : Nat) : R State :=
  match getProp s.props id with
  | none => .error .notfound
  | some p =>
    if p.proposer ≠ who then .error .proposer
    else if !p.active then .error .inactive
    else if (match p.votingEnd with | some e => decide (e < s.now) | none => false) then .error .ended
    else
      match chargeDeposits s [] p.deposits with
      | .error e => .error e
      | .ok (s1, charges) =>
        let s2 := if Coins.isZero charges then s1 else burnFromGov s1 charges
        .ok { s2 with props := delProp s2.props id, cancelled := id :: s2.cancelled }

/-- `Tally` (sdk:x/gov/keeper/tally.go:18) on a chain whose whole bonded stake is delegated by
the one voter: `(passes, burnDeposits)`. -/
def tally (c : Cfg) : Option Vote → Bool × Bool
  | none => (false, c.burnQuorum)
  | some .abstain => (false, false)
  | some .veto => (false, c.burnVeto)
  | some .yes => (true, false)
  | some .no => (false, false)

/-- the sanction `MsgServer` (msg_server.go:18,38) -/
def msgSanction (c : Cfg) (st : Store) (m : PMsg) : R Store :=
  if !m.authOk then .error .signer
  else if m.addrs.any (fun a => decide (a = "")) then .error .invalid
  else if m.isSanction then sanctionAddresses c st m.addrs
  else .ok (unsanctionAddresses st m.addrs)

/-- execution of a passed proposal's messages on a cached context (sdk:x/gov/abci.go:150-170) -/
def execMsgs (c : Cfg) : Store → List PMsg → R Store
  | st, [] => .ok st
  | st, m :: rest =>
    match msgSanction c st m with
    | .ok st' => execMsgs c st' rest
    | .error e => .error e

/-- refund (`RefundAndDeleteDeposits`) or burn (`DeleteAndBurnDeposits`) the deposits -/
def settle (s : State) (burn : Bool) (ds : List (Addr × Coins)) : R State :=
  if burn then .ok (burnFromGov s (sumDeposits ds)) else refundAll s ds

/-- abci.go:27-95, one entry of the inactive queue: delete the proposal, refund or burn the
deposits, `AfterProposalFailedMinDeposit` (the proposal is no longer found). -/
def expireOne (s : State) (id : Nat) : R State :=
  match getProp s.props id with
  | none => .ok s
  | some p =>
    match settle { s with props := delProp s.props id } s.cfg.burnPrevote p.deposits with
    | .error e => .error e
    | .ok s2 =>
      match proposalGovHook s2.cfg s2.st (getProp s2.props id) id with
      | .ok st => .ok { s2 with st := st }
      | .error .panic => .error .panic
      | .error _ => .ok s2

/-- the proposal record and the sanction store after the tally (abci.go:138-220): a passed
proposal's messages run on a cached context (all or nothing); a failed expedited proposal
becomes a regular one with a later end; otherwise rejected.  `Tally` removed the votes. -/
def tallyOutcome (c : Cfg) (st : Store) (p : Proposal) (passes : Bool) : Proposal × Store :=
  let p1 := { p with vote := none, deposits := if p.expedited && !passes then p.deposits else [] }
  if passes then
    match execMsgs c st p.msgs with
    | .ok st' => ({ p1 with status := PStatus.passed }, st')
    | .error _ => ({ p1 with status := PStatus.failed }, st)
  else if p.expedited then
    ({ p1 with expedited := false, votingEnd := some (p.votingStart + c.votingPeriod) }, st)
  else ({ p1 with status := PStatus.rejected }, st)

/-- abci.go:133-143: deposits are refunded or burned in all cases except when an expedited
proposal fails (it is converted to a regular one and keeps its deposits). -/
def settleTally (s : State) (p : Proposal) : R State :=
  if p.expedited && !(tally s.cfg p.vote).1 then .ok s
  else settle s (tally s.cfg p.vote).2 p.deposits

/-- abci.go:100-262, one entry of the active queue. -/
def tallyOne (s : State) (id : Nat) : R State :=
  match getProp s.props id with
  | none => .ok s
  | some p =>
    match settleTally s p with
    | .error e => .error e
    | .ok s1 =>
      let o := tallyOutcome s1.cfg s1.st p (tally s.cfg p.vote).1
      match proposalGovHook s1.cfg o.2 (some o.1) id with
      | .ok st => .ok { s1 with props := setProp s1.props o.1, st := st }
      | .error .panic => .error .panic
      | .error _ => .ok { s1 with props := setProp s1.props o.1, st := o.2 }

def foldR {α} (f : State → α → R State) : State → List α → R State
  | s, [] => .ok s
  | s, x :: rest =>
    match f s x with
    | .ok s' => foldR f s' rest
    | .error e => .error e

def queueLe (a b : Nat × Nat) : Bool := a.1 < b.1 || (a.1 == b.1 && a.2 ≤ b.2)

/-- insertion sort by queue key (structural, so that the kernel can evaluate it) -/
def insertQ (x : Nat × Nat) : List (Nat × Nat) → List (Nat × Nat)
  | [] => [x]
  | y :: r => if queueLe x y then x :: y :: r else y :: insertQ x r

def sortQ (l : List (Nat × Nat)) : List (Nat × Nat) := l.foldr insertQ []

/-- ids in the inactive queue up to the block time, in key order `(DepositEndTime, id)` -/
def inactiveIds (s : State) : List Nat :=
  (sortQ ((s.props.filter fun p => p.status = .deposit && decide (p.depositEnd ≤ s.now)).map
      fun p => (p.depositEnd, p.id))).map (·.2)

/-- ids in the active queue up to the block time, in key order `(VotingEndTime, id)` -/
def activeIds (s : State) : List Nat :=
  (sortQ ((s.props.filter fun p => p.status = .voting &&
        (match p.votingEnd with | some e => decide (e ≤ s.now) | none => false)).map
      fun p => (p.votingEnd.getD 0, p.id))).map (·.2)

/-- sdk:x/gov/abci.go:21 `EndBlocker` -/
def endBlocker (s : State) : R State :=
  match foldR expireOne s (inactiveIds s) with
  | .error e => .error e
  | .ok s1 => foldR tallyOne s1 (activeIds s1)

/-- msg_server.go:58 `UpdateParams` (authority already checked by the caller of the model op) -/
def updateParams (s : State) (sanc unsanc : Coins) : R State :=
  if !(coinsValid sanc && coinsValid unsanc) then .error .invalid
  else .ok { s with st := { s.st with sancMin := sanc, unsancMin := unsanc } }

/-! ### operations of a history -/

inductive Op where
  | submit (who : Addr) (msgs : List PMsg) (initial : Coins) (expedited : Bool)
  | deposit (who : Addr) (id : Nat) (amt : Coins)
  | vote (id : Nat) (v : Vote)
  | cancel (who : Addr) (id : Nat)
  /-- end of the current block (`EndBlocker` at the current time), next block `dt` seconds later -/
  | block (dt : Nat)
  | params (sanc unsanc : Coins)
  | send (frm to : Addr) (amt : Coins)
  | msend (frm : Addr) (tos : List Addr) (amt : Coins)
  | delegate (who : Addr) (amt : Coins)
  | tomod (who : Addr) (amt : Coins)
  /-- the sanction `MsgServer` called directly (what a passed proposal executes) -/
  | msg (m : PMsg)
  /-- mint to an account (harness set-up): a pure credit -/
  | fund (who : Addr) (amt : Coins)
  /-- authz grant of a marker transfer authorization by `granter` to `grantee` -/
  | grant (granter grantee : Addr) (limit : Coins)
  /-- `MsgTransferRequest` signed by `admin`: `x` of the restricted denom `d` from `frm` to `to` -/
  | mxfer (admin frm to : Addr) (d : Denom) (x : Int)
  /-- `MsgWithdrawRequest` signed by `admin`: out of the account of the marker of denom `d` -/
  | mwd (admin to : Addr) (d : Denom) (amt : Coins)
  /-- `MsgMarketWithdrawRequest` signed by `admin` -/
  | mktwd (admin to : Addr) (amt : Coins)
  /-- `MsgCreatePaymentRequest` by `src` + `MsgAcceptPaymentRequest` by `tgt` -/
  | pay (src tgt : Addr) (sAmt tAmt : Coins)
  /-- ask by `seller` + bid by `buyer` + `MsgMarketSettleRequest` -/
  | settle (seller buyer : Addr) (assets price : Coins)
  deriving Repr

def applyOp (s : State) : Op → R State
  | .submit who msgs initial exp => submitProposal s who msgs initial exp
  | .deposit who id amt => if !(validAmt amt && coinsValid amt) then .error .invalid else addDeposit s id who amt
  | .vote id v => addVote s id v
  | .cancel who id => cancelProposal s who id
  | .block dt =>
    match endBlocker s with
    | .ok s' => .ok { s' with now := s'.now + dt }
    | .error e => .error e
  | .params sanc unsanc => updateParams s sanc unsanc
  | .send f t amt => if !validAmt amt then .error .invalid else sendCoins s f t amt
  | .msend f ts amt => if !validAmt amt then .error .invalid else inputOutputCoins s f ts amt
  | .delegate who amt =>
    if !(validAmt amt && onlyBond s.cfg amt) then .error .invalid
    else delegateCoins s who s.cfg.bondPool amt
  | .tomod who amt => if !validAmt amt then .error .invalid else sendCoins s who s.cfg.feeColl amt
  | .msg m =>
    match msgSanction s.cfg s.st m with
    | .ok st => .ok { s with st := st }
    | .error e => .error e
  | .fund who amt => if !validAmt amt then .error .invalid else .ok { s with ledger := s.ledger.credit who amt }
  | .grant granter grantee limit => grantTransfer s granter grantee limit
  | .mxfer admin frm to d x =>
    if admin = "" ∨ frm = "" ∨ to = "" ∨ x < 0 then .error .invalid else transferCoin s admin frm to d x
  | .mwd admin to d amt =>
    if admin = "" ∨ to = "" ∨ !(validAmt amt && coinsValid amt) then .error .invalid else withdrawCoins s admin to d amt
  | .mktwd admin to amt =>
    if admin = "" ∨ to = "" ∨ !(validAmt amt && coinsValid amt) then .error .invalid else withdrawMarketFunds s admin to amt
  | .pay src tgt sAmt tAmt =>
    if src = "" ∨ tgt = "" ∨ !(coinsValid sAmt && coinsValid tAmt) ∨ (sAmt.isEmpty ∧ tAmt.isEmpty) then .error .invalid
    else acceptPayment s src tgt sAmt tAmt
  | .settle seller buyer assets price =>
    if seller = "" ∨ buyer = "" ∨ seller = buyer ∨ !(validAmt assets && validAmt price) ∨ assets.length ≠ 1 ∨
        price.length ≠ 1 ∨ Coins.denoms assets = Coins.denoms price then .error .invalid
    else settleOrders s seller buyer assets price

/-- a failed operation leaves the state unchanged (the transaction is rolled back) -/
def step (s : State) (op : Op) : State :=
  match applyOp s op with
  | .ok s' => s'
  | .error _ => s

def run (s : State) (ops : List Op) : State := ops.foldl step s

def init (c : Cfg) : State := { cfg := c }

end PvModel.Sanc
