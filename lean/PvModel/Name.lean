/-
C15 — executable model of the name module (x/name), function by function.

Go strings are byte strings: a name is `Bytes = List UInt8`; the model covers the ASCII part of
`strings.TrimSpace` / `strings.ToLower` / `unicode.IsLower` / `unicode.IsDigit` (the harness
generates ASCII only; listed as an assumption in checks/C15.json).

The store key of a name is `0x03 ‖ sha256(pre-image)` (x/name/types/keys.go:33-63).  The model
derives the *pre-image* byte string exactly (`preimage`) and leaves the hash as the function
`Cfg.H : Bytes → κ`: an injective function parameter in the proofs (a hypothesis where needed,
never an axiom), the identity in the stateful driver, real SHA-256 in the `namekey` driver.

Addresses are symbolic strings AS WRITTEN in a message or genesis file; `Cfg.addrOk` says whether
`sdk.AccAddressFromBech32` succeeds on the string, `Cfg.canon` gives the canonical spelling
`addr.String()` of the address it parses to (bech32 accepts an all-upper-case spelling of every
address; the keeper functions take the parsed `sdk.AccAddress` and store / compare its canonical
string), `Cfg.hasAccount` whether the auth keeper knows the account (attribute keeper's
PurgeAttribute needs it, x/attribute/keeper/keeper.go:444).
-/
import PvModel.Util

namespace PvModel.Name

abbrev Bytes := List UInt8
abbrev Addr := String

def dot : UInt8 := 46
def dash : UInt8 := 45

/-! ### generic key-value store (association list, first match wins, keys kept unique) -/
namespace KV
variable {κ ν : Type} [DecidableEq κ]

def get : List (κ × ν) → κ → Option ν
  | [], _ => none
  | (k', v) :: m, k => if k' = k then some v else get m k

def has (m : List (κ × ν)) (k : κ) : Bool := (get m k).isSome

def del (m : List (κ × ν)) (k : κ) : List (κ × ν) := m.filter (fun e => e.1 ≠ k)

def set (m : List (κ × ν)) (k : κ) (v : ν) : List (κ × ν) := (k, v) :: del m k

end KV

/-! ### strings (x/name/types/name.go, x/name/types/keys.go) -/

/-- ASCII white space of `unicode.IsSpace` (what `strings.TrimSpace` removes): \t \n \v \f \r ' '. -/
def isSpace (c : UInt8) : Bool := c == 32 || (9 ≤ c && c ≤ 13)
def isUpper (c : UInt8) : Bool := 65 ≤ c && c ≤ 90
def isLower (c : UInt8) : Bool := 97 ≤ c && c ≤ 122
def isDigit (c : UInt8) : Bool := 48 ≤ c && c ≤ 57
def isHex (c : UInt8) : Bool := isDigit c || (97 ≤ c && c ≤ 102) || (65 ≤ c && c ≤ 70)
def toLower (c : UInt8) : UInt8 := if isUpper c then c + 32 else c

/-- `strings.TrimSpace` -/
def trimSpace (s : Bytes) : Bytes := ((s.dropWhile isSpace).reverse.dropWhile isSpace).reverse

/-- `strings.Split(s, ".")` — never empty; `""` gives `[""]`. -/
def splitDot : Bytes → List Bytes
  | [] => [[]]
  | c :: cs =>
    if c = dot then [] :: splitDot cs
    else match splitDot cs with
      | [] => [[c]]
      | s :: ss => (c :: s) :: ss

/-- `strings.Join(segs, ".")` -/
def joinDot : List Bytes → Bytes
  | [] => []
  | [s] => s
  | s :: ss => s ++ dot :: joinDot ss

/-- `types.NormalizeName` (name.go:41): trim and lower-case every segment. -/
def normalizeName (name : Bytes) : Bytes :=
  joinDot ((splitDot name).map fun seg => (trimSpace seg).map toLower)

/-- the 36-byte form `xxxxxxxx-xxxx-xxxx-xxxx-xxxxxxxxxxxx` checked on the first 36 bytes of `t`
(github.com/google/uuid v1.6.0 uuid.go Parse, after the length switch). -/
def uuidForm36 (t : Bytes) : Bool :=
  (List.range 36).all fun i =>
    match t[i]? with
    | some c => if i = 8 ∨ i = 13 ∨ i = 18 ∨ i = 23 then c == dash else isHex c
    | none => false

def urnPrefix : Bytes := [117, 114, 110, 58, 117, 117, 105, 100, 58]   -- "urn:uuid:"

/-- `types.IsValidUUID` = `uuid.Parse(s)` succeeds: 36-byte form, `urn:uuid:` + 36 (prefix compared
case-insensitively), any byte + 36-form + any byte (the "{…}" case: the braces are not checked),
or 32 hex digits. -/
def isValidUUID (s : Bytes) : Bool :=
  if s.length = 36 then uuidForm36 s
  else if s.length = 45 then (s.take 9).map toLower == urnPrefix && uuidForm36 (s.drop 9)
  else if s.length = 38 then uuidForm36 (s.drop 1)
  else if s.length = 32 then s.all isHex
  else false

/-- `types.ValidateNameSegment` (name.go:84) succeeds. -/
def validateNameSegment (seg : Bytes) : Bool :=
  isValidUUID seg ||
    (seg.count dash ≤ 1 && seg.all fun c => c == dash || isLower c || isDigit c)

/-- `types.ValidateName` (name.go:58) succeeds. -/
def validateName (name : Bytes) : Bool := (splitDot name).all validateNameSegment

inductive Err
  | nameInvalid | segShort | segLong | tooManySegs | alreadyBound | notBound
  | invalidAddress   -- types.ErrInvalidAddress
  | other            -- raw error of sdk.AccAddressFromBech32 / attribute keeper (no sentinel)
  | invalidRequest   -- sdkerrors.ErrInvalidRequest (msg server wraps most keeper errors in it)
  | unauthorized     -- sdkerrors.ErrUnauthorized
  | invalidSigner    -- govtypes.ErrInvalidSigner
  | basic            -- msg.ValidateBasic() failed (baseapp runs it before the handler)
  deriving DecidableEq, Repr

def Err.toString : Err → String
  | .nameInvalid => "err:name" | .segShort => "err:short" | .segLong => "err:long"
  | .tooManySegs => "err:levels" | .alreadyBound => "err:bound" | .notBound => "err:notfound"
  | .invalidAddress => "err:addr" | .other => "err:other" | .invalidRequest => "err:invalid"
  | .unauthorized => "err:perm" | .invalidSigner => "err:signer" | .basic => "err:basic"

/-- The byte string that `getNamePrefixByType` (keys.go:40) feeds to sha256: the trimmed segments,
last segment first, written one after the other WITHOUT any separator. -/
def preimage (name : Bytes) : Except Err Bytes :=
  if trimSpace name = [] then .error .nameInvalid
  else
    let comps := (splitDot name).map trimSpace
    if comps.any (·.isEmpty) then .error .nameInvalid
    else .ok comps.reverse.flatten

/-! ### configuration and state -/

structure Cfg (κ : Type) where
  /-- sha256 (with the 0x03 prefix) -/
  H : Bytes → κ
  minSeg : Nat := 2
  maxSeg : Nat := 32
  maxLevels : Nat := 16
  /-- keeper authority = gov module account -/
  authority : Addr
  /-- `sdk.AccAddressFromBech32` succeeds -/
  addrOk : Addr → Bool
  /-- `addr.String()` of the address `sdk.AccAddressFromBech32` parses from the string: the
  canonical (lower-case) spelling.  Meaningful where `addrOk` holds. -/
  canon : Addr → Addr := id
  /-- the auth keeper has an account for the address -/
  hasAccount : Addr → Bool

structure Record where
  name : Bytes
  addr : Addr
  restricted : Bool
  deriving DecidableEq, Repr

/-- the two halves of the name store: `0x03‖hash → record` and `0x05‖len‖addr‖0x03‖hash → record`. -/
structure State (κ : Type) where
  recs : List (κ × Record) := []
  idx : List ((Addr × κ) × Record) := []

section
variable {κ : Type} [DecidableEq κ] (cfg : Cfg κ)

/-- `types.GetNameKeyPrefix` (keys.go:33). -/
def getNameKeyPrefix (name : Bytes) : Except Err κ := (preimage name).map cfg.H

/-- `Keeper.Normalize` (keeper.go:263). -/
def normalize (name : Bytes) : Except Err Bytes :=
  let normalized := normalizeName name
  if !validateName normalized then .error .nameInvalid
  else
    let segs := splitDot normalized
    match segs.findSome? (fun seg =>
        if seg.length < cfg.minSeg then some Err.segShort
        else if seg.length > cfg.maxSeg && !isValidUUID seg then some Err.segLong
        else none) with
    | some e => .error e
    | none => if segs.length > cfg.maxLevels then .error .tooManySegs else .ok normalized

/-- `Keeper.GetRecordByName` (keeper.go:151): `none` = ErrNameNotBound or a key error. -/
def getRecordByName (st : State κ) (name : Bytes) : Option Record :=
  match getNameKeyPrefix cfg name with
  | .ok k => KV.get st.recs k
  | .error _ => none

/-- `Keeper.NameExists` (keeper.go:171). -/
def nameExists (st : State κ) (name : Bytes) : Bool :=
  match getNameKeyPrefix cfg name with
  | .ok k => KV.has st.recs k
  | .error _ => false

/-- `Keeper.ResolvesTo` (keeper.go:83). -/
def resolvesTo (st : State κ) (name : Bytes) (addr : Addr) : Bool :=
  match getRecordByName cfg st name with
  | some r => r.addr = addr
  | none => false

/-- `Keeper.addRecord` (keeper.go:288): the record and its copy in the address index. -/
def addRecord (st : State κ) (name : Bytes) (addr : Addr) (restrict isModifiable : Bool) :
    Except Err (State κ) :=
  match getNameKeyPrefix cfg name with
  | .error e => .error e
  | .ok key =>
    if KV.has st.recs key && !isModifiable then .error .alreadyBound
    else
      let record : Record := ⟨name, addr, restrict⟩
      .ok { recs := KV.set st.recs key record, idx := KV.set st.idx (addr, key) record }

/-- `Keeper.SetNameRecord` (keeper.go:92). -/
def setNameRecord (st : State κ) (name : Bytes) (addr : Addr) (restrict : Bool) :
    Except Err (State κ) :=
  match normalize cfg name with
  | .error e => .error e
  | .ok name => addRecord cfg st name addr restrict false

/-- `Keeper.UpdateNameRecord` (keeper.go:112): drops the old owner's index entry when the
address changes, then overwrites. -/
def updateNameRecord (st : State κ) (name : Bytes) (addr : Addr) (restrict : Bool) :
    Except Err (State κ) :=
  match normalize cfg name with
  | .error e => .error e
  | .ok name =>
    match getRecordByName cfg st name with
    | some existing =>
      if existing.addr ≠ addr then
        if !cfg.addrOk existing.addr then .error .invalidAddress
        else match getNameKeyPrefix cfg name with
          | .error e => .error e
          | .ok key => addRecord cfg { st with idx := KV.del st.idx (existing.addr, key) } name addr restrict true
      else addRecord cfg st name addr restrict true
    | none => addRecord cfg st name addr restrict true

/-- `Keeper.DeleteRecord` (keeper.go:205). -/
def deleteRecord (st : State κ) (name : Bytes) : Except Err (State κ) :=
  match getRecordByName cfg st name with
  | none => .error .notBound
  | some record =>
    if !cfg.addrOk record.addr then .error .other
    else match getNameKeyPrefix cfg name with
      | .error e => .error e
      | .ok key => .ok { recs := KV.del st.recs key, idx := KV.del st.idx (record.addr, key) }

/-- all records of the name store (`IterateRecords` over the 0x03 prefix), in store order. -/
def allRecords (st : State κ) : List Record := st.recs.map (·.2)

/-- `Keeper.GetRecordsByAddress` (keeper.go:181): the index values under the address prefix whose
record address is that address. -/
def getRecordsByAddress (st : State κ) (addr : Addr) : List Record :=
  ((st.idx.filter fun e => e.1.1 = addr).map (·.2)).filter fun r => r.addr = addr

/-- the `ReverseLookup` query (keeper/query_server.go:40), after the repair of the filter (see
known findings): the request's address string is parsed for the index prefix and the index
entries are filtered by comparing the record's address with the CANONICAL string of the parsed
address. -/
def reverseLookup (st : State κ) (addr : Addr) : Except Err (List Bytes) :=
  if !cfg.addrOk addr then .error .invalidAddress
  else .ok ((((st.idx.filter fun e => e.1.1 = cfg.canon addr).map (·.2)).filter
    fun r => r.addr = cfg.canon addr).map (·.name))

/-- the query before the repair: the entries were filtered by comparing the record's address with
the request string AS WRITTEN (query_server.go:59) — for a non-canonical spelling of an address
nothing passed the filter. -/
def reverseLookupPreFix (st : State κ) (addr : Addr) : Except Err (List Bytes) :=
  if !cfg.addrOk addr then .error .invalidAddress
  else .ok ((((st.idx.filter fun e => e.1.1 = cfg.canon addr).map (·.2)).filter
    fun r => r.addr = addr).map (·.name))

/-- `strings.TrimRight(n, ".")` -/
def trimRightDots (s : Bytes) : Bytes := (s.reverse.dropWhile (· == dot)).reverse

/-- the loop of `Keeper.CreateRootName` (keeper.go:384): `segs` are the not yet visited segments,
last first; `n` the name built so far. -/
def createRootLoop (addr : Addr) (restricted : Bool) :
    List Bytes → Bytes → State κ → Except Err (State κ)
  | [], _, st => .ok st
  | seg :: rest, n, st =>
    let n := trimRightDots (seg ++ dot :: n)
    match getRecordByName cfg st n with
    | none =>
      match setNameRecord cfg st n addr restricted with
      | .error e => .error e
      | .ok st => createRootLoop addr restricted rest n st
    | some _ => createRootLoop addr restricted rest n st

/-- `Keeper.CreateRootName` (keeper.go:370). -/
def createRootName (st : State κ) (name : Bytes) (owner : Addr) (restricted : Bool) :
    Except Err (State κ) :=
  if (getRecordByName cfg st name).isSome then .error .alreadyBound
  else if !cfg.addrOk owner then .error .other
  else createRootLoop cfg (cfg.canon owner) restricted (splitDot name).reverse [] st

/-! ### messages (x/name/types/msgs.go, x/name/keeper/msg_server.go) -/

inductive Op
  /-- MsgCreateRootNameRequest{Authority, Record{Name, Address, Restricted}}; signer = authority -/
  | root (authority : Addr) (name : Bytes) (owner : Addr) (restricted : Bool)
  /-- MsgBindNameRequest{Parent{Name, Address}, Record{Name, Address, Restricted}}; signer = parent address -/
  | bind (parentName : Bytes) (parentAddr : Addr) (recName : Bytes) (recAddr : Addr) (restricted : Bool)
  /-- MsgModifyNameRequest{Authority, Record{Name, Address, Restricted}}; signer = authority -/
  | modify (authority : Addr) (name : Bytes) (addr : Addr) (restricted : Bool)
  /-- MsgDeleteNameRequest{Record{Name, Address}}; signer = record address -/
  | delete (name : Bytes) (addr : Addr)
  deriving DecidableEq, Repr

/-- the transaction signer of a message (`cosmos.msg.v1.signer` option in tx.proto). -/
def Op.signer : Op → Addr
  | .root a _ _ _ => a
  | .bind _ pa _ _ _ => pa
  | .modify a _ _ _ => a
  | .delete _ a => a

def blank (s : Bytes) : Bool := trimSpace s = []
def blankAddr (a : Addr) : Bool := a == ""

/-- `msg.ValidateBasic()` succeeds (msgs.go:30,58,75,97). -/
def validateBasic : Op → Bool
  | .root authority name owner _ => cfg.addrOk authority && !blankAddr owner && !blank name
  | .bind pn pa rn ra _ => !blank pn && !blankAddr pa && !blank rn && !rn.contains dot && !blankAddr ra
  | .modify authority name addr _ => !blank name && cfg.addrOk addr && !blankAddr authority
  | .delete name addr => !blank name && !blankAddr addr

/-- `msgServer.BindName` (msg_server.go:32). Every failure is wrapped in ErrInvalidRequest. -/
def bindName (st : State κ) (pn : Bytes) (pa : Addr) (rn : Bytes) (ra : Addr) (restricted : Bool) :
    Except Err (State κ) :=
  if !validateBasic cfg (.bind pn pa rn ra restricted) then .error .invalidRequest else
  match getRecordByName cfg st pn with
  | none => .error .invalidRequest
  | some record =>
    if record.restricted && (!cfg.addrOk pa || !resolvesTo cfg st pn (cfg.canon pa)) then .error .invalidRequest
    else
      match normalize cfg (rn ++ dot :: pn) with
      | .error _ => .error .invalidRequest
      | .ok name =>
        if nameExists cfg st name then .error .invalidRequest
        else if !cfg.addrOk ra then .error .invalidRequest
        else match setNameRecord cfg st name (cfg.canon ra) restricted with
          | .error _ => .error .invalidRequest
          | .ok st => .ok st

/-- `msgServer.DeleteName` (msg_server.go:99) including the attribute keeper's `PurgeAttribute`
precondition (the signer's account must exist), which does not touch the name store. -/
def deleteName (st : State κ) (rn : Bytes) (ra : Addr) : Except Err (State κ) :=
  if !validateBasic cfg (.delete rn ra) then .error .invalidRequest else
  match normalize cfg rn with
  | .error _ => .error .invalidRequest
  | .ok name =>
    if !cfg.addrOk ra then .error .invalidRequest
    else if !nameExists cfg st name then .error .invalidRequest
    else if !resolvesTo cfg st name (cfg.canon ra) then .error .unauthorized
    else match deleteRecord cfg st name with
      | .error _ => .error .invalidRequest
      | .ok st' =>
        if !cfg.hasAccount (cfg.canon ra) then .error .other
        else if !resolvesTo cfg st' name (cfg.canon ra) && nameExists cfg st' name then .error .other
        else .ok st'

/-- `msgServer.ModifyName` (msg_server.go:163).  The authority is compared AS WRITTEN with the
stored (canonical) owner string; the new owner is parsed. -/
def modifyName (st : State κ) (authority : Addr) (name : Bytes) (addr : Addr) (restricted : Bool) :
    Except Err (State κ) :=
  match getRecordByName cfg st name with
  | none => .error .invalidRequest
  | some existing =>
    if authority ≠ cfg.authority ∧ authority ≠ existing.addr then .error .unauthorized
    else if !cfg.addrOk addr then .error .invalidRequest
    else match updateNameRecord cfg st name (cfg.canon addr) restricted with
      | .error _ => .error .invalidRequest
      | .ok st => .ok st

/-- `msgServer.CreateRootName` (msg_server.go:186). -/
def createRootNameMsg (st : State κ) (authority : Addr) (name : Bytes) (owner : Addr)
    (restricted : Bool) : Except Err (State κ) :=
  if cfg.authority ≠ authority then .error .invalidSigner
  else createRootName cfg st name owner restricted

/-- one delivered message: `ValidateBasic` (baseapp) then the handler; an error leaves the state
unchanged (the transaction's cached store is dropped). -/
def step (st : State κ) (op : Op) : Except Err (State κ) :=
  if !validateBasic cfg op then .error .basic else
  match op with
  | .root a n o r => createRootNameMsg cfg st a n o r
  | .bind pn pa rn ra r => bindName cfg st pn pa rn ra r
  | .modify a n ad r => modifyName cfg st a n ad r
  | .delete n a => deleteName cfg st n a

/-- state after a message: unchanged when it is rejected. -/
def apply (st : State κ) (op : Op) : State κ :=
  match step cfg st op with
  | .ok st' => st'
  | .error _ => st

/-- state after a history of messages. -/
def run (st : State κ) (ops : List Op) : State κ := ops.foldl (apply cfg) st

/-- `Keeper.InitGenesis` (genesis.go:10) after `SetParams` (the limits of `cfg` are the genesis
file's parameters): every binding's address string is parsed and the binding goes through
`SetNameRecord`, which normalizes the name and stores the CANONICAL address string — whatever
spelling the genesis file used.  `.error e` = the chain start panics with that error.  No parent
check: a genesis file may bind a name whose parent is not bound. -/
def initGenesis (st : State κ) : List Record → Except Err (State κ)
  | [] => .ok st
  | b :: rest =>
    if !cfg.addrOk b.addr then .error .other
    else match setNameRecord cfg st b.name (cfg.canon b.addr) b.restricted with
      | .error e => .error e
      | .ok st => initGenesis st rest

/-- `GenesisState.Validate` (types/genesis.go:46): no blank name, no blank address. -/
def validateGenesis (bindings : List Record) : Bool :=
  bindings.all fun b => !blank b.name && !blankAddr b.addr

end

end PvModel.Name
