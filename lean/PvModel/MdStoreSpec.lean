/-
C14 — declarative side of the metadata store: what the property says must hold of the stored
content, independent of how the keeper maintains it.  Every clause is a decidable `Prop` over a
`State`; the driver evaluates the same clauses on the state dumped by the implementation.

Sources: x/metadata/spec/02_state.md (entities, "Indexes" sections), 03_messages.md
(`MsgDeleteScopeRequest`: "deletes a scope and all associated records and sessions";
`MsgDeleteRecordRequest`: a session is removed with its last record).
-/
import PvModel.MdStore

namespace PvModel.MdStore

/-! ### referential integrity -/

/-- every session belongs to an existing scope -/
def SessionsHaveScope (s : State) : Prop := ∀ x ∈ s.sessions, ∃ sc ∈ s.scopes, sc.id = x.id.scope
/-- every record belongs to an existing scope -/
def RecordsHaveScope (s : State) : Prop := ∀ r ∈ s.records, ∃ sc ∈ s.scopes, sc.id = r.id.scope
/-- every record belongs to an existing session -/
def RecordsHaveSession (s : State) : Prop := ∀ r ∈ s.records, ∃ x ∈ s.sessions, x.id = r.session
/-- a record's session is a session of the record's own scope -/
def RecordsInSessionScope (s : State) : Prop := ∀ r ∈ s.records, r.session.scope = r.id.scope
/-- every session that holds at least one record belongs to an existing scope -/
def UsedSessionsHaveScope (s : State) : Prop :=
  ∀ x ∈ s.sessions, (∃ r ∈ s.records, r.session = x.id) → ∃ sc ∈ s.scopes, sc.id = x.id.scope

instance (s : State) : Decidable (SessionsHaveScope s) := by unfold SessionsHaveScope; infer_instance
instance (s : State) : Decidable (RecordsHaveScope s) := by unfold RecordsHaveScope; infer_instance
instance (s : State) : Decidable (RecordsHaveSession s) := by unfold RecordsHaveSession; infer_instance
instance (s : State) : Decidable (RecordsInSessionScope s) := by unfold RecordsInSessionScope; infer_instance
instance (s : State) : Decidable (UsedSessionsHaveScope s) := by unfold UsedSessionsHaveScope; infer_instance

/-! ### lookups: what the by-address / by-specification / by-owner queries return

The by-address / by-owner / by-value-owner queries take an ACCOUNT (`sdk.AccAddress`); the index
entries are keyed by account.  "The stored content names that address" means: one of the stored
texts denotes that account (`B text = account`). -/

/-- `IterateScopesForAddress` -/
def scopesForAddress (s : State) (a : Addr) : List UUID := (s.idxAddrScope.filter (fun p => p.1 = a)).map (·.2)
/-- `IterateScopesForScopeSpec` -/
def scopesForScopeSpec (s : State) (sp : UUID) : List UUID := (s.idxSpecScope.filter (fun p => p.1 = sp)).map (·.2)
/-- `IterateScopeSpecsForOwner` -/
def scopeSpecsForOwner (s : State) (a : Addr) : List UUID := (s.idxAddrScopeSpec.filter (fun p => p.1 = a)).map (·.2)
/-- `IterateScopeSpecsForContractSpec` -/
def scopeSpecsForContractSpec (s : State) (c : UUID) : List UUID := (s.idxCSpecScopeSpec.filter (fun p => p.1 = c)).map (·.2)
/-- `IterateContractSpecsForOwner` -/
def contractSpecsForOwner (s : State) (a : Addr) : List UUID := (s.idxAddrCSpec.filter (fun p => p.1 = a)).map (·.2)
/-- `bankKeeper.GetScopesForValueOwner` -/
def scopesForValueOwner (s : State) (a : Addr) : List UUID := (s.valueOwners.filter (fun p => p.2 = a)).map (·.1)

/-- nothing stale: every index entry is a (value, entity id) pair a stored entity names -/
def IdxSound {α β κ : Type} (ents : List α) (key : α → κ) (vals : α → List β) (idx : List (β × κ)) : Prop :=
  ∀ p ∈ idx, ∃ e ∈ ents, key e = p.2 ∧ p.1 ∈ vals e
/-- nothing missing: every (value, entity id) pair a stored entity names has its index entry -/
def IdxComplete {α β κ : Type} (ents : List α) (key : α → κ) (vals : α → List β) (idx : List (β × κ)) : Prop :=
  ∀ e ∈ ents, ∀ b ∈ vals e, (b, key e) ∈ idx
/-- An index lists exactly the (value, entity id) pairs the stored entities name: nothing stale,
nothing missing. -/
def IdxExact {α β κ : Type} (ents : List α) (key : α → κ) (vals : α → List β) (idx : List (β × κ)) : Prop :=
  IdxSound ents key vals idx ∧ IdxComplete ents key vals idx

instance {α β κ : Type} [DecidableEq β] [DecidableEq κ] (ents : List α) (key : α → κ) (vals : α → List β)
    (idx : List (β × κ)) : Decidable (IdxSound ents key vals idx) := by unfold IdxSound; infer_instance
instance {α β κ : Type} [DecidableEq β] [DecidableEq κ] (ents : List α) (key : α → κ) (vals : α → List β)
    (idx : List (β × κ)) : Decidable (IdxComplete ents key vals idx) := by unfold IdxComplete; infer_instance
instance {α β κ : Type} [DecidableEq β] [DecidableEq κ] (ents : List α) (key : α → κ) (vals : α → List β)
    (idx : List (β × κ)) : Decidable (IdxExact ents key vals idx) := by unfold IdxExact; infer_instance

/-- the address TEXTS a scope's stored content names: its owners and its data-access list -/
def Scope.addrs (sc : Scope) : List Addr := sc.owners ++ sc.dataAccess

section
variable (B : Addr → Addr)

/-- the ACCOUNTS a scope's stored content names -/
def Scope.accts (sc : Scope) : List Addr := sc.addrs.map B

/-- by-address lookup of scopes (0x17): exactly the (account, scope) pairs where one of the
scope's stored owner / data-access texts denotes the account -/
def AddrScopeExact (s : State) : Prop := IdxExact s.scopes (·.id) (Scope.accts B) s.idxAddrScope
/-- by-specification lookup of scopes (0x11) -/
def SpecScopeExact (s : State) : Prop := IdxExact s.scopes (·.id) (fun sc => [sc.spec]) s.idxSpecScope
/-- by-owner lookup of scope specifications (0x19): nothing stale / nothing missing / both -/
def OwnerScopeSpecSound (s : State) : Prop := IdxSound s.scopeSpecs (·.id) (fun sp => sp.owners.map B) s.idxAddrScopeSpec
def OwnerScopeSpecComplete (s : State) : Prop := IdxComplete s.scopeSpecs (·.id) (fun sp => sp.owners.map B) s.idxAddrScopeSpec
def OwnerScopeSpecExact (s : State) : Prop := IdxExact s.scopeSpecs (·.id) (fun sp => sp.owners.map B) s.idxAddrScopeSpec
/-- by-contract-specification lookup of scope specifications (0x14) -/
def CSpecScopeSpecExact (s : State) : Prop := IdxExact s.scopeSpecs (·.id) (·.cspecs) s.idxCSpecScopeSpec
/-- by-owner lookup of contract specifications (0x20): nothing stale / nothing missing / both -/
def OwnerCSpecSound (s : State) : Prop := IdxSound s.contractSpecs (·.id) (fun sp => sp.owners.map B) s.idxAddrCSpec
def OwnerCSpecComplete (s : State) : Prop := IdxComplete s.contractSpecs (·.id) (fun sp => sp.owners.map B) s.idxAddrCSpec
def OwnerCSpecExact (s : State) : Prop := IdxExact s.contractSpecs (·.id) (fun sp => sp.owners.map B) s.idxAddrCSpec

instance (s : State) : Decidable (AddrScopeExact B s) := by unfold AddrScopeExact; infer_instance
instance (s : State) : Decidable (SpecScopeExact s) := by unfold SpecScopeExact; infer_instance
instance (s : State) : Decidable (OwnerScopeSpecSound B s) := by unfold OwnerScopeSpecSound; infer_instance
instance (s : State) : Decidable (OwnerScopeSpecComplete B s) := by unfold OwnerScopeSpecComplete; infer_instance
instance (s : State) : Decidable (OwnerScopeSpecExact B s) := by unfold OwnerScopeSpecExact; infer_instance
instance (s : State) : Decidable (CSpecScopeSpecExact s) := by unfold CSpecScopeSpecExact; infer_instance
instance (s : State) : Decidable (OwnerCSpecSound B s) := by unfold OwnerCSpecSound; infer_instance
instance (s : State) : Decidable (OwnerCSpecComplete B s) := by unfold OwnerCSpecComplete; infer_instance
instance (s : State) : Decidable (OwnerCSpecExact B s) := by unfold OwnerCSpecExact; infer_instance

/-- value-owner coins and net asset values exist only for existing scopes -/
def ValueOwnersHaveScope (s : State) : Prop := ∀ p ∈ s.valueOwners, ∃ sc ∈ s.scopes, sc.id = p.1
def NavsHaveScope (s : State) : Prop := ∀ p ∈ s.navs, ∃ sc ∈ s.scopes, sc.id = p.1

instance (s : State) : Decidable (ValueOwnersHaveScope s) := by unfold ValueOwnersHaveScope; infer_instance
instance (s : State) : Decidable (NavsHaveScope s) := by unfold NavsHaveScope; infer_instance

/-- one entry per store key -/
def KeysUnique (s : State) : Prop :=
  (s.scopes.map (·.id)).Nodup ∧ (s.sessions.map (·.id)).Nodup ∧ (s.records.map (·.id)).Nodup ∧
  (s.scopeSpecs.map (·.id)).Nodup ∧ (s.contractSpecs.map (·.id)).Nodup ∧
  (s.recordSpecs.map (·.id)).Nodup ∧ (s.valueOwners.map (·.1)).Nodup

instance (s : State) : Decidable (KeysUnique s) := by unfold KeysUnique; infer_instance

/-! ### the invariants -/

/-- The part of the invariant that does not mention "every session has a scope" (it also held
of the code before the repair ab8bb51a7; `UsedSessionsHaveScope` follows from the three record
clauses). -/
structure Inv (s : State) : Prop where
  keys : KeysUnique s
  recSession : RecordsHaveSession s
  recScope : RecordsHaveScope s
  recInScope : RecordsInSessionScope s
  addrScope : AddrScopeExact B s
  specScope : SpecScopeExact s
  ownerScopeSpec : OwnerScopeSpecExact B s
  cspecScopeSpec : CSpecScopeSpecExact s
  ownerCSpec : OwnerCSpecExact B s
  voScope : ValueOwnersHaveScope s
  navScope : NavsHaveScope s

/-- The property's full referential-integrity and lookup claim: holds after every history of the
current code (`PvProofs.C14.refInv_reachable`). -/
def FullInv (s : State) : Prop := Inv B s ∧ SessionsHaveScope s

/-! ### specifications: referential integrity

What the write-time checks (`ValidateWriteScopeSpecification`, `WriteRecordSpecification`,
`ValidateWriteScope`, …) and the removal guards (`isScopeSpecUsed`, `isContractSpecUsed`) keep
true of the stored content — and the two clauses they do NOT keep (`isRecordSpecUsed` is a
`// TODO` that answers false; `isContractSpecUsed` does not look at sessions, `// TODO`). -/

/-- every record specification belongs to an existing contract specification -/
def RecSpecsHaveCSpec (s : State) : Prop := ∀ rs ∈ s.recordSpecs, ∃ c ∈ s.contractSpecs, c.id = rs.id.cspec
/-- every contract specification a stored scope specification lists exists -/
def ScopeSpecCSpecsExist (s : State) : Prop :=
  ∀ sp ∈ s.scopeSpecs, ∀ c ∈ sp.cspecs, ∃ cs ∈ s.contractSpecs, cs.id = c
/-- every stored scope's specification exists -/
def ScopesHaveSpec (s : State) : Prop := ∀ sc ∈ s.scopes, ∃ sp ∈ s.scopeSpecs, sp.id = sc.spec
/-- NOT kept by the code: every stored session's contract specification exists -/
def SessionsHaveCSpec (s : State) : Prop := ∀ x ∈ s.sessions, ∃ c ∈ s.contractSpecs, c.id = x.spec
/-- NOT kept by the code: every stored record's record specification exists -/
def RecordsHaveRecSpec (s : State) : Prop := ∀ r ∈ s.records, ∃ rs ∈ s.recordSpecs, rs.id = r.spec

instance (s : State) : Decidable (RecSpecsHaveCSpec s) := by unfold RecSpecsHaveCSpec; infer_instance
instance (s : State) : Decidable (ScopeSpecCSpecsExist s) := by unfold ScopeSpecCSpecsExist; infer_instance
instance (s : State) : Decidable (ScopesHaveSpec s) := by unfold ScopesHaveSpec; infer_instance
instance (s : State) : Decidable (SessionsHaveCSpec s) := by unfold SessionsHaveCSpec; infer_instance
instance (s : State) : Decidable (RecordsHaveRecSpec s) := by unfold RecordsHaveRecSpec; infer_instance

/-- the specification-integrity clauses the code guarantees (`PvProofs.C14.specInv_reachable`) -/
structure SpecInv (s : State) : Prop where
  recSpecCSpec : RecSpecsHaveCSpec s
  scopeSpecCSpecs : ScopeSpecCSpecsExist s
  scopeSpec : ScopesHaveSpec s

/-! ### "deleting a scope removes all of its sessions, records, lookups and net asset values" -/

/-- nothing about scope `id` is left, sessions aside -/
def ScopeGoneExceptSessions (s : State) (id : UUID) : Prop :=
  (∀ sc ∈ s.scopes, sc.id ≠ id) ∧ (∀ r ∈ s.records, r.id.scope ≠ id) ∧
  (∀ p ∈ s.idxAddrScope, p.2 ≠ id) ∧ (∀ p ∈ s.idxSpecScope, p.2 ≠ id) ∧
  (∀ p ∈ s.valueOwners, p.1 ≠ id) ∧ (∀ p ∈ s.navs, p.1 ≠ id)

/-- nothing about scope `id` is left -/
def ScopeGone (s : State) (id : UUID) : Prop :=
  ScopeGoneExceptSessions s id ∧ (∀ x ∈ s.sessions, x.id.scope ≠ id)

instance (s : State) (id : UUID) : Decidable (ScopeGoneExceptSessions s id) := by
  unfold ScopeGoneExceptSessions; infer_instance
instance (s : State) (id : UUID) : Decidable (ScopeGone s id) := by unfold ScopeGone; infer_instance

/-- sessions of a scope that does not exist -/
def orphanSessions (s : State) : List SessionId :=
  (s.sessions.filter (fun x => !khas (·.id) s.scopes x.id.scope)).map (·.id)

/-- the names of the clauses of the property's invariant (all lookups EXACT) that fail on a
(dumped) state, in a fixed order -/
def violations (s : State) : List String :=
  (if decide (KeysUnique s) then [] else ["duplicate_store_key"]) ++
  (if decide (RecordsHaveSession s) then [] else ["record_without_session"]) ++
  (if decide (RecordsHaveScope s) then [] else ["record_without_scope"]) ++
  (if decide (RecordsInSessionScope s) then [] else ["record_session_in_other_scope"]) ++
  (if decide (AddrScopeExact B s) then [] else ["lookup_address_to_scope_inexact"]) ++
  (if decide (SpecScopeExact s) then [] else ["lookup_scopespec_to_scope_inexact"]) ++
  (if decide (OwnerScopeSpecExact B s) then [] else ["lookup_owner_to_scopespec_inexact"]) ++
  (if decide (CSpecScopeSpecExact s) then [] else ["lookup_contractspec_to_scopespec_inexact"]) ++
  (if decide (OwnerCSpecExact B s) then [] else ["lookup_owner_to_contractspec_inexact"]) ++
  (if decide (ValueOwnersHaveScope s) then [] else ["value_owner_without_scope"]) ++
  (if decide (NavsHaveScope s) then [] else ["nav_without_scope"])

end

end PvModel.MdStore
