/-
Line-protocol driver + observed-history checker for the C06 model (`sanc`).

Ops (one per line, `k=v` arguments; lists `A|B`, `-` empty; coins `5stake,3xcoin`):
  cfg unsanc=… names=… bond=… mindep= expmindep= initmin= initminexp= depmin= depminexp=
      depp= votp= expvotp= cancel=n/d burnq= burnv= burnp= bal0=V:5stake|BOND:7stake
      (the six deposit parameters are coins, one amount per accepted deposit denom, e.g.
       `mindep=250acoin,1000stake`; a bare number means that amount of the bond denom)
  submit who= msgs=s:A|B;u:C;s!:D dep= exp=0|1      -> ok <id> | err:<class> | panic:other
  deposit who= id= amt=     vote id= opt=yes|no|veto|abstain     cancel who= id=
  block dt=                 params sanc= unsanc=
  send from= to= amt=       msend from= to=A|B amt=     delegate who= amt=    tomod who= amt=
  xsend via= from= to= amt= (the same MsgSend executed on the account's behalf by `via` through authz)
  msg m=s:A|B               fund who= amt=
  grant from= to= lim=      (authz MsgGrant of a MarkerTransferAuthorization by `from` to `to`)
  mxfer admin= from= to= amt=<one coin>   (marker MsgTransferRequest signed by `admin`)
  mwd admin= to= denom= amt=              (marker MsgWithdrawRequest: out of the marker's account)
  mktwd admin= to= amt=                   (exchange MsgMarketWithdrawRequest signed by `admin`)
  pay src= tgt= samt= tamt=               (exchange MsgCreatePaymentRequest + MsgAcceptPaymentRequest)
  settle seller= buyer= assets= price=    (exchange ask + bid + MsgMarketSettleRequest)
  cfg also takes markers=<denom>/<account>/<0|1 forced transfers>/<transfer>/<force>/<withdraw>/<deposit>;…
      (access lists `A+B`), blocked=…, noforce=…, market=…, mktadm=… (who may withdraw from the market)
  q                         -> canonical dump (see `dump`)
  tkey addr=<hex> id=       ikey addr=<hex> id=      skey addr=<hex>     -> key bytes (hex)
  tcmp addr=<hex> a= b=     -> bytes.Compare of two temporary keys of one address (-1|0|1)
  tpre addr=<hex> other=<hex> id=  -> 1 iff the address prefix of `addr` is a prefix of the key of `other`
The verdict is the property evaluated on the *implementation's* dumps along the history.
-/
import PvModel.SancSpec
import PvModel.SancKeys
-- registry: sanc PvModel.Sanc.driver

namespace PvModel.Sanc
open PvModel

def parseAddr (s : String) : Addr := if s = "EMPTY" then "" else s
def showAddr (a : Addr) : String := if a = "" then "EMPTY" else a

def parseMsg (s : String) : Option PMsg :=
  match s.splitOn ":" with
  | [k, as] =>
    let addrs := (splitList as).map parseAddr
    match k with
    | "s" => some ⟨true, true, addrs⟩
    | "u" => some ⟨false, true, addrs⟩
    | "s!" => some ⟨true, false, addrs⟩
    | "u!" => some ⟨false, false, addrs⟩
    | _ => none
  | _ => none

def parseMsgs (s : String) : Option (List PMsg) := (splitList s ";").mapM parseMsg

def parseVote : String → Option Vote
  | "yes" => some .yes | "no" => some .no | "veto" => some .veto | "abstain" => some .abstain
  | _ => none

def kvD (ws : List String) (k : String) (d : String := "-") : String := (kv ws k).getD d
def kvNat (ws : List String) (k : String) : Option Nat := (kv ws k) >>= parseNat?
def kvInt (ws : List String) (k : String) : Option Int := (kv ws k) >>= parseInt?
def kvCoins (ws : List String) (k : String) : Option Coins := parseCoins? (kvD ws k)

def parseOp (ws : List String) : Option Op :=
  match ws with
  | "submit" :: r => do
    let msgs ← parseMsgs (kvD r "msgs")
    let dep ← kvCoins r "dep"
    pure (.submit (parseAddr (kvD r "who")) msgs dep (kvD r "exp" "0" = "1"))
  | "deposit" :: r => do pure (.deposit (parseAddr (kvD r "who")) (← kvNat r "id") (← kvCoins r "amt"))
  | "vote" :: r => do pure (.vote (← kvNat r "id") (← parseVote (kvD r "opt")))
  | "cancel" :: r => do pure (.cancel (parseAddr (kvD r "who")) (← kvNat r "id"))
  | "block" :: r => do pure (.block (← kvNat r "dt"))
  | "params" :: r => do pure (.params (← kvCoins r "sanc") (← kvCoins r "unsanc"))
  | "send" :: r => do pure (.send (parseAddr (kvD r "from")) (parseAddr (kvD r "to")) (← kvCoins r "amt"))
  | "xsend" :: r => do pure (.send (parseAddr (kvD r "from")) (parseAddr (kvD r "to")) (← kvCoins r "amt"))
  | "msend" :: r => do
    pure (.msend (parseAddr (kvD r "from")) ((splitList (kvD r "to")).map parseAddr) (← kvCoins r "amt"))
  | "delegate" :: r => do pure (.delegate (parseAddr (kvD r "who")) (← kvCoins r "amt"))
  | "tomod" :: r => do pure (.tomod (parseAddr (kvD r "who")) (← kvCoins r "amt"))
  | "msg" :: r => do pure (.msg (← parseMsg (kvD r "m")))
  | "fund" :: r => do pure (.fund (parseAddr (kvD r "who")) (← kvCoins r "amt"))
  | "grant" :: r => do pure (.grant (parseAddr (kvD r "from")) (parseAddr (kvD r "to")) (← kvCoins r "lim"))
  | "mxfer" :: r => do
    let c ← parseCoin? (kvD r "amt")
    pure (.mxfer (parseAddr (kvD r "admin")) (parseAddr (kvD r "from")) (parseAddr (kvD r "to")) c.1 c.2)
  | "mwd" :: r => do
    pure (.mwd (parseAddr (kvD r "admin")) (parseAddr (kvD r "to")) (kvD r "denom") (← kvCoins r "amt"))
  | "mktwd" :: r => do pure (.mktwd (parseAddr (kvD r "admin")) (parseAddr (kvD r "to")) (← kvCoins r "amt"))
  | "pay" :: r => do
    pure (.pay (parseAddr (kvD r "src")) (parseAddr (kvD r "tgt")) (← kvCoins r "samt") (← kvCoins r "tamt"))
  | "settle" :: r => do
    pure (.settle (parseAddr (kvD r "seller")) (parseAddr (kvD r "buyer")) (← kvCoins r "assets") (← kvCoins r "price"))
  | _ => none

def parseRatio (s : String) : Option (Nat × Nat) :=
  match (s.splitOn "/").mapM parseNat? with
  | some [n, d] => some (n, d)
  | _ => none

def parseBal0 (s : String) : Option (List (Addr × Coins)) :=
  (splitList s).mapM fun x =>
    match x.splitOn ":" with
    | [a, cs] => (parseCoins? cs).map fun c => (a, c)
    | _ => none

/-- a deposit parameter: coins, or a bare number of the bond denom -/
def kvDep (r : List String) (bond : Denom) (k : String) : Option Coins :=
  match kvInt r k with
  | some n => some [(bond, n)]
  | none => kvCoins r k

def parseMarker (x : String) : Option Marker :=
  match x.splitOn "/" with
  | [d, a, f, xf, fo, wd, dp] =>
    some { denom := d, addr := a, allowForce := f = "1", xfer := splitList xf "+", force := splitList fo "+",
           withdraw := splitList wd "+", deposit := splitList dp "+" }
  | _ => none

def parseCfg (r : List String) : Option (Cfg × List (Addr × Coins)) := do
  let (n, d) ← parseRatio (kvD r "cancel" "1/2")
  let bond := kvD r "bond" "stake"
  let c : Cfg := {
    unsanctionable := splitList (kvD r "unsanc"), names := splitList (kvD r "names"),
    bond := bond,
    minDeposit := ← kvDep r bond "mindep", expMinDeposit := ← kvDep r bond "expmindep",
    initMin := ← kvDep r bond "initmin", initMinExp := ← kvDep r bond "initminexp",
    depMin := ← kvDep r bond "depmin", depMinExp := ← kvDep r bond "depminexp",
    depositPeriod := ← kvNat r "depp", votingPeriod := ← kvNat r "votp", expVotingPeriod := ← kvNat r "expvotp",
    cancelNum := n, cancelDen := d,
    burnQuorum := kvD r "burnq" "0" = "1", burnVeto := kvD r "burnv" "0" = "1", burnPrevote := kvD r "burnp" "0" = "1",
    markers := ← (splitList (kvD r "markers") ";").mapM parseMarker,
    blocked := splitList (kvD r "blocked"), noForce := splitList (kvD r "noforce"), market := kvD r "market" "MKT",
    marketAdmins := splitList (kvD r "mktadm") }
  let b ← parseBal0 (kvD r "bal0")
  pure (c, b)

/-! ### canonical dump -/

def joinOr (xs : List String) (sep : String := ";") : String := if xs.isEmpty then "-" else sep.intercalate xs

def strLe (a b : String) : Bool := !(b < a)
def tempLe (a b : TempEntry) : Bool := a.addr < b.addr || (a.addr == b.addr && a.id ≤ b.id)
def idxLe (a b : TempEntry) : Bool := a.id < b.id || (a.id == b.id && strLe a.addr b.addr)

def grantLe (a b : Grant) : Bool := a.grantee < b.grantee || (a.grantee == b.grantee && strLe a.granter b.granter)

def statusLetter : PStatus → String
  | .deposit => "D" | .voting => "V" | .passed => "P" | .rejected => "R" | .failed => "F"

def dump (s : State) : String :=
  let names := s.cfg.names
  let san := names.map fun a => s!"{showAddr a}:{boolStr (isSanctionedAddr s.cfg s.st a)}"
  let perm := (s.st.perm.mergeSort strLe).map showAddr
  let temp := (s.st.temp.mergeSort tempLe).map fun e => s!"{showAddr e.addr}/{e.id}/{if e.val then "S" else "U"}"
  let idx := (s.st.idx.mergeSort idxLe).map fun e => s!"{e.id}/{showAddr e.addr}"
  let props := (s.props.mergeSort fun a b => a.id ≤ b.id).map fun p =>
    s!"{p.id}:{statusLetter p.status}:{showCoins (Coins.canon p.total)}"
  let bal := names.map fun a => s!"{showAddr a}:{showCoins (s.ledger.balances a)}"
  let grants := (s.grants.mergeSort grantLe).map fun g => s!"{g.grantee}<{g.granter}:{showCoins (Coins.canon g.limit)}"
  s!"san={joinOr san} perm={joinOr perm} temp={joinOr temp} idx={joinOr idx} props={joinOr props} next={s.nextId} smin={showCoins (Coins.canon s.st.sancMin)} umin={showCoins (Coins.canon s.st.unsancMin)} bal={joinOr bal} grants={joinOr grants}"

/-! ### reading the implementation's dump -/

structure Obs where
  san : List (Addr × Bool) := []
  perm : List Addr := []
  temp : List TempEntry := []
  idx : List (Nat × Addr) := []
  props : List (Nat × String × Coins) := []
  next : Nat := 0
  smin : Coins := []
  umin : Coins := []
  bal : List (Addr × Coins) := []

def semis (s : String) : List String := splitList s ";"

def parseObs (impl : String) : Option Obs := do
  let ws := words impl
  let san ← (semis (kvD ws "san")).mapM fun x =>
    match x.splitOn ":" with
    | [a, b] => some (parseAddr a, b = "1")
    | _ => none
  let perm := (semis (kvD ws "perm")).map parseAddr
  let temp ← (semis (kvD ws "temp")).mapM fun x =>
    match x.splitOn "/" with
    | [a, p, v] => (parseNat? p).map fun p => (⟨parseAddr a, p, v = "S"⟩ : TempEntry)
    | _ => none
  let idx ← (semis (kvD ws "idx")).mapM fun x =>
    match x.splitOn "/" with
    | [p, a] => (parseNat? p).map fun p => (p, parseAddr a)
    | _ => none
  let props ← (semis (kvD ws "props")).mapM fun x =>
    match x.splitOn ":" with
    | [p, st, tot] => do pure ((← parseNat? p), st, (← parseCoins? tot))
    | _ => none
  let next ← kvNat ws "next"
  let smin ← kvCoins ws "smin"
  let umin ← kvCoins ws "umin"
  let bal ← (semis (kvD ws "bal")).mapM fun x =>
    match x.splitOn ":" with
    | [a, cs] => (parseCoins? cs).map fun c => (parseAddr a, c)
    | _ => none
  pure { san, perm, temp, idx, props, next, smin, umin, bal }

/-! ### key-layout ops (stateless): model output and verdict -/

open SancKeys in
def runKey (ws : List String) : Option String :=
  match ws with
  | "tkey" :: r => do pure (toHex (temporaryKey (← fromHex (kvD r "addr")) (← kvNat r "id")))
  | "ikey" :: r => do pure (toHex (proposalTempIndexKey (← kvNat r "id") (← fromHex (kvD r "addr"))))
  | "skey" :: r => do pure (toHex (sanctionedAddrKey (← fromHex (kvD r "addr"))))
  | "tcmp" :: r => do
    let a ← fromHex (kvD r "addr")
    let x := temporaryKey a (← kvNat r "a")
    let y := temporaryKey a (← kvNat r "b")
    pure (if lexLt x y then "-1" else if lexLt y x then "1" else "0")
  | "tpre" :: r => do
    let a ← fromHex (kvD r "addr")
    let o ← fromHex (kvD r "other")
    pure (boolStr ((temporaryAddrPrefix a).isPrefixOf (temporaryKey o (← kvNat r "id"))))
  | _ => none

/-- the key-layout theorems' conclusions on the implementation's answer -/
def checkKey (ws : List String) (impl : String) : String :=
  match ws with
  | "tcmp" :: r =>
    match kvNat r "a", kvNat r "b" with
    | some a, some b =>
      let want := if a < b then "-1" else if b < a then "1" else "0"
      if impl = want then "ok" else "fail:key_order_is_id_order"
    | _, _ => "-"
  | "tpre" :: r =>
    if impl = boolStr (kvD r "addr" == kvD r "other") then "ok" else "fail:addr_prefix_selects_other_address"
  | _ => "-"

structure DState where
  s : State := {}
  obs : Option Obs := none
  /-- ids whose `cancel` succeeded on the implementation -/
  cancelled : List Nat := []
  /-- cancelled ids already reported as surviving (one report per id) -/
  reported : List Nat := []
  /-- operations executed since the last observed dump (the dump describes the state before an
  operation only when this is 0, and the state before the previous operation when it is 1) -/
  since : Nat := 0
  /-- messages of the proposals the implementation accepted (id as answered by it) -/
  msgs : List (Nat × List PMsg) := []
  /-- the proposal of the last operation when that was a submit / deposit the implementation accepted -/
  lastDep : Option Nat := none

def firstFail (cs : List (Bool × String)) : Option String :=
  (cs.find? (fun c => !c.1)).map (·.2)

/-- The property on one dump of the implementation, given the previous dump. -/
def checkDump (c : Cfg) (d : DState) (o : Obs) : String × DState :=
  let un := c.unsanctionable
  let unsOk := o.san.all (fun x => !(decide (x.1 ∈ un) && x.2)) &&
               o.perm.all (fun a => !decide (a ∈ un)) &&
               o.temp.all (fun e => !(decide (e.addr ∈ un) && e.val))
  let ruleOk := o.san.all fun x => x.2 == Spec.isSanctioned un o.perm o.temp x.1
  let idxOk := Spec.indexMirrors o.temp o.idx
  let balOk := match (if d.since ≤ 1 then d.obs else none) with
    | none => true
    | some prev => prev.san.all fun x =>
        !x.2 || Spec.notDecreased ((prev.bal.lookup x.1).getD []) ((o.bal.lookup x.1).getD [])
  -- a temporary entry that was not there one operation ago needs a deposit reaching the threshold
  let newOk := match (if d.since ≤ 1 then d.obs else none) with
    | none => true
    | some prev => o.temp.all fun e => prev.temp.contains e || Spec.newEntryJustified o.props o.smin o.umin e
  -- an accepted deposit that reaches a threshold leaves the entries of that message
  let depOk := match (if d.since = 1 then d.lastDep else none) with
    | none => true
    | some id =>
      match o.props.find? (fun p => p.1 == id), d.msgs.lookup id with
      | some (_, _, total), some msgs => Spec.reachedEntriesPresent o.temp id msgs total o.smin o.umin
      | _, _ => true
  let fates := o.temp.map fun e => (e.id, Spec.fate (o.props.map fun p => (p.1, p.2.1)) d.cancelled o.next e.id)
  let badFate := fates.find? fun f => f.2 != .live && f.2 != .cancelled
  let newCancel := fates.find? fun f => f.2 == .cancelled && !d.reported.contains f.1
  let d' := { d with obs := some o, since := 0 }
  match firstFail [(unsOk, "unsanctionable_sanctioned"), (ruleOk, "latest_entry_rule"),
                   (idxOk, "index_mirrors_temp"), (balOk, "sanctioned_balance_decreased"),
                   (newOk, "temp_without_deposit_reaching_threshold"),
                   (depOk, "deposit_reaching_threshold_without_temp")] with
  | some cl => ("fail:" ++ cl, d')
  | none =>
    match badFate with
    | some f => ("fail:" ++ f.2.clause, d')
    | none =>
      match newCancel with
      | some f => ("fail:temp_survives_cancel", { d' with reported := f.1 :: d'.reported })
      | none => ("ok", d')

/-- The property on the answer to one operation: an operation that debits an account observed
as sanctioned must be refused; nobody may be refused for being sanctioned when none of the
debited accounts is. -/
def checkOp (d : DState) (op : Op) (impl : String) : String :=
  match (if d.since = 0 then d.obs else none) with
  | none => "-"
  | some o =>
    let sts := (Spec.debited d.s.cfg op).filterMap (fun a => o.san.lookup a)
    if sts.isEmpty then "-"
    else if sts.any (· == true) then (if impl.startsWith "ok" then "fail:sanctioned_debit_allowed" else "ok")
    else if impl = "err:sanctioned" then "fail:unsanctioned_refused" else "ok"

def cancelId : Op → Option Nat
  | .cancel _ id => some id
  | _ => none

def stepLine (d : DState) (line : String) (impl : Option String) : DState × String × String :=
  let ws := words line
  match ws with
  | "cfg" :: r =>
    match parseCfg r with
    | some (c, b0) =>
      let l := b0.foldl (fun l x => Ledger.credit l x.1 x.2) ([] : Ledger)
      ({ s := { init c with ledger := l } }, "ok", "-")
    | none => (d, "bad-op", "-")
  | ["q"] =>
    let out := dump d.s
    match impl with
    | none => (d, out, "-")
    | some i =>
      match parseObs i with
      | none => (d, out, "fail:unparsed")
      | some o => let (v, d') := checkDump d.s.cfg d o; (d', out, v)
  | _ =>
    match runKey ws with
    | some out => (d, out, match impl with | some i => checkKey ws i | none => "-")
    | none =>
    match parseOp ws with
    | none => (d, "bad-op", "-")
    | some op =>
      let (s', out) := match applyOp d.s op with
        | .ok s' => (s', match op with | .submit .. => s!"ok {d.s.nextId}" | _ => "ok")
        | .error e => (d.s, e.toString)
      let verdict := match impl with | some i => checkOp d op i | none => "-"
      let cancelled := match impl, cancelId op with
        | some i, some id => if i.startsWith "ok" then id :: d.cancelled else d.cancelled
        | _, _ => d.cancelled
      let okId : Option Nat := match impl with
        | some i =>
          if i.startsWith "ok" then
            match op with
            | .submit .. => (words i).getLast? >>= parseNat?
            | .deposit _ id _ => some id
            | _ => none
          else none
        | none => none
      let msgs := match op, okId with
        | .submit _ ms _ _, some id => (id, ms) :: d.msgs
        | _, _ => d.msgs
      ({ d with s := s', cancelled := cancelled, since := d.since + 1, msgs := msgs, lastDep := okId }, out, verdict)

def driver : Driver where
  σ := DState
  init := {}
  step := stepLine

end PvModel.Sanc
