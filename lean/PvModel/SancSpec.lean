/-
C06 — declarative side: what the property says, independent of the model's control flow.
Everything here is a function of an *observed dump* of the sanction store and of the gov
proposals (what the Go harness prints from the real keepers), so the same definitions are
the theorem statements (PvProofs/C06.lean) and the run-time checker (SancDriver.lean).
-/
import PvModel.Sanc

namespace PvModel.Sanc.Spec
open PvModel PvModel.Sanc

/-- "the temporary entry from the highest-numbered proposal that has one for `a` says `v`" -/
def LatestSays (temp : List TempEntry) (a : Addr) (v : Bool) : Prop :=
  ∃ p, (⟨a, p, v⟩ : TempEntry) ∈ temp ∧ ∀ e ∈ temp, e.addr = a → e.id ≤ p

/-- "`a` has no temporary entry" -/
def NoTemp (temp : List TempEntry) (a : Addr) : Prop := ∀ e ∈ temp, e.addr ≠ a

/-- The sanction rule of the property: protected accounts never; otherwise the latest temporary
entry decides; without one, permanent membership decides. -/
def IsSanctioned (unsanctionable perm : List Addr) (temp : List TempEntry) (a : Addr) : Prop :=
  a ≠ "" ∧ a ∉ unsanctionable ∧ (LatestSays temp a true ∨ (NoTemp temp a ∧ a ∈ perm))

/-- the same rule, computed (used on dumps of the real store) -/
def isSanctioned (unsanctionable perm : List Addr) (temp : List TempEntry) (a : Addr) : Bool :=
  if a = "" ∨ a ∈ unsanctionable then false
  else
    let es := temp.filter (fun e => decide (e.addr = a))
    match es.find? (fun e => es.all (fun e' => decide (e'.id ≤ e.id))) with
    | some e => e.val
    | none => decide (a ∈ perm)

/-- no two entries under one key `(addr, id)` -/
def KeysUnique (t : List TempEntry) : Prop :=
  ∀ e ∈ t, ∀ e' ∈ t, e.addr = e'.addr → e.id = e'.id → e = e'

/-- what became of a proposal id, read from a dump of the gov store (`props` = stored
proposals with their status letter, `next` = next proposal id) and the set of ids whose
cancellation succeeded. -/
inductive Fate where
  | live | passed | rejected | failed | cancelled | expired | unknown
  deriving Repr, DecidableEq

def fate (props : List (Nat × String)) (cancelled : List Nat) (next : Nat) (id : Nat) : Fate :=
  match props.find? (fun p => p.1 == id) with
  | some (_, "D") => .live
  | some (_, "V") => .live
  | some (_, "P") => .passed
  | some (_, "R") => .rejected
  | some (_, "F") => .failed
  | some _ => .unknown
  | none =>
    if id ∈ cancelled then .cancelled
    else if 0 < id ∧ id < next then .expired
    else .unknown

def Fate.clause : Fate → String
  | .live => "ok"
  | .passed => "temp_survives_passed"
  | .rejected => "temp_survives_rejected"
  | .failed => "temp_survives_failed"
  | .cancelled => "temp_survives_cancel"
  | .expired => "temp_survives_expired"
  | .unknown => "temp_for_unknown_proposal"

/-- the index lists exactly the keys of the temporary entries -/
def indexMirrors (temp : List TempEntry) (idx : List (Nat × Addr)) : Bool :=
  temp.all (fun e => idx.contains (e.id, e.addr)) && idx.all (fun k => temp.any (fun e => e.id == k.1 && e.addr == k.2))

/-- every balance of `prev` is still covered by `cur` (per denom) -/
def notDecreased (prev cur : Coins) : Bool :=
  (Coins.denoms prev).all fun d => decide (Coins.amountOf prev d ≤ Coins.amountOf cur d)

/-! ### immediate (temporary) entries and the deposit threshold

"Sanction status follows governance": a proposal acts *before* it passes only when its total
deposit reaches the immediate min deposit of the kind of message — a non-zero parameter, and
EVERY denom of it is reached. -/

/-- the total deposit `total` reaches the immediate minimum `minDep` -/
def Reaches (total minDep : Coins) : Prop :=
  (∃ d ∈ Coins.denoms minDep, Coins.amountOf minDep d ≠ 0) ∧
    ∀ d ∈ Coins.denoms minDep, Coins.amountOf minDep d ≤ Coins.amountOf total d

/-- the same, computed (used on dumps of the real gov store and the real sanction params) -/
def reaches (total minDep : Coins) : Bool :=
  (Coins.denoms minDep).any (fun d => decide (Coins.amountOf minDep d ≠ 0)) &&
    (Coins.denoms minDep).all (fun d => decide (Coins.amountOf minDep d ≤ Coins.amountOf total d))

/-- what the messages of a proposal whose total deposit is `total` say about `a` right now:
the kind of the last message that names `a` among those whose threshold is reached -/
def lastReached (reached : PMsg → Bool) (a : Addr) : List PMsg → Option Bool
  | [] => none
  | m :: rest =>
    match lastReached reached a rest with
    | some v => some v
    | none => if reached m && decide (a ∈ m.addrs) then some m.isSanction else none

/-- a temporary entry that is new in a dump is justified: its proposal is stored, still in its
deposit or voting period, and its total deposit reaches the (current) immediate minimum of
the entry's kind. `props` = (id, status letter, total deposit). -/
def newEntryJustified (props : List (Nat × String × Coins)) (sancMin unsancMin : Coins) (e : TempEntry) : Bool :=
  match props.find? (fun p => p.1 == e.id) with
  | some (_, st, total) => (st == "D" || st == "V") && reaches total (if e.val then sancMin else unsancMin)
  | none => false

/-- after an accepted deposit on proposal `id` (messages `msgs`, total now `total`) every
address named by a message whose threshold is reached has the entry of the last such message -/
def reachedEntriesPresent (temp : List TempEntry) (id : Nat) (msgs : List PMsg) (total sancMin unsancMin : Coins) : Bool :=
  let reached := fun (m : PMsg) => reaches total (if m.isSanction then sancMin else unsancMin)
  (msgs.flatMap (·.addrs)).all fun a =>
    match lastReached reached a msgs with
    | some v => temp.contains ⟨a, id, v⟩
    | none => true

/-! ### the accounts an operation takes funds from -/

/-- the accounts an operation debits (whoever signs it): the proposer / depositor of a gov
deposit, the sender of a send / multi-send / delegation / fee payment, the account a marker
transfer takes the coins from (not its administrator), the marker's / the market's account for a
withdrawal, the paying sides of a payment, both sides of a settlement.  The run-time checker asks
of these accounts (`checkOp`): refused when one of them is sanctioned, never refused as sanctioned
when none is; `PvProofs.C06.sanctioned_refusal_names_sanctioned_debited` is the second half for
the model. -/
def debited (c : Cfg) : Op → List Addr
  | .submit who _ _ _ => [who]
  | .deposit who _ _ => [who]
  | .send f _ _ => [f]
  | .msend f _ _ => [f]
  | .delegate who _ => [who]
  | .tomod who _ => [who]
  | .mxfer _ frm _ _ x => if 0 < x then [frm] else []
  | .mwd _ _ d _ => match getMarkerByDenom c d with | some m => [m.addr] | none => []
  | .mktwd _ _ _ => [c.market]
  | .pay src tgt sAmt tAmt => (if sAmt.isEmpty then [] else [src]) ++ (if tAmt.isEmpty then [] else [tgt])
  | .settle seller buyer _ _ => [seller, buyer]
  | _ => []

/-- the last message of a proposal that names `a` (what a passed proposal does to `a`) -/
def lastNaming (a : Addr) (msgs : List PMsg) : Option Bool := lastReached (fun _ => true) a msgs

/-- what the deposit records `ds` hold for depositor `a` in denom `d` (what a refund owes it) -/
def owed (a : Addr) (d : Denom) : List (Addr × Coins) → Int
  | [] => 0
  | x :: rest => (if x.1 = a then Coins.amountOf x.2 d else 0) + owed a d rest

end PvModel.Sanc.Spec
