/-
C06 — declarative side: what the property says, independent of the model's control flow.
Everything here is a function of an *observed dump* of the sanction store and of the gov
proposals (what the Go harness prints from the real keepers), so the same definitions are
the theorem statements (PvProofs/C06.lean) and the run-time checker (SancDriver.lean).
-/
import PvModel.Sanc

namespace PvModel.Sanc.Spec
open PvModel PvModel.Sanc

/-- "the temporary entry from the highest-numbered proposal that has one for `a` says `v`" -/
def LatestSays (temp : List TempEntry) (a : Addr) (v : Bool) : Prop :=
  ∃ p, (⟨a, p, v⟩ : TempEntry) ∈ temp ∧ ∀ e ∈ temp, e.addr = a → e.id ≤ p

/-- "`a` has no temporary entry" -/
def NoTemp (temp : List TempEntry) (a : Addr) : Prop := ∀ e ∈ temp, e.addr ≠ a

/-- The sanction rule of the property: protected accounts never; otherwise the latest temporary
entry decides; without one, permanent membership decides. -/
def IsSanctioned (unsanctionable perm : List Addr) (temp : List TempEntry) (a : Addr) : Prop :=
  a ≠ "" ∧ a ∉ unsanctionable ∧ (LatestSays temp a true ∨ (NoTemp temp a ∧ a ∈ perm))

/-- the same rule, computed (used on dumps of the real store) -/
def isSanctioned (unsanctionable perm : List Addr) (temp : List TempEntry) (a : Addr) : Bool :=
  if a = "" ∨ a ∈ unsanctionable then false
  else
    let es := temp.filter (fun e => decide (e.addr = a))
    match es.find? (fun e => es.all (fun e' => decide (e'.id ≤ e.id))) with
    | some e => e.val
    | none => decide (a ∈ perm)

/-- no two entries under one key `(addr, id)` -/
def KeysUnique (t : List TempEntry) : Prop :=
  ∀ e ∈ t, ∀ e' ∈ t, e.addr = e'.addr → e.id = e'.id → e = e'

/-- what became of a proposal id, read from a dump of the gov store (`props` = stored
proposals with their status letter, `next` = next proposal id) and the set of ids whose
cancellation succeeded. -/
inductive Fate where
  | live | passed | rejected | failed | cancelled | expired | unknown
  deriving Repr, DecidableEq

def fate (props : List (Nat × String)) (cancelled : List Nat) (next : Nat) (id : Nat) : Fate :=
  match props.find? (fun p => p.1 == id) with
  | some (_, "D") => .live
  | some (_, "V") => .live
  | some (_, "P") => .passed
  | some (_, "R") => .rejected
  | some (_, "F") => .failed
  | some _ => .unknown
  | none =>
    if id ∈ cancelled then .cancelled
    else if 0 < id ∧ id < next then .expired
    else .unknown

def Fate.clause : Fate → String
  | .live => "ok"
  | .passed => "temp_survives_passed"
  | .rejected => "temp_survives_rejected"
  | .failed => "temp_survives_failed"
  | .cancelled => "temp_survives_cancel"
  | .expired => "temp_survives_expired"
  | .unknown => "temp_for_unknown_proposal"

/-- the index lists exactly the keys of the temporary entries -/
def indexMirrors (temp : List TempEntry) (idx : List (Nat × Addr)) : Bool :=
  temp.all (fun e => idx.contains (e.id, e.addr)) && idx.all (fun k => temp.any (fun e => e.id == k.1 && e.addr == k.2))

/-- every balance of `prev` is still covered by `cur` (per denom) -/
def notDecreased (prev cur : Coins) : Bool :=
  (Coins.denoms prev).all fun d => decide (Coins.amountOf prev d ≤ Coins.amountOf cur d)

end PvModel.Sanc.Spec
