/-
Line-protocol driver + implementation-output checker for the C02 model (`exhold`).

Op lines (see `parseOp`); after every op the harness sends `dump`, whose implementation output is
the canonical rendering of every order / commitment / payment (`IterateOrders`,
`IterateCommitments`, `IteratePayments`), every account's holds (`GetHoldCoins`) and balances.
The verdict of a `dump` line is the property's conclusion evaluated on the IMPLEMENTATION's dump:
obligations recomputed from the implementation's records must equal the implementation's holds
(`hold_gt_obligations` / `hold_lt_obligations`), holds must not exceed balances
(`hold_gt_balance`), and the hold change since the previous dump must be exactly the change the
operation's item calls for (`delta_not_exact`).
-/
import PvModel.Exhold
import PvModel.ExholdSpec
-- registry: exhold PvModel.Exhold.driver

namespace PvModel.Exhold
open PvModel

def accounts : List Addr := ["A", "B", "C", "D"]

/-! ### rendering -/

private def insertSorted {α} (lt : α → α → Bool) (x : α) : List α → List α
  | [] => [x]
  | y :: ys => if lt x y then x :: y :: ys else y :: insertSorted lt x ys

private def sortBy {α} (lt : α → α → Bool) (xs : List α) : List α :=
  xs.foldl (fun acc x => insertSorted lt x acc) []

def showC (cs : Coins) : String := showCoins (Coins.canon cs)

def showOrder (o : Order) : String :=
  s!"{o.id}:{o.market}:{o.owner}:{if o.isAsk then "a" else "b"}:{showCoin o.assets}:{showCoin o.price}:{showC o.fees}:{if o.allowPartial then "p" else "n"}"

def showCommitment (c : Commitment) : String := s!"{c.market}:{c.account}:{showC c.amount}"

def showPayment (p : Payment) : String :=
  s!"{p.source}:{p.extId}:{if p.target = "" then "-" else p.target}:{showC p.sourceAmt}:{showC p.targetAmt}"

private def joinOr (xs : List String) (sep : String) : String :=
  if xs.isEmpty then "-" else sep.intercalate xs

/-- records part of a dump -/
def showRecords (os : List Order) (cs : List Commitment) (ps : List Payment) : String :=
  let os := (sortBy (fun (a b : Order) => a.id < b.id) os).map showOrder
  let cs := (sortBy (fun (a b : Commitment) => a.market < b.market || (a.market == b.market && a.account < b.account))
    (cs.filter fun c => !allZero (Coins.canon c.amount))).map showCommitment
  let ps := (sortBy (fun (a b : Payment) => a.source < b.source || (a.source == b.source && a.extId < b.extId)) ps).map showPayment
  s!"orders={joinOr os ";"} commits={joinOr cs ";"} pays={joinOr ps ";"}"

def holdCoins (s : State) (a : Addr) : Coins :=
  Coins.canon ((s.hold.filter (·.addr = a)).map fun e => (e.denom, e.amt))

def dump (s : State) : String :=
  let hs := accounts.map fun a => s!"{a}:{showCoins (holdCoins s a)}"
  let bs := accounts.map fun a => s!"{a}:{showCoins (Ledger.balances s.bank a)}"
  s!"{showRecords s.orders s.commitments s.payments} hold={";".intercalate hs} bal={";".intercalate bs} last={s.lastOrderId} other=0"

/-! ### parsing -/

def parseCoinsD (s : String) : Option Coins := parseCoins? s

def parseOptCoin (s : String) : Option (Option Coin) :=
  if s = "-" ∨ s = "" then some none else (parseCoin? s).map some

def parseBool (s : String) : Bool := s = "1" || s = "p" || s = "true"

/-- `id:mkt:owner:a|b:assets:price:fees:p|n` -/
def parseOrder (s : String) : Option Order :=
  match s.splitOn ":" with
  | [id, m, owner, side, assets, price, fees, p] => do
    pure { id := ← parseNat? id, market := ← parseNat? m, owner := owner, isAsk := side = "a",
           assets := ← parseCoin? assets, price := ← parseCoin? price, fees := ← parseCoinsD fees,
           allowPartial := parseBool p }
  | _ => none

def parseCommitment (s : String) : Option Commitment :=
  match s.splitOn ":" with
  | [m, a, amt] => do pure { market := ← parseNat? m, account := a, amount := ← parseCoinsD amt }
  | _ => none

def parsePayment (s : String) : Option Payment :=
  match s.splitOn ":" with
  | [src, ext, tgt, sa, ta] => do
    pure { source := src, extId := ext, target := if tgt = "-" then "" else tgt,
           sourceAmt := ← parseCoinsD sa, targetAmt := ← parseCoinsD ta }
  | _ => none

/-- an account name as the op line spells it: `A` (canonical lower-case bech32), `A^` (the same
account in upper case), `A~` (mixed case: not valid bech32). -/
def parseSpelled (w : String) : Spelled :=
  if w.endsWith "^" then ⟨String.ofList w.toList.dropLast, .upper⟩
  else if w.endsWith "~" then ⟨String.ofList w.toList.dropLast, .mixed⟩
  else ⟨w, .lower⟩

/-- a single address field of a message whose handler parses it (`AccAddressFromBech32`) before
anything else: only the account matters. -/
def getAcct (ws : List String) (k : String) : Addr := (parseSpelled ((kv ws k).getD "-")).acct

/-- `A:coins;B:coins` -/
def parseEntries (s : String) : Option (List (Addr × Coins)) :=
  (splitList s ";").mapM fun e =>
    match e.splitOn ":" with
    | [a, cs] => (parseCoinsD cs).map fun cs => (a, cs)
    | _ => none

/-- account/amount entries of a message: every account string is parsed (`AccAddressFromBech32`)
where it is used, so only the account matters (`A^` = `A`). -/
def parseAcctEntries (s : String) : Option (List (Addr × Coins)) :=
  (parseEntries s).map fun es => es.map fun e => ((parseSpelled e.1).acct, e.2)

def parseNats (s : String) : Option (List Nat) := (splitList s).mapM parseNat?

def parseRatios (s : String) : Option (List (Denom × Int × Int)) :=
  (splitList s).mapM fun e =>
    match e.splitOn ":" with
    | [d, p, f] => do pure (d, ← parseInt? p, ← parseInt? f)
    | _ => none

def getD (ws : List String) (k : String) : String := (kv ws k).getD "-"

def parseOracle (ws : List String) : Option Oracle := do
  pure { res := getD ws "res", moves := ← parseEntries (getD ws "moves") }

def parseGenesis (ws : List String) : Option Genesis := do
  pure { orders := ← (splitList (getD ws "orders") ";").mapM parseOrder,
         lastOrderId := ← parseNat? (getD ws "last"),
         commitments := ← (splitList (getD ws "commits") ";").mapM parseCommitment,
         payments := ← (splitList (getD ws "pays") ";").mapM parsePayment,
         holds := ← parseEntries (getD ws "holds") }

def parseNewOrder (r : List String) (isAsk : Bool) (feeKey : String) : Option Order := do
  let m ← parseNat? (getD r "m")
  let assets ← parseCoin? (getD r "assets")
  let price ← parseCoin? (getD r "price")
  let fees ← parseCoinsD (getD r feeKey)
  pure ⟨0, m, getD r "owner", isAsk, assets, price, fees, parseBool (getD r "partial")⟩

def parsePaymentKV (r : List String) : Option Payment := do
  let t := getD r "tgt"
  let sa ← parseCoinsD (getD r "samt")
  let ta ← parseCoinsD (getD r "tamt")
  pure ⟨getD r "src", getD r "ext", if t = "-" then "" else t, sa, ta⟩

def parseOp (ws : List String) : Option Op :=
  match ws with
  | "market" :: r => do
    let id ← parseNat? (getD r "id")
    let cask ← parseCoinsD (getD r "cask")
    let cbid ← parseCoinsD (getD r "cbid")
    let ccom ← parseCoinsD (getD r "ccom")
    let sflat ← parseCoinsD (getD r "sflat")
    let bflat ← parseCoinsD (getD r "bflat")
    let sratio ← parseRatios (getD r "sratio")
    let mk : Market := {
      id := id, acceptingOrders := parseBool (getD r "ao"),
      userSettle := parseBool (getD r "us"), acceptingCommitments := parseBool (getD r "ac"),
      createAskFlat := cask, createBidFlat := cbid, createCommitFlat := ccom, sellerFlat := sflat,
      buyerFlat := bflat, sellerRatio := sratio }
    pure (.setMarket mk)
  | ["fund", a, cs] => do pure (.fund a (← parseCoinsD cs))
  | "genesis" :: r => do pure (.genesis (← parseGenesis r))
  | "ask" :: r => do pure (.createOrder (← parseNewOrder r true "fee") (← parseOptCoin (getD r "cfee")))
  | "bid" :: r => do pure (.createOrder (← parseNewOrder r false "fees") (← parseOptCoin (getD r "cfee")))
  | "cancel" :: r => do pure (.cancel (← parseNat? (getD r "id")) (getD r "signer"))
  | "settle" :: r => do
    pure (.settle (getD r "admin") (← parseNat? (getD r "m")) (← parseNats (getD r "asks"))
      (← parseNats (getD r "bids")) (parseBool (getD r "partial")) (← parseOracle r))
  | "fillbids" :: r => do
    pure (.fillBids (getD r "seller") (← parseNat? (getD r "m")) (← parseNats (getD r "bids"))
      (← parseCoinsD (getD r "total")) (← parseOptCoin (getD r "flat")) (← parseOptCoin (getD r "cfee"))
      (← parseOracle r))
  | "fillasks" :: r => do
    pure (.fillAsks (getD r "buyer") (← parseNat? (getD r "m")) (← parseNats (getD r "asks"))
      (← parseCoin? (getD r "total")) (← parseCoinsD (getD r "fees")) (← parseOptCoin (getD r "cfee"))
      (← parseOracle r))
  | "commit" :: r => do
    pure (.commit (getD r "acct") (← parseNat? (getD r "m")) (← parseCoinsD (getD r "amount"))
      (← parseOptCoin (getD r "cfee")))
  | "release" :: r => do
    pure (.release (getD r "admin") (← parseNat? (getD r "m")) (← parseAcctEntries (getD r "entries")))
  | "csettle" :: r => do
    pure (.csettle (getD r "admin") (← parseNat? (getD r "m")) (← parseAcctEntries (getD r "in"))
      (← parseAcctEntries (getD r "out")) (← parseAcctEntries (getD r "fees")))
  | "pay" :: r => do pure (.pay (← parsePaymentKV r))
  | "accept" :: r => do pure (.accept (← parsePaymentKV r))
  | "reject" :: r => some (.reject (getAcct r "tgt") (getAcct r "src") (getD r "ext"))
  | "rejectall" :: r => some (.rejectAll (getAcct r "tgt") ((splitList (getD r "srcs")).map parseSpelled))
  | "cancelpay" :: r => some (.cancelPay (getAcct r "src") (splitList (getD r "exts")))
  | "retarget" :: r =>
    let t := getAcct r "tgt"
    some (.retarget (getAcct r "src") (getD r "ext") (if t = "-" then "" else t))
  | "close" :: r => do pure (.closeMarket (← parseNat? (getD r "m")))
  | "send" :: r => do pure (.send (getD r "from") (getD r "to") (← parseCoinsD (getD r "coins")))
  | "delegate" :: r => do pure (.delegate (getD r "from") (← parseCoin? (getD r "amt")))
  | _ => none

/-! ### the checker: the property's conclusion on the implementation's dump -/

/-- what the implementation dumped -/
structure ImplDump where
  orders : List Order
  commitments : List Commitment
  payments : List Payment
  holds : List (Addr × Coins)
  bals : List (Addr × Coins)

def parseDump (line : String) : Option ImplDump := do
  let ws := words line
  pure { orders := ← (splitList (getD ws "orders") ";").mapM parseOrder,
         commitments := ← (splitList (getD ws "commits") ";").mapM parseCommitment,
         payments := ← (splitList (getD ws "pays") ";").mapM parsePayment,
         holds := ← parseEntries (getD ws "hold"),
         bals := ← parseEntries (getD ws "bal") }

def lookupCoins (xs : List (Addr × Coins)) (a : Addr) : Coins :=
  match xs.find? (·.1 = a) with
  | some e => e.2
  | none => []

def implDenoms (i : ImplDump) : List Denom :=
  ((i.orders.map fun o => Coins.denoms (holdAmt o)).flatten ++
   (i.commitments.map fun c => Coins.denoms c.amount).flatten ++
   (i.payments.map fun p => Coins.denoms p.sourceAmt).flatten ++
   (i.holds.map fun h => Coins.denoms h.2).flatten).eraseDups

/-- `Spec.HoldsMatch` / `Spec.HoldsCovered` evaluated on the implementation's dump. -/
def checkDump (i : ImplDump) : String :=
  let ds := implDenoms i
  let bad := accounts.findSome? fun a => ds.findSome? fun d =>
    let h := Coins.amountOf (lookupCoins i.holds a) d
    let o := Spec.obligations i.orders i.commitments i.payments a d
    let b := Coins.amountOf (lookupCoins i.bals a) d
    if h > o then some s!"fail:hold_gt_obligations"
    else if h < o then some s!"fail:hold_lt_obligations"
    else if h > b then some s!"fail:hold_gt_balance"
    else none
  bad.getD "ok"

/-- `Op`-independent signed amount function -/
abbrev Delta := Addr → Denom → Int

def entriesAt (es : List (Addr × Coins)) (a : Addr) (d : Denom) : Int :=
  Spec.sumOver es fun e => if e.1 = a then Coins.amountOf e.2 d else 0

/-- "Creating, … cancelling, releasing, accepting, rejecting or closing any of them changes the
hold by exactly that item's reserved amount": the expected hold change of a successful op,
computed from the op line and the IMPLEMENTATION's previous dump only (`none` = the op's items
are determined by the settlement, which the equality clauses cover). -/
def expectedDelta (op : Op) (prev : ImplDump) : Option Delta :=
  match op with
  | .createOrder o _ => some fun a d => if o.owner = a then Spec.orderReserved o d else 0
  | .cancel id _ =>
    match prev.orders.find? (·.id = id) with
    | some o => some fun a d => if o.owner = a then - Spec.orderReserved o d else 0
    | none => none
  | .commit acct _ amt _ => some fun a d => if acct = a then Coins.amountOf amt d else 0
  | .release _ m entries =>
    -- an empty amount releases the whole commitment
    let es := entries.map fun e =>
      if e.2.isEmpty then
        (e.1, ((prev.commitments.filter fun c => c.market = m ∧ c.account = e.1).map (·.amount)).flatten)
      else e
    -- (two entries for one account are only exact when none of them is "all")
    if entries.any (fun e => e.2.isEmpty) ∧ !(entries.map (·.1)).Nodup then none
    else some fun a d => - entriesAt es a d
  | .csettle _ _ ins outs fees => some fun a d => entriesAt outs a d - entriesAt ins a d - entriesAt fees a d
  | .pay p => some fun a d => if p.source = a then Coins.amountOf p.sourceAmt d else 0
  | .accept p =>
    match prev.payments.find? (fun x => x.source = p.source ∧ x.extId = p.extId) with
    | some x => some fun a d => if x.source = a then - Coins.amountOf x.sourceAmt d else 0
    | none => none
  | .reject _ src ext =>
    match prev.payments.find? (fun x => x.source = src ∧ x.extId = ext) with
    | some x => some fun a d => if x.source = a then - Coins.amountOf x.sourceAmt d else 0
    | none => none
  | .rejectAll t srcs =>
    -- every payment to the target of an account the list names, however often / however spelled
    let ps := prev.payments.filter fun x => x.target = t ∧ (srcs.map (·.acct)).contains x.source
    some fun a d => - Spec.sumOver ps fun x => if x.source = a then Coins.amountOf x.sourceAmt d else 0
  | .cancelPay src exts =>
    let ps := prev.payments.filter fun x => x.source = src ∧ exts.contains x.extId
    some fun a d => - Spec.sumOver ps fun x => if x.source = a then Coins.amountOf x.sourceAmt d else 0
  | .retarget .. => some fun _ _ => 0
  | .send .. => some fun _ _ => 0
  | .delegate .. => some fun _ _ => 0
  | .setMarket _ => some fun _ _ => 0
  | .closeMarket m =>
    let os := prev.orders.filter (·.market = m)
    let cs := prev.commitments.filter (·.market = m)
    some fun a d => - (Spec.sumOver os (fun o => if o.owner = a then Spec.orderReserved o d else 0) +
                       Spec.sumOver cs (fun c => if c.account = a then Coins.amountOf c.amount d else 0))
  | _ => none

def checkDelta (prev cur : ImplDump) (exp : Delta) : Bool :=
  let ds := (implDenoms prev ++ implDenoms cur).eraseDups
  accounts.all fun a => ds.all fun d =>
    Coins.amountOf (lookupCoins cur.holds a) d - Coins.amountOf (lookupCoins prev.holds a) d = exp a d

structure DState where
  s : State := {}
  /-- the implementation's previous dump and the hold change the op since then calls for -/
  implPrev : Option ImplDump := none
  pending : Option Delta := none
  /-- the history started from a genesis whose holds match its records (the property's premise) -/
  premise : Bool := true

def stepLine (st : DState) (ws : List String) (impl : Option String) : DState × String × String :=
  if ws = ["dump"] then
    let out := dump st.s
    match impl with
    | none => (st, out, "-")
    | some i =>
      match parseDump i with
      | none => (st, out, "fail:unparsable_dump")
      | some d =>
        let v :=
          if !st.premise then "-"
          else
            let v1 := checkDump d
            if v1 ≠ "ok" then v1
            else match st.implPrev, st.pending with
              | some prev, some exp => if checkDelta prev d exp then "ok" else "fail:delta_not_exact"
              | _, _ => "ok"
        ({ st with implPrev := some d, pending := none }, out, v)
  else
    match parseOp ws with
    | none => (st, "bad-op", "-")
    | some op =>
      let (s', out) := applyOp st.s op
      let premise := match op with
        | .genesis _ =>
          -- an accepted genesis only *covers* its records; the property starts from an exact one
          st.premise && (recordKeys s' ++ (s'.hold.map fun e => (e.addr, e.denom))).all fun k =>
            decide (hold s' k.1 k.2 = obligations s' k.1 k.2)
        | _ => st.premise
      let pending : Option Delta :=
        match impl, st.implPrev with
        | some i, some prev =>
          if i.startsWith "ok" then expectedDelta op prev
          else match op with
            | .genesis _ => none
            | _ => some fun _ _ => 0        -- a rejected message changes nothing
        | _, _ => none
      ({ st with s := s', premise := premise, pending := pending }, out, "-")

def driver : Driver where
  σ := DState
  init := {}
  step := fun st op impl => stepLine st (words op) impl

end PvModel.Exhold
