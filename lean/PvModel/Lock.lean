/-
C03 model `lock`: the forked bank keeper's balance-changing primitives, the locked-coins
getter chain `[vesting unvested, hold]` with its two context bypasses, and the hold keeper.

Mirrors (function by function, Go names kept):

* forked SDK `github.com/provenance-io/cosmos-sdk@v0.50.10-pio-1`
  * `x/bank/keeper/view.go`   `LockedCoins` :202, `UnvestedCoins` :214, `SpendableCoins` :232,
    `SpendableCoin` :254, `getLockedCoinsFnWrapper` :340 (only positive entries survive),
    `NewBaseViewKeeper` :94 (the vesting getter is the first element of the chain)
  * `x/bank/types/locked_coins.go` `WithVestingLockedBypass`/`HasVestingLockedBypass`,
    `ComposeGetLockedCoins` (sum of the getters)
  * `x/bank/keeper/send.go`  `InputOutputCoinsProv` :152, `SendCoins` :312,
    `subUnlockedCoins` :359, `addCoins` :405, `setBalance` :430
  * `x/bank/keeper/keeper.go` `DelegateCoins` :125 (vesting bypass), `UndelegateCoins` :178,
    `MintCoins` :341, `BurnCoins` :379, `trackDelegation` :420, `trackUndelegation` :438
  * `x/bank/types/inputs_outputs.go` `ValidateInputsOutputs` :18
  * `x/auth/vesting/types/vesting_account.go` `LockedCoinsFromVesting` :46, `TrackDelegation` :60,
    `TrackUndelegation` :104, continuous `GetVestedCoins` :199, delayed `GetVestedCoins`
* provenance
  * `x/hold/keeper/locked_coins.go` `GetLockedCoins` :15 (the bypass check)
  * `x/hold/locked_coins.go` `WithBypass`/`HasBypass`
  * `x/hold/keeper/keeper.go` `NewKeeper` :24 (appends the getter), `ValidateNewHold` :70,
    `AddHold` :98, `ReleaseHold` :141
  * `x/hold/keeper/invariants.go` `holdAccountBalancesInvariantHelper` :30

State: balances and holds are append-only `Ledger`s (shared `PvModel.Coins`), so
`bal`/`hold` are sums of deltas and every per-denom law is linear arithmetic.
A rejected primitive returns `.error`; `step` then keeps the old state (transaction
atomicity: baseapp discards a failed message's cached writes).

Send restrictions (marker, sanction, quarantine, …) run *between* `subUnlockedCoins` and
`addCoins` and cannot touch balances; they are modelled by their outcome, carried on the
op: `none` = the chain returned an error, `some a` = deliver to `a` (quarantine redirects).
The marker/quarantine/sanction bypass flags of the context only influence that outcome;
they are fields of `Ctx` that no bank primitive reads.

Core-only (no Mathlib).
-/
import PvModel.Coins
import PvModel.Util

namespace PvModel.Lock
open PvModel

-- block times are unix seconds (`Int`)

/-! ### LegacyDec arithmetic used by continuous vesting (cosmossdk.io/math dec.go) -/

/-- `10^18` (`precisionReuse`). -/
def precision : Int := 1000000000000000000

/-- dec.go `chopPrecisionAndRound` for a non-negative argument: divide by `10^18`, banker's
rounding (half to even). -/
def chop (a : Int) : Int :=
  let q := a / precision
  let r := a % precision
  if 2 * r < precision then q
  else if precision < 2 * r then q + 1
  else if q % 2 = 0 then q else q + 1

/-- vesting_account.go:199 continuous `GetVestedCoins` for one coin of amount `o`:
`LegacyNewDecFromInt(o).Mul(LegacyNewDec(x).Quo(LegacyNewDec(y))).RoundInt()`
(`QuoMut` dec.go:383, `MulMut` :317, `RoundInt` :697); `0 ≤ o`, `0 < x < y`. -/
def vestedContinuous (o x y : Int) : Int :=
  let s := chop ((x * precision * (precision * precision)) / (y * precision))
  chop (chop ((o * precision) * s))

/-- Vesting schedules covered: delayed and continuous. -/
inductive Sched where
  | delayed (ov : Coins) (endT : Int)
  | continuous (ov : Coins) (startT endT : Int)
  deriving Repr

/-- `GetVestingCoins(blockTime)` per denom: original vesting minus vested. -/
def Sched.vesting : Sched → Int → Denom → Int
  | .delayed ov e, t, d => if e ≤ t then 0 else Coins.amountOf ov d
  | .continuous ov st e, t, d =>
    let o := Coins.amountOf ov d
    if t ≤ st then o
    else if e ≤ t then 0
    else o - vestedContinuous o (t - st) (e - st)

/-- Account kinds. The bank keeper distinguishes only vesting accounts (locked coins); module
accounts matter to the wrappers (`blockedAddrs`, `DelegateCoinsFromAccountToModule`). -/
inductive Kind where
  | base
  | vesting (s : Sched)
  | module
  | marker
  | market
  deriving Repr

def Kind.vesting? : Kind → Option Sched
  | .vesting s => some s
  | _ => none

/-- The context flags. `vestBypass` = `banktypes.WithVestingLockedBypass`, `holdBypass` =
`hold.WithBypass`; the other three (`markertypes.WithBypass`, `quarantine.WithBypass`,
`sanction.WithBypass`) are read by send restrictions only. -/
structure Ctx where
  vestBypass : Bool := false
  holdBypass : Bool := false
  markerBypass : Bool := false
  quarantineBypass : Bool := false
  sanctionBypass : Bool := false
  deriving Repr, DecidableEq

inductive Err where
  | invalid      -- ErrInvalidCoins
  | funds        -- ErrInsufficientFunds / hold "spendable balance … is less than hold amount"
  | restr        -- a send restriction returned an error
  | unknownAddr  -- ErrUnknownAddress
  | noInputs | noOutputs | manyToMany | mismatch
  | negative     -- hold: negative amounts
  | overRelease  -- hold: release more than is on hold
  deriving Repr, DecidableEq

def Err.toString : Err → String
  | .invalid => "err:invalid"
  | .funds => "err:funds"
  | .restr => "err:restr"
  | .unknownAddr => "err:unknownaddr"
  | .noInputs => "err:noinputs"
  | .noOutputs => "err:nooutputs"
  | .manyToMany => "err:manytomany"
  | .mismatch => "err:mismatch"
  | .negative => "err:negative"
  | .overRelease => "err:overrelease"

structure State where
  /-- bank `Balances` -/
  ledger : Ledger := []
  /-- hold store (`KeyPrefixHoldCoin | addr | denom → amount`) -/
  holds : Ledger := []
  /-- account keeper: accounts that exist and their kind (first entry wins) -/
  kinds : List (Addr × Kind) := []
  /-- `BaseVestingAccount.DelegatedVesting` / `DelegatedFree` -/
  dv : Ledger := []
  df : Ledger := []
  /-- block time, unix seconds -/
  time : Int := 0

namespace State
def bal (s : State) (a : Addr) (d : Denom) : Int := Ledger.bal s.ledger a d
def hold (s : State) (a : Addr) (d : Denom) : Int := Ledger.bal s.holds a d
def dvOf (s : State) (a : Addr) (d : Denom) : Int := Ledger.bal s.dv a d
def dfOf (s : State) (a : Addr) (d : Denom) : Int := Ledger.bal s.df a d
def accountExists (s : State) (a : Addr) : Bool := (s.kinds.lookup a).isSome
def kindOf (s : State) (a : Addr) : Kind := (s.kinds.lookup a).getD .base
end State

/-- keep only a positive entry (`getLockedCoinsFnWrapper`, view.go:340) -/
def pos (x : Int) : Int := if 0 < x then x else 0

/-- `GetVestingCoins(blockTime)` of the account, per denom (0 for non-vesting accounts). -/
def vestingCoins (s : State) (a : Addr) (d : Denom) : Int :=
  match (s.kindOf a).vesting? with
  | some sc => sc.vesting s.time d
  | none => 0

/-- vesting_account.go:46 `LockedCoinsFromVesting`: `vesting − min(vesting, DelegatedVesting)`;
this is `vacc.LockedCoins(blockTime)`, the amount `UnvestedCoins` (view.go:214) reports. -/
def unvested (s : State) (a : Addr) (d : Denom) : Int :=
  match (s.kindOf a).vesting? with
  | some sc =>
    let v := sc.vesting s.time d
    v - min v (s.dvOf a d)
  | none => 0   -- view.go:222: not a vesting account → no coins

/-- first getter of the chain: view.go:214 `UnvestedCoins` (with its bypass check) wrapped. -/
def unvestedGetter (s : State) (c : Ctx) (a : Addr) (d : Denom) : Int :=
  if c.vestBypass then 0 else pos (unvested s a d)

/-- second getter: x/hold/keeper/locked_coins.go:15 `GetLockedCoins` (bypass check) wrapped. -/
def holdGetter (s : State) (c : Ctx) (a : Addr) (d : Denom) : Int :=
  if c.holdBypass then 0 else pos (s.hold a d)

/-- view.go:202 `LockedCoins`: the composed chain `[UnvestedCoins, hold.GetLockedCoins]`
(`ComposeGetLockedCoins` sums the results). -/
def lockedCoins (s : State) (c : Ctx) (a : Addr) (d : Denom) : Int :=
  unvestedGetter s c a d + holdGetter s c a d

/-! ### sdk.Coins predicates (types/coin.go) -/

/-- `Coins.IsValid`: strictly sorted by denom, all amounts positive (empty is valid). -/
def isValid : Coins → Bool
  | [] => true
  | [(_, x)] => decide (0 < x)
  | (d₁, x₁) :: (d₂, x₂) :: rest => decide (0 < x₁) && decide (d₁ < d₂) && isValid ((d₂, x₂) :: rest)

/-- `Coins.IsAllPositive`: non-empty and all positive. -/
def isAllPositive (cs : Coins) : Bool := !cs.isEmpty && cs.all fun c => decide (0 < c.2)
/-- `Coins.IsZero`: every amount is zero (empty included). -/
def isZero (cs : Coins) : Bool := cs.all fun c => decide (c.2 = 0)
/-- `Coins.IsAnyNegative`. -/
def isAnyNegative (cs : Coins) : Bool := cs.any fun c => decide (c.2 < 0)

/-! ### bank primitives -/

def debit1 (s : State) (a : Addr) (d : Denom) (x : Int) : State :=
  { s with ledger := s.ledger.debit a [(d, x)] }

/-- the coin loop of send.go:367-393 (`lockedOf` = `lockedCoins.AmountOf`, read once before
the loop); each iteration re-reads the balance and calls `setBalance`. -/
def subLoop (s : State) (lockedOf : Denom → Int) (a : Addr) : Coins → Except Err State
  | [] => .ok s
  | (d, x) :: rest =>
    let balance := s.bal a d
    let locked := lockedOf d
    if balance - locked < 0 then .error .funds          -- "locked amount exceeds account balance funds"
    else if balance - locked - x < 0 then .error .funds -- "spendable balance … is smaller than …"
    else subLoop (debit1 s a d x) lockedOf a rest

/-- send.go:359 `subUnlockedCoins`. -/
def subUnlockedCoins (s : State) (c : Ctx) (a : Addr) (amt : Coins) : Except Err State :=
  if !isValid amt then .error .invalid
  else subLoop s (lockedCoins s c a) a amt

/-- send.go:405 `addCoins`. -/
def addCoins (s : State) (a : Addr) (amt : Coins) : Except Err State :=
  if !isValid amt then .error .invalid
  else .ok { s with ledger := s.ledger.credit a amt }

/-- send.go:334 "Create account if recipient does not exist". -/
def ensureAccount (s : State) (a : Addr) : State :=
  if s.accountExists a then s else { s with kinds := s.kinds ++ [(a, .base)] }

/-- send.go:312 `SendCoins`; `r` = outcome of `sendRestriction.apply`. -/
def sendCoins (s : State) (c : Ctx) (src dst : Addr) (amt : Coins) (r : Option Addr) : Except Err State :=
  match subUnlockedCoins s c src amt with
  | .error e => .error e
  | .ok s₁ =>
    match r with
    | none => .error .restr
    | some dst' =>
      let _ := dst
      match addCoins s₁ dst' amt with
      | .error e => .error e
      | .ok s₂ => .ok (ensureAccount s₂ dst')

/-- group `(addr, coins)` entries by address in first-seen order (send.go:170-183 /
:204-230: `inputAmounts`+`inputOrder`, `outputAmounts`+`outputOrder`). -/
def groupByAddr (xs : List (Addr × Coins)) : List (Addr × Coins) :=
  xs.foldl (fun acc (p : Addr × Coins) =>
    if acc.any (fun q => q.1 = p.1) then acc.map (fun q => if q.1 = p.1 then (q.1, q.2 ++ p.2) else q)
    else acc ++ [p]) []

def normGroups (xs : List (Addr × Coins)) : List (Addr × Coins) :=
  (groupByAddr xs).map fun p => (p.1, Coins.canon p.2)

/-- inputs_outputs.go:18 `ValidateInputsOutputs`. -/
def validateInputsOutputs (ins outs : List (Addr × Coins)) : Except Err Unit :=
  if !(ins.all fun p => isValid p.2 && isAllPositive p.2) then .error .invalid
  else if !(outs.all fun p => isValid p.2 && isAllPositive p.2) then .error .invalid
  else if Coins.canon (ins.flatMap (·.2)) ≠ Coins.canon (outs.flatMap (·.2)) then .error .mismatch
  else .ok ()

/-- send.go:186-197: remove the funds from every (grouped) input. -/
def subAll (s : State) (c : Ctx) : List (Addr × Coins) → Except Err State
  | [] => .ok s
  | (a, amt) :: rest =>
    match subUnlockedCoins s c a amt with
    | .error e => .error e
    | .ok s' => subAll s' c rest

/-- send.go:262-276: add the coins to every (grouped) resolved output. -/
def addAll (s : State) : List (Addr × Coins) → Except Err State
  | [] => .ok s
  | (a, amt) :: rest =>
    match addCoins s a amt with
    | .error e => .error e
    | .ok s' => addAll (ensureAccount s' a) rest

/-- send.go:204-258 `applySendRestriction` for each transfer; `rs` lists the outcomes of the
successive restriction calls (`none` = error, `some a` = deliver to `a`); a missing entry
means "allowed, unchanged". -/
def applyRestrictions : List (Addr × Coins) → List (Option Addr) → Except Err (List (Addr × Coins))
  | [], _ => .ok []
  | (dst, cs) :: rest, [] =>
    match applyRestrictions rest [] with
    | .error e => .error e
    | .ok l => .ok ((dst, cs) :: l)
  | (_, _) :: _, none :: _ => .error .restr
  | (_, cs) :: rest, some dst' :: rs =>
    match applyRestrictions rest rs with
    | .error e => .error e
    | .ok l => .ok ((dst', cs) :: l)

/-- send.go:244-258: with several inputs the restriction runs once per input (towards the single
output), otherwise once per output. -/
def transfersOf (ins outs : List (Addr × Coins)) : List (Addr × Coins) :=
  if 1 < ins.length then ins.map fun p => ((outs.headD ("", [])).1, p.2) else outs

/-- send.go:152 `InputOutputCoinsProv` (`InputOutputCoins` :145 is the one-input case). -/
def inputOutputCoins (s : State) (c : Ctx) (ins outs : List (Addr × Coins)) (rs : List (Option Addr)) :
    Except Err State :=
  if ins.isEmpty then .error .noInputs
  else if outs.isEmpty then .error .noOutputs
  else if 1 < ins.length && 1 < outs.length then .error .manyToMany
  else match validateInputsOutputs ins outs with
  | .error e => .error e
  | .ok () =>
    match subAll s c (normGroups ins) with
    | .error e => .error e
    | .ok s₁ =>
      match applyRestrictions (transfersOf ins outs) rs with
      | .error e => .error e
      | .ok resolved => addAll s₁ (normGroups resolved)

/-- the coin loop of keeper.go:140-154 (`DelegateCoins`). -/
def delegateLoop (s : State) (lockedOf : Denom → Int) (del : Addr) : Coins → Except Err State
  | [] => .ok s
  | (d, x) :: rest =>
    let balance := s.bal del d
    let available := balance - lockedOf d
    if available < x then .error .funds
    else delegateLoop (debit1 s del d x) lockedOf del rest

/-- vesting_account.go:60 `TrackDelegation`, one coin: `X = min(max(V − DV, 0), D)`, `Y = D − X`. -/
def trackDelegation1 (s : State) (a : Addr) (d : Denom) (x : Int) : State :=
  let v := vestingCoins s a d
  let dvAmt := s.dvOf a d
  let xx := min (max (v - dvAmt) 0) x
  let yy := x - xx
  { s with dv := s.dv.credit a [(d, xx)], df := s.df.credit a [(d, yy)] }

/-- keeper.go:420 `trackDelegation` (only vesting accounts are tracked). -/
def trackDelegation (s : State) (a : Addr) : Coins → State
  | [] => s
  | (d, x) :: rest =>
    match (s.kindOf a).vesting? with
    | some _ => trackDelegation (trackDelegation1 s a d x) a rest
    | none => s

/-- vesting_account.go:104 `TrackUndelegation`, one coin: `X = min(DF, D)`, `Y = min(DV, D − X)`. -/
def trackUndelegation1 (s : State) (a : Addr) (d : Denom) (x : Int) : State :=
  let xx := min (s.dfOf a d) x
  let yy := min (s.dvOf a d) (x - xx)
  { s with df := s.df.debit a [(d, xx)], dv := s.dv.debit a [(d, yy)] }

/-- keeper.go:438 `trackUndelegation`. -/
def trackUndelegation (s : State) (a : Addr) : Coins → State
  | [] => s
  | (d, x) :: rest =>
    match (s.kindOf a).vesting? with
    | some _ => trackUndelegation (trackUndelegation1 s a d x) a rest
    | none => s

/-- keeper.go:125 `DelegateCoins`. The locked amount is read with the vesting bypass set
(:139): unvested coins may be delegated, coins locked by any other getter (the hold) may not. -/
def delegateCoins (s : State) (c : Ctx) (del mod : Addr) (amt : Coins) (r : Option Addr) : Except Err State :=
  if !s.accountExists mod then .error .unknownAddr
  else if !isValid amt then .error .invalid
  else
    match delegateLoop s (lockedCoins s { c with vestBypass := true } del) del amt with
    | .error e => .error e
    | .ok s₁ =>
      match r with
      | none => .error .restr
      | some _ =>
        if !s₁.accountExists del then .error .unknownAddr
        else addCoins (trackDelegation s₁ del amt) mod amt

/-- keeper.go:178 `UndelegateCoins`. -/
def undelegateCoins (s : State) (c : Ctx) (mod del : Addr) (amt : Coins) : Except Err State :=
  if !s.accountExists mod then .error .unknownAddr
  else if !isValid amt then .error .invalid
  else
    match subUnlockedCoins s c mod amt with
    | .error e => .error e
    | .ok s₁ =>
      if !s₁.accountExists del then .error .unknownAddr
      else addCoins (trackUndelegation s₁ del amt) del amt

/-- keeper.go:341 `MintCoins` (balance part; total supply is the ledger's sum). -/
def mintCoins (s : State) (mod : Addr) (amt : Coins) : Except Err State := addCoins s mod amt

/-- keeper.go:379 `BurnCoins` (balance part). -/
def burnCoins (s : State) (c : Ctx) (mod : Addr) (amt : Coins) : Except Err State :=
  subUnlockedCoins s c mod amt

/-! ### spendable (view.go) -/

/-- view.go:232 `SpendableCoins`, read per denom over the denoms `ds` that occur in the
balance or in the locked coins: `total.SafeSub(locked)`; if nothing is negative that
difference is the answer, otherwise only its positive entries are. -/
def spendableCoinsOver (s : State) (c : Ctx) (a : Addr) (ds : List Denom) (d : Denom) : Int :=
  let unlocked := fun d => s.bal a d - lockedCoins s c a d
  let hasNeg := ds.any fun d => decide (unlocked d < 0)
  if !hasNeg then unlocked d
  else if 0 < unlocked d then unlocked d else 0

/-- the same, denom by denom (what `spendable.Find(denom)` / `AmountOf` observes). -/
def spendableCoins (s : State) (c : Ctx) (a : Addr) (d : Denom) : Int :=
  let unlocked := s.bal a d - lockedCoins s c a d
  if 0 < unlocked then unlocked else 0

/-- view.go:254 `SpendableCoin` (the gRPC `SpendableBalances` / `SpendableBalanceByDenom`
queries call this per denom). -/
def spendableCoin (s : State) (c : Ctx) (a : Addr) (d : Denom) : Int :=
  let balance := s.bal a d
  let locked := lockedCoins s c a d
  if locked ≤ 0 then balance       -- `!hasLocked`: the locked coins hold positive entries only
  else
    let sp := balance - locked
    if sp < 0 then 0 else sp

/-! ### hold keeper -/

/-- the coin loop of keeper.go:81-92 (`ValidateNewHold`). -/
def validateLoop (s : State) (c : Ctx) (a : Addr) : Coins → Except Err Unit
  | [] => .ok ()
  | (d, x) :: rest =>
    if x = 0 then validateLoop s c a rest
    else
      let available := spendableCoins s c a d
      if available ≤ 0 then .error .funds      -- `!has`
      else if available < x then .error .funds
      else validateLoop s c a rest

/-- keeper.go:70 `ValidateNewHold`. -/
def validateNewHold (s : State) (c : Ctx) (a : Addr) (funds : Coins) : Except Err Unit :=
  if isZero funds then .ok ()
  else if isAnyNegative funds then .error .negative
  else validateLoop s c a funds

/-- the coin loop of keeper.go:110-126 (`AddHold`). -/
def addHoldLoop (s : State) (a : Addr) : Coins → State
  | [] => s
  | (d, x) :: rest =>
    if x = 0 then addHoldLoop s a rest
    else addHoldLoop { s with holds := s.holds.credit a [(d, x)] } a rest

/-- keeper.go:98 `AddHold`. -/
def addHold (s : State) (c : Ctx) (a : Addr) (funds : Coins) : Except Err State :=
  if isZero funds then .ok s
  else match validateNewHold s c a funds with
  | .error e => .error e
  | .ok () => .ok (addHoldLoop s a funds)

/-- the coin loop of keeper.go:153-176 (`ReleaseHold`); Go collects the per-coin errors and
returns them joined — any error rejects the message, whose writes are then discarded. -/
def releaseLoop (s : State) (a : Addr) : Coins → Except Err State
  | [] => .ok s
  | (d, x) :: rest =>
    if x = 0 then releaseLoop s a rest
    else
      let newAmount := s.hold a d - x
      if newAmount < 0 then .error .overRelease
      else releaseLoop { s with holds := s.holds.debit a [(d, x)] } a rest

/-- keeper.go:141 `ReleaseHold`. -/
def releaseHold (s : State) (a : Addr) (funds : Coins) : Except Err State :=
  if isZero funds then .ok s
  else if isAnyNegative funds then .error .negative
  else releaseLoop s a funds

/-- invariants.go:30 `holdAccountBalancesInvariantHelper`, for one account/denom with a
positive hold: `ValidateNewHold` under `hold.WithBypass` (and the vesting bypass when the
block time is zero). `true` = not broken. -/
def holdInvariantAt (s : State) (a : Addr) (d : Denom) : Bool :=
  let c : Ctx := { holdBypass := true, vestBypass := decide (s.time = 0) }
  let h := s.hold a d
  if h ≤ 0 then true else decide (h ≤ spendableCoins s c a d)

/-! ### operations and histories -/

inductive Op where
  | send (c : Ctx) (src dst : Addr) (amt : Coins) (r : Option Addr)
  | inputOutput (c : Ctx) (ins outs : List (Addr × Coins)) (rs : List (Option Addr))
  | delegate (c : Ctx) (del mod : Addr) (amt : Coins) (r : Option Addr)
  | undelegate (c : Ctx) (mod del : Addr) (amt : Coins)
  | mint (mod : Addr) (amt : Coins)
  | burn (c : Ctx) (mod : Addr) (amt : Coins)
  | addHold (c : Ctx) (a : Addr) (funds : Coins)
  | releaseHold (a : Addr) (funds : Coins)
  | setTime (t : Int)

def apply (s : State) : Op → Except Err State
  | .send c src dst amt r => sendCoins s c src dst amt r
  | .inputOutput c ins outs rs => inputOutputCoins s c ins outs rs
  | .delegate c del mod amt r => delegateCoins s c del mod amt r
  | .undelegate c mod del amt => undelegateCoins s c mod del amt
  | .mint mod amt => mintCoins s mod amt
  | .burn c mod amt => burnCoins s c mod amt
  | .addHold c a funds => addHold s c a funds
  | .releaseHold a funds => releaseHold s a funds
  | .setTime t => .ok { s with time := t }

/-- A rejected operation changes nothing. -/
def step (s : State) (op : Op) : State :=
  match apply s op with
  | .ok s' => s'
  | .error _ => s

def run (s : State) (ops : List Op) : State := ops.foldl step s

/-- the context of an op (ops without one run in the plain context). -/
def Op.ctx : Op → Ctx
  | .send c .. | .inputOutput c .. | .delegate c .. | .undelegate c .. | .burn c .. | .addHold c .. => c
  | _ => {}

/-! ### messages: atomic sequences of primitives (the exchange's routes)

An exchange message releases holds, moves funds through the bank keeper and places new holds in
one transaction: every step is one of the primitives above, the first error rejects the whole
message (baseapp discards the cached writes).  The lowerings keep the Go order of the calls. -/

/-- run the primitives of one message; the first error rejects the message -/
def applyAll (s : State) : List Op → Except Err State
  | [] => .ok s
  | op :: rest =>
    match apply s op with
    | .error e => .error e
    | .ok s' => applyAll s' rest

/-- a rejected message changes nothing -/
def stepMsg (s : State) (ops : List Op) : State :=
  match applyAll s ops with
  | .ok s' => s'
  | .error _ => s

/-- the context of every exchange transfer: `quarantine.WithBypass(ctx)` and nothing else
(x/exchange/keeper/keeper.go:204 `DoTransfer`, payments.go:275 `AcceptPayment`;
`markertypes.WithTransferAgents` only feeds the marker send restriction). -/
def exchangeCtx : Ctx := { quarantineBypass := true }

/-- number of send-restriction calls of one `DoTransfer` -/
def transferCalls (ins outs : List (Addr × Coins)) : Nat :=
  match ins, outs with
  | [_], [_] => 1
  | _, _ => (transfersOf ins outs).length

/-- x/exchange/keeper/keeper.go:201 `DoTransfer`: one input and one output → `SendCoins`
(:222), otherwise `InputOutputCoinsProv` (:232). -/
def doTransferOp (ins outs : List (Addr × Coins)) (rs : List (Option Addr)) : Op :=
  match ins, outs with
  | [(f, amt)], [(t, _)] => .send exchangeCtx f t amt (rs.headD (some t))
  | _, _ => .inputOutput exchangeCtx ins outs rs

/-- several `DoTransfer`s in a row; the restriction outcomes `rs` are consumed call by call -/
def doTransfersOps : List (List (Addr × Coins) × List (Addr × Coins)) → List (Option Addr) → List Op
  | [], _ => []
  | (ins, outs) :: rest, rs =>
    doTransferOp ins outs (rs.take (transferCalls ins outs)) :: doTransfersOps rest (rs.drop (transferCalls ins outs))

/-- x/exchange/keeper/payments.go:230 `AcceptPayment` after the payment was found and matched:
`deletePaymentAndReleaseHold` (:270 → `ReleaseHold(source, SourceAmount)`), then
`SendCoins(source → target, SourceAmount)` (:277) and `SendCoins(target → source, TargetAmount)`
(:284), each skipped when its amount is zero, both under `quarantine.WithBypass` only. -/
def acceptPaymentOps (src tgt : Addr) (srcAmt tgtAmt : Coins) (rs : List (Option Addr)) : List Op :=
  let first := if isZero srcAmt then [] else [Op.send exchangeCtx src tgt srcAmt (rs.headD (some tgt))]
  let rs' := if isZero srcAmt then rs else rs.drop 1
  let second := if isZero tgtAmt then [] else [Op.send exchangeCtx tgt src tgtAmt (rs'.headD (some src))]
  .releaseHold src srcAmt :: (first ++ second)

/-- x/exchange/keeper/fulfillment.go:266 `closeSettlement` in a market without fees: release the
hold of every filled order (:269-279 → orders.go:601 `ReleaseHold`), then every transfer
(:285 `DoTransfer`). -/
def closeSettlementOps (releases : List (Addr × Coins))
    (transfers : List (List (Addr × Coins) × List (Addr × Coins))) (rs : List (Option Addr)) : List Op :=
  releases.map (fun p => Op.releaseHold p.1 p.2) ++ doTransfersOps transfers rs

/-- x/exchange/keeper/commitments.go:375 `SettleCommitments` without fees, after the transfer was
built: `ReleaseCommitments(inputs)` (:393 → :181 `ReleaseHold`), `DoTransfer` (:402), then
`addCommitmentsUnsafe(outputs)` (:412 → :119 `AddHold`). -/
def settleCommitmentsOps (ins outs : List (Addr × Coins)) (rs : List (Option Addr)) : List Op :=
  ins.map (fun p => Op.releaseHold p.1 p.2) ++ [doTransferOp ins outs rs] ++
    outs.map (fun p => Op.addHold {} p.1 p.2)

/-! ### the other modules' routes to the bank keeper

Each route is the list of bank primitives the Go function calls after its own (permission,
status, blocked-address) checks, in the Go order, with the context it builds.  `r` / `rs` are the
outcomes of the send-restriction calls (`none` = error, `some a` = deliver to `a`). -/

/-- x/marker/keeper/marker.go:169 `WithdrawCoins`:
`SendCoins(types.WithBypass(ctx), m.GetAddress(), recipient, coins)` (:202). -/
def markerWithdrawOps (marker recipient : Addr) (coins : Coins) (r : Option Addr) : List Op :=
  [.send { markerBypass := true } marker recipient coins r]

/-- x/marker/keeper/marker.go:624 `TransferCoin` (brokered / forced transfer by an admin):
`SendCoins(types.WithBypass(ctx), from, to, sdk.NewCoins(amount))` (:673); `amt` is that
`sdk.NewCoins(amount)`. -/
def markerTransferOps (src dst : Addr) (amt : Coins) (r : Option Addr) : List Op :=
  [.send { markerBypass := true } src dst amt r]

/-- x/marker/keeper/marker.go:254 `BurnCoin` on an active marker → `DecreaseSupply` :369 →
`AdjustCirculation` :303 (`ctx = types.WithBypass(ctx)` :310), burn branch:
`SendCoinsFromAccountToModule(marker, coin pool, [offset])` (:329) then
`BurnCoins(coin pool, [offset])` (:335). -/
def markerBurnOps (marker pool : Addr) (offset : Coins) (r : Option Addr) : List Op :=
  [.send { markerBypass := true } marker pool offset r, .burn { markerBypass := true } pool offset]

/-- forked SDK x/bank/keeper/keeper.go:392 `BurnCoins(module, amounts)` called directly by a module
(staking burns from the bonded / not-bonded pool when slashing; x/metadata/keeper/scope.go:286). -/
def moduleBurnOps (mod : Addr) (amt : Coins) : List Op := [.burn {} mod amt]

/-- forked SDK x/gov/keeper/deposit.go:63 `AddDeposit` (gov `MsgDeposit`, and the initial deposit of
`MsgSubmitProposal`): `SendCoinsFromAccountToModule(depositor, gov, depositAmount)` (:123) →
`SendCoins` in the message's own context (keeper.go:303). -/
def govDepositOps (depositor gov : Addr) (amt : Coins) (r : Option Addr) : List Op :=
  [.send {} depositor gov amt r]

/-- x/exchange/keeper/market.go:1543 `WithdrawMarketFunds`:
`SendCoins(xferCtx, marketAddr, toAddr, amount)` (:1556) where `xferCtx` carries
`quarantine.WithBypass` only when the recipient is the withdrawing admin (:1553);
`markertypes.WithTransferAgents` only feeds the marker send restriction. -/
def marketWithdrawOps (market dst : Addr) (amt : Coins) (toIsAdmin : Bool) (r : Option Addr) : List Op :=
  [.send { quarantineBypass := toIsAdmin } market dst amt r]

/-- x/quarantine/keeper/keeper.go:284 `AcceptQuarantinedFunds`: for every fully accepted record
`SendCoins(quarantine.WithBypass(ctx), fundsHolder, toAddr, record.Coins)` (:289), in the order
of the records; `rs` = the restriction outcomes, one per record. -/
def quarantineAcceptOps (holder dst : Addr) : List Coins → List (Option Addr) → List Op
  | [], _ => []
  | cs :: rest, rs =>
    .send { quarantineBypass := true } holder dst cs (rs.headD (some dst)) ::
      quarantineAcceptOps holder dst rest (rs.drop 1)

/-- x/hold/keeper/genesis.go:13 `InitGenesis`: `AddHold(ctx, addr, entry.Amount, "genesis")` for
every entry of the hold section of a genesis state, in the order of the file (:21-28), each one
therefore checked against what the earlier entries left spendable; an error panics, so nothing of
the import stays.  `addr` is the DECODED address of the entry: two entries that spell one account
differently (bech32 in lower and in upper case) are two holds on the same account. -/
def initGenesisOps (entries : List (Addr × Coins)) : List Op :=
  entries.map fun e => .addHold {} e.1 e.2

/-! ### a transaction: the fee-payment route

`internal/antewrapper/provenance_fee.go` `checkDeductBaseFee` :76 deducts the base fee (floor gas
price × gas) from the fee payer — the signer, or the granter of a fee grant — in the ante handler:
`DeductFees` :221 → `SendCoinsFromAccountToModule(payer, fee_collector, baseFee)` (:138, skipped
when the base fee is zero), in the transaction's context; `WithFeeGrantInUse` (:136) only feeds the
marker send restriction.  After the messages, `internal/handlers/msg_fee_invoker.go` `Invoke` :37
sweeps the rest of the stated fee from the same payer: `DeductFeesDistributions`
(x/msgfees/keeper/keeper.go:140, no per-message fees here) →
`SendCoinsFromAccountToModule(payer, fee_collector, rest)` (:170, skipped when nothing is left).

`baseapp.runTx` (forked SDK baseapp.go:880): the ante handler runs on a branch of the state that
is written when it succeeds (:947); the messages and the fee handler run on a second branch that
is written only when all of them succeed (:1003) — a failing message keeps the base fee paid. -/

/-- one fee deduction: `SendCoinsFromAccountToModule(payer, fee_collector, fee)` unless `fee` is zero -/
def deductFeeOps (payer feeCollector : Addr) (fee : Coins) : List Op :=
  if isZero fee then [] else [.send {} payer feeCollector fee (some feeCollector)]

inductive TxOutcome where
  /-- the ante handler refused the transaction: nothing is written -/
  | anteFailed (e : Err)
  /-- a message or the fee handler failed: only the ante handler's writes stay -/
  | msgsFailed (afterAnte : State) (e : Err)
  | done (s' : State)

/-- `baseapp.runTx` in deliver mode: `ante` = what the ante handler does, `msgs` = what the
messages and then the fee handler do. -/
def runTx (s : State) (ante msgs : List Op) : TxOutcome :=
  match applyAll s ante with
  | .error e => .anteFailed e
  | .ok s₁ =>
    match applyAll s₁ msgs with
    | .error e => .msgsFailed s₁ e
    | .ok s₂ => .done s₂

/-- the state after the transaction -/
def TxOutcome.state (s : State) : TxOutcome → State
  | .anteFailed _ => s
  | .msgsFailed s₁ _ => s₁
  | .done s₂ => s₂

/-- a transaction of the signer `p` whose fee is paid by `payer`: the ante handler deducts
`baseFee`; then the messages `body` run and the fee handler sweeps `rest` -/
def feeTx (s : State) (payer feeCollector : Addr) (baseFee rest : Coins) (body : List Op) : TxOutcome :=
  runTx s (deductFeeOps payer feeCollector baseFee) (body ++ deductFeeOps payer feeCollector rest)

end PvModel.Lock
