/-
C19 — fee arithmetic (executable model).

Mirrors, function for function:
* `FeeRatio.applyLooselyTo`            x/exchange/market.go:286
* `FeeRatio.ApplyTo`                   x/exchange/market.go:303
* `Keeper.CalculateExchangeSplit`      x/exchange/keeper/keeper.go:236 (per coin)
* `Keeper.CalculateCommitmentSettlementFee` x/exchange/keeper/commitments.go:280 (arithmetic part)
* `SplitCoinByBips`                    x/msgfees/types/fee.go:15
* `FeeGasMeter.ConsumeFee` / `FeeConsumedDistributions`  internal/antewrapper/fee_gas_meter.go:115,140
  (keyed maps `Tally`, `tallyAdd`), the router's consumption internal/handlers/msg_service_router.go:264-283,
  `DeductFeesDistributions` x/msgfees/keeper/keeper.go:140 (the sends)
-/
import PvModel.IntMath
import PvModel.Util
import PvModel.Coins

namespace PvModel.Fees
open PvModel

/-- `10^18`, `LegacyPrecision`. -/
def decOne : Int := 1000000000000000000

/-- A `LegacyDec` raw value is in range iff `|i| < 2^256 * 10^18` (`IsInValidRange`). -/
def fitsDec (x : Int) : Bool := x.natAbs < 2 ^ 256 * 1000000000000000000

/-- `applyLooselyTo` (after the repair of the 256-bit product, see known findings): price amount
`p`, ratio `rp : rf` (denoms already known equal). Returns the fee amount and whether it had to be
rounded up. The product is a `big.Int` (no overflow); only a RESULT that needs more than 256 bits
is refused ("result too large"). -/
def applyLooselyTo (p rp rf : Int) : Except AErr (Int × Bool) :=
  if rp = 0 then .error .divzero
  else
    let prod := p * rf
    let rv := if prod.tmod rp ≠ 0 then prod.tdiv rp + 1 else prod.tdiv rp
    if fits256 rv then .ok (rv, decide (prod.tmod rp ≠ 0)) else .error .invalid

/-- `applyLooselyTo` before the repair: the product was an `sdkmath.Int` (panic above 256 bits). -/
def applyLooselyToPreFix (p rp rf : Int) : Except AErr (Int × Bool) := do
  if rp = 0 then throw .divzero
  let prod ← mul256 p rf
  let rv := prod.tdiv rp
  let rem := prod.tmod rp
  if rem ≠ 0 then
    let rv' ← add256 rv 1
    pure (rv', true)
  else pure (rv, false)

/-- `ApplyTo`: like `applyLooselyTo` but an inexact application is an error. -/
def applyTo (p rp rf : Int) : Except AErr Int := do
  let (amt, rounded) ← applyLooselyTo p rp rf
  if rounded then throw .invalid
  pure amt

/-- One coin of `CalculateExchangeSplit` (after the repair 5d6beec44, see known findings): `amt`
of a denom whose split is `split` (bips). `none` = the coin is skipped (zero amount or zero split).
`⌈amt·split/10000⌉` is computed on the whole and remainder parts of `amt/10000`. -/
def exchangeSplitCoin (amt : Int) (split : Nat) : Except AErr (Option Int) := do
  if amt = 0 then return none
  if split = 0 then return none
  let whole := amt.tdiv 10000
  let rem := amt.tmod 10000
  let a ← mul256 whole (split : Int)
  let b ← mul256 rem (split : Int)
  let r ← add256 a (quoIntRoundUp b 10000)
  pure (some r)

/-- `CalculateExchangeSplit` before the repair: the whole amount was multiplied first. -/
def exchangeSplitCoinPreFix (amt : Int) (split : Nat) : Except AErr (Option Int) := do
  if amt = 0 then return none
  if split = 0 then return none
  let prod ← mul256 amt (split : Int)
  pure (some (quoIntRoundUp prod 10000))

/-- `SplitCoinByBips` (after the repair of the `Int64()` conversion, see known findings):
recipient gets `⌊amt·bips/10000⌋`, the module the rest. -/
def splitCoinByBips (amt : Int) (bips : Nat) : Except AErr (Int × Int) := do
  if bips > 10000 then throw .invalid
  if bips = 10000 then return (amt, 0)
  let whole := amt.tdiv 10000
  let rem := amt.tmod 10000
  let r := whole * (bips : Int) + (rem * (bips : Int)).tdiv 10000
  pure (r, amt - r)

/-- Inputs of the commitment settlement charge, already grouped the way the Go loop sees
them: the input total's amount in the fee denom, in the intermediary denom, and for every
other denom `(amount, nav price amount, nav assets amount)`. -/
structure CsfIn where
  feeAmt : Int
  convAmt : Int
  others : List (Int × Int × Int)
  navP : Int      -- ToFeeNav.Price.Amount
  navA : Int      -- ToFeeNav.Assets.Amount
  bips : Nat
  sameDenom : Bool  -- intermediary denom = fee denom (then `convAmt` is unused, nav is 1:1)

/-- step 2 of the fee: Σ ⌊c·p·10^18 / a⌋ over the "other" denoms, as a raw Dec.
(`coin.Amount.Mul(nav.Price.Amount)` panics above 256 bits; `LegacyDec.Add` asserts the Dec range.) -/
def csfOthers : List (Int × Int × Int) → Int → Except AErr Int
  | [], acc => .ok acc
  | (c, p, a) :: rest, acc =>
    if !fits256 (c * p) then .error .overflow
    else if a = 0 then .error .divzero
    else
      let acc' := acc + ((c * p) * decOne).tdiv a
      if !fitsDec acc' then .error .overflow else csfOthers rest acc'

/-- `convDecAmt.TruncateInt()`, plus one unless `IsInteger()`. -/
def convRoundUp (convDec : Int) : Except AErr Int :=
  let trunc := convDec.tdiv decOne
  if !fits256 trunc then .error .overflow
  else if convDec.tmod decOne ≠ 0 then add256 trunc 1 else .ok trunc

/-- second loop: the intermediary total converted to the fee denom with `QuoIntRoundUp`. -/
def toFeeDenom (convInt navP navA : Int) : Except AErr Int :=
  if convInt = 0 then .ok 0
  else if navA = 0 then .error .divzero
  else if !fits256 (convInt * navP) then .error .overflow
  else .ok (quoIntRoundUp (convInt * navP) navA)

/-- `QuoIntRoundUp(total.MulRaw(bips), 20000)`. -/
def applyBips (total : Int) (bips : Nat) : Except AErr Int :=
  if !fits256 (total * (bips : Int)) then .error .overflow
  else .ok (quoIntRoundUp (total * (bips : Int)) 20000)

/-- The arithmetic of `CalculateCommitmentSettlementFee` once navs are looked up.
Returns `(convertedIntermediaryAmount, feeDenomTotal, exchangeFee)`. -/
def commitmentFee (i : CsfIn) : Except AErr (Int × Int × Int) :=
  let base := if i.sameDenom then 0 else i.convAmt * decOne
  if !fitsDec base then .error .overflow else
  match csfOthers i.others base with
  | .error e => .error e
  | .ok convDec =>
    match convRoundUp convDec with
    | .error e => .error e
    | .ok convInt =>
      match toFeeDenom convInt i.navP i.navA with
      | .error e => .error e
      | .ok asFee =>
        if !fits256 (i.feeAmt + asFee) then .error .overflow else
        match applyBips (i.feeAmt + asFee) i.bips with
        | .error e => .error e
        | .ok fee => .ok (convInt, i.feeAmt + asFee, fee)

/-! ### `MsgFeesDistribution.Increase` (x/msgfees/types/fee.go:50)

The distribution a transaction's additional message fees are collected into: the total, the
module's (fee collector's) part and one `sdk.Coins` per recipient. Recipient credits are kept as
an append-only `Ledger` (entries `(recipient, denom, amount)`), so a recipient's coins are
`Ledger.bal` and the sum over all recipients is `Ledger.supply`. -/

structure FeeDist where
  total : Coins := []
  module : Coins := []
  recips : Ledger := []

/-- one `Increase(coin, bips, recipient)` call; `rcpt = ""` is "no recipient". -/
def distIncrease (s : FeeDist) (den : Denom) (amt : Int) (bips : Nat) (rcpt : String) : Except AErr FeeDist :=
  if amt ≤ 0 then .ok s        -- `!coin.IsPositive()`: nothing to distribute
  else
    let total := s.total.add [(den, amt)]
    if rcpt = "" then .ok { s with total := total, module := s.module.add [(den, amt)] }
    else match splitCoinByBips amt bips with
      | .error e => .error e
      | .ok (r, m) =>
        .ok { total := total
              module := if m = 0 then s.module else s.module.add [(den, m)]
              recips := s.recips.credit rcpt [(den, r)] }

/-- a call of the sequence: denom, amount, recipient basis points, recipient -/
abbrev FeeDistCall := Denom × Int × Nat × String

/-- the calls of one transaction, in order; stops at the first error like the msg-fee handler -/
def distIncreaseAll (s : FeeDist) : List FeeDistCall → Except AErr FeeDist
  | [] => .ok s
  | (den, amt, bips, rcpt) :: rest =>
    match distIncrease s den amt bips rcpt with
    | .error e => .error e
    | .ok s' => distIncreaseAll s' rest

/-! ### msg-fee configuration (`DetermineBips`) and the payout of one transaction

The route of a transaction's additional message fees: the governance endpoints store a fee per
msg type (`Keeper.AddMsgFee` / `UpdateMsgFee`, basis points through `DetermineBips`,
x/msgfees/keeper/keeper.go:306); for every message the msg service router computes that message's
distribution (`CalculateAdditionalFeesToBePaid(ctx, msg)`, keeper.go:197 — one `Increase` for the
stored fee of the type and one for an assessed custom fee) and tallies its parts in the fee gas
meter's map under (msg type, recipient) (internal/handlers/msg_service_router.go:259-283,
`FeeGasMeter.ConsumeFee`); after the messages `FeeConsumedDistributions` folds the tallies into a
map per recipient (fee_gas_meter.go:140, adding) and `DeductFeesDistributions` (keeper.go:140) pays every
recipient its coins and sweeps the rest of the fee to the fee collector. -/

/-- `DetermineBips(recipient, recipientBasisPoints)`; `bs = none` is the empty string. -/
def determineBips (rcpt : String) (bs : Option Nat) : Except AErr Nat :=
  if rcpt = "" then .ok 0
  else match bs with
    | none => .ok 5000                                    -- `DefaultMsgFeeBips`
    | some n => if n > 10000 then .error .invalid else .ok n

/-- `MsgAssessCustomMsgFeeRequest.GetBips` (x/msgfees/types/msgs.go:66). -/
def assessBips (bs : Option Nat) : Except AErr Nat :=
  match bs with
  | none => .ok 10000                                     -- `AssessCustomMsgFeeBips`
  | some n => if n > 10000 then .error .invalid else .ok n

/-- a msg-fee proposal: msg type, fee coin, basis-points string (`none` = empty), recipient -/
structure PayCfg where
  typ : String
  den : Denom
  amt : Int
  bips : Option Nat
  rcpt : String

/-- a stored `MsgFee` -/
structure StoredFee where
  typ : String
  den : Denom
  amt : Int
  bips : Nat
  rcpt : String

/-- the proposals, in order: `ValidateBasic` (positive fee, `ValidateBips`) then `AddMsgFee`
(one fee per msg type). -/
def payConfigure (acc : List StoredFee) : List PayCfg → Except AErr (List StoredFee)
  | [] => .ok acc
  | c :: rest =>
    if c.amt ≤ 0 then .error .invalid
    else if c.rcpt = "" ∧ c.bips.isSome then .error .invalid   -- "basis points provided without a recipient"
    else if acc.any (·.typ = c.typ) then .error .invalid       -- `ErrMsgFeeAlreadyExists`
    else match determineBips c.rcpt c.bips with
      | .error e => .error e
      | .ok b => payConfigure (acc ++ [{ typ := c.typ, den := c.den, amt := c.amt, bips := b, rcpt := c.rcpt }]) rest

/-- a message of the transaction: its type and, for `MsgAssessCustomMsgFeeRequest`, the custom
fee `(denom, amount, basis-points string, recipient)` -/
structure PayMsg where
  typ : String
  assess : Option (Denom × Int × Option Nat × String) := none

/-- `ValidateBasic` of a message (only the assess message has conditions on the fee fields). -/
def PayMsg.valid (m : PayMsg) : Bool :=
  match m.assess with
  | none => true
  | some (_, amt, bs, _) => decide (0 < amt) && (match assessBips bs with | .ok _ => true | .error _ => false)

/-- `ConvertDenomToHash`: usd at `rate` nhash per usd mil, the fee denom as is. -/
def convertToHash (rate : Nat) (den : Denom) (amt : Int) : Except AErr Int :=
  if den = "usd" then mul256 amt (rate : Int)
  else if den = "nhash" then .ok amt
  else .error .invalid

/-- the `Increase` call for the stored fee of the message's type, if there is one -/
def feeCall : Option StoredFee → List FeeDistCall
  | some f => [(f.den, f.amt, f.bips, f.rcpt)]
  | none => []

/-- the `Increase` calls `CalculateAdditionalFeesToBePaid` makes for ONE message -/
def msgCalls (rate : Nat) (stored : List StoredFee) (m : PayMsg) : Except AErr (List FeeDistCall) :=
  let fromCfg : List FeeDistCall := feeCall (stored.find? (·.typ = m.typ))
  match m.assess with
  | none => .ok fromCfg
  | some (den, amt, bs, rcpt) =>
    match convertToHash rate den amt, assessBips bs with
    | .ok a, .ok b => .ok (fromCfg ++ [("nhash", a, b, rcpt)])
    | .error e, _ => .error e
    | _, .error e => .error e

/-! ### the fee gas meter's keyed tallies

`FeeGasMeter.usedFees` (internal/antewrapper/fee_gas_meter.go:30) and the map
`FeeConsumedDistributions` returns (fee_gas_meter.go:140) are Go maps with `sdk.Coins` values that
are ADDED to (`m[k] = m[k].Add(c...)`; a missing key reads as the empty coins). They are modelled
as association lists with at most one entry per key; the order of the entries carries no meaning
(Go iterates `usedFees` in map order, the payout sorts the keys) and is never observed: every
statement about a tally is about `tallyGet`. -/

/-- a Go `map[κ]sdk.Coins` -/
abbrev Tally (κ : Type) := List (κ × Coins)

/-- `m[k]` (the empty coins when `k` is not a key) -/
def tallyGet {κ : Type} [DecidableEq κ] : Tally κ → κ → Coins
  | [], _ => []
  | (k', c) :: rest, k => if k' = k then c else tallyGet rest k

/-- `m[k] = m[k].Add(c...)`: add to the entry of `k` when there is one, insert otherwise -/
def tallyAdd {κ : Type} [DecidableEq κ] : Tally κ → κ → Coins → Tally κ
  | [], k, c => [(k, c)]
  | (k', c') :: rest, k, c =>
    if k' = k then (k', c'.add c) :: rest else (k', c') :: tallyAdd rest k c

/-- a sequence of `m[k] = m[k].Add(c...)` statements on a map -/
def tallyAddAll {κ : Type} [DecidableEq κ] (t : Tally κ) (calls : List (κ × Coins)) : Tally κ :=
  calls.foldl (fun t kc => tallyAdd t kc.1 kc.2) t

/-- `FeeGasMeter.usedFees`: keyed by `GetCompositeKey(msgType, recipient)`
(x/msgfees/types/keys.go:39, `msgType` alone when there is no recipient, else
`msgType "\n" recipient`); the model keeps the pair (type URLs contain no line feed, so the
composite string determines the pair). -/
abbrev FeeMeter := Tally (String × String)

/-- `FeeGasMeter.ConsumeFee(amount, msgType, recipient)` (fee_gas_meter.go:115). -/
def consumeFee (g : FeeMeter) (amount : Coins) (msgType recipient : String) : FeeMeter :=
  tallyAdd g (msgType, recipient) amount

/-- the keys of `MsgFeesDistribution.RecipientDistributions`: every recipient once (the router
takes them sorted; the order is not observable in the tallies' sums). -/
def recipKeys : Ledger → List Addr
  | [] => []
  | e :: rest => e.addr :: (recipKeys rest).filter (· ≠ e.addr)

/-- `RecipientDistributions[recipient]` -/
def recipCoins (l : Ledger) (r : Addr) : Coins :=
  (l.filter (·.addr = r)).map fun e => (e.denom, e.amt)

/-- what the msg service router does with ONE message's distribution
(internal/handlers/msg_service_router.go:264-283): nothing when there are no additional fees;
otherwise the module's part is consumed under the empty recipient (when there is one) and every
recipient's coins under (msg type, recipient). -/
def routeConsume (g : FeeMeter) (typ : String) (d : FeeDist) : FeeMeter :=
  if d.total.isZero then g
  else
    let g1 := if d.module.isEmpty then g else consumeFee g d.module typ ""
    (recipKeys d.recips).foldl (fun g r => consumeFee g (recipCoins d.recips r) typ r) g1

/-- the router over the messages of the transaction, in order: every message's own distribution
is computed from an empty one (`CalculateAdditionalFeesToBePaid(ctx, msg)`) and consumed into the
meter. -/
def payMeter (rate : Nat) (stored : List StoredFee) (g : FeeMeter) : List PayMsg → Except AErr FeeMeter
  | [] => .ok g
  | m :: rest =>
    match msgCalls rate stored m with
    | .error e => .error e
    | .ok cs =>
      match distIncreaseAll {} cs with
      | .error e => .error e
      | .ok d => payMeter rate stored (routeConsume g m.typ d) rest

/-- `FeeGasMeter.FeeConsumedDistributions` (fee_gas_meter.go:140): the tallies folded per
address key (`SplitCompositeKey`), ADDING to what the key already has; the empty key is the fee
module's. -/
def feeConsumedDistributions (g : FeeMeter) : Tally String :=
  tallyAddAll [] (g.map fun e => (e.1.2, e.2))

/-- the sends of `DeductFeesDistributions` (x/msgfees/keeper/keeper.go:140): every key of the map
is sent its coins once (sorted key order there; the order does not matter for balances). The empty
key is the fee collector, which appears in the ledger under the address `""`; the final sweep of
the unsent fee to the fee collector is not part of this ledger (the driver derives it from the
fee). -/
def deductDistributions (fees : Tally String) : Ledger :=
  fees.flatMap fun kc => Ledger.entries kc.1 kc.2

/-- the route of one transaction's additional fees: router -> fee gas meter ->
`FeeConsumedDistributions` -> `DeductFeesDistributions`. `.ok` carries the sends. -/
def payRoute (rate : Nat) (stored : List StoredFee) (msgs : List PayMsg) : Except AErr Ledger :=
  match payMeter rate stored [] msgs with
  | .error e => .error e
  | .ok g => .ok (deductDistributions (feeConsumedDistributions g))

/-- one transaction: configuration, `ValidateBasic` of the messages, the route. `.ok` carries the
recipients' payouts. -/
def payTx (rate : Nat) (cfg : List PayCfg) (msgs : List PayMsg) : Except String Ledger :=
  match payConfigure [] cfg with
  | .error _ => .error "err:cfg"
  | .ok stored =>
    if !msgs.all PayMsg.valid then .error "err:msg"
    else match payRoute rate stored msgs with
      | .error e => .error e.toString
      | .ok l => .ok l

end PvModel.Fees
