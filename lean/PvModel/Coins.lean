/-
Shared coin / balance model (DESIGN §3), built for proofs first:

* `Coins` is an *unnormalised* list of `(denom, amount)`; its meaning is `amountOf`.
  `add` is append, `neg` negates, `sub a b = add a (neg b)`, so every per-denom law is
  linear arithmetic on `amountOf`.  `canon` (sort by denom, merge, drop zeros) is used only
  for printing and comparing with `sdk.Coins`.
* `Ledger` is an append-only list of balance deltas `(addr, denom, amount)`; an account's
  balance is the sum of its deltas (`bal`), total supply is the sum over all accounts
  (`supply`).  Sends append a debit and a credit, so conservation is a one-line sum.
Core-only (no Mathlib), executable.
-/
namespace PvModel

abbrev Denom := String
abbrev Addr := String
abbrev Coins := List (Denom × Int)

namespace Coins

def amountOf (cs : Coins) (d : Denom) : Int :=
  match cs with
  | [] => 0
  | (d', a) :: rest => (if d' = d then a else 0) + amountOf rest d

def add (a b : Coins) : Coins := a ++ b
def neg (a : Coins) : Coins := a.map fun (d, x) => (d, -x)
def sub (a b : Coins) : Coins := add a (neg b)
def scale (k : Int) (a : Coins) : Coins := a.map fun (d, x) => (d, k * x)

def denoms (a : Coins) : List Denom := a.map (·.1)

/-- `sdk.Coins.IsAllGTE`-like: every denom of `b` is covered by `a` (per-denom ≥). -/
def covers (a b : Coins) : Bool := (denoms b).all fun d => decide (amountOf b d ≤ amountOf a d)
/-- every denom mentioned has a non-negative total. -/
def nonneg (a : Coins) : Bool := (denoms a).all fun d => decide (0 ≤ amountOf a d)
def isZero (a : Coins) : Bool := (denoms a).all fun d => decide (amountOf a d = 0)

@[simp] theorem amountOf_nil (d : Denom) : amountOf [] d = 0 := rfl
@[simp] theorem amountOf_cons (d' : Denom) (a : Int) (rest : Coins) (d : Denom) :
    amountOf ((d', a) :: rest) d = (if d' = d then a else 0) + amountOf rest d := rfl

@[simp] theorem amountOf_append (a b : Coins) (d : Denom) :
    amountOf (a ++ b) d = amountOf a d + amountOf b d := by
  induction a with
  | nil => simp
  | cons h t ih => obtain ⟨d', x⟩ := h; simp [ih]; omega

@[simp] theorem amountOf_add (a b : Coins) (d : Denom) :
    amountOf (add a b) d = amountOf a d + amountOf b d := amountOf_append a b d

@[simp] theorem amountOf_neg (a : Coins) (d : Denom) : amountOf (neg a) d = - amountOf a d := by
  induction a with
  | nil => simp [neg]
  | cons h t ih =>
    obtain ⟨d', x⟩ := h
    simp only [neg, List.map_cons, amountOf_cons] at *
    rw [ih]; split <;> omega

@[simp] theorem amountOf_sub (a b : Coins) (d : Denom) :
    amountOf (sub a b) d = amountOf a d - amountOf b d := by
  simp [sub]; omega

/-- insertion into a denom-sorted, merged association list -/
def insertCanon (d : Denom) (x : Int) : Coins → Coins
  | [] => [(d, x)]
  | (d', y) :: rest =>
    if d = d' then (d', x + y) :: rest
    else if d < d' then (d, x) :: (d', y) :: rest
    else (d', y) :: insertCanon d x rest

/-- canonical form for printing: sorted by denom, merged, zeros dropped -/
def canon (a : Coins) : Coins :=
  (a.foldl (fun acc (d, x) => insertCanon d x acc) []).filter fun (_, x) => x ≠ 0

end Coins

structure Entry where
  addr : Addr
  denom : Denom
  amt : Int
  deriving Repr, DecidableEq

abbrev Ledger := List Entry

namespace Ledger

def bal (l : Ledger) (a : Addr) (d : Denom) : Int :=
  match l with
  | [] => 0
  | e :: rest => (if e.addr = a ∧ e.denom = d then e.amt else 0) + bal rest a d

def supply (l : Ledger) (d : Denom) : Int :=
  match l with
  | [] => 0
  | e :: rest => (if e.denom = d then e.amt else 0) + supply rest d

def entries (a : Addr) (cs : Coins) : Ledger := cs.map fun (d, x) => ⟨a, d, x⟩

/-- credit `cs` to `a` -/
def credit (l : Ledger) (a : Addr) (cs : Coins) : Ledger := l ++ entries a cs
/-- debit `cs` from `a` (no check; callers check spendable first) -/
def debit (l : Ledger) (a : Addr) (cs : Coins) : Ledger := l ++ entries a (Coins.neg cs)
/-- move `cs` from `a` to `b` -/
def move (l : Ledger) (a b : Addr) (cs : Coins) : Ledger := credit (debit l a cs) b cs

/-- all balances of `a` for the denoms in `ds`, as canonical coins -/
def balances (l : Ledger) (a : Addr) : Coins :=
  Coins.canon ((l.filter (·.addr = a)).map fun e => (e.denom, e.amt))

@[simp] theorem bal_nil (a : Addr) (d : Denom) : bal [] a d = 0 := rfl
@[simp] theorem supply_nil (d : Denom) : supply [] d = 0 := rfl

@[simp] theorem bal_append (l₁ l₂ : Ledger) (a : Addr) (d : Denom) :
    bal (l₁ ++ l₂) a d = bal l₁ a d + bal l₂ a d := by
  induction l₁ with
  | nil => simp
  | cons e t ih => simp [bal, ih]; omega

@[simp] theorem supply_append (l₁ l₂ : Ledger) (d : Denom) :
    supply (l₁ ++ l₂) d = supply l₁ d + supply l₂ d := by
  induction l₁ with
  | nil => simp
  | cons e t ih => simp [supply, ih]; omega

@[simp] theorem bal_entries (a b : Addr) (cs : Coins) (d : Denom) :
    bal (entries a cs) b d = if a = b then Coins.amountOf cs d else 0 := by
  induction cs with
  | nil => simp [entries]
  | cons h t ih =>
    obtain ⟨d', x⟩ := h
    simp only [entries, List.map_cons, bal, Coins.amountOf_cons] at *
    rw [ih]
    by_cases hab : a = b <;> by_cases hd : d' = d <;> simp [hab, hd]

@[simp] theorem supply_entries (a : Addr) (cs : Coins) (d : Denom) :
    supply (entries a cs) d = Coins.amountOf cs d := by
  induction cs with
  | nil => simp [entries]
  | cons h t ih =>
    obtain ⟨d', x⟩ := h
    simp only [entries, List.map_cons, supply, Coins.amountOf_cons] at *
    rw [ih]

@[simp] theorem bal_credit (l : Ledger) (a b : Addr) (cs : Coins) (d : Denom) :
    bal (credit l a cs) b d = bal l b d + (if a = b then Coins.amountOf cs d else 0) := by
  simp [credit]

@[simp] theorem bal_debit (l : Ledger) (a b : Addr) (cs : Coins) (d : Denom) :
    bal (debit l a cs) b d = bal l b d - (if a = b then Coins.amountOf cs d else 0) := by
  simp [debit]; split <;> omega

@[simp] theorem supply_credit (l : Ledger) (a : Addr) (cs : Coins) (d : Denom) :
    supply (credit l a cs) d = supply l d + Coins.amountOf cs d := by
  simp [credit]

@[simp] theorem supply_debit (l : Ledger) (a : Addr) (cs : Coins) (d : Denom) :
    supply (debit l a cs) d = supply l d - Coins.amountOf cs d := by
  simp [debit]; omega

/-- A move never changes total supply. -/
theorem supply_move (l : Ledger) (a b : Addr) (cs : Coins) (d : Denom) :
    supply (move l a b cs) d = supply l d := by
  simp [move]

theorem bal_move (l : Ledger) (a b c : Addr) (cs : Coins) (d : Denom) :
    bal (move l a b cs) c d =
      bal l c d - (if a = c then Coins.amountOf cs d else 0) + (if b = c then Coins.amountOf cs d else 0) := by
  simp [move]

end Ledger
end PvModel
