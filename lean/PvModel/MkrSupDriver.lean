/-
Line-protocol driver + implementation-output checker for the C05 model (`mkrsup`).

Op lines (addresses `A`…`E`, `GOV`, `@<denom>`; coins `12mka`; lists `a|b`, `-` = empty):
  add from=A d=mka amt=100 st=proposed typ=c|r fix=0|1 gov=0|1 ft=0|1 mgr=-|B acc=A:mint+burn|B:admin
  addfa from=A d=mka amt=100 typ=c fix=1 gov=1 ft=0 mgr=A acc=A:mint
  finalize A mka | activate A mka | cancel A mka | delete A mka
  mint A 10mka | burn A 10mka
  withdraw A B mka 10mka,3oth        (caller, recipient, marker denom, coins)
  transfer A B C 10mka               (admin, from, to, coin)
  addaccess A mka B:mint+burn | delaccess A mka B
  govinc GOV 10mka -|B | govdec GOV 10mka | govstatus GOV mka active
  govwithdraw GOV mka B 10mka | govsetadmin GOV mka B:mint | govrmadmin GOV mka B
  params GOV max=1000 mts=0 eg=1     (max=nil: the message leaves `max_supply` out — a nil Int, stored
                                       as 0; mts = the deprecated `max_total_supply`, 0 when absent)
  send A B 10mka | beginblock | fmint A 10mka | govburn A 10mka
Output of every op: `<result> ; P max=.. mts=.. eg=.. ; M <denom> st=.. sup=.. fix=.. typ=.. gov=.. ft=..
mgr=.. acc=.. ; … ; S mka=.. mkb=.. oth=.. ; A <marker denoms whose address holds a plain account|-> ;
B A=.. … @mkb=.. %=..` (the whole observable state).
-/
import PvModel.MkrSupSpec
-- registry: mkrsup PvModel.MkrSup.driver

namespace PvModel.MkrSup
open PvModel

def denomUniverse : List Denom := ["mka", "mkb", "oth"]
def acctUniverse : List Addr := ["A", "B", "C", "D", "E", "GOV", "@mka", "@mkb"]

private def insertSorted {α} (lt : α → α → Bool) (x : α) : List α → List α
  | [] => [x]
  | y :: ys => if lt x y then x :: y :: ys else y :: insertSorted lt x ys

private def sortBy {α} (lt : α → α → Bool) (xs : List α) : List α :=
  xs.foldl (fun acc x => insertSorted lt x acc) []

def showGrant (g : Grant) : String :=
  let ps := sortBy (fun (a b : Access) => a.toNat < b.toNat) g.2
  s!"{g.1}:{"+".intercalate (ps.map Access.name)}"

def showMarker (m : Marker) : String :=
  let gs := sortBy (fun a b => a < b) (m.access.map showGrant)
  let acc := if gs.isEmpty then "-" else "|".intercalate gs
  let mgr := if m.manager = "" then "-" else m.manager
  s!"M {m.denom} st={m.status.name} sup={m.supply} fix={boolStr m.fixed} typ={if m.restricted then "r" else "c"} gov={boolStr m.gov} ft={boolStr m.forced} mgr={mgr} acc={acc}"

def dump (s : State) : String :=
  let ms := (sortBy (fun (a b : Marker) => a.denom < b.denom) s.markers).map showMarker
  let sup := " ".intercalate (denomUniverse.map fun d => s!"{d}={s.bank.supply d}")
  let bals := " ".intercalate (acctUniverse.map fun a => s!"{a}={showCoins (s.bank.balances a)}")
  let plain := ["mka", "mkb"].filter fun d => s.plain.contains d
  let pl := if plain.isEmpty then "-" else ",".intercalate plain
  let secs := [s!"P max={s.maxSupply} mts={s.maxTotalSupply} eg={boolStr s.enableGov}"] ++ ms ++ [s!"S {sup}", s!"A {pl}", s!"B {bals} %=-"]
  " ; ".intercalate secs

/-! ### parsing op lines -/

def parseBool? (s : String) : Option Bool := if s = "1" then some true else if s = "0" then some false else none
def parseAddr (s : String) : Addr := if s = "-" then "" else s

def parseGrant? (s : String) : Option Grant :=
  match s.splitOn ":" with
  | [a, ps] => ((if ps = "" then [] else ps.splitOn "+").mapM Access.ofString?).map fun ps => (a, ps.eraseDups)
  | _ => none

def parseGrants? (s : String) : Option (List Grant) := (splitList s).mapM parseGrant?

def parseAddReq? (ws : List String) : Option AddReq := do
  let sender ← kv ws "from"
  let d ← kv ws "d"
  let amt ← (kv ws "amt") >>= parseInt?
  let st ← match kv ws "st" with
    | some x => Status.ofString? x
    | none => some Status.proposed
  let typ ← kv ws "typ"
  let fix ← (kv ws "fix") >>= parseBool?
  let gov ← (kv ws "gov") >>= parseBool?
  let ft ← (kv ws "ft") >>= parseBool?
  let mgr := parseAddr ((kv ws "mgr").getD "-")
  let acc ← parseGrants? ((kv ws "acc").getD "-")
  pure { sender := sender, denom := d, amt := amt, status := st, restricted := typ = "r", fixed := fix,
         gov := gov, forced := ft, manager := mgr, access := acc }

def parseOp? (ws : List String) : Option Op :=
  match ws with
  | "add" :: rest => (parseAddReq? rest).map .add
  | "addfa" :: rest => (parseAddReq? rest).map .addfa
  | ["finalize", c, d] => some (.finalize c d)
  | ["activate", c, d] => some (.activate c d)
  | ["cancel", c, d] => some (.cancel c d)
  | ["delete", c, d] => some (.delete c d)
  | ["mint", c, coin] => (parseCoin? coin).map fun (d, n) => .mint c d n
  | ["burn", c, coin] => (parseCoin? coin).map fun (d, n) => .burn c d n
  | ["withdraw", c, t, d, cs] => (parseCoins? cs).map fun cs => .withdraw c t d cs
  | ["transfer", a, f, t, coin] => (parseCoin? coin).map fun (d, n) => .transfer a f t d n
  | ["addaccess", c, d, g] => (parseGrant? g).map fun (a, ps) => .addaccess c d a ps
  | ["delaccess", c, d, a] => some (.delaccess c d a)
  | ["govinc", au, coin, t] => (parseCoin? coin).map fun (d, n) => .govinc au d n (parseAddr t)
  | ["govdec", au, coin] => (parseCoin? coin).map fun (d, n) => .govdec au d n
  | ["govstatus", au, d, st] => (Status.ofString? st).map fun st => .govstatus au d st
  | ["govwithdraw", au, d, t, cs] => (parseCoins? cs).map fun cs => .govwithdraw au d t cs
  | ["govsetadmin", au, d, g] => (parseGrant? g).map fun (a, ps) => .govsetadmin au d a ps
  | ["govrmadmin", au, d, a] => some (.govrmadmin au d a)
  | "params" :: au :: rest => do
    let mx ← (kv rest "max") >>= fun v => if v = "nil" then some 0 else parseInt? v
    let mts ← match kv rest "mts" with
      | some v => (parseInt? v).filter fun n => decide (0 ≤ n ∧ n < 18446744073709551616)
      | none => some 0
    let eg ← (kv rest "eg") >>= parseBool?
    pure (.params au mx mts eg)
  | ["send", f, t, coin] => (parseCoin? coin).map fun (d, n) => .send f t d n
  | ["beginblock"] => some .beginblock
  | ["fmint", t, coin] => (parseCoin? coin).map fun (d, n) => .fmint t d n
  | ["govburn", f, coin] => (parseCoin? coin).map fun (d, n) => .govburn f d n
  | _ => none

def opInfo (ws : List String) (op : Op) : OpInfo :=
  let kind := ws.headD ""
  match op with
  | .add r => { kind, denom := r.denom }
  | .addfa r => { kind, denom := r.denom }
  | .finalize _ d | .activate _ d | .cancel _ d | .delete _ d => { kind, denom := d }
  | .mint _ d _ | .burn _ d _ => { kind, denom := d }
  | .withdraw _ _ d _ => { kind, denom := d }
  | .transfer _ _ _ d _ => { kind, denom := d }
  | .addaccess _ d _ _ | .delaccess _ d _ => { kind, denom := d }
  | .govinc _ d _ _ | .govdec _ d _ => { kind, denom := d }
  | .govstatus _ d st => { kind, denom := d, newStatus := some st }
  | .govwithdraw _ d _ _ | .govsetadmin _ d _ _ | .govrmadmin _ d _ => { kind, denom := d }
  | .send _ _ d _ | .fmint _ d _ | .govburn _ d _ => { kind, denom := d }
  | .params .. | .beginblock => { kind }

/-! ### parsing the implementation's output -/

def parseObsMarker? (ws : List String) : Option ObsMarker :=
  match ws with
  | "M" :: d :: rest => do
    let st ← (kv rest "st") >>= Status.ofString?
    let sup ← (kv rest "sup") >>= parseInt?
    let fix ← (kv rest "fix") >>= parseBool?
    pure { denom := d, status := st, supply := sup, fixed := fix }
  | _ => none

def parseKVInts (ws : List String) : List (String × Int) :=
  ws.filterMap fun w =>
    match w.splitOn "=" with
    | [k, v] => (parseInt? v).map fun n => (k, n)
    | _ => none

def parseKVCoins (ws : List String) : List (String × Coins) :=
  ws.filterMap fun w =>
    match w.splitOn "=" with
    | [k, v] => (parseCoins? v).map fun cs => (k, cs)
    | _ => none

def parseObs (impl : String) : Obs := Id.run do
  let secs := (impl.splitOn " ; ").map words
  let mut o : Obs := { result := ((secs.headD []).headD "") }
  for ws in secs.drop 1 do
    match ws with
    | "P" :: rest => o := { o with maxSupply := ((kv rest "max") >>= parseInt?).getD 0 }
    | "M" :: _ => match parseObsMarker? ws with
      | some m => o := { o with markers := o.markers ++ [m] }
      | none => pure ()
    | "S" :: rest => o := { o with supply := parseKVInts rest }
    | "B" :: rest => o := { o with bals := parseKVCoins rest }
    | _ => pure ()
  return o

/-- the chain before the first op of a history: no markers, none of the test denoms exist -/
def emptyObs : Obs :=
  { result := "ok", maxSupply := ({} : State).maxSupply, supply := denomUniverse.map fun d => (d, 0),
    bals := acctUniverse.map fun a => (a, []) }

structure DState where
  model : State := {}
  prev : Obs := emptyObs

def resultStr : Except Err State → String
  | .ok _ => "ok"
  | .error e => e.toString

def stepLine (ds : DState) (ws : List String) (impl : Option String) : DState × String × String :=
  match parseOp? ws with
  | none => (ds, "bad-op", "-")
  | some op =>
    let r := exec ds.model op
    let s' := match r with
      | .ok s1 => refreshPlain op ds.model s1
      | .error _ => ds.model
    let out := s!"{resultStr r} ; {dump s'}"
    match impl with
    | none => ({ ds with model := s' }, out, "-")
    | some i =>
      let cur := parseObs i
      let v := match violations (opInfo ws op) ds.prev cur with
        | [] => "ok"
        | c :: _ => s!"fail:{c}"
      ({ model := s', prev := cur }, out, v)

def driver : Driver where
  σ := DState
  init := {}
  step := fun s op impl => stepLine s (words op) impl

end PvModel.MkrSup
